(* AuthnWire.v — WHERE in the HTTP request each member of a client credential travels, and what the
   nine entry points make of clientutil.Authenticated's answer.  Definitions only.

   Authn.v computes on `request`, the record of what the code has READ.  Here is the request as it
   is on the wire: every form-carried member (client_id, client_secret, client_assertion,
   client_assertion_type) may sit in the x-www-form-urlencoded BODY, in the QUERY STRING of the
   request URI, or in both (with equal or different values); the Basic pair travels in the
   Authorization header, the certificate in the TLS layer.

   internal/clientutil/authn.go reads every form-carried member with http.Request.PostFormValue:
   on a POST that is the body and only the body (net/http: "PostFormValue returns the first value
   for the named component of the POST, PUT, or PATCH request body.  URL query parameters are
   ignored").  http.Request.FormValue - body first, THEN the query string - is what the code must
   not use: RFC 6749 2.3.1, "the parameters ... MUST NOT be included in the request URI". *)
From Verif Require Import Base Types Authn AuthnSpec.
Local Open Scope N_scope.

(* one form-carried member: its value in the body and its value in the query string *)
Record placed (A : Type) := mkPlaced { in_body : option A; in_query : option A }.
Arguments mkPlaced {A}. Arguments in_body {A}. Arguments in_query {A}.

Record wreq := mkWreq {
  wq_id : placed id;                       (* client_id; Some 0 = present and empty *)
  wq_secret : placed secret;               (* client_secret *)
  wq_assertion : placed assertion_field;   (* client_assertion *)
  wq_type : placed bool;                   (* client_assertion_type: true = urn:...:jwt-bearer, false = another string *)
  wq_basic : option (id * secret);         (* Authorization: Basic *)
  wq_cert : option cert;
  wq_jti_ok : bool;
  wq_fetch : option (list jwk)
}.

(* ---- the two readers of net/http ---- *)
Inductive source := SrcPostForm | SrcForm.
(* Request.PostFormValue on a POST *)
Definition post_form_value {A} (p : placed A) : option A := in_body p.
(* Request.FormValue: r.Form lists the body values before the query values; the first one is returned *)
Definition form_value {A} (p : placed A) : option A :=
  match in_body p with Some v => Some v | None => in_query p end.
Definition read {A} (s : source) (p : placed A) : option A :=
  match s with SrcPostForm => post_form_value p | SrcForm => form_value p end.

(* which reader the code applies to each member *)
Record readers := mkReaders { rd_id : source; rd_secret : source; rd_assertion : source; rd_type : source }.
(* authn.go: extractID, authenticateSecretPost, assertion(), authenticate(SelfSigned)TLSCert *)
Definition code_readers : readers := mkReaders SrcPostForm SrcPostForm SrcPostForm SrcPostForm.

Definition request_with (rd : readers) (w : wreq) : request :=
  mkRequest
    (match read (rd_id rd) (wq_id w) with Some i => i | None => 0 end)
    (match read (rd_secret rd) (wq_secret w) with Some s => s | None => 0 end)
    (wq_basic w)
    (match read (rd_assertion rd) (wq_assertion w) with Some f => f | None => ANone end)
    (match read (rd_type rd) (wq_type w) with Some b => b | None => false end)
    (wq_cert w) (wq_jti_ok w) (wq_fetch w).

(* what internal/clientutil reads off a wire request *)
Definition request_of (w : wreq) : request := request_with code_readers w.

(* ---- the same, declaratively (specification side; no reader table): the credential members
        a request carries IN THE PLACE they must be in ---- *)
Definition body_view (w : wreq) : request :=
  mkRequest
    (match in_body (wq_id w) with Some i => i | None => 0 end)
    (match in_body (wq_secret w) with Some s => s | None => 0 end)
    (wq_basic w)
    (match in_body (wq_assertion w) with Some f => f | None => ANone end)
    (match in_body (wq_type w) with Some b => b | None => false end)
    (wq_cert w) (wq_jti_ok w) (wq_fetch w).

(* two wire requests that differ in their query strings only *)
Definition same_but_query (w w' : wreq) : Prop :=
  in_body (wq_id w) = in_body (wq_id w') /\ in_body (wq_secret w) = in_body (wq_secret w') /\
  in_body (wq_assertion w) = in_body (wq_assertion w') /\ in_body (wq_type w) = in_body (wq_type w') /\
  wq_basic w = wq_basic w' /\ wq_cert w = wq_cert w' /\ wq_jti_ok w = wq_jti_ok w' /\ wq_fetch w = wq_fetch w'.

(* where the credential of the method registered for (c, x) sits when c is authenticated *)
Definition placement (x : actx) (c : aclient) (w : wreq) : Prop :=
  match registered_method c x with
  | MNone => True
  | MSecretPost =>
      in_body (wq_id w) = Some (ca_id c) /\ exists s, in_body (wq_secret w) = Some s /\ s <> 0
  | MSecretBasic => exists s, wq_basic w = Some (ca_id c, s)
  | MSecretJWT | MPrivateKeyJWT =>
      in_body (wq_type w) = Some true /\ exists a, in_body (wq_assertion w) = Some (AJws a)
  | MTLS | MSelfSignedTLS => in_body (wq_id w) = Some (ca_id c) /\ wq_cert w <> None
  | MUnset | MUnknown => False
  end.

(* ---- client identification, as the property words it ---- *)
(* place p of the request names client i *)
Inductive idplace := PlHeader | PlBody | PlAssertion.
Definition names (g : acfg) (w : wreq) (p : idplace) (i : id) : Prop :=
  match p with
  | PlBody => in_body (wq_id w) = Some i /\ i <> 0
  | PlHeader => exists s, wq_basic w = Some (i, s) /\ i <> 0
  | PlAssertion => exists a, in_body (wq_assertion w) = Some (AJws a) /\ assertion_client_id g a = Some i
  end.

(* the request carries no client identification AT ALL: no client_id, no Basic user, no client_assertion *)
Definition names_nobody (w : wreq) : Prop :=
  (in_body (wq_id w) = None \/ in_body (wq_id w) = Some 0) /\
  (wq_basic w = None \/ exists s, wq_basic w = Some (0, s)) /\
  (in_body (wq_assertion w) = None \/ in_body (wq_assertion w) = Some ANone).

Definition names_nobody_b (w : wreq) : bool :=
  andb (match in_body (wq_id w) with None => true | Some i => N.eqb i 0 end)
 (andb (match wq_basic w with None => true | Some (b, _) => N.eqb b 0 end)
       (match in_body (wq_assertion w) with None | Some ANone => true | _ => false end)).

(* ---- the nine entry points ---- *)
(* what an entry point does with the request: act for a client, act for the anonymous client
   (jwt-bearer only), or refuse with invalid_client *)
Inductive outcome := OutClient (c : aclient) | OutAnonymous | OutRefused.

Definition is_jwt_bearer (e : entry) : bool := match e with EpJwtBearer => true | _ => false end.

(* every handler starts with clientutil.Authenticated(ctx, <its context>) and returns its error;
   internal/token/jwt_bearer.go alone goes on when
     !ctx.JWTBearerGrantClientAuthnIsRequired && errors.Is(err, clientutil.ErrClientNotIdentified),
   with makeAnonymousClient(ctx).  ErrClientNotIdentified is extractID's answer when it found NO id
   (ar_identified = false); disagreeing ids, a malformed assertion, an unknown client and a failed
   credential check are other errors. *)
Definition entry_outcome (g : acfg) (e : entry) (authn_required : bool) (cls : list aclient) (w : wreq)
  : outcome * bool :=
  let r := authenticated_full g (entry_ctx e) cls (request_of w) in
  (match ar_client r with
   | Some c => OutClient c
   | None => if andb (is_jwt_bearer e) (andb (negb authn_required) (negb (ar_identified r)))
             then OutAnonymous else OutRefused
   end, ar_fetched r).

Definition served (o : outcome) : bool := match o with OutRefused => false | _ => true end.
