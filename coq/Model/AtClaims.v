(* C05 - an executable model of internal/token/token.go validClaims for JWT access tokens, guard by
   guard in the Go order, together with the jti extraction that ExtractID (/userinfo) and jwtTokenInfo
   (/introspect, Provider.TokenInfo, Provider.TokenInfoFromRequest) perform on its result.

   The JWT is the record of the facts the code inspects.  Strings are abstracted by numbers that are
   equal iff the strings are (the harness interns them): issuer values (0 = the empty string), kid
   values, jti values, algorithm names (0 = "none" / not a signature algorithm).  A key has a kid (its
   name in the JWKS) and an identity (the key material): a foreign key published under the server's kid
   has the same kid and another identity.  Time claims are offsets from the moment of validation, in
   seconds. *)
From Coq Require Import NArith ZArith List Bool.
Import ListNotations.
Local Open Scope N_scope.

Inductive key_use := UseSig | UseEnc.

Record skey := mkSKey {
  k_kid : N;          (* "kid" member *)
  k_ident : N;        (* identity of the key material *)
  k_alg : N;          (* "alg" member *)
  k_use : key_use }.  (* "use" member *)

(* what validClaims reads of the provider: ctx.Host, ctx.JWKS(), ctx.JWTLeewayTimeSecs *)
Record at_cfg := mkAtCfg {
  ac_host : N;
  ac_keys : list skey;
  ac_leeway : Z }.

(* the "iss" member of the payload *)
Inductive iss_claim :=
| IssAbsent                 (* no member: jwt.Claims.Issuer stays "" *)
| IssOne (v : N)            (* a JSON string *)
| IssArray (vs : list N)    (* a JSON array of strings *)
| IssOther.                 (* any other JSON value *)

Record jwt := mkJwt {
  j_wf : bool;              (* three base64url segments, the first two JSON objects: jwt.ParseSigned can read it *)
  j_alg : N;                (* header "alg" *)
  j_kid : option N;         (* header "kid"; None = absent or empty *)
  j_signer : option N;      (* identity of the key under which the signature over header.payload verifies with
                               the header's algorithm; None = there is no such key (edited payload, alg none, ...) *)
  j_sig_canon : bool;       (* the signature segment is canonical base64url (no stray bits in the last character) *)
  j_iss : iss_claim;
  j_exp : option Z;         (* "exp" - now *)
  j_nbf : option Z;         (* "nbf" - now *)
  j_iat : option Z;         (* "iat" - now *)
  j_typed : bool;           (* the registered claims present have the JSON types jwt.Claims declares
                               (exp/nbf/iat numbers, jti/sub strings) *)
  j_jti : option N }.       (* "jti" *)

(* ctx.SigAlgs(): the alg members of the signature keys of the JWKS *)
Definition sig_algs (c : at_cfg) : list N :=
  map k_alg (filter (fun k => match k_use k with UseSig => true | UseEnc => false end) (ac_keys c)).

(* ctx.PublicJWK(kid) = jwks.Key(kid): the FIRST key with that kid *)
Definition key_by_kid (c : at_cfg) (kid : N) : option skey :=
  find (fun k => N.eqb (k_kid k) kid) (ac_keys c).

Definition is_sig (k : skey) : bool := match k_use k with UseSig => true | UseEnc => false end.

(* claims.ValidateWithLeeway(jwt.Expected{Issuer: ctx.Host}, leeway), go-jose v4:
     if e.Issuer != "" && e.Issuer != c.Issuer -> ErrInvalidIssuer
   (an absent member leaves c.Issuer = "") *)
Definition issuer_ok (host : N) (i : iss_claim) : bool :=
  if N.eqb host 0 then true
  else match i with
       | IssOne v => N.eqb v host
       | IssAbsent => N.eqb 0 host
       | _ => false
       end.

(*   if c.NotBefore != nil && now.Add(leeway).Before(nbf) -> ErrNotValidYet
     if c.Expiry    != nil && now.Add(-leeway).After(exp) -> ErrExpired
     if c.IssuedAt  != nil && now.Add(leeway).Before(iat) -> ErrIssuedInTheFuture *)
Definition nbf_ok (lw : Z) (n : option Z) : bool := match n with Some d => Z.leb d lw | None => true end.
Definition exp_ok (lw : Z) (e : option Z) : bool := match e with Some d => Z.leb (- lw) d | None => true end.
Definition iat_ok (lw : Z) (i : option Z) : bool := match i with Some d => Z.leb d lw | None => true end.

(* the JSON decoding of the payload into jwt.Claims inside parsedToken.Claims(key, &claims, &rawClaims):
   "iss" must be a string, the other registered claims must have their declared types *)
Definition claims_decode (j : jwt) : bool :=
  match j_iss j with IssArray _ | IssOther => false | _ => j_typed j end.

(* validClaims followed by the jti extraction of its two callers: Some jti = the token id the grant
   storage is then asked for; None = refusal *)
Definition valid_claims (c : at_cfg) (j : jwt) : option N :=
  (* jwt.ParseSigned(token, algs) *)
  if negb (j_wf j && existsb (N.eqb (j_alg j)) (sig_algs c)) then None else
  (* base64.RawURLEncoding.Strict().DecodeString(sig) *)
  if negb (j_sig_canon j) then None else
  (* len(Headers) != 1 || Headers[0].KeyID == "" *)
  match j_kid j with
  | None => None
  | Some kid =>
    (* ctx.PublicJWK(keyID); publicKey.Use != "sig" *)
    match key_by_kid c kid with
    | None => None
    | Some k =>
      if negb (is_sig k) then None else
      (* parsedToken.Claims(publicKey.Key, &claims, &rawClaims): signature, then JSON decoding *)
      if negb (match j_signer j with Some s => N.eqb s (k_ident k) | None => false end) then None else
      if negb (claims_decode j) then None else
      (* claims.ValidateWithLeeway(jwt.Expected{Issuer: ctx.Host}, leeway) *)
      if negb (issuer_ok (ac_host c) (j_iss j)) then None else
      if negb (nbf_ok (ac_leeway c) (j_nbf j)) then None else
      if negb (exp_ok (ac_leeway c) (j_exp j)) then None else
      if negb (iat_ok (ac_leeway c) (j_iat j)) then None else
      (* ExtractID / jwtTokenInfo: claims["jti"] == nil *)
      j_jti j
    end
  end.

(* the four acceptors, as far as the presented JWT is concerned: the token id validClaims yields must be
   live in the grant storage (tokenIntrospectionInfoByID / userinfo's validateRequest: the grant is
   found by token id and its token has not expired); /userinfo also needs the openid scope *)
Definition at_accepts (c : at_cfg) (live : N -> bool) (j : jwt) : bool :=
  match valid_claims c j with Some t => live t | None => false end.

(* ---- the forgery kinds of the suite c05forge (harness/suite_c05_forge.go c05fKinds) as transformations
   of an arbitrary JWT record ---- *)
Definition set_iss (j : jwt) (i : iss_claim) : jwt :=
  mkJwt (j_wf j) (j_alg j) (j_kid j) (j_signer j) (j_sig_canon j) i (j_exp j) (j_nbf j) (j_iat j) (j_typed j) (j_jti j).
Definition set_exp (j : jwt) (e : option Z) : jwt :=
  mkJwt (j_wf j) (j_alg j) (j_kid j) (j_signer j) (j_sig_canon j) (j_iss j) e (j_nbf j) (j_iat j) (j_typed j) (j_jti j).
Definition set_nbf (j : jwt) (e : option Z) : jwt :=
  mkJwt (j_wf j) (j_alg j) (j_kid j) (j_signer j) (j_sig_canon j) (j_iss j) (j_exp j) e (j_iat j) (j_typed j) (j_jti j).
Definition set_iat (j : jwt) (e : option Z) : jwt :=
  mkJwt (j_wf j) (j_alg j) (j_kid j) (j_signer j) (j_sig_canon j) (j_iss j) (j_exp j) (j_nbf j) e (j_typed j) (j_jti j).
Definition set_kid (j : jwt) (k : option N) : jwt :=
  mkJwt (j_wf j) (j_alg j) k (j_signer j) (j_sig_canon j) (j_iss j) (j_exp j) (j_nbf j) (j_iat j) (j_typed j) (j_jti j).
Definition set_signer (j : jwt) (s : option N) : jwt :=
  mkJwt (j_wf j) (j_alg j) (j_kid j) s (j_sig_canon j) (j_iss j) (j_exp j) (j_nbf j) (j_iat j) (j_typed j) (j_jti j).
Definition set_alg_signer (j : jwt) (a : N) (s : option N) : jwt :=
  mkJwt (j_wf j) a (j_kid j) s (j_sig_canon j) (j_iss j) (j_exp j) (j_nbf j) (j_iat j) (j_typed j) (j_jti j).
Definition set_canon (j : jwt) (b : bool) : jwt :=
  mkJwt (j_wf j) (j_alg j) (j_kid j) (j_signer j) b (j_iss j) (j_exp j) (j_nbf j) (j_iat j) (j_typed j) (j_jti j).
Definition set_jti (j : jwt) (t : option N) : jwt :=
  mkJwt (j_wf j) (j_alg j) (j_kid j) (j_signer j) (j_sig_canon j) (j_iss j) (j_exp j) (j_nbf j) (j_iat j) (j_typed j) t.

Inductive forgery :=
(* the issuer: v is the number of ANY string other than the configured issuer - a foreign issuer, the
   configured one with a trailing slash, in another letter case, under the other scheme, with a path
   suffix, the empty string, the issuer of the other tenant *)
| FIssOtherString (v : N)
| FIssAbsent
| FIssArray (vs : list N)        (* a JSON array, whatever it contains - the right issuer included *)
| FIssNotString                  (* a number, an object *)
(* the time claims, as offsets from now *)
| FExpPast (d : Z)
| FNbfFuture (d : Z)
| FIatFuture (d : Z)
(* the key *)
| FKidAbsent
| FKidUnknown (kid : N)
| FKidNamesOtherKey (kid : N)    (* the kid names a key of the JWKS that did not make the signature *)
| FKidNamesEncKey (kid : N)      (* signed with - and naming - a key of the JWKS whose use is not "sig" *)
| FUnsigned (alg : N)            (* alg none, edited payload: no key verifies *)
| FSigNotCanonical
(* the token id *)
| FJtiAbsent.

Definition apply_forgery (f : forgery) (j : jwt) : jwt :=
  match f with
  | FIssOtherString v => set_iss j (IssOne v)
  | FIssAbsent => set_iss j IssAbsent
  | FIssArray vs => set_iss j (IssArray vs)
  | FIssNotString => set_iss j IssOther
  | FExpPast d => set_exp j (Some d)
  | FNbfFuture d => set_nbf j (Some d)
  | FIatFuture d => set_iat j (Some d)
  | FKidAbsent => set_kid j None
  | FKidUnknown kid => set_kid j (Some kid)
  | FKidNamesOtherKey kid => set_kid j (Some kid)
  | FKidNamesEncKey kid => set_kid j (Some kid)
  | FUnsigned a => set_alg_signer j a None
  | FSigNotCanonical => set_canon j false
  | FJtiAbsent => set_jti j None
  end.

(* what makes the transformation the forgery it is called *)
Definition forgery_side (c : at_cfg) (f : forgery) (j : jwt) : Prop :=
  match f with
  | FIssOtherString v => v <> ac_host c
  | FIssAbsent | FIssArray _ | FIssNotString => True
  | FExpPast d => (d < - ac_leeway c)%Z
  | FNbfFuture d => (ac_leeway c < d)%Z
  | FIatFuture d => (ac_leeway c < d)%Z
  | FKidAbsent => True
  | FKidUnknown kid => key_by_kid c kid = None
  | FKidNamesOtherKey kid => forall k, key_by_kid c kid = Some k -> j_signer j <> Some (k_ident k)
  | FKidNamesEncKey kid => forall k, key_by_kid c kid = Some k -> k_use k = UseEnc
  | FUnsigned _ | FSigNotCanonical | FJtiAbsent => True
  end.

(* each time claim that is present lies inside its window *)
Definition time_in_window (lw : Z) (j : jwt) : Prop :=
  (forall d, j_nbf j = Some d -> (d <= lw)%Z) /\
  (forall d, j_exp j = Some d -> (- lw <= d)%Z) /\
  (forall d, j_iat j = Some d -> (d <= lw)%Z).

(* the signature verifies under a signature key of the server: the key the JWKS lists first under the
   kid of the header *)
Definition signed_by_server_key (c : at_cfg) (j : jwt) : Prop :=
  exists k, In k (ac_keys c) /\ k_use k = UseSig /\ j_kid j = Some (k_kid k) /\
            key_by_kid c (k_kid k) = Some k /\ j_signer j = Some (k_ident k).
