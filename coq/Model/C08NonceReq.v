(* C08NonceReq.v — is the authorization request of a flow (Model/C08Nonce.v) served at all, and
   from which parameters is its session built, according to the validators of the SYSTEM model:
   Authorize.validate_params / validate_optionals / validate_in_out (validation.go) and
   Jar.jar_session (validateRequestWithJAR + authnSessionWithJAR).  Used by the correspondence of
   suite c08nonce: a flow the provider refuses (e.g. response type id_token without any nonce in the
   merged request) must be refused by the model at the same stage, and vice versa. *)
From Verif Require Import Base Scope Types Prog Pop Token Authorize Jar C08Nonce.
Local Open Scope N_scope.

(* a request object the provider accepts: signed by the client's key, fresh, naming the client *)
Definition nonce_ro (c : client) (inner : params) : req_object :=
  mkRO EncNone (SigBy 1) AES256 1 (c_id c) true (Some 300%Z) (Some 0%Z) (Some 0%Z) true (c_id c) false false inner.

(* POST /par (push_auth, Jar.push_auth_jar): FAPI validates the pushed parameters as a complete
   request, OpenID as optional ones *)
Definition push_check (cfg : config) (c : client) (inner : params) : option aerr :=
  let c' := client_for_par cfg c (p_redirect inner) in
  if is_fapi (cf_profile cfg) then validate_params cfg inner c' else validate_optionals cfg inner c'.

(* where the flow stops: 0 = served, 1 = refused at POST /par, 2 = refused at /authorize *)
Definition flow_verdict (cfg : config) (c : client) (form : req_form) (inner outer : params) : N :=
  match form with
  | FPlain => match validate_params cfg outer c with Some _ => 2 | None => 0 end
  | FPar | FParJar =>
      match push_check cfg c inner with
      | Some _ => 1
      | None =>
        match validate_in_out cfg inner outer (client_for_par cfg c (p_redirect inner)) with
        | Some _ => 2
        | None => 0
        end
      end
  | FJar =>
      match jar_session cfg c outer (JValue (nonce_ro c inner)) (contents (nonce_ro c inner)) with
      | inl _ => 2
      | inr _ => 0
      end
  end.
