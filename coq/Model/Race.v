(* Race.v — C15: several requests presenting the SAME one-time credential, interleaved at the
   granularity of individual storage-interface calls (Prog.run_il).

   A scenario is a world, a short prefix history that leaves exactly one live credential in the
   store, and the consuming request; k copies of that request (operation indexes base, base+1, ...,
   so that each mints its own artifacts) are put in flight and a schedule — a list of request
   indexes — says who performs its next storage call.  No proofs here (Proofs/C15Proofs.v). *)
From Verif Require Import Base Scope Types Prog Pop Token Authorize System Config.
Local Open Scope nat_scope.

(* ---- schedules ---- *)
(* every sequence in which index i occurs exactly (nth i counts 0) times *)
Fixpoint ilv (fuel : nat) (counts : list nat) : list (list nat) :=
  match fuel with
  | O => [[]]
  | S f => flat_map (fun i => match nth i counts 0 with
                              | O => []
                              | S c => map (cons i) (ilv f (nth_upd counts i c))
                              end) (seq 0 (List.length counts))
  end.
Definition all_interleavings (counts : list nat) : list (list nat) := ilv (list_sum counts) counts.

(* the k requests one after the other, n calls each *)
Definition serial (k n : nat) : list nat := List.concat (map (fun i => repeat i n) (seq 0 k)).
(* appended to every schedule: whoever is still in flight when the schedule is exhausted (a refusal
   path longer than the accepting path) runs to completion, in index order; entries of finished
   requests are no-ops for run_il *)
Definition drain (k : nat) : list nat := serial k 16.

(* position in the schedule of the (c+1)-th entry of request i (length of the schedule if none) *)
Fixpoint occ_pos (i c : nat) (sched : list nat) (at_ : nat) : nat :=
  match sched with
  | [] => at_
  | j :: r => if Nat.eqb i j
              then match c with O => at_ | S c' => occ_pos i c' r (S at_) end
              else occ_pos i c r (S at_)
  end.

(* L, C: the positions, within the accepting run of ONE request, of the call that looks the
   credential up and of the call that consumes it (delete, or the save that overwrites the index).
   The first consume of a schedule is the earliest C-th call of any request; a request's lookup is
   "inside the window" when it is scheduled before that. *)
Definition first_consume (C k : nat) (sched : list nat) : nat :=
  fold_right Nat.min (List.length sched) (map (fun i => occ_pos i C sched 0) (seq 0 k)).
Definition lookups_before_first_consume (L C k : nat) (sched : list nat) : nat :=
  List.length (filter (fun i => Nat.ltb (occ_pos i L sched 0) (first_consume C k sched)) (seq 0 k)).
(* the windows overlap: a second request looks the credential up before the first consume *)
Definition overlaps (L C k : nat) (sched : list nat) : bool :=
  Nat.leb 2 (lookups_before_first_consume L C k sched).

(* ---- scenarios ---- *)
Record racescn := mkRaceScn {
  rs_profile : profile;
  rs_opts : list opt;
  rs_static : list client;
  rs_dyn : list client;
  rs_prefix : list op;        (* history that creates the credential *)
  rs_op : op;                 (* the consuming request, presented k times *)
  rs_lookup : ckind;          (* kind of the call that looks the credential up *)
  rs_consume : ckind          (* kind of the call that consumes it *)
}.

Record racesetup := mkSetup {
  su_world : world;
  su_store : store;           (* the store after the prefix: one live credential *)
  su_now : Z;
  su_base : nat;              (* operation index of request 0 *)
  su_op : op;
  su_lk : ckind;
  su_ck : ckind;
  su_prefix_obs : list obs
}.

Definition setup (s : racescn) : option racesetup :=
  match build (rs_profile s) (rs_opts s) with
  | Some cfg =>
      let w := mkWorld cfg (rs_static s) in
      let '(st, tr) := run_from w (init_state (rs_dyn s)) 0 (rs_prefix s) in
      Some (mkSetup w (s_store st) (s_now st) (List.length (rs_prefix s)) (rs_op s) (rs_lookup s) (rs_consume s) tr)
  | None => None
  end.
Definition no_setup : racesetup :=
  mkSetup (mkWorld (base_config POpenID) []) empty_store 0%Z 0 (OpTick 0%Z) KCGet KCGet [].
Definition setup_of (s : racescn) : racesetup := match setup s with Some x => x | None => no_setup end.

(* request i of the race *)
Definition race_prog (su : racesetup) (i : nat) : prog obs :=
  handler (su_world su) (su_base su + i) (su_now su) (su_op su).
Definition race_progs (su : racesetup) (k : nat) : list (prog obs) := map (race_prog su) (seq 0 k).

(* the storage calls of one request run alone, and the window positions read off them *)
Definition solo_log (su : racesetup) : list ckind := snd (run_log (race_prog su 0) (su_store su) []).
Definition ckind_eqb (a b : ckind) : bool := N.eqb (ckind_ix a) (ckind_ix b).
Fixpoint pos_of (k : ckind) (l : list ckind) : nat :=
  match l with [] => 0 | x :: r => if ckind_eqb k x then 0 else S (pos_of k r) end.
Definition lookup_pos (su : racesetup) : nat := pos_of (su_lk su) (solo_log su).
Definition consume_pos (su : racesetup) : nat := pos_of (su_ck su) (solo_log su).
Definition solo_calls (su : racesetup) : nat := count_calls (race_prog su 0) (su_store su).
(* the schedules of the property's quantifier: every interleaving of k requests of solo_calls calls *)
Definition race_schedules (su : racesetup) (k : nat) : list (list nat) :=
  all_interleavings (repeat (solo_calls su) k).

(* a request "obtains tokens (or starts an authorization)" *)
Definition is_success (o : obs) : bool :=
  match o with
  | Out (OTokens _) => true
  | Out (OPage _) => true
  | Out (ONav _ _ n) => match n_err n with None => true | Some _ => false end
  | _ => false
  end.
Definition succeeded (p : prog obs) : bool :=
  match finished p with Some o => is_success o | None => false end.

Definition race_run (su : racesetup) (k : nat) (sched : list nat) : store * list (prog obs) :=
  run_il (sched ++ drain k) (race_progs su k) (su_store su).
Definition outcomes (su : racesetup) (k : nat) (sched : list nat) : list bool :=
  map succeeded (snd (race_run su k sched)).
Definition successes (su : racesetup) (k : nat) (sched : list nat) : nat :=
  List.length (filter (fun b => b) (outcomes su k sched)).

Definition race_overlaps (su : racesetup) (k : nat) (sched : list nat) : bool :=
  overlaps (lookup_pos su) (consume_pos su) k sched.
Definition race_window_count (su : racesetup) (k : nat) (sched : list nat) : nat :=
  lookups_before_first_consume (lookup_pos su) (consume_pos su) k sched.

(* run_il, also recording who performed which call, in order (what the harness's gate observes) *)
Fixpoint run_il_tr {A} (sched : list nat) (ps : list (prog A)) (st : store) (tr : list (nat * ckind))
  : store * list (prog A) * list (nat * ckind) :=
  match sched with
  | [] => (st, ps, rev tr)
  | i :: rest =>
      match nth_error ps i with
      | Some p => match skip_touch 64 p with
                  | Do c k => let '(st', r) := exec c st in
                              run_il_tr rest (nth_upd ps i (k r)) st' ((i, call_kind c) :: tr)
                  | _ => run_il_tr rest ps st tr
                  end
      | None => run_il_tr rest ps st tr
      end
  end.
Definition calls_of (i : nat) (tr : list (nat * ckind)) : list ckind :=
  map snd (filter (fun x => Nat.eqb (fst x) i) tr).
Definition race_logs (su : racesetup) (k : nat) (sched : list nat) : list (list ckind) :=
  let tr := snd (run_il_tr (sched ++ drain k) (race_progs su k) (su_store su) []) in
  map (fun i => calls_of i tr) (seq 0 k).

(* ---- the four kinds (five scenarios: refresh with rotation on and off) ---- *)
Local Open Scope N_scope.
Local Open Scope string_scope.
Definition rc_client : client :=
  mkClient 1 false [GAuthorizationCode; GRefreshToken; GCiba] ["code"] ["https://c1.example/cb"]
           "openid email" CibaPoll false false false false false false false 0 false None.
Definition rc_opts (rotation : bool) : list opt :=
  [WithScopes [ScExact "openid"; ScExact "email"]; WithAuthorizationCodeGrant;
   WithRefreshTokenGrantPol IssueCodeOnly 600%Z] ++ (if rotation then [WithRefreshTokenRotation] else []) ++
  [WithPAR 60%Z; WithCIBAGrant; WithTokenLifetime 300%Z].
Definition rc_params : params :=
  mkParams 0 "https://c1.example/cb" "" "code" "openid email" "st" "" PkEmpty "" 0 "" 0 "" [] None.
Definition rc_cred : cred := mkCred 1 true.
Definition rc_treq (code refresh auth_req : id) : treq :=
  mkTReq rc_cred no_bind "" code (if is_nil code then "" else "https://c1.example/cb") refresh PkEmpty auth_req HgOk BaApprove [] AsNone None.
Definition rc_authorize : op := OpAuthorize (mkAReq 1 rc_params true (PolSuccess "alice" "openid email" [] [])).

(* authorization code: AByCode ... ADel *)
Definition scn_code (rotation : bool) : racescn :=
  mkRaceScn POpenID (rc_opts rotation) [] [rc_client]
    [rc_authorize]
    (OpToken GAuthorizationCode (rc_treq (mint 0%nat KCode) 0 0)) KAGet KADel.
(* refresh token: GByRefresh ... GSave (the save overwrites the refresh-token index iff rotation is on) *)
Definition scn_refresh (rotation : bool) : racescn :=
  mkRaceScn POpenID (rc_opts rotation) [] [rc_client]
    [rc_authorize; OpToken GAuthorizationCode (rc_treq (mint 0%nat KCode) 0 0)]
    (OpToken GRefreshToken (rc_treq 0 (mint 1%nat KRefresh) 0)) KGGet KGSave.
(* pushed request_uri: AByPar ... ASave (the save clears the request_uri index) *)
Definition scn_par (rotation : bool) : racescn :=
  mkRaceScn POpenID (rc_opts rotation) [] [rc_client]
    [OpPar (mkPReq rc_cred rc_params no_bind)]
    (OpAuthorize (mkAReq 1 (rc_params <| p_request_uri := mint 0%nat KParUri |>) true (PolSuccess "alice" "openid email" [] [])))
    KAGet KASave.
(* the same with a policy that shows a login page instead of finishing at once *)
Definition scn_par_page (rotation : bool) : racescn :=
  mkRaceScn POpenID (rc_opts rotation) [] [rc_client]
    [OpPar (mkPReq rc_cred rc_params no_bind)]
    (OpAuthorize (mkAReq 1 (rc_params <| p_request_uri := mint 0%nat KParUri |>) true PolInProgress))
    KAGet KASave.
(* CIBA auth_req_id (poll mode): AByCiba ... ADel *)
Definition scn_ciba (rotation : bool) : racescn :=
  mkRaceScn POpenID (rc_opts rotation) [] [rc_client]
    [OpBcAuthorize (mkBReq rc_cred (mkParams 0 "" "" "" "openid email" "" "" PkEmpty "" 0 "alice" 0 "" [] None) no_bind true "alice" "openid email" [] [])]
    (OpToken GCiba (rc_treq 0 0 (mint 0%nat KAuthReq))) KAGet KADel.
