(* Alias.v — what C18 talks about, as definitions over the existing model:
   - no_touch: a program that never writes in place to an object the storage may still hold;
   - the write-through discipline: a path-sensitive predicate saying that along the execution of a
     program from a given store every in-place write (Prog.Touch) to a stored object is followed,
     before the response (Ret) and before any other lookup of the same table, by a Save of an
     object with the same id or by the deletion of that id;
   - histories served by several provider instances. *)
From Verif Require Import Base Scope Types Prog Pop Token Authorize System.
Local Open Scope N_scope.

(* ---- programs without in-place writes ---- *)
Fixpoint no_touch {A} (p : prog A) : Prop :=
  match p with
  | Ret _ => True
  | Do _ k => forall r, no_touch (k r)
  | Touch _ _ => False
  end.

(* ---- the write-through discipline ----
   What has been written in place and not yet written through the storage interface: nothing, or
   the session / grant with id i.  (No handler of System.handler touches a client; none touches
   two objects at a time.) *)
Inductive dirty := Clean | DirtyA (i : id) | DirtyG (i : id).

(* an in-place write: allowed on a clean store, or again on the object that is already dirty *)
Definition touch_d (D : dirty) (o : obj) : option dirty :=
  match D, o with
  | Clean, OA s => Some (DirtyA (a_id s))
  | Clean, OG g => Some (DirtyG (g_id g))
  | DirtyA i, OA s => if ideq (a_id s) i then Some D else None
  | DirtyG i, OG g => if ideq (g_id g) i then Some D else None
  | _, _ => None
  end.

(* a storage call: the client table is never dirty; the session (grant) table may be looked up only
   when no session (grant) is dirty; a Save or Delete of the dirty id writes it through *)
Definition call_d (D : dirty) (c : call) : option dirty :=
  match c with
  | CGet _ | CSave _ | CDel _ => Some D
  | ASave s => match D with DirtyA i => if ideq (a_id s) i then Some Clean else None | _ => Some D end
  | ADel j => match D with DirtyA i => if ideq j i then Some Clean else None | _ => Some D end
  | AByCb _ | AByCode _ | AByPar _ | AByCiba _ => match D with DirtyA _ => None | _ => Some D end
  | GSave g => match D with DirtyG i => if ideq (g_id g) i then Some Clean else None | _ => Some D end
  | GDel j => match D with DirtyG i => if ideq j i then Some Clean else None | _ => Some D end
  | GByToken _ | GByRefresh _ | GDelByCode _ => match D with DirtyG _ => None | _ => Some D end
  end.

(* weakest precondition along the run of p from st (the copying store's run: one path) *)
Fixpoint wp {A} (D : dirty) (p : prog A) (st : store) (Q : dirty -> store -> A -> Prop) : Prop :=
  match p with
  | Ret a => Q D st a
  | Do c k => match call_d D c with
              | None => False
              | Some D' => wp D' (k (snd (exec c st))) (fst (exec c st)) Q
              end
  | Touch o p' => match touch_d D o with
                  | None => False
                  | Some D' => wp D' p' st Q
                  end
  end.

(* every in-place write of p, run from st, has been written through when p answers *)
Definition written_through {A} (p : prog A) (st : store) : Prop :=
  wp Clean p st (fun D _ _ => D = Clean).

(* ---- several provider instances over one storage ----
   An instance is built from a configuration (and its static clients): in the model, a world.
   Request number n of a history is served by instance (inst n); all that passes from one request
   to the next is the state (storage contents and clock).  The two pieces of per-process state of
   the Go code - the anonymous client of the jwt-bearer grant, created once, and the JWKS fetched
   from a client's jwks_uri and cached on the client object - are not in the model (neither the
   jwt-bearer grant nor jwks_uri clients are modelled here); the harness checks instance
   independence dynamically on the real provider. *)
Fixpoint run_from_inst (interp : prog obs -> store -> store * obs) (inst : nat -> world)
    (st : state) (n : nat) (ops : list op) : state * list obs :=
  match ops with
  | [] => (st, [])
  | o :: rest =>
      let '(st', x) := step_with interp (inst n) st n o in
      let '(st'', tr) := run_from_inst interp inst st' (S n) rest in
      (st'', x :: tr)
  end.
