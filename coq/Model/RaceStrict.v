(* RaceStrict.v — C15 on a STRICT storage: an embedder's storage whose Delete / DeleteByX reports an
   error when there was nothing to delete (a SQL `DELETE ... WHERE id = ?` checked for "rows affected =
   1", a key-value store with compare-and-delete).  The repository's in-memory storage and the
   harness's JSON store are lenient (deleting what is absent is a silent no-op); both are legitimate
   implementations of goidc.AuthnSessionManager / GrantSessionManager / ClientManager.

   On a strict storage the delete IS an atomic take: of several requests that looked the same session
   up, exactly one delete succeeds, and the unchanged code returns the error of a failed delete
   (internal/token/authz_code.go authnSession, internal/token/ciba.go, internal/authorize
   finishFlowSuccessfully).  Hence, where the consume is a DELETE (authorization code, CIBA
   auth_req_id, pushed request_uri with a response type that issues no code) at most one of the racing
   requests wins, on every schedule; where the consume is an overwriting SAVE (rotated refresh token,
   request_uri with a code) the strict storage changes nothing.
   `exec_strict` is Prog.exec but for the four deletes; `run_il_x` is Prog.run_il over a given storage
   semantics (run_il_x exec = run_il: Proofs/C15StrictProofs.v).  No proofs here. *)
From Verif Require Import Base Scope Types Prog Pop Token Authorize System Config Race RaceUri.
Local Open Scope nat_scope.

Definition exec_strict (c : call) (st : store) : store * reply :=
  match c with
  | CDel i => if existsb (fun c' => ideq (c_id c') i) (st_clients st) then exec c st else (st, RFail)
  | ADel i => if existsb (fun s => ideq (a_id s) i) (st_asess st) then exec c st else (st, RFail)
  | GDel i => if existsb (fun g => ideq (g_id g) i) (st_gsess st) then exec c st else (st, RFail)
  | GDelByCode i => if existsb (fun g => ideq (g_code g) i) (st_gsess st) then exec c st else (st, RFail)
  | _ => exec c st
  end.

(* the storage semantics a race is run over *)
Definition storage_sem := call -> store -> store * reply.
Definition sem_of (strict : bool) : storage_sem := if strict then exec_strict else exec.

Fixpoint run_il_x {A} (ex : storage_sem) (sched : list nat) (ps : list (prog A)) (st : store) : store * list (prog A) :=
  match sched with
  | [] => (st, ps)
  | i :: rest =>
      match nth_error ps i with
      | Some p => match skip_touch 64 p with
                  | Do c k => let '(st', r) := ex c st in run_il_x ex rest (nth_upd ps i (k r)) st'
                  | _ => run_il_x ex rest ps st
                  end
      | None => run_il_x ex rest ps st
      end
  end.
(* ... also recording who performed which call, in order (what the harness's gate observes) *)
Fixpoint run_il_x_tr {A} (ex : storage_sem) (sched : list nat) (ps : list (prog A)) (st : store) (tr : list (nat * ckind))
  : store * list (prog A) * list (nat * ckind) :=
  match sched with
  | [] => (st, ps, rev tr)
  | i :: rest =>
      match nth_error ps i with
      | Some p => match skip_touch 64 p with
                  | Do c k => let '(st', r) := ex c st in
                              run_il_x_tr ex rest (nth_upd ps i (k r)) st' ((i, call_kind c) :: tr)
                  | _ => run_il_x_tr ex rest ps st tr
                  end
      | None => run_il_x_tr ex rest ps st tr
      end
  end.
(* one program run alone over a storage semantics *)
Fixpoint run_seq_x {A} (ex : storage_sem) (p : prog A) (st : store) : store * A :=
  match p with
  | Ret a => (st, a)
  | Do c k => let '(st', r) := ex c st in run_seq_x ex (k r) st'
  | Touch _ p' => run_seq_x ex p' st
  end.

Definition race_run_x (ex : storage_sem) (su : racesetup) (k : nat) (sched : list nat) : store * list (prog obs) :=
  run_il_x ex (sched ++ drain k) (race_progs su k) (su_store su).
Definition outcomes_x (ex : storage_sem) (su : racesetup) (k : nat) (sched : list nat) : list bool :=
  map succeeded (snd (race_run_x ex su k sched)).
Definition successes_x (ex : storage_sem) (su : racesetup) (k : nat) (sched : list nat) : nat :=
  List.length (filter (fun b => b) (outcomes_x ex su k sched)).
Definition race_logs_x (ex : storage_sem) (su : racesetup) (k : nat) (sched : list nat) : list (list ckind) :=
  let tr := snd (run_il_x_tr ex (sched ++ drain k) (race_progs su k) (su_store su) []) in
  map (fun i => calls_of i tr) (seq 0 k).

(* the consume of the scenario is a delete: the strict storage makes it a take *)
Definition consume_is_delete (su : racesetup) : bool :=
  match su_ck su with KADel | KGDel | KCDel | KGDelByCode => true | _ => false end.

(* ---- END TO END: what the artifacts handed out by the racing /authorize requests are worth afterwards ----
   Each racing authorization request that succeeded holds a code (policy that finishes at once, response type
   with `code`) or a callback id (policy that shows a login page).  After the race every one of them is used,
   in the order of the request indexes (`fwd`) or in the reverse order: a callback id is continued with a
   policy that succeeds, which yields a code; every code is redeemed at the token endpoint.  Counted: the
   TOKEN RESPONSES that come out of the one request_uri. *)
Definition e2e_policy : pol_reply := PolSuccess "alice" "openid email" [] [].
Definition e2e_redirect : string := "https://c1.example/cb".
Definition e2e_treq (code : id) : treq :=
  mkTReq rc_cred no_bind "" code e2e_redirect 0%N PkEmpty 0%N HgOk BaApprove [] AsNone None.

(* what request i of the race was handed: (callback id, code) - 0 for none *)
Definition handed (p : prog obs) : id * id :=
  match finished p with
  | Some (Out (OPage cb)) => (cb, 0%N)
  | Some (Out (ONav _ _ n)) => match n_err n with None => (0%N, n_code n) | Some _ => (0%N, 0%N) end
  | _ => (0%N, 0%N)
  end.

(* one follow-up: operation index n; returns the store afterwards and whether a token response came out *)
Definition follow_up (ex : storage_sem) (w : world) (now : Z) (n : nat) (h : id * id) (st : store) : store * bool :=
  let '(cb, code) := h in
  let '(st1, code1) :=
    if is_nil cb then (st, code)
    else let '(st', o) := run_seq_x ex (handler w n now (OpCallback (mkCbReq cb e2e_policy))) st in
         (st', match o with Out (ONav _ _ nv) => match n_err nv with None => n_code nv | Some _ => 0%N end | _ => 0%N end) in
  if is_nil code1 then (st1, false)
  else let '(st2, o2) := run_seq_x ex (handler w (S n) now (OpToken GAuthorizationCode (e2e_treq code1))) st1 in
       (st2, match o2 with Out (OTokens _) => true | _ => false end).

Fixpoint follow_ups (ex : storage_sem) (w : world) (now : Z) (n : nat) (hs : list (id * id)) (st : store) : list bool :=
  match hs with
  | [] => []
  | h :: r => let '(st', b) := follow_up ex w now n h st in b :: follow_ups ex w now (S (S n)) r st'
  end.

(* per racing request (in request order): did its artifact end in a token response *)
Definition e2e_outcomes (ex : storage_sem) (rev_order : bool) (su : racesetup) (k : nat) (sched : list nat) : list bool :=
  let '(st, ps) := race_run_x ex su k sched in
  let hs := map handed ps in
  let n0 := su_base su + k in
  if rev_order then rev (follow_ups ex (su_world su) (su_now su) n0 (rev hs) st)
  else follow_ups ex (su_world su) (su_now su) n0 hs st.
Definition e2e_tokens (ex : storage_sem) (rev_order : bool) (su : racesetup) (k : nat) (sched : list nat) : nat :=
  List.length (filter (fun b => b) (e2e_outcomes ex rev_order su k sched)).

(* store-level reading, independent of any order of redemption: the codes / callback ids handed out by the
   racing requests that still index a session in the store the race leaves behind *)
Definition live_artifacts (ex : storage_sem) (su : racesetup) (k : nat) (sched : list nat) : nat :=
  let '(st, ps) := race_run_x ex su k sched in
  List.length (filter (fun h : id * id =>
      let '(cb, code) := h in
      orb (andb (negb (is_nil cb)) (existsb (fun s => ideq (a_cb s) cb) (st_asess st)))
          (andb (negb (is_nil code)) (existsb (fun s => ideq (a_code s) code) (st_asess st))))
    (map handed ps)).
