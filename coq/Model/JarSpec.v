(* JarSpec.v — the executable predicates in which C07 is stated (Props/C07.v) and which the
   monitor of Corr/C07.v evaluates on the implementation's observations. *)
From Verif Require Import Base Scope Types Prog Pop Token Authorize Jar.
Local Open Scope N_scope.

(* the signature was made by the private half of a key in the client's JWKS *)
Definition signed_by_registered (c : jclient) (o : req_object) : bool :=
  match ro_sig o with
  | SigBy k => existsb (fun j => ideq (jk_key j) k) (jc_keys c)
  | _ => false end.

(* inside the validity window: not before nbf, not after exp, not issued in the future (leeway
   applied); under the FAPI profiles nbf and exp must be present, nbf at most 60 minutes in the
   past and exp at most 60 minutes ahead *)
Definition in_window (prof : profile) (leeway : Z) (o : req_object) : bool :=
  andb (match ro_nbf o with Some d => Z.leb d leeway | None => negb (is_fapi prof) end)
  (andb (match ro_exp o with Some d => Z.leb (- leeway) d | None => negb (is_fapi prof) end)
  (andb (match ro_iat o with Some d => Z.leb d leeway | None => true end)
  (if is_fapi prof then
     andb (match ro_nbf o with Some d => Z.leb (-3600) d | None => false end)
          (match ro_exp o with Some d => Z.leb d 3600 | None => false end)
   else true))).

Definition authentic (prof : profile) (jc : jcfg) (cid : id) (c : jclient) (o : req_object) : bool :=
  andb (signed_by_registered c o)
  (andb (mem_alg (ro_alg o) (jar_algs jc c))
  (andb (negb (alg_eqb (ro_alg o) ANone))
  (andb (ideq (ro_iss o) cid)
  (andb (ro_aud_ok o) (in_window prof (jw_leeway jc) o))))).

(* unsigned, declares 'none', and 'none' is among the algorithms allowed for this client *)
Definition unsigned_enabled (jc : jcfg) (c : jclient) (o : req_object) : bool :=
  andb (match ro_sig o with SigEmpty => true | _ => false end)
  (andb (alg_eqb (ro_alg o) ANone) (mem_alg ANone (jar_algs jc c))).

Definition jar_ok (prof : profile) (jc : jcfg) (cid : id) (c : jclient) (o : req_object) : bool :=
  orb (authentic prof jc cid c o) (unsigned_enabled jc c o).

(* /bc-authorize: always signed; iat, nbf, exp and jti required; the 60-minute window always applies *)
Definition ciba_jar_ok (jc : jcfg) (cid : id) (c : jclient) (o : req_object) : bool :=
  andb (signed_by_registered c o)
  (andb (mem_alg (ro_alg o) (ciba_jar_algs jc c))
  (andb (negb (alg_eqb (ro_alg o) ANone))
  (andb (ideq (ro_iss o) cid)
  (andb (ro_aud_ok o)
  (andb (in_window PFapi2 (jw_leeway jc) o)
  (andb (match ro_iat o with Some _ => true | None => false end) (ro_jti o))))))).

(* a response that starts or completes an authorization *)
Definition out_ok (o : out) : bool :=
  match o with
  | OPage _ | OPar _ | OCiba _ _ => true
  | ONav _ _ nv => match n_err nv with None => true | Some _ => false end
  | _ => false
  end.
