(* Authorize.v — GET/POST /authorize, /authorize/{callback}, POST /par,
   POST /bc-authorize and the CIBA notifications, transcribed from
   internal/authorize/*.go and internal/token/ciba.go (tree with fix: commits).
   Request objects (JAR) are modelled in Jar.v; here JAR is off. *)
From Verif Require Import Base Scope Types Prog Pop Token.
Local Open Scope N_scope.

(* An authorization error is either shown locally (plain goidc.Error) or carried to the
   client's redirect URI together with the parameters it will be redirected with. *)
Inductive aerr := ALocal (e : ecode) | ARedirect (e : ecode) (p : params).

(* authorize.mergeParams: the inside value wins unless it is the zero value *)
Definition nz (a b : string) : string := if is_empty a then b else a.
Definition merge_params (i o : params) : params :=
  mkParams 0
    (nz (p_redirect i) (p_redirect o)) (nz (p_resp_mode i) (p_resp_mode o))
    (nz (p_resp_type i) (p_resp_type o)) (nz (p_scopes i) (p_scopes o))
    (nz (p_state i) (p_state o)) (nz (p_nonce i) (p_nonce o))
    (if pk_is_empty (p_challenge i) then p_challenge o else p_challenge i)
    (nz (p_method i) (p_method o))
    (if is_nil (p_dpop_jkt i) then p_dpop_jkt o else p_dpop_jkt i)
    (nz (p_login_hint i) (p_login_hint o))
    (if is_nil (p_notif_token i) then p_notif_token o else p_notif_token i)
    (nz (p_user_code i) (p_user_code o))
    (if no_res (p_resources i) then p_resources o else p_resources i)
    (match p_auth_details i with Some _ => p_auth_details i | None => p_auth_details o end).

Definition redirect_allowed (c : client) (u : string) : bool := mem u (c_redirects c).

(* isAuthDetailTypeAllowed: a client that did not announce its types (no list, or an empty one) may use any *)
Definition client_detail_type_allowed (c : client) (t : string) : bool :=
  match c_auth_detail_types c with None | Some [] => true | Some l => mem t l end.
(* validateAuthorizationDetailsAsOptional: every detail's type is supported by the server and allowed for the client *)
Definition details_param_ok (cfg : config) (c : client) (d : opt_details) : bool :=
  match d with
  | Some l => if cf_auth_details_enabled cfg
              then forallb (fun x => andb (mem (ad_type x) (cf_auth_detail_types cfg)) (client_detail_type_allowed c (ad_type x))) l
              else true
  | None => true
  end.
Arguments client_detail_type_allowed : simpl never.
Arguments details_param_ok : simpl never.

(* validateParamsAsOptionals, the validators that concern modelled parameters, in order *)
Definition validate_optionals (cfg : config) (p : params) (c : client) : option aerr :=
  if andb (negb (is_empty (p_redirect p))) (negb (redirect_allowed c (p_redirect p)))
  then Some (ALocal EInvalidRequest) else
  (* scopes *)
  if andb (negb (is_empty (p_scopes p))) (negb (are_scopes_allowed (c_scopes c) (cf_scopes cfg) (p_scopes p)))
  then Some (ARedirect EInvalidScope p) else
  if andb (negb (is_empty (p_scopes p))) (andb (cf_openid_required cfg) (negb (contains_openid (p_scopes p))))
  then Some (ARedirect EInvalidScope p) else
  (* response type *)
  if andb (negb (is_empty (p_resp_type p))) (negb (mem (p_resp_type p) (c_resp_types c)))
  then Some (ARedirect EInvalidRequest p) else
  if andb (negb (is_empty (p_resp_type p)))
          (andb (rt_contains (p_resp_type p) "code") (negb (has_grant GAuthorizationCode (c_grants c))))
  then Some (ARedirect EInvalidGrant p) else
  if andb (negb (is_empty (p_resp_type p)))
          (andb (rt_is_implicit (p_resp_type p)) (negb (has_grant GImplicit (c_grants c))))
  then Some (ARedirect EInvalidRequest p) else
  (* response mode *)
  if andb (negb (is_empty (p_resp_mode p))) (negb (mem (p_resp_mode p) (cf_resp_modes cfg)))
  then Some (ARedirect EInvalidRequest p) else
  if andb (negb (is_empty (p_resp_mode p))) (andb (rm_is_query (p_resp_mode p)) (rt_is_implicit (p_resp_type p)))
  then Some (ARedirect EInvalidRequest p) else
  if andb (negb (is_empty (p_resp_mode p))) (andb (c_jarm_alg c) (rm_is_plain (p_resp_mode p)))
  then Some (ARedirect EInvalidRequest p) else
  (* code challenge method *)
  if andb (negb (is_empty (p_method p))) (negb (mem (p_method p) (cf_pkce_methods cfg)))
  then Some (ARedirect EInvalidRequest p) else
  (* authorization details *)
  if negb (details_param_ok cfg c (p_auth_details p)) then Some (ARedirect EInvalidAuthDetails p) else
  (* resources: every requested one must be configured *)
  if andb (cf_resource_enabled cfg) (andb (negb (no_res (p_resources p))) (negb (subset (p_resources p) (cf_resources cfg))))
  then Some (ARedirect EInvalidTarget p) else
  None.

Definition validate_params (cfg : config) (p : params) (c : client) : option aerr :=
  if is_empty (p_redirect p) then Some (ALocal EInvalidRequest) else
  match validate_optionals cfg p c with
  | Some e => Some e
  | None =>
    if is_empty (p_resp_type p) then Some (ARedirect EInvalidRequest p) else
    if andb (cf_resource_required cfg) (no_res (p_resources p)) then Some (ARedirect EInvalidTarget p) else
    if andb (cf_openid_required cfg) (negb (contains_openid (p_scopes p))) then Some (ARedirect EInvalidRequest p) else
    if andb (rt_contains (p_resp_type p) "id_token") (negb (contains_openid (p_scopes p)))
    then Some (ARedirect EInvalidRequest p) else
    if andb (rt_contains (p_resp_type p) "id_token") (is_empty (p_nonce p)) then Some (ARedirect EInvalidRequest p) else
    if andb (cf_pkce_enabled cfg) (andb (c_public c) (pk_is_empty (p_challenge p))) then Some (ARedirect EInvalidRequest p) else
    if andb (cf_pkce_required cfg) (pk_is_empty (p_challenge p)) then Some (ARedirect EInvalidRequest p) else
    match cf_profile cfg with
    | PFapi1 =>
        if negb (orb (seqb (p_resp_type p) "code") (seqb (p_resp_type p) "code id_token")) then Some (ARedirect EInvalidRequest p) else
        if andb (seqb (p_resp_type p) "code") (negb (seqb (p_resp_mode p) "jwt")) then Some (ARedirect EInvalidRequest p) else
        if andb (contains_openid (p_scopes p)) (is_empty (p_nonce p)) then Some (ARedirect EInvalidRequest p) else None
    | PFapi2 => if negb (seqb (p_resp_type p) "code") then Some (ARedirect EInvalidRequest p) else None
    | POpenID => None
    end
  end.

Definition validate_in_out (cfg : config) (i o : params) (c : client) : option aerr :=
  if andb (negb (is_empty (p_redirect o))) (negb (redirect_allowed c (p_redirect o)))
  then Some (ALocal EInvalidRequest) else
  let m := merge_params i o in
  match validate_params cfg m c with
  | Some e => Some e
  | None =>
    match validate_optionals cfg o c with
    | Some (ARedirect e _) => Some (ARedirect e m)    (* fix: redirected with the merged, validated parameters *)
    | Some e => Some e
    | None =>
      match cf_profile cfg with
      | POpenID =>
        if contains_openid (p_scopes m) then
          if is_empty (p_resp_type o) then Some (ARedirect EInvalidRequest m) else
          if andb (negb (is_empty (p_resp_type i))) (negb (seqb (p_resp_type i) (p_resp_type o)))
          then Some (ARedirect EInvalidRequest m) else
          if andb (contains_openid (p_scopes i)) (negb (contains_openid (p_scopes o)))
          then Some (ARedirect EInvalidScope m) else None
        else None
      | _ => None
      end
    end
  end.

(* the client as the PAR validators see it when unregistered redirect URIs are allowed
   (fix D1: a local copy, the registered client is not modified) *)
Definition client_for_par (cfg : config) (c : client) (pushed_redirect : string) : client :=
  if andb (cf_par_unregistered cfg) (negb (is_empty pushed_redirect))
  then c <| c_redirects := (c_redirects c ++ [pushed_redirect])%list |> else c.

(* ---- policy script: what the embedder's policy does on this invocation ---- *)
Inductive pol_reply :=
  | PolSuccess (sub granted : string) (resources : list string) (details : list adetail)
      (* SetUserID, GrantScopes, GrantResources, GrantAuthorizationDetails *)
  | PolInProgress
  | PolFail                         (* failure, plain/nil error: access_denied *)
  | PolFailWith (e : ecode).        (* failure with a goidc.Error *)

Record areq := mkAReq {
  ar_client : id;
  ar_params : params;
  ar_policy_available : bool;
  ar_pol : pol_reply
}.

Definition response_mode (p : params) : string :=
  if is_empty (p_resp_mode p) then (if rt_is_implicit (p_resp_type p) then "fragment" else "query")
  else if seqb (p_resp_mode p) "jwt" then (if rt_is_implicit (p_resp_type p) then "fragment.jwt" else "query.jwt")
  else p_resp_mode p.

(* redirectResponse: how the parameters travel — fragment, form_post, or (everything else) query —
   and whether they are wrapped in a signed response object *)
Definition nav_mode (cfg : config) (c : client) (p : params) : string :=
  let m := response_mode p in
  let base := if orb (seqb m "fragment") (seqb m "fragment.jwt") then "fragment"
              else if orb (seqb m "form_post") (seqb m "form_post.jwt") then "form_post" else "query" in
  if orb (andb (rm_is_jarm m) (cf_jarm_enabled cfg)) (c_jarm_alg c) then base ++ ".jwt" else base.

Definition nav_err (cfg : config) (c : client) (p : params) (e : ecode) : out :=
  ONav (nav_mode cfg c p) (p_redirect p) (mkNav 0 0 false (p_state p) (Some e) false).

(* redirectError: only redirection errors navigate *)
Definition render_aerr (cfg : config) (c : client) (e : aerr) : out :=
  match e with ALocal x => OErr x | ARedirect x p => nav_err cfg c p x end.

Definition new_session (n : nat) (c : client) (p : params) : asession :=
  mkASession (mint n KSessId) (c_id c) "" 0 0 0 0 "" 0 0 0%Z 0 "" p [] [].

(* what authenticate hands back: a finished response, or an error still to be rendered by the
   caller with the client it holds *)
Inductive ares := ADone (o : out) | AFail (e : aerr).

(* authenticate + the three tails *)
Definition authenticate (w : world) (n : nat) (now : Z) (s : asession) (pol : pol_reply) : prog ares :=
  let cfg := w_cfg w in
  match pol with
  | PolInProgress =>
      let s' := s <| a_steps := (a_steps s + 1)%N |> in
      Touch (OA s')
      (save_a s' (fun r => match r with RFail => Ret (AFail (ALocal EInternalError)) | _ => Ret (ADone (OPage (a_cb s'))) end))
  | PolFail | PolFailWith _ =>
      let code := match pol with PolFailWith e => e | _ => EAccessDenied end in
      Do (ADel (a_id s)) (fun r =>
        match r with
        | RFail => Ret (AFail (ARedirect EInternalError (a_params s)))
        | _ => Ret (AFail (ARedirect code (a_params s)))
        end)
  | PolSuccess sub granted res det =>
      let s1 := s <| a_subject := sub |> <| a_granted := granted |> <| a_granted_res := res |>
                  <| a_granted_details := det |> in
      Touch (OA s1)
      (bind (get_client w (a_client s1)) (fun oc =>
       match oc with
       | None => Ret (AFail (ARedirect EInternalError (a_params s1)))
       | Some c =>
         let rt := p_resp_type (a_params s1) in
         let after_session (s2 : asession) : prog ares :=
           let finish (at_ : id) (dp : bool) : prog ares :=
             Ret (ADone (ONav (nav_mode cfg c (a_params s2)) (p_redirect (a_params s2))
                    (mkNav (a_code s2) at_
                       (andb (contains_openid (a_granted s2)) (rt_contains rt "id_token"))
                       (p_state (a_params s2)) None dp))) in
           if rt_contains rt "token" then
             let '(tv, tid) := make_token n c GImplicit in
             let jkt := if cf_dpop_enabled cfg
                        then (if is_nil (a_jkt s2) then p_dpop_jkt (a_params s2) else a_jkt s2) else 0%N in
             (* implicitGrantInfo copies the granted resources whether or not the feature is enabled *)
             (* ... and the granted authorization details (GrantedAuthDetails only: the token carries none) *)
             let g := new_grant n now cfg tid GImplicit (a_subject s2) (a_client s2)
                        (a_granted s2) (a_granted s2) jkt 0 (a_granted_res s2) (a_granted_res s2)
                        [] (a_granted_details s2) in
             Do (GSave g) (fun r => match r with RFail => Ret (AFail (ALocal EInternalError)) | _ => finish tv (negb (is_nil jkt)) end)
           else finish 0%N false in
         if negb (rt_contains rt "code") then
           Do (ADel (a_id s1)) (fun r => match r with RFail => Ret (AFail (ALocal EInternalError)) | _ => after_session s1 end)
         else
           let s2 := s1 <| a_code := mint n KCode |> <| a_expires := (now + 60)%Z |> <| a_cb := 0%N |> in
           Touch (OA s2)
           (save_a s2 (fun r => match r with RFail => Ret (AFail (ALocal EInternalError)) | _ => after_session s2 end))
       end))
  end.

Definition should_use_par (cfg : config) (p : params) (c : client) : bool :=
  andb (cf_par_enabled cfg) (orb (cf_par_required cfg) (orb (c_par_required c) (negb (is_nil (p_request_uri p))))).

(* initAuthnSession's writes, then authenticate *)
Definition start_session (w : world) (n : nat) (now : Z) (c : client) (s : asession) (r : areq) : prog ares :=
  let cfg := w_cfg w in
  (* tokens issued by the authorization endpoint can only be bound with DPoP (PAR key or dpop_jkt):
     if binding is required and the token would not be bound, refuse (fix D16) *)
  if andb (rt_contains (p_resp_type (a_params s)) "token")
      (andb (orb (cf_dpop_required cfg) (orb (andb (cf_dpop_enabled cfg) (c_dpop_required c)) (cf_binding_required cfg)))
            (negb (andb (cf_dpop_enabled cfg) (orb (negb (is_nil (a_jkt s))) (negb (is_nil (p_dpop_jkt (a_params s))))))))
  then Ret (AFail (ARedirect EInvalidRequest (a_params s))) else
  if negb (ar_policy_available r) then Ret (AFail (ARedirect EInvalidRequest (a_params s))) else
  let s' := s <| a_nonce_claim := p_nonce (a_params s) |> <| a_cb := mint n KCallback |>
              <| a_par := 0%N |> <| a_expires := (now + cf_session_timeout (w_cfg w))%Z |> in
  Touch (OA s') (authenticate w n now s' (ar_pol r)).

Definition finish_ares (cfg : config) (c : client) (a : ares) : out :=
  match a with ADone o => o | AFail e => render_aerr cfg c e end.

Definition init_auth (w : world) (n : nat) (now : Z) (r : areq) : prog out :=
  let cfg := w_cfg w in
  if is_nil (ar_client r) then Ret (OErr EInvalidClient) else
  bind (get_client w (ar_client r)) (fun oc =>
  match oc with
  | None => Ret (OErr EInvalidClient)
  | Some c =>
    if negb (orb (has_grant GAuthorizationCode (c_grants c)) (has_grant GImplicit (c_grants c)))
    then Ret (OErr EInvalidClient) else
    if should_use_par cfg (ar_params r) c then
      if is_nil (p_request_uri (ar_params r)) then Ret (OErr EInvalidRequest) else
      Do (AByPar (p_request_uri (ar_params r))) (fun rp =>
      match rp with
      | RASess s =>
        let verdict :=
          if negb (ideq (a_client s) (ar_client r)) then Some (ALocal EAccessDenied) else
          if geb now (a_expires s) then Some (ALocal EInvalidRequest) else
          validate_in_out cfg (a_params s) (ar_params r) (client_for_par cfg c (p_redirect (a_params s))) in
        match verdict with
        | Some e => Do (ADel (a_id s)) (fun rd => match rd with RFail => Ret (OErr EInternalError) | _ => Ret (render_aerr cfg c e) end)
        | None =>
          let s' := if is_fapi (cf_profile cfg) then s
                    else s <| a_params := merge_params (a_params s) (ar_params r) |> in
          bind (start_session w n now c s' r) (fun a => Ret (finish_ares cfg c a))
        end
      | _ => Ret (OErr EInvalidRequest)
      end)
    else
      match validate_params cfg (ar_params r) c with
      | Some e => Ret (render_aerr cfg c e)
      | None => bind (start_session w n now c (new_session n c (ar_params r <| p_request_uri := 0%N |>)) r)
                     (fun a => Ret (finish_ares cfg c a))
      end
  end).

(* /authorize/{callback} *)
Record cbreq := mkCbReq { cb_id : id; cb_pol : pol_reply }.
Definition continue_auth (w : world) (n : nat) (now : Z) (r : cbreq) : prog out :=
  (* Go 1.22 mux: /authorize/{callback} does not match an empty segment: 404 *)
  if is_nil (cb_id r) then Ret (OErr EOther) else
  Do (AByCb (cb_id r)) (fun rp =>
  match rp with
  | RASess s =>
    if geb now (a_expires s) then Ret (OErr EInvalidRequest) else
    bind (authenticate w n now s (cb_pol r)) (fun a =>
      match a with
      | ADone o => Ret o
      | AFail e =>
          bind (get_client w (a_client s)) (fun oc =>
            match oc with
            | None => Do (ADel (a_id s)) (fun _ => Ret (OErr EInvalidRequest))   (* fix: the session goes with its client *)
            | Some c => Ret (render_aerr (w_cfg w) c e)
            end)
      end)
  | _ => Ret (OErr EInvalidRequest)
  end).

(* POST /par *)
(* pushedAuthnSession: an empty authorization_details list is not kept in the stored session *)
Definition par_stored_params (p : params) : params :=
  match p_auth_details p with Some [] => p <| p_auth_details := None |> | _ => p end.
Record preq := mkPReq { pr_cred : cred; pr_params : params; pr_bind : bind_in }.
Definition push_auth (w : world) (n : nat) (now : Z) (r : preq) : prog out :=
  let cfg := w_cfg w in
  if negb (cf_par_enabled cfg) then Ret (OErr EOther) else
  bind (authenticated w (pr_cred r)) (fun oc =>
  match oc with
  | None => Ret (OErr EInvalidClient)
  | Some c =>
    let p := pr_params r in
    if negb (is_nil (p_request_uri p)) then Ret (OErr EInvalidRequest) else
    let c' := client_for_par cfg c (p_redirect p) in
    let v := if is_fapi (cf_profile cfg) then validate_params cfg p c' else validate_optionals cfg p c' in
    match v with
    | Some (ALocal e) | Some (ARedirect e _) => Ret (OErr e)
    | None =>
      if andb (match cf_profile cfg with PFapi1 => true | _ => false end)
              (andb (cf_pkce_enabled cfg) (pk_is_empty (p_challenge p))) then Ret (OErr EInvalidRequest) else
      (* validateCodeBindingDPoP: a DPoP header, if present, must be valid and match dpop_jkt *)
      match (if cf_dpop_enabled cfg then
               match b_dpop (pr_bind r) with
               | Some pf => validate_jwt jwt_lifetime jwt_leeway pf 0 (p_dpop_jkt p)
               | None => None end
             else None) with
      | Some e => Ret (OErr e)
      | None =>
        let jkt := if cf_dpop_enabled cfg then
                     match b_dpop (pr_bind r) with Some pf => jwk_thumb (dp_jwk pf) | None => p_dpop_jkt p end
                   else 0%N in
        let s := (new_session n c (par_stored_params p)) <| a_par := mint n KParUri |>
                   <| a_expires := (now + cf_par_lifetime cfg)%Z |>
                   <| a_jkt := jkt |> <| a_x5t := set_pop_x5t cfg (pr_bind r) |> in
        save_a s (fun rs => match rs with RFail => Ret (OErr EInternalError) | _ => Ret (OPar (a_par s)) end)
      end
    end
  end).

(* POST /bc-authorize *)
Record breq := mkBReq { br_cred : cred; br_params : params; br_bind : bind_in; br_init_ok : bool;
                        br_sub : string; br_granted : string; br_granted_res : list string;
                        br_granted_details : list adetail }.
(* br_init_ok: the embedder's InitBackAuthFunc answer; the harness's function also fixes the
   subject and the granted scopes on the session, as a real one would *)
Definition init_back_auth (w : world) (n : nat) (now : Z) (r : breq) : prog out :=
  let cfg := w_cfg w in
  if negb (cf_ciba_enabled cfg) then Ret (OErr EOther) else
  bind (authenticated w (br_cred r)) (fun oc =>
  match oc with
  | None => Ret (OErr EInvalidClient)
  | Some c =>
    let p := br_params r in
    if negb (has_grant GCiba (c_grants c)) then Ret (OErr EUnauthorizedClient) else
    if andb (cf_openid_required cfg) (negb (contains_openid (p_scopes p))) then Ret (OErr EInvalidScope) else
    if andb (is_nil (p_notif_token p)) (ciba_is_notification (c_ciba_mode c)) then Ret (OErr EInvalidRequest) else
    if andb (negb (is_empty (p_user_code p))) (negb (andb (cf_ciba_user_code cfg) (c_user_code c)))
    then Ret (OErr EInvalidRequest) else
    if is_empty (p_login_hint p) then Ret (OErr EInvalidRequest) else     (* exactly one hint: only login_hint is sent *)
    match validate_optionals cfg p c with
    | Some (ALocal e) | Some (ARedirect e _) => Ret (OErr e)
    | None =>
      match (match c_ciba_mode c with CibaPush => validate_binding cfg c (br_bind r) no_opts | _ => None end) with
      | Some e => Ret (OErr e)
      | None =>
        let push := match c_ciba_mode c with CibaPush => true | _ => false end in
        let s := (new_session n c p) <| a_ciba := mint n KAuthReq |>
                   <| a_expires := (now + cf_ciba_lifetime cfg)%Z |>
                   <| a_jkt := if push then set_pop_jkt cfg (br_bind r) else 0%N |>
                   <| a_x5t := if push then set_pop_x5t cfg (br_bind r) else 0%N |>
                   <| a_subject := br_sub r |> <| a_granted := br_granted r |>
                   <| a_granted_res := br_granted_res r |> <| a_granted_details := br_granted_details r |> in
        if negb (br_init_ok r) then Ret (OErr EAccessDenied) else
        save_a s (fun rs =>
          match rs with RFail => Ret (OErr EInternalError)
          | _ => Ret (OCiba (a_ciba s) (ciba_is_pollable (c_ciba_mode c))) end)
      end
    end
  end).

(* ---- CIBA notifications triggered through the provider API ---- *)
Record notif := mkNotif { nf_ep : id; nf_bearer : id; nf_auth_req : id; nf_at : id; nf_rt : id; nf_err : bool;
                          nf_details : list adetail (* authorization_details of a pushed token response *) }.

(* result of NotifyCIBASuccess / NotifyCIBAFailure: error?, requests sent to notification endpoints *)
Definition notify_success (w : world) (n : nat) (now : Z) (a : id) (hg : hg_reply) : prog (bool * list notif) :=
  let cfg := w_cfg w in
  Do (AByCiba a) (fun rp =>
  match rp with
  | RASess s =>
    bind (get_client w (a_client s)) (fun oc =>
    match oc with
    | None => Ret (false, [])
    | Some c =>
      match c_ciba_mode c with
      | CibaPoll | CibaNone => Ret (true, [])
      | CibaPing => Ret (true, [mkNotif (c_notif_ep c) (p_notif_token (a_params s)) (a_ciba s) 0 0 false []])
      | CibaPush =>
        if geb now (a_expires s) then Ret (false, []) else
        Do (ADel (a_id s)) (fun rd =>
        match rd with
        | RFail => Ret (false, [])
        | _ =>
          match hg_result hg with
          | Some _ => Ret (false, [])
          | None =>
            let '(tv, tid) := make_token n c GCiba in
            let g := with_refresh n now cfg c
                       (new_grant n now cfg tid GCiba (a_subject s) (a_client s) (a_granted s) (a_granted s)
                          (a_jkt s) (a_x5t s) (grant_granted_res cfg (a_granted_res s)) (grant_granted_res cfg (a_granted_res s))
                          (grant_granted_details cfg (a_granted_details s)) (grant_granted_details cfg (a_granted_details s))) in
            Do (GSave g) (fun rs =>
            match rs with
            | RFail => Ret (false, [])
            | _ => Ret (true, [mkNotif (c_notif_ep c) (p_notif_token (a_params s)) (a_ciba s) tv (g_refresh g) false (g_active_details g)])
            end)
          end
        end)
      end
    end)
  | _ => Ret (false, [])
  end).

Definition notify_failure (w : world) (a : id) : prog (bool * list notif) :=
  Do (AByCiba a) (fun rp =>
  match rp with
  | RASess s =>
    bind (get_client w (a_client s)) (fun oc =>
    match oc with
    | None => Ret (false, [])
    | Some c =>
      match c_ciba_mode c with
      | CibaPoll | CibaNone => Ret (true, [])
      | CibaPing => Ret (true, [mkNotif (c_notif_ep c) (p_notif_token (a_params s)) (a_ciba s) 0 0 false []])
      | CibaPush =>
        Do (ADel (a_id s)) (fun rd =>
        match rd with
        | RFail => Ret (false, [])
        | _ => Ret (true, [mkNotif (c_notif_ep c) (p_notif_token (a_params s)) (a_ciba s) 0 0 true []])
        end)
      end
    end)
  | _ => Ret (false, [])
  end).
