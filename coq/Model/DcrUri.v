(* DcrUri.v — the registration_client_uri of a dynamic registration as a STRING, under a path prefix
   and an overridden registration endpoint.
   Model/Dcr.v keeps the member abstract (`JRegUri h` = "BaseURL + EndpointDCR + / + the client id
   with handle h"); here it is rendered the way internal/dcr/util.go registrationURI builds it,
       ctx.BaseURL() + ctx.EndpointDCR + "/" + id         (BaseURL() = Host + EndpointPrefix),
   over the configuration records of Model/Routes.v (build3: the option list of provider.New with
   WithPathPrefix and WithDCREndpoint as inputs), and FOLLOWED: the request a client makes when it
   uses the returned string literally is dispatched by the route table of Provider.Handler()
   (Routes.routes3 / serve3; internal/dcr/api.go RegisterHandlers registers
   METHOD EndpointPrefix + EndpointDCR + "/{client_id}" for PUT, GET and DELETE), which binds the
   wildcard {client_id} that internal/dcr/api.go hands to update / fetch / remove. *)
From Verif Require Import Base Scope Types Config Discovery Routes Dcr.

(* internal/dcr/util.go registrationURI (host = Configuration.Host, the issuer) *)
Definition registration_uri (host : string) (pc : pcfg) (cid : string) : string :=
  host ++ cf_prefix (pc_cfg pc) ++ pa_dcr (pc_paths pc) ++ "/" ++ cid.

(* no "/" in a string: a client id is one path segment ({client_id} matches exactly one) *)
Fixpoint no_slash (s : string) : bool :=
  match s with
  | EmptyString => true
  | String c r => if Ascii.eqb c "/"%char then false else no_slash r
  end.

(* what ServeMux binds to {client_id} when the pattern prefix ++ EndpointDCR ++ "/{client_id}" matches:
   exactly one non-empty path segment (Routes.route_matches reads a sub-resource pattern loosely, as
   "any non-empty rest" - right for the callback patterns, which also register /{x}/{rest...}) *)
Definition dcr_wildcard (pc : pcfg) (path : string) : option string :=
  match strip_prefix (cf_prefix (pc_cfg pc)) path with
  | Some rel =>
      match strip_prefix (pa_dcr (pc_paths pc) ++ "/") rel with
      | Some rest => if orb (is_empty rest) (negb (no_slash rest)) then None else Some rest
      | None => None
      end
  | None => None
  end.

(* a client that follows `url` literally sends its request to the server at `host` with the rest of
   the URL as the path; any other host is not this server *)
Definition follow (host : string) (pc : pcfg) (m : meth) (url : string) : option endpoint :=
  match strip_prefix host url with
  | Some path => serve3 pc m path
  | None => None
  end.

(* ... and the registered-client handlers then address the client named by the wildcard *)
Definition follow_client (host : string) (pc : pcfg) (m : meth) (url : string) : option string :=
  match strip_prefix host url with
  | Some path =>
      match serve3 pc m path with
      | Some EpDcrClient => dcr_wildcard pc path
      | _ => None
      end
  | None => None
  end.

(* the two sub-resource roots of the route table (callbacks below EndpointAuthorize, registered
   clients below EndpointDCR) are apart: a path below the registration endpoint is never also a
   callback path.  ServeMux itself refuses to register "GET <a>/{x}/{rest...}" next to
   "GET <a>/<b>/{client_id}" style conflicts only partly; with the default paths and with every
   override the generator produces the condition holds (checked per case: corr = 40001). *)
Definition sub_roots_apart (pc : pcfg) : bool :=
  match strip_prefix (pa_authorize (pc_paths pc) ++ "/") (pa_dcr (pc_paths pc) ++ "/") with
  | Some _ => false
  | None => true
  end.

(* the member as the response carries it: the rendering of Dcr.JRegUri under a naming of the minted
   handles by the strings the server generated *)
Definition rendered_uri (host : string) (pc : pcfg) (name : id -> string) (d : doc) : option string :=
  match dget "registration_client_uri" d with
  | Some (JRegUri h) => Some (registration_uri host pc (name h))
  | _ => None
  end.

(* one management request addressed by URL instead of by client handle: the route table decides
   whether a registered-client handler runs and for which client id; `resolve` maps the id string
   back to the handle the model's state uses (None: no such client was ever minted: the handler
   answers as for an unknown id) *)
Definition url_op (host : string) (pc : pcfg) (resolve : string -> option id)
                  (m : meth) (url : string) (t : ptoken) (b : option doc) (hk : hook) : option dcr_op :=
  match follow_client host pc m url with
  | Some w =>
      let cid := match resolve w with Some h => h | None => nil_id end in
      match m with
      | MGet => Some (Read cid t)
      | MPut => Some (Update cid t b hk)
      | MDelete => Some (Delete cid t)
      | MPost => None
      end
  | None => None
  end.
