(* Discovery.v — the discovery document and the route table, both as functions of the
   configuration, transcribed from internal/discovery/util.go (oidcConfig), model.go (member
   names and omitempty tags), pkg/provider/provider.go (Handler, setDefaults: default paths) and
   the RegisterHandlers of internal/{discovery,token,authorize,userinfo,dcr}/api.go.

   The members whose source is an option Config.v does not model (authentication method lists,
   signature algorithm lists, subject types, delivery modes, the mTLS host) take the value the
   harness's embedder passes (harness/world.go newProvider) — they are the section "embedder
   constants" below; everything else is computed from `config`. *)
From Verif Require Import Base Scope Types Config.

(* ---- values of metadata members ---- *)
Inductive dval :=
  | DStr (s : string)
  | DBool (b : bool)
  | DSet (l : list string)                    (* JSON array, compared as a set *)
  | DObj (l : list (string * string)).        (* mtls_endpoint_aliases *)

(* `json:",omitempty"` *)
Definition omit_empty (v : dval) : option dval :=
  match v with
  | DStr s => if is_empty s then None else Some v
  | DBool false => None
  | DSet [] => None
  | _ => Some v
  end.

(* ---- endpoints, default paths (pkg/provider/default.go; no endpoint override is modelled) ---- *)
Inductive endpoint :=
  | EpWellKnown | EpJWKS | EpToken | EpAuthorize | EpAuthorizeCb | EpUserInfo
  | EpPar | EpCiba | EpIntrospect | EpRevoke | EpDcr | EpDcrClient.
Definition ep_eqb (a b : endpoint) : bool :=
  match a, b with
  | EpWellKnown, EpWellKnown | EpJWKS, EpJWKS | EpToken, EpToken | EpAuthorize, EpAuthorize
  | EpAuthorizeCb, EpAuthorizeCb | EpUserInfo, EpUserInfo | EpPar, EpPar | EpCiba, EpCiba
  | EpIntrospect, EpIntrospect | EpRevoke, EpRevoke | EpDcr, EpDcr | EpDcrClient, EpDcrClient => true
  | _, _ => false end.
Definition ep_ix (e : endpoint) : N :=
  match e with EpWellKnown => 1 | EpJWKS => 2 | EpToken => 3 | EpAuthorize => 4 | EpAuthorizeCb => 5
  | EpUserInfo => 6 | EpPar => 7 | EpCiba => 8 | EpIntrospect => 9 | EpRevoke => 10 | EpDcr => 11
  | EpDcrClient => 12 end%N.

(* the path of the collection; the two sub-resource endpoints live below /authorize and /register *)
Definition ep_path (e : endpoint) : string :=
  match e with
  | EpWellKnown => "/.well-known/openid-configuration"
  | EpJWKS => "/jwks"
  | EpToken => "/token"
  | EpAuthorize | EpAuthorizeCb => "/authorize"
  | EpUserInfo => "/userinfo"
  | EpPar => "/par"
  | EpCiba => "/bc-authorize"
  | EpIntrospect => "/introspect"
  | EpRevoke => "/revoke"
  | EpDcr | EpDcrClient => "/register"
  end.

Inductive meth := MGet | MPost | MPut | MDelete.
Definition meth_eqb (a b : meth) : bool :=
  match a, b with MGet, MGet | MPost, MPost | MPut, MPut | MDelete, MDelete => true | _, _ => false end.

(* ---- the route table: Provider.Handler() = discovery, token, authorize, userinfo, dcr ---- *)
Record route := mkRoute { r_meth : meth; r_path : string; r_sub : bool; r_ep : endpoint }.
(* r_sub: the pattern is r_path ++ "/{x}" (authorize: also "/{x}/{rest...}") *)

Definition rt (m : meth) (e : endpoint) : route :=
  mkRoute m (ep_path e) (match e with EpAuthorizeCb | EpDcrClient => true | _ => false end) e.

Definition routes (c : config) : list route :=
  (* discovery.RegisterHandlers *)
  [rt MGet EpJWKS; rt MGet EpWellKnown] ++
  (* token.RegisterHandlers *)
  [rt MPost EpToken] ++
  (if cf_introspection c then [rt MPost EpIntrospect] else []) ++
  (if cf_revocation c then [rt MPost EpRevoke] else []) ++
  (* authorize.RegisterHandlers *)
  (if cf_par_enabled c then [rt MPost EpPar] else []) ++
  (if cf_ciba_enabled c then [rt MPost EpCiba] else []) ++
  [rt MGet EpAuthorize; rt MPost EpAuthorize; rt MPost EpAuthorizeCb; rt MGet EpAuthorizeCb] ++
  (* userinfo.RegisterHandlers *)
  [rt MPost EpUserInfo; rt MGet EpUserInfo] ++
  (* dcr.RegisterHandlers *)
  (if cf_dcr c then [rt MPost EpDcr; rt MPut EpDcrClient; rt MGet EpDcrClient; rt MDelete EpDcrClient] else []).

(* strings.CutPrefix *)
Fixpoint strip_prefix (p s : string) : option string :=
  match p, s with
  | EmptyString, _ => Some s
  | String a p', String b s' => if Ascii.eqb a b then strip_prefix p' s' else None
  | _, _ => None
  end.

(* does the pattern of r match the path `rel` (relative to the common prefix)? *)
Definition route_matches (r : route) (m : meth) (rel : string) : bool :=
  andb (meth_eqb (r_meth r) m)
       (if r_sub r then
          match strip_prefix (r_path r ++ "/") rel with
          | Some rest => negb (is_empty rest)
          | None => false
          end
        else seqb (r_path r) rel).

(* ServeMux dispatch: which endpoint answers `m path`; None = 404/405.  Every pattern starts
   with the configured prefix. *)
Definition serve (c : config) (m : meth) (path : string) : option endpoint :=
  match strip_prefix (cf_prefix c) path with
  | Some rel => option_map r_ep (find (fun r => route_matches r m rel) (routes c))
  | None => None
  end.

(* ---- embedder constants: what harness/world.go passes for options Config.v does not model ---- *)
Definition k_id_token_sig_algs : list string := ["ES256"].          (* WithIDTokenSignatureAlgs(ES256) *)
Definition k_authn_methods : list string := ["client_secret_post"; "none"].   (* WithTokenAuthnMethods / introspection / revocation *)
Definition k_subject_types : list string := ["public"; "pairwise"]. (* WithSubIdentifierTypes *)
Definition k_claim_types : list string := ["normal"].               (* setDefaults *)
Definition k_sig_algs : list string := ["ES256"].                   (* WithJAR / WithJARM / WithDPoP / WithCIBAJAR (ES256) *)
Definition k_ciba_modes : list string := ["poll"; "ping"; "push"].  (* WithCIBAGrant(..., poll, ping, push) *)

Definition grant_name (g : grant_type) : string :=
  match g with
  | GClientCredentials => "client_credentials"
  | GAuthorizationCode => "authorization_code"
  | GRefreshToken => "refresh_token"
  | GImplicit => "implicit"
  | GJwtBearer => "urn:ietf:params:oauth:grant-type:jwt-bearer"
  | GCiba => "urn:openid:params:grant-type:ciba"
  end.

(* ---- the members of openIDConfiguration, in the order of the struct ---- *)
Inductive member :=
  | MIssuer | MRegistrationEndpoint | MAuthorizationEndpoint | MTokenEndpoint | MUserinfoEndpoint | MJwksUri
  | MParEndpoint | MRequirePar | MResponseTypes | MResponseModes | MGrantTypes | MScopes
  | MClaimTypes | MSubjectTypes | MIdTokenSigAlgs | MTokenAuthMethods
  | MRequestParameter | MRequireSignedRequestObject | MRequestObjectSigAlgs | MRequestUriParameter
  | MJarmSigAlgs | MIssParameter | MDpopSigAlgs
  | MIntrospectionEndpoint | MIntrospectionAuthMethods | MRevocationEndpoint | MRevocationAuthMethods
  | MCibaModes | MCibaEndpoint | MCibaJarSigAlgs | MCibaUserCode
  | MMtlsAliases | MTlsBoundTokens | MCodeChallengeMethods.

Definition all_members : list member :=
  [MIssuer; MRegistrationEndpoint; MAuthorizationEndpoint; MTokenEndpoint; MUserinfoEndpoint; MJwksUri;
   MParEndpoint; MRequirePar; MResponseTypes; MResponseModes; MGrantTypes; MScopes;
   MClaimTypes; MSubjectTypes; MIdTokenSigAlgs; MTokenAuthMethods;
   MRequestParameter; MRequireSignedRequestObject; MRequestObjectSigAlgs; MRequestUriParameter;
   MJarmSigAlgs; MIssParameter; MDpopSigAlgs;
   MIntrospectionEndpoint; MIntrospectionAuthMethods; MRevocationEndpoint; MRevocationAuthMethods;
   MCibaModes; MCibaEndpoint; MCibaJarSigAlgs; MCibaUserCode;
   MMtlsAliases; MTlsBoundTokens; MCodeChallengeMethods].

Definition member_name (m : member) : string :=
  match m with
  | MIssuer => "issuer"
  | MRegistrationEndpoint => "registration_endpoint"
  | MAuthorizationEndpoint => "authorization_endpoint"
  | MTokenEndpoint => "token_endpoint"
  | MUserinfoEndpoint => "userinfo_endpoint"
  | MJwksUri => "jwks_uri"
  | MParEndpoint => "pushed_authorization_request_endpoint"
  | MRequirePar => "require_pushed_authorization_requests"
  | MResponseTypes => "response_types_supported"
  | MResponseModes => "response_modes_supported"
  | MGrantTypes => "grant_types_supported"
  | MScopes => "scopes_supported"
  | MClaimTypes => "claim_types_supported"
  | MSubjectTypes => "subject_types_supported"
  | MIdTokenSigAlgs => "id_token_signing_alg_values_supported"
  | MTokenAuthMethods => "token_endpoint_auth_methods_supported"
  | MRequestParameter => "request_parameter_supported"
  | MRequireSignedRequestObject => "require_signed_request_object"
  | MRequestObjectSigAlgs => "request_object_signing_alg_values_supported"
  | MRequestUriParameter => "request_uri_parameter_supported"
  | MJarmSigAlgs => "authorization_signing_alg_values_supported"
  | MIssParameter => "authorization_response_iss_parameter_supported"
  | MDpopSigAlgs => "dpop_signing_alg_values_supported"
  | MIntrospectionEndpoint => "introspection_endpoint"
  | MIntrospectionAuthMethods => "introspection_endpoint_auth_methods_supported"
  | MRevocationEndpoint => "revocation_endpoint"
  | MRevocationAuthMethods => "revocation_endpoint_auth_methods_supported"
  | MCibaModes => "backchannel_token_delivery_modes_supported"
  | MCibaEndpoint => "backchannel_authentication_endpoint"
  | MCibaJarSigAlgs => "backchannel_authentication_request_signing_alg_values_supported"
  | MCibaUserCode => "backchannel_user_code_parameter_supported"
  | MMtlsAliases => "mtls_endpoint_aliases"
  | MTlsBoundTokens => "tls_client_certificate_bound_access_tokens"
  | MCodeChallengeMethods => "code_challenge_methods_supported"
  end.

(* the members that carry the URL of an endpoint *)
Definition member_endpoint (m : member) : option endpoint :=
  match m with
  | MRegistrationEndpoint => Some EpDcr
  | MAuthorizationEndpoint => Some EpAuthorize
  | MTokenEndpoint => Some EpToken
  | MUserinfoEndpoint => Some EpUserInfo
  | MJwksUri => Some EpJWKS
  | MParEndpoint => Some EpPar
  | MIntrospectionEndpoint => Some EpIntrospect
  | MRevocationEndpoint => Some EpRevoke
  | MCibaEndpoint => Some EpCiba
  | _ => None
  end.

(* the methods under which an advertised endpoint has to answer *)
Definition ep_methods (e : endpoint) : list meth :=
  match e with
  | EpWellKnown | EpJWKS => [MGet]
  | EpAuthorize | EpAuthorizeCb | EpUserInfo => [MGet; MPost]
  | EpDcrClient => [MGet; MPut; MDelete]
  | _ => [MPost]
  end.

Section Document.
  Variable iss : string.        (* Configuration.Host *)
  Variable mtls : string.       (* Configuration.MTLSHost *)
  Variable c : config.

  (* ctx.BaseURL() + endpoint *)
  Definition ep_url (e : endpoint) : string := iss ++ cf_prefix c ++ ep_path e.
  Definition ep_mtls_url (e : endpoint) : string := mtls ++ cf_prefix c ++ ep_path e.

  Definition mtls_aliases : list (string * string) :=
    [("token_endpoint", ep_mtls_url EpToken); ("userinfo_endpoint", ep_mtls_url EpUserInfo)] ++
    (if cf_par_enabled c then [("pushed_authorization_request_endpoint", ep_mtls_url EpPar)] else []) ++
    (if cf_dcr c then [("registration_endpoint", ep_mtls_url EpDcr)] else []) ++
    (if cf_introspection c then [("introspection_endpoint", ep_mtls_url EpIntrospect)] else []) ++
    (if cf_revocation c then [("revocation_endpoint", ep_mtls_url EpRevoke)] else []) ++
    (if cf_ciba_enabled c then [("backchannel_authentication_endpoint", ep_mtls_url EpCiba)] else []).

  (* the value oidcConfig assigns (zero value when the guarding `if` is not taken) *)
  Definition member_raw (m : member) : dval :=
    match m with
    | MIssuer => DStr iss
    | MRegistrationEndpoint => DStr (if cf_dcr c then ep_url EpDcr else "")
    | MAuthorizationEndpoint => DStr (ep_url EpAuthorize)
    | MTokenEndpoint => DStr (ep_url EpToken)
    | MUserinfoEndpoint => DStr (ep_url EpUserInfo)
    | MJwksUri => DStr (ep_url EpJWKS)
    | MParEndpoint => DStr (if cf_par_enabled c then ep_url EpPar else "")
    | MRequirePar => DBool (andb (cf_par_enabled c) (cf_par_required c))
    | MResponseTypes => DSet (cf_resp_types c)
    | MResponseModes => DSet (cf_resp_modes c)
    | MGrantTypes => DSet (map grant_name (cf_grants c))
    | MScopes => DSet (map sc_id (cf_scopes c))
    | MClaimTypes => DSet k_claim_types
    | MSubjectTypes => DSet k_subject_types
    | MIdTokenSigAlgs => DSet k_id_token_sig_algs
    | MTokenAuthMethods => DSet k_authn_methods
    | MRequestParameter => DBool (cf_jar_enabled c)
    | MRequireSignedRequestObject => DBool (andb (cf_jar_enabled c) (cf_jar_required c))
    | MRequestObjectSigAlgs => DSet (if cf_jar_enabled c then k_sig_algs else [])
    | MRequestUriParameter => DBool (andb (cf_jar_enabled c) (cf_jar_by_reference c))
    | MJarmSigAlgs => DSet (if cf_jarm_enabled c then k_sig_algs else [])
    | MIssParameter => DBool (cf_issuer_param c)
    | MDpopSigAlgs => DSet (if cf_dpop_enabled c then k_sig_algs else [])
    | MIntrospectionEndpoint => DStr (if cf_introspection c then ep_url EpIntrospect else "")
    | MIntrospectionAuthMethods => DSet (if cf_introspection c then k_authn_methods else [])
    | MRevocationEndpoint => DStr (if cf_revocation c then ep_url EpRevoke else "")
    | MRevocationAuthMethods => DSet (if cf_revocation c then k_authn_methods else [])
    | MCibaModes => DSet (if cf_ciba_enabled c then k_ciba_modes else [])
    | MCibaEndpoint => DStr (if cf_ciba_enabled c then ep_url EpCiba else "")
    | MCibaJarSigAlgs => DSet (if andb (cf_ciba_enabled c) (cf_ciba_jar_enabled c) then k_sig_algs else [])
    | MCibaUserCode => DBool (andb (cf_ciba_enabled c) (cf_ciba_user_code c))
    | MMtlsAliases => DObj (if cf_mtls_enabled c then mtls_aliases else [])
    | MTlsBoundTokens => DBool (andb (cf_mtls_enabled c) (cf_tls_binding_enabled c))
    | MCodeChallengeMethods => DSet (if cf_pkce_enabled c then cf_pkce_methods c else [])
    end.

  (* members without omitempty are always written; the aliases object is a nil pointer unless mTLS is on *)
  Definition always_written (m : member) : bool :=
    match m with
    | MIssuer | MAuthorizationEndpoint | MTokenEndpoint | MUserinfoEndpoint | MJwksUri | MScopes | MIdTokenSigAlgs => true
    | _ => false
    end.

  Definition member_value (m : member) : option dval :=
    match m with
    | MMtlsAliases => if cf_mtls_enabled c then Some (member_raw m) else None
    | _ => if always_written m then Some (member_raw m) else omit_empty (member_raw m)
    end.

  Definition document : list (string * dval) :=
    flat_map (fun m => match member_value m with Some v => [(member_name m, v)] | None => [] end) all_members.

  (* set-valued lookups used by the capability theorems and monitors *)
  Definition advertised_in (m : member) (x : string) : bool :=
    match member_value m with Some (DSet l) => mem x l | _ => false end.
  Definition advertised (m : member) : bool :=
    match member_value m with Some _ => true | None => false end.
End Document.
