(* ArtifactsX.v — inputs that Artifacts.v does not carry, added as NEW definitions:
   * how the provider is mounted: EndpointPrefix (provider.WithPathPrefix) and what discovery says
     about it — internal/discovery/util.go: Issuer = ctx.Host, every endpoint = ctx.BaseURL() + path,
     internal/oidc/context.go: BaseURL() = Host + EndpointPrefix;
   * how keys are handled: SignerFunc (provider.WithSignFunc) and DecrypterFunc
     (provider.WithDecryptFunc) — internal/joseutil/util.go Sign / Decrypt, and ctx.PublicJWKS, which
     looks at NEITHER: every key JWKSFunc returns goes through jwk.Public();
   * every way a registration makes a client's subject pairwise (ctx.shouldGeneratePairwiseSub):
     subject_type = pairwise, or subject_type absent while the provider's DEFAULT subject type
     (first argument of provider.WithSubIdentifierTypes) is pairwise; the sector identifier URI is
     validated at registration (internal/dcr/validation.go) and is otherwise only an input of the
     embedder's GeneratePairwiseSubIDFunc: it never decides whether the subject is pairwise.
   Tree with fix: commits. *)
From Verif Require Import Base Scope Types Prog Pop Token Authorize Artifacts.
Local Open Scope N_scope.

(* ---- mounting and key handling ---- *)
Record keyhandling := mkKeyHandling {
  kh_prefix : string;                               (* EndpointPrefix; "" = none *)
  kh_signer : option (list (sigalg * (string * N))); (* SignerFunc: alg -> (kid, key pair); None = nil *)
  kh_decrypter : bool                                (* DecrypterFunc != nil *)
}.
Definition kh_default : keyhandling := mkKeyHandling "" None false.

(* ctx.BaseURL *)
Definition base_url (cfg : acfg) (kh : keyhandling) : string := ac_host cfg ++ kh_prefix kh.
(* discovery.NewOIDCConfig (the members the artifacts are judged against) *)
Definition discovery_issuer (cfg : acfg) (kh : keyhandling) : string := ac_host cfg.
Definition discovery_jwks_uri (cfg : acfg) (kh : keyhandling) : string := base_url cfg kh ++ "/jwks".
Definition discovery_userinfo_endpoint (cfg : acfg) (kh : keyhandling) : string := base_url cfg kh ++ "/userinfo".

(* ctx.PublicJWKS under any key handling: the public projection of EVERY key of the set, sig or enc,
   whether or not signing / decryption are delegated *)
Definition public_jwks_x (cfg : acfg) (kh : keyhandling) : list jwk := map jwk_public (ac_keys cfg).

Fixpoint signer_lookup (a : sigalg) (l : list (sigalg * (string * N))) : option (string * N) :=
  match l with
  | [] => None
  | (b, r) :: l' => if sigalg_eqb a b then Some r else signer_lookup a l'
  end.

(* joseutil.Sign: SignerFunc when set (its kid, its key), else the key set *)
Definition sign_x {C} (cfg : acfg) (kh : keyhandling) (claims : C) (a : sigalg) (typ : string) : option (jws C) :=
  match kh_signer kh with
  | None => sign cfg claims a typ
  | Some l =>
      match signer_lookup a l with
      | Some (kid, kp) => Some (mkJws kp a kid (if is_empty typ then "JWT" else typ) claims)
      | None => None
      end
  end.

(* what the embedder owes when signing is delegated: every key the signer uses is in the key set
   (possibly without its private half) under the kid the signer names, registered for the algorithm *)
Definition signer_consistent (cfg : acfg) (kh : keyhandling) : Prop :=
  match kh_signer kh with
  | None => True
  | Some l => forall a kid kp, signer_lookup a l = Some (kid, kp) ->
      exists k, In k (ac_keys cfg) /\ k_kid k = kid /\ k_pair k = kp /\
                kalg_is a (k_alg k) = true /\ alg_fits (k_kty k) a = true
  end.

(* joseutil.Decrypt: which key opens a JWE addressed to kid — the embedder's decrypter, else the
   private enc key of the set *)
Inductive decrypt_key := DkExternal | DkSet (pair : N) | DkNone.
Definition decrypt_with (cfg : acfg) (kh : keyhandling) (kid : string) : decrypt_key :=
  if kh_decrypter kh then DkExternal
  else match find (fun k => seqb (k_kid k) kid) (ac_keys cfg) with
       | Some k => match k_use k with UseEnc => if k_priv k then DkSet (k_pair k) else DkNone | UseSig => DkNone end
       | None => DkNone
       end.

(* ---- the metadata a relying party starts from: issuer, jwks_uri, and the keys published there ---- *)
Definition kalg_ix (k : kalg) : N := match k with ASig a => sigalg_ix a | AEnc n => 100 + n end.

(* ---- subjects: where a client's pairwise subject comes from ---- *)
Inductive pw_origin := PwExplicit | PwByDefault | PwNot.
Definition pw_origin_of (cfg : acfg) (c : aclient) : pw_origin :=
  match acl_sub_type c with
  | Some true => PwExplicit
  | Some false => PwNot
  | None => if ac_default_pairwise cfg then PwByDefault else PwNot
  end.

(* the flow model's client (Types.v: c_pairwise is the EFFECTIVE subject type) seen as a registration
   with subject_type st *)
Definition aclient_of_reg (c : client) (st : option bool) : aclient :=
  mkAClient (cname (c_id c)) None None None None (if c_jarm_alg c then Some ES256 else None) None st.
