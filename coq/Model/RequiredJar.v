(* RequiredJar.v — C11 for requests that carry a request object.

   Required.v puts the request-object decisions in front of the handlers of Authorize.v only as
   gates ("a request without object is refused when objects are required").  This file extends the
   step function of C11 to requests WITH a request object, by value or by reference at /authorize
   and by value at /par, using the transcription of jar.go / validation.go in Model/Jar.v
   (init_auth_jar, push_auth_jar, jar_session; init_back_auth_jar for /bc-authorize, whose decision
   shouldUseJARDuringCIBA also reads the client's registered CIBA request signing algorithm).  What it adds to the model of C11 is WHICH parameter
   set the required mechanisms (PKCE, nonce and response-type rules of the profiles, openid scope,
   dpop_jkt) are looked for in, and which one the session is built from:

     /authorize, OpenID profile : validated and stored = object's parameters, the outer ones filling
                                  the gaps (merge_params inner outer);
     /authorize, FAPI profiles  : validated = the object's parameters ALONE (validateRequestWithJAR
                                  runs validateParams on jar.AuthorizationParameters) and the merged
                                  ones; stored = the object's alone (authnSessionWithJAR);
     /par                       : validated and stored = the object's parameters alone, under every
                                  profile (validatePushedRequestWithJAR).

   `session_source` is that parameter set; Proofs/C11JarProofs.v shows that a request served
   through an object has session_source pass validate_params, and that the stored session is
   new_session of exactly session_source. *)
From Verif Require Import Base Scope Types Prog Pop Token Authorize System Config Required Jar.
Local Open Scope N_scope.

Inductive gop :=
  | GAuthorize (q : jareq)                          (* /authorize: outer parameters + request / request_uri *)
  | GPar (r : preq) (o : option req_object)         (* /par: outer parameters + request *)
  | GBc (r : breq) (o : option req_object)          (* /bc-authorize: outer parameters + request; the client's
                                                       registered CIBA request signing algorithm (jworld) makes
                                                       the object mandatory where the server has CIBA JAR enabled *)
  | GBase (o : op).                                 (* every other operation, as in Required.step_g *)

(* the parameters an authorization started through the request object j is built from *)
Definition session_source (cfg : config) (outer : params) (j : jar_req) : params :=
  if is_fapi (cf_profile cfg) then jr_params j else merge_params (jr_params j) outer.

(* the parameters a pushed request with object j is built from: the outer ones are not looked at *)
Definition pushed_source (j : jar_req) : params := jr_params j.

(* is the request object the thing /authorize acts on (authnSession: PAR first, then JAR)? *)
Definition object_in_effect (cfg : config) (c : client) (q : jareq) : bool :=
  andb (negb (should_use_par cfg (ar_params (jq_req q)) c))
       (should_use_jar cfg (ar_params (jq_req q)) c (jq_jar q)).

(* a mechanism is "inside the object" / "outside" *)
Definition inside (o : req_object) : params := jr_params (contents o).

(* the required mechanisms validate_params looks for in a parameter set, as a clause number of the
   C11 monitor (Corr/C11.v): 4 PKCE, 5 openid scope, 6 resource indicators, 10 profile rules;
   0 = the set carries them all.  Proofs/C11JarProofs.v: validate_params accepts only sets with 0. *)
Definition mech_missing (cfg : config) (c : client) (p : params) : N :=
  if andb (pk_is_empty (p_challenge p)) (orb (cf_pkce_required cfg) (andb (cf_pkce_enabled cfg) (c_public c))) then 4 else
  if andb (cf_openid_required cfg) (negb (contains_openid (p_scopes p))) then 5 else
  if andb (cf_resource_required cfg) (no_res (p_resources p)) then 6 else
  match cf_profile cfg with
  | PFapi1 =>
      if negb (orb (seqb (p_resp_type p) "code") (seqb (p_resp_type p) "code id_token")) then 10 else
      if andb (seqb (p_resp_type p) "code") (negb (seqb (p_resp_mode p) "jwt")) then 10 else
      if andb (contains_openid (p_scopes p)) (is_empty (p_nonce p)) then 10 else 0
  | PFapi2 => if negb (seqb (p_resp_type p) "code") then 10 else 0
  | POpenID => 0
  end.

Definition handler_gj (w : world) (jx : jworld) (n : nat) (now : Z) (o : gop) : prog obs :=
  let lift (p : prog out) := bind p (fun x => Ret (Out x)) in
  match o with
  | GAuthorize q => lift (init_auth_jar w jx n now q)
  | GPar r ob => lift (push_auth_jar w jx n now r ob)
  | GBc r ob => lift (init_back_auth_jar w jx n now r ob)
  | GBase o => handler_g w n now o
  end.

Definition step_gj (w : world) (jx : jworld) (st : state) (n : nat) (o : gop) : state * obs :=
  match o with
  | GBase (OpTick d) => (mkState (s_store st) (s_now st + d)%Z, Out OOk)
  | _ => let '(sto, x) := run_seq (handler_gj w jx n (s_now st) o) (s_store st) in (mkState sto (s_now st), x)
  end.

Fixpoint run_from_gj (w : world) (jx : jworld) (st : state) (n : nat) (ops : list gop) : state * list (obs * store) :=
  match ops with
  | [] => (st, [])
  | o :: rest =>
      let '(st', x) := step_gj w jx st n o in
      let '(st'', tr) := run_from_gj w jx st' (S n) rest in
      (st'', (x, s_store st') :: tr)
  end.
(* the answers, each with the store it left behind (the correspondence reads the stored session back) *)
Definition run_gj (w : world) (jx : jworld) (dyn : list client) (ops : list gop) : list (obs * store) :=
  snd (run_from_gj w jx (init_state dyn) 0%nat ops).
