(* DcrUse.v — the credentials a registration returns, USED: at the token, introspection and
   revocation endpoints, with each of the three authentication methods that rest on the client secret.

   Transcribed from internal/clientutil/authn.go (Authenticated, authenticate, authnMethod,
   authenticateSecretPost / SecretBasic / SecretJWT, validateSecret, authnSigAlgs), on the client
   store of Model/Dcr.v.  The secret a registration answers with is ONE string; util.go setSecret keeps
   its bcrypt hash (client_secret_basic / client_secret_post at any enabled endpoint) and / or the
   string itself (client_secret_jwt at any enabled endpoint: it is the HMAC key of the assertions).

   The requests are the ones suite c12 sends:
     SmPost   client_id and client_secret in the form
     SmBasic  Authorization: Basic client_id:client_secret
     SmJwt    client_assertion = HS256(secret){iss = sub = client_id, aud = issuer, exp, jti} and its type
   at  EpToken      POST /token       grant_type=client_credentials (no scope)
       EpIntrospect POST /introspect  token=<some string>   (IsClientAllowedTokenIntrospection: yes)
       EpRevoke     POST /revoke      token=<some string>   (IsClientAllowedTokenRevocation: yes)
   The observation is DTok ok: 200 (with an access_token member at /token) or not. *)
From Verif Require Import Base Types Dcr.
Local Open Scope N_scope.

Inductive endpoint := EpToken | EpIntrospect | EpRevoke.
Inductive smethod := SmPost | SmBasic | SmJwt.

Definition ep_enabled (cfg : dcfg) (ep : endpoint) : bool :=
  match ep with EpToken => true | EpIntrospect => d_introspection cfg | EpRevoke => d_revocation cfg end.

(* clientutil.authnMethod: the endpoint's own method if the client registered one, else the token endpoint's *)
Definition effective_method (ep : endpoint) (m : meta) : jval :=
  match ep with
  | EpRevoke => if negb (v_empty (gstr "revocation_endpoint_auth_method" m))
                then gstr "revocation_endpoint_auth_method" m else gstr "token_endpoint_auth_method" m
  | EpIntrospect => if negb (v_empty (gstr "introspection_endpoint_auth_method" m))
                    then gstr "introspection_endpoint_auth_method" m else gstr "token_endpoint_auth_method" m
  | EpToken => gstr "token_endpoint_auth_method" m
  end.

Definition method_name (sm : smethod) : string :=
  match sm with SmPost => "client_secret_post" | SmBasic => "client_secret_basic" | SmJwt => "client_secret_jwt" end.

(* clientutil.authnSigAlgs for client_secret_jwt: the endpoint's registered signing algorithm alone if
   there is one, else the server's list; the harness signs with HS256 *)
Definition alg_key (ep : endpoint) : string :=
  match ep with
  | EpToken => "token_endpoint_auth_signing_alg"
  | EpIntrospect => "introspection_endpoint_auth_signing_alg"
  | EpRevoke => "revocation_endpoint_auth_signing_alg" end.
Definition hs256_allowed (cfg : dcfg) (ep : endpoint) (m : meta) : bool :=
  let a := gstr (alg_key ep) m in
  if v_empty a then mem "HS256" (d_secretjwt_algs cfg) else v_is a "HS256".

(* HMAC verification with the stored plaintext: succeeds iff the assertion was keyed with that very
   string (go-jose refuses an empty key) *)
Definition key_matches (stored presented : id) : bool :=
  andb (negb (is_nil stored)) (andb (negb (is_nil presented)) (ideq stored presented)).

(* clientutil.extractID: the request must name the client.  The form field and the Basic header do;
   the issuer of an assertion is read after jwt.ParseSigned with ctx.ClientAuthnSigAlgs(), i.e. the
   server's private_key_jwt and client_secret_jwt algorithms together *)
Definition identifies (cfg : dcfg) (sm : smethod) : bool :=
  match sm with SmJwt => mem "HS256" (d_pkjwt_algs cfg ++ d_secretjwt_algs cfg)%list | _ => true end.

(* clientutil.authenticate on the looked-up client, for the three request shapes above *)
Definition authenticates (cfg : dcfg) (c : dclient) (ep : endpoint) (sm : smethod) (secret : id) : bool :=
  let meth := effective_method ep (dc_meta c) in
  andb (identifies cfg sm)
  (if v_is meth "none" then true                      (* nothing to prove: a public client *)
   else if v_is meth "client_secret_post" then
     match sm with SmPost => hash_matches (dc_hsecret c) secret | _ => false end
   else if v_is meth "client_secret_basic" then
     match sm with SmBasic => hash_matches (dc_hsecret c) secret | _ => false end
   else if v_is meth "client_secret_jwt" then
     match sm with SmJwt => andb (hs256_allowed cfg ep (dc_meta c)) (key_matches (dc_secret c) secret) | _ => false end
   else false).   (* key and certificate methods need other credentials than these requests carry *)

(* what the endpoint still asks of an authenticated client before answering 200 *)
Definition ep_serves (cfg : dcfg) (ep : endpoint) (c : dclient) : bool :=
  match ep with
  | EpToken => andb (mem "client_credentials" (d_grants cfg)) (mem "client_credentials" (glist "grant_types" (dc_meta c)))
  | _ => true
  end.

Definition use_at (cfg : dcfg) (s : dstate) (ep : endpoint) (sm : smethod) (cid secret : id) : dcr_obs :=
  if negb (ep_enabled cfg ep) then DTok false else            (* the route does not exist: 404 *)
  match dfind cid s with
  | None => DTok false
  | Some c => DTok (andb (authenticates cfg c ep sm secret) (ep_serves cfg ep c))
  end.

(* ---- histories with these operations ---- *)
Inductive xop :=
  | XBase (o : dcr_op)
  | XUse (ep : endpoint) (sm : smethod) (cid secret : id).

Definition xstep (cfg : dcfg) (s : dstate) (n : nat) (o : xop) : dstate * dcr_obs :=
  match o with
  | XBase o => dstep cfg s n o
  | XUse ep sm cid secret => (s, use_at cfg s ep sm cid secret)
  end.

Fixpoint xrun_from (cfg : dcfg) (s : dstate) (n : nat) (ops : list xop) : dstate * list dcr_obs :=
  match ops with
  | [] => (s, [])
  | o :: r =>
      let '(s1, x) := xstep cfg s n o in
      let '(s2, xs) := xrun_from cfg s1 (S n) r in
      (s2, x :: xs)
  end.
Definition xrun (cfg : dcfg) (ops : list xop) : dstate * list dcr_obs := xrun_from cfg [] 0 ops.

(* every use leaves the store alone and takes one index, like Dcr.UseSecret *)
Definition erase (o : xop) : dcr_op :=
  match o with XBase o => o | XUse _ _ cid secret => UseSecret cid secret false end.

(* the secret-based method in force at an endpoint, if any *)
Definition secret_method (v : jval) : option smethod :=
  if v_is v "client_secret_post" then Some SmPost
  else if v_is v "client_secret_basic" then Some SmBasic
  else if v_is v "client_secret_jwt" then Some SmJwt else None.
