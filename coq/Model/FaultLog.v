(* FaultLog.v — the faulty interpreter of Prog.v with a ghost log: the same run as
   `run_fault plan n p st`, also returning, call by call, which storage call was made, which
   fault the plan applied to it and what the storage replied.  Used by the C14 theorems (to
   say "some call of this run failed", "the GSave of this very grant was executed and did not
   fail") and by the C14 correspondence (the log is compared with the storage decorator's). *)
From Verif Require Import Base Scope Types Prog.

Record fev := mkFev { fe_call : call; fe_fault : fault; fe_reply : reply }.

(* a fault changes the outcome of a call only if it is an error, or a not-found on a read *)
Definition fault_effective (f : fault) (c : call) : bool :=
  match f with FNone => false | FErr => true | FMiss => is_read c end.

Fixpoint run_fault_log {A} (plan : nat -> fault) (n : nat) (p : prog A) (st : store)
  : store * A * list fev :=
  match p with
  | Ret a => (st, a, [])
  | Do c k =>
      let '(st', r) := exec_fault (plan n) c st in
      let '(st'', a, l) := run_fault_log plan (S n) (k r) st' in
      (st'', a, mkFev c (plan n) r :: l)
  | Touch _ p' => run_fault_log plan n p' st
  end.

Definition plan_hit (l : list fev) : bool :=
  existsb (fun e => fault_effective (fe_fault e) (fe_call e)) l.
Definition log_kinds (l : list fev) : list ckind := map (fun e => call_kind (fe_call e)) l.

(* a plan given as a finite list of (position, fault) *)
Fixpoint plan_of (l : list (nat * fault)) (n : nat) : fault :=
  match l with
  | [] => FNone
  | (k, f) :: r => if Nat.eqb k n then f else plan_of r n
  end.

(* the crash interpreter with the log of the calls performed before the crash *)
Fixpoint run_prefix_log {A} (k : nat) (p : prog A) (st : store) : store * option A * list ckind :=
  match p with
  | Ret a => (st, Some a, [])
  | Do c kont =>
      match k with
      | O => (st, None, [])
      | S k' => let '(st', r) := exec c st in
                let '(st'', a, l) := run_prefix_log k' (kont r) st' in (st'', a, call_kind c :: l)
      end
  | Touch _ p' => run_prefix_log k p' st
  end.

(* faults and a crash in one request: the plan applies to the calls performed before the crash *)
Fixpoint run_fault_prefix_log {A} (plan : nat -> fault) (n : nat) (k : nat) (p : prog A) (st : store)
  : store * option A * list ckind :=
  match p with
  | Ret a => (st, Some a, [])
  | Do c kont =>
      match k with
      | O => (st, None, [])
      | S k' => let '(st', r) := exec_fault (plan n) c st in
                let '(st'', a, l) := run_fault_prefix_log plan (S n) k' (kont r) st' in (st'', a, call_kind c :: l)
      end
  | Touch _ p' => run_fault_prefix_log plan n k p' st
  end.
