(* Htu.v — the htu comparison of dpop.ValidateJWT on concrete strings.

   Pop.v abstracts the htu claim of a DPoP proof to a variant relative to the request URL
   (htu_v).  This file models the comparison itself, on the strings the code compares:

     httpURI, err := strutil.NormalizeURL(dpopClaims.HTTPURI)
     auds := []string{ctx.Host + ctx.Request.RequestURI}            (internal/dpop/util.go)
     if ctx.MTLSIsEnabled { auds = append(auds, ctx.MTLSHost+ctx.Request.RequestURI) }
     if err != nil || !slices.Contains(auds, httpURI) { invalid htu claim }

   normalize_url transcribes strutil.NormalizeURL = url.Parse, lower-case scheme and host, drop a
   trailing ":" and the default port of the host, drop ONE trailing "/" of the path, drop query and
   fragment, url.String() - for the URL syntax the harness generates: characters
   A-Z a-z 0-9 : / ? # . - _ ~ + and malformed %-escapes.  Outside that domain (userinfo, IPv6
   literals, valid %-escapes, characters url.String() re-escapes) the function is still total but is
   not claimed to follow net/url.  The comparison is EXACT string equality with Host + RequestURI:
   an htu that is a strict prefix of the request URL, an empty htu and an absent htu claim
   (HTTPURI == "") are refused (Props/C06.v htu_prefix_refused, htu_empty_refused). *)
From Verif Require Import Base Scope Types Pop.
Local Open Scope string_scope.

Definition ch_in (lo hi : nat) (c : ascii) : bool :=
  let n := nat_of_ascii c in andb (Nat.leb lo n) (Nat.leb n hi).
Definition is_upper (c : ascii) : bool := ch_in 65 90 c.
Definition is_alpha (c : ascii) : bool := orb (ch_in 65 90 c) (ch_in 97 122 c).
Definition is_digit (c : ascii) : bool := ch_in 48 57 c.
Definition is_hex (c : ascii) : bool := orb (is_digit c) (orb (ch_in 65 70 c) (ch_in 97 102 c)).

(* strings.ToLower on ASCII *)
Definition lower_ascii (c : ascii) : ascii :=
  if is_upper c then ascii_of_nat (nat_of_ascii c + 32) else c.
Fixpoint lower (s : string) : string :=
  match s with EmptyString => EmptyString | String c r => String (lower_ascii c) (lower r) end.

(* strings.Cut(s, c): the part before the first c (all of s when there is none) ... *)
Fixpoint before (c : ascii) (s : string) : string :=
  match s with
  | EmptyString => EmptyString
  | String a r => if Ascii.eqb a c then EmptyString else String a (before c r)
  end.
(* ... and the rest of s from that first c on (c included; "" when there is none) *)
Fixpoint from (c : ascii) (s : string) : string :=
  match s with
  | EmptyString => EmptyString
  | String a r => if Ascii.eqb a c then s else from c r
  end.

(* strings.TrimSuffix(s, c) for a one-character suffix *)
Fixpoint trim1 (c : ascii) (s : string) : string :=
  match s with
  | EmptyString => EmptyString
  | String a r =>
      match r with
      | EmptyString => if Ascii.eqb a c then EmptyString else s
      | _ => String a (trim1 c r)
      end
  end.

(* s = x ++ suf  =>  Some x *)
Fixpoint strip_suffix (suf s : string) : option string :=
  if seqb s suf then Some EmptyString else
  match s with
  | EmptyString => None
  | String a r => match strip_suffix suf r with Some x => Some (String a x) | None => None end
  end.

(* the part after the LAST c *)
Fixpoint after_last (c : ascii) (s : string) : option string :=
  match s with
  | EmptyString => None
  | String a r =>
      match after_last c r with
      | Some t => Some t
      | None => if Ascii.eqb a c then Some r else None
      end
  end.

Fixpoint all_digits (s : string) : bool :=
  match s with EmptyString => true | String a r => andb (is_digit a) (all_digits r) end.

(* net/url stringContainsCTLByte *)
Fixpoint has_ctl (s : string) : bool :=
  match s with
  | EmptyString => false
  | String a r => orb (orb (Nat.ltb (nat_of_ascii a) 32) (Nat.eqb (nat_of_ascii a) 127)) (has_ctl r)
  end.

(* net/url unescape: a '%' that is not followed by two hexadecimal digits *)
Fixpoint bad_escape (s : string) : bool :=
  match s with
  | EmptyString => false
  | String a r =>
      if Ascii.eqb a "%" then
        match r with
        | String h1 (String h2 _) => if andb (is_hex h1) (is_hex h2) then bad_escape r else true
        | _ => true
        end
      else bad_escape r
  end.

(* net/url getScheme *)
Definition is_scheme_char (c : ascii) : bool :=
  orb (is_alpha c) (orb (is_digit c) (orb (Ascii.eqb c "+") (orb (Ascii.eqb c "-") (Ascii.eqb c ".")))).
Fixpoint scheme_split (s : string) : option (string * string) :=
  match s with
  | EmptyString => None
  | String a r =>
      if Ascii.eqb a ":" then Some (EmptyString, r)
      else if is_scheme_char a then
        match scheme_split r with Some (sch, rest) => Some (String a sch, rest) | None => None end
      else None
  end.
Inductive sres := SErr | SOk (sch rest : string).
Definition get_scheme (s : string) : sres :=
  match s with
  | EmptyString => SOk "" ""
  | String a _ =>
      if Ascii.eqb a ":" then SErr                       (* missing protocol scheme *)
      else if is_alpha a then
        match scheme_split s with Some (sch, rest) => SOk sch rest | None => SOk "" s end
      else SOk "" s
  end.

Definition drop2 (s : string) : string :=
  match s with String _ (String _ r) => r | _ => EmptyString end.

(* parseHost: what follows the last ':' of the authority must be digits (validOptionalPort) *)
Definition bad_port (auth : string) : bool :=
  match after_last ":" auth with Some p => negb (all_digits p) | None => false end.

(* NormalizeURL on the host: TrimSuffix(Host, ":"), then the default port of the scheme goes *)
Definition norm_host (sch host : string) : string :=
  let h := trim1 ":" host in
  let dp := if seqb sch "http" then Some ":80" else if seqb sch "https" then Some ":443" else None in
  match dp with
  | Some p => match strip_suffix p h with Some x => x | None => h end
  | None => h
  end.

Definition qmark (b : bool) : string := if b then "?" else "".

(* strutil.NormalizeURL; None = the error return *)
Definition normalize_url (s : string) : option string :=
  if has_ctl s then None else
  let u := before "#" s in
  let body := before "?" u in
  (* url.ForceQuery: the only '?' is the last character; it survives RawQuery = "" *)
  let fq := match from "?" u with String _ EmptyString => true | _ => false end in
  if orb (bad_escape body) (bad_escape (from "#" s)) then None else
  match get_scheme body with
  | SErr => None
  | SOk sch rest =>
      let sch' := lower sch in
      if andb (has_prefix "//" rest) (orb (negb (is_empty sch)) (negb (has_prefix "///" rest))) then
        let ar := drop2 rest in
        let auth := before "/" ar in
        let path := trim1 "/" (from "/" ar) in
        if bad_port auth then None else
        let host := norm_host sch' (lower auth) in
        Some ((if is_empty sch' then "" else sch' ++ ":") ++
              (if andb (orb (negb (is_empty sch')) (negb (is_empty host)))
                       (orb (negb (is_empty host)) (negb (is_empty path))) then "//" else "") ++
              host ++ path ++ qmark fq)
      else if is_empty sch then
        (* first path segment in URL cannot contain colon *)
        if andb (negb (has_prefix "/" rest)) (contains (before "/" rest) ":") then None
        else Some (trim1 "/" rest ++ qmark fq)
      else if has_prefix "/" rest then Some (sch' ++ ":" ++ trim1 "/" rest ++ qmark fq)
      else Some (sch' ++ ":" ++ rest ++ qmark fq)             (* opaque *)
  end.

(* the htu guard of ValidateJWT: hosts = [ctx.Host] or [ctx.Host; ctx.MTLSHost], uri = RequestURI
   (prefix and query included), htu = the claim as sent ("" when the claim is absent) *)
Definition htu_match (hosts : list string) (uri htu : string) : bool :=
  match normalize_url htu with
  | Some n => existsb (fun h => seqb n (h ++ uri)) hosts
  | None => false
  end.

(* a is a strict string prefix of b *)
Definition strict_prefix (a b : string) : Prop := exists t, t <> "" /\ b = a ++ t.
Definition strict_prefix_b (a b : string) : bool :=
  andb (has_prefix a b) (Nat.ltb (String.length a) (String.length b)).

(* the variant of Pop.v a concrete htu stands for at a request: only htu_ok of it matters *)
Definition htu_class (hosts : list string) (uri htu : string) : htu_v :=
  if htu_match hosts uri htu then
    (if existsb (fun h => seqb htu (h ++ uri)) hosts then HtuExact else HtuHostCase)
  else HtuOtherPath.
