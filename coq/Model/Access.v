(* Access.v — a lockset model of the default storage (internal/storage) and of the handlers'
   in-place writes, for C20.

   Go's memory model and scheduler are outside the model; what is logic is WHICH shared locations
   a request reads and writes and UNDER WHICH LOCK.  Shared locations are the three maps of the
   default managers and the fields of the objects they hold (the managers keep and hand back the
   caller's pointers).  Each storage method holds its manager's mutex in one mode for its whole
   body; the handlers' writes to loaded objects (Prog.Touch) hold no lock at all.

   [trace] derives the access summary of a handler program (the very programs of Token.v and
   Authorize.v) under the aliasing interpretation: every storage call contributes the map access
   and the field reads of its body, every Touch the unsynchronised writes of the fields it
   changes.  Two accesses race when they hit the same location, at least one writes, and they do
   not hold a common lock with at least one side exclusive (Eraser's lockset rule, with
   reader/writer modes). *)
From Verif Require Import Base Scope Types Prog Pop Token Authorize.
Local Open Scope N_scope.

Inductive okind := KClient | KSession | KGrant.
Definition okind_eqb (a b : okind) : bool :=
  match a, b with KClient, KClient | KSession, KSession | KGrant, KGrant => true | _, _ => false end.

Inductive loc :=
  | LMap (k : okind)                          (* ClientManager.Clients / *.Sessions *)
  | LField (k : okind) (i : id) (f : string). (* a field of a stored object *)
Definition loc_eqb (a b : loc) : bool :=
  match a, b with
  | LMap k, LMap k' => okind_eqb k k'
  | LField k i f, LField k' i' f' => andb (okind_eqb k k') (andb (ideq i i') (seqb f f'))
  | _, _ => false
  end.

(* the mutex of manager k held in read or write mode, or nothing *)
Inductive lockmode := NoLock | RLock (k : okind) | WLock (k : okind).

Record access := mkAccess {
  ac_loc : loc;
  ac_write : bool;
  ac_lock : lockmode;
  ac_site : string       (* the Go function performing the access, as the race detector names the
                            innermost go-oidc frame *)
}.

(* mutual exclusion: the same mutex, at least one side in write mode *)
Definition excludes (a b : lockmode) : bool :=
  match a, b with
  | WLock k, WLock k' | WLock k, RLock k' | RLock k, WLock k' => okind_eqb k k'
  | _, _ => false
  end.
Definition races (a b : access) : bool :=
  andb (loc_eqb (ac_loc a) (ac_loc b))
       (andb (orb (ac_write a) (ac_write b)) (negb (excludes (ac_lock a) (ac_lock b)))).

(* ---- the storage methods (internal/storage/{client,authn_session,grant_session}.go) ---- *)
Definition st := "internal/storage.".
Definition scanA (m f : string) (l : list asession) : list access :=
  mkAccess (LMap KSession) false (RLock KSession) (st ++ "(*AuthnSessionManager).firstSession")
  :: map (fun s => mkAccess (LField KSession (a_id s) f) false (RLock KSession) (st ++ "(*AuthnSessionManager)." ++ m ++ ".func1")) l.
Definition scanG (m f : string) (l : list gsession) : list access :=
  mkAccess (LMap KGrant) false (RLock KGrant) (st ++ "(*GrantSessionManager).firstSession")
  :: map (fun g => mkAccess (LField KGrant (g_id g) f) false (RLock KGrant) (st ++ "(*GrantSessionManager)." ++ m ++ ".func1")) l.

Section WithClients.
  (* which stored clients have a jwks_uri: ClientManager.Client clears their cached JWKS *)
  Variable has_jwks_uri : id -> bool.

  Definition call_accesses (c : call) (s : store) : list access :=
    match c with
    | CGet i =>
        mkAccess (LMap KClient) false (RLock KClient) (st ++ "(*ClientManager).Client")
        :: match find_client i (st_clients s) with
           | Some _ =>
               mkAccess (LField KClient i "PublicJWKSURI") false (RLock KClient) (st ++ "(*ClientManager).Client")
               :: (if has_jwks_uri i
                   (* c.PublicJWKS = nil : a WRITE while only the read lock is held *)
                   then [mkAccess (LField KClient i "PublicJWKS") true (RLock KClient) (st ++ "(*ClientManager).Client")]
                   else [])
           | None => []
           end
    | CSave _ => [mkAccess (LMap KClient) true (WLock KClient) (st ++ "(*ClientManager).Save")]
    | CDel _ => [mkAccess (LMap KClient) true (WLock KClient) (st ++ "(*ClientManager).Delete")]
    | ASave _ => [mkAccess (LMap KSession) true (WLock KSession) (st ++ "(*AuthnSessionManager).Save")]
    | ADel _ => [mkAccess (LMap KSession) true (WLock KSession) (st ++ "(*AuthnSessionManager).Delete")]
    | AByCb _ => scanA "SessionByCallbackID" "CallbackID" (st_asess s)
    | AByCode _ => scanA "SessionByAuthCode" "AuthCode" (st_asess s)
    | AByPar _ => scanA "SessionByPushedAuthReqID" "PushedAuthReqID" (st_asess s)
    | AByCiba _ => scanA "SessionByCIBAAuthID" "CIBAAuthID" (st_asess s)
    | GSave _ => [mkAccess (LMap KGrant) true (WLock KGrant) (st ++ "(*GrantSessionManager).Save")]
    | GDel _ => [mkAccess (LMap KGrant) true (WLock KGrant) (st ++ "(*GrantSessionManager).Delete")]
    | GByToken _ => scanG "SessionByTokenID" "TokenID" (st_gsess s)
    | GByRefresh _ => scanG "SessionByRefreshToken" "RefreshToken" (st_gsess s)
    | GDelByCode _ =>
        (* the scan under RLock, then Delete under Lock *)
        scanG "DeleteByAuthorizationCode" "AuthorizationCode" (st_gsess s)
        ++ [mkAccess (LMap KGrant) true (WLock KGrant) (st ++ "(*GrantSessionManager).Delete")]
    end.

  (* ---- Touch: the fields an in-place write changes, each an unsynchronised write ---- *)
  Definition wr (k : okind) (i : id) (f site : string) (changed : bool) : list access :=
    if changed then [mkAccess (LField k i f) true NoLock site] else [].
  Definition tok := "internal/token.".
  Definition gapi := "pkg/goidc.(*AuthnSession).".
  Definition touch_g (g' g : gsession) : list access :=
    let i := g_id g in
    wr KGrant i "TokenID" (tok ++ "updateRefreshTokenGrantSession") (negb (ideq (g_token g') (g_token g)))
    ++ wr KGrant i "LastTokenExpiresAtTimestamp" (tok ++ "updateRefreshTokenGrantSession") (negb (Z.eqb (g_last_exp g') (g_last_exp g)))
    ++ wr KGrant i "RefreshToken" (tok ++ "updateRefreshTokenGrantSession") (negb (ideq (g_refresh g') (g_refresh g)))
    ++ wr KGrant i "GrantInfo.GrantType" (tok ++ "generateRefreshTokenGrant") (negb (gt_eqb (g_type g') (g_type g)))
    ++ wr KGrant i "GrantInfo.ActiveScopes" (tok ++ "generateRefreshTokenGrant") (negb (seqb (g_active g') (g_active g)))
    ++ wr KGrant i "GrantInfo.JWKThumbprint" (tok ++ "updatePoPForRefreshedToken") (negb (ideq (g_jkt g') (g_jkt g)))
    ++ wr KGrant i "GrantInfo.ClientCertThumbprint" (tok ++ "updatePoPForRefreshedToken") (negb (ideq (g_x5t g') (g_x5t g))).
  Definition touch_a (s' s : asession) : list access :=
    let i := a_id s in
    wr KSession i "AuthCode" "internal/authorize.authorizeAuthnSession" (negb (ideq (a_code s') (a_code s)))
    ++ wr KSession i "CallbackID" "internal/authorize.authorizeAuthnSession" (negb (ideq (a_cb s') (a_cb s)))
    ++ wr KSession i "ExpiresAtTimestamp" "internal/authorize.authorizeAuthnSession" (negb (Z.eqb (a_expires s') (a_expires s)))
    ++ wr KSession i "PushedAuthReqID" "internal/authorize.initAuthnSession" (negb (ideq (a_par s') (a_par s)))
    ++ wr KSession i "Subject" (gapi ++ "SetUserID") (negb (seqb (a_subject s') (a_subject s)))
    ++ wr KSession i "GrantedScopes" (gapi ++ "GrantScopes") (negb (seqb (a_granted s') (a_granted s)))
    ++ wr KSession i "Storage" (gapi ++ "StoreParameter") (negb (N.eqb (a_steps s') (a_steps s)))
    ++ wr KSession i "AdditionalIDTokenClaims" (gapi ++ "SetIDTokenClaim") (negb (seqb (a_nonce_claim s') (a_nonce_claim s))).
  Definition touch_accesses (o : obj) (s : store) : list access :=
    match o with
    | OG g' => match find (fun g => ideq (g_id g) (g_id g')) (st_gsess s) with Some g => touch_g g' g | None => [] end
    | OA s' => match find (fun x => ideq (a_id x) (a_id s')) (st_asess s) with Some x => touch_a s' x | None => [] end
    | OC _ => []      (* fix D1: the handlers no longer write to a loaded client *)
    end.

  (* the access summary of a handler program under the aliasing interpretation *)
  Fixpoint trace {A} (p : prog A) (s : store) : list access :=
    match p with
    | Ret _ => []
    | Do c k => let '(s', r) := exec c s in call_accesses c s ++ trace (k r) s'
    | Touch o p' => touch_accesses o s ++ trace p' (touch o s)
    end.
End WithClients.

(* goidc.Client.FetchPublicJWKS (client authentication with jwks_uri): reads the cache, fetches,
   writes the cache - on the stored client, no lock; fetchJWKS fills the bytes that get published *)
Definition fetch_public_jwks (i : id) : list access :=
  [mkAccess (LField KClient i "PublicJWKS") false NoLock "pkg/goidc.(*Client).FetchPublicJWKS";
   mkAccess (LField KClient i "PublicJWKS") true NoLock "pkg/goidc.(*Client).FetchPublicJWKS";
   mkAccess (LField KClient i "PublicJWKS[]") true NoLock "pkg/goidc.(*Client).fetchJWKS";
   mkAccess (LField KClient i "PublicJWKS[]") false NoLock "pkg/goidc.(*Client).FetchPublicJWKS"].

Definition is_map (l : loc) : bool := match l with LMap _ => true | _ => false end.
Definition unsync_write (a : access) : bool :=
  andb (ac_write a) (match ac_lock a with WLock _ => false | NoLock | RLock _ => true end).

(* discipline of one access: a map is read under at least the read lock and written under the write
   lock of ITS manager; a field is only ever read under locks or not at all exclusive *)
Definition map_disciplined (a : access) : bool :=
  match ac_loc a with
  | LMap k => match ac_lock a with
              | WLock k' => okind_eqb k k'
              | RLock k' => andb (okind_eqb k k') (negb (ac_write a))
              | NoLock => false
              end
  | LField _ _ _ => true
  end.

(* ---- the race signatures the model predicts (what the dynamic check compares with) ----
   A signature element is "<go-oidc function>:<read|write>[:map]".  Writers of stored objects are
   the finite list below (the Touch sites of Appendix B that survive the fix: commits, the store's
   own Client(), the JWKS cache; and - outside the modelled handlers - the dynamic registration
   update, which overwrites the metadata and the secret fields of the STORED client in place before
   it saves it: internal/dcr update and setSecret, reached by PUT /register/{id} while other
   requests use that client); a race is predicted between such a writer and any reader or
   writer of an object of the same kind: the index scans of that kind's manager (which read every
   stored object) and the functions of the packages that handle loaded objects of that kind.
   Nothing is predicted for a map operation inside internal/storage. *)
Definition writer_sites : list (string * okind) :=
  [ ("internal/token.updateRefreshTokenGrantSession", KGrant);
    ("internal/token.generateRefreshTokenGrant", KGrant);
    ("internal/token.updatePoPForRefreshedToken", KGrant);
    ("internal/authorize.authorizeAuthnSession", KSession);
    (* (internal/authorize.initAuthnSession is NOT a writer of shared memory: the first request of an authorization
       works on a new session or on a copy of the pushed one - deep for the maps since fix e2b7ce4 (D24) -
       Model/AccessOwn.v, Props/C20.v first_request_writes_no_shared_session.  Writers below
       internal/authorize.initAuth are named "<site>[initAuth]" by the dynamic check: NONE is predicted.) *)
    (* the bytes of the authorization code: strutil.Random fills the buffer whose string authorizeAuthnSession
       then publishes with its unsynchronised assignment session.AuthCode = ... on the STORED session (callback
       path); a second callback finishing the same session reads them (redirect parameters, c_hash): the
       detector names the filling, as for the decoder of dcr below *)
    ("internal/strutil.Random", KSession);
    ("pkg/goidc.(*AuthnSession).SetUserID", KSession);
    ("pkg/goidc.(*AuthnSession).GrantScopes", KSession);
    ("pkg/goidc.(*AuthnSession).StoreParameter", KSession);
    ("pkg/goidc.(*AuthnSession).SetIDTokenClaim", KSession);
    ("internal/storage.(*ClientManager).Client", KClient);
    ("pkg/goidc.(*Client).FetchPublicJWKS", KClient);
    ("pkg/goidc.(*Client).fetchJWKS", KClient);
    ("internal/dcr.update", KClient);
    ("internal/dcr.setSecret", KClient);
    (* the decoder of the update request fills the slices of the metadata that dcr.update then
       publishes with its unsynchronised assignment: the detector names the filling *)
    ("internal/dcr.(*request).UnmarshalJSON", KClient) ].
(* who may hold (read) a loaded object of a kind: function-name prefixes *)
Definition reader_prefixes (k : okind) : list string :=
  match k with
  | KGrant => ["internal/storage.(*GrantSessionManager)."; "internal/token."; "internal/userinfo."; "pkg/goidc.(*GrantSession)."; "pkg/goidc.(*GrantInfo)."]
  | KSession => ["internal/storage.(*AuthnSessionManager)."; "internal/authorize."; "internal/token."; "pkg/goidc.(*AuthnSession).";
                 (* Context.SaveAuthnSession counts the index fields of the session it is about to save *)
                 "internal/oidc."]
  | KClient => ["internal/storage.(*ClientManager).Client"; "pkg/goidc.(*Client)."; "internal/clientutil.";
                (* every handler package holds the loaded client of its request *)
                "internal/authorize."; "internal/token."; "internal/userinfo."; "internal/dcr."; "internal/oidc."]
  end.

(* "<site>:<kind>[:map]" *)
Definition strip_suffix (suf s : string) : option string :=
  let n := String.length s in let m := String.length suf in
  if Nat.leb m n then
    if seqb (substring (n - m) m s) suf then Some (substring 0 (n - m) s) else None
  else None.
Record sigel := mkSigel { se_site : string; se_write : bool; se_map : bool }.
Definition parse_el (s : string) : option sigel :=
  let '(s1, m) := match strip_suffix ":map" s with Some r => (r, true) | None => (s, false) end in
  match strip_suffix ":write" s1 with
  | Some r => Some (mkSigel r true m)
  | None => match strip_suffix ":read" s1 with Some r => Some (mkSigel r false m) | None => None end
  end.
Fixpoint assoc_kind (s : string) (l : list (string * okind)) : option okind :=
  match l with [] => None | (k, v) :: r => if seqb s k then Some v else assoc_kind s r end.
Definition in_storage (s : string) : bool := has_prefix "internal/storage." s.
Definition storage_map_op (e : sigel) : bool := andb (se_map e) (in_storage (se_site e)).
Definition reads_kind (k : okind) (site : string) : bool := existsb (fun p => has_prefix p site) (reader_prefixes k).
Definition predicted_dir (w o : sigel) : bool :=
  andb (se_write w)
  match assoc_kind (se_site w) writer_sites with
  | Some k => orb (reads_kind k (se_site o))
                  (match assoc_kind (se_site o) writer_sites with Some k' => okind_eqb k k' | None => false end)
  | None => false
  end.
Definition predicted_signature (a b : string) : bool :=
  match parse_el a, parse_el b with
  | Some x, Some y =>
      andb (negb (orb (storage_map_op x) (storage_map_op y)))
           (orb (predicted_dir x y) (predicted_dir y x))
  | _, _ => false
  end.
