(* RaceUri.v — C15, the pushed request_uri presented by several authorization requests at once,
   for EVERY response type (the scenarios of Race.v only use `code`).

   With a response type that contains `token` or `id_token` the authorization endpoint itself issues
   artifacts: finishFlowSuccessfully consumes the pushed session FIRST (authorizeAuthnSession: the
   Save that clears the request_uri index when a code is issued, the Delete otherwise) and only THEN
   generates the access token and saves its grant session.  The storage calls of one accepted request:
        CGet  AByPar  CGet  ASave|ADel            (code; code id_token; id_token)
        CGet  AByPar  CGet  ASave|ADel  GSave     (token; id_token token; code token; code id_token token)
   so the consumption window (lookup ... consume) does NOT contain the grant save: a second request
   whose lookup is scheduled after the consume is refused, whatever the first one still has to do.
   What a winning request obtains is counted separately (codes, access tokens, ID tokens, grant
   sessions written), so that "two requests were both given ACCESS TOKENS" is a statement of its own.
   No proofs here (Proofs/C15UriSweeps.v). *)
From Verif Require Import Base Scope Types Prog Pop Token Authorize System Config Race.
Local Open Scope nat_scope.
Local Open Scope string_scope.

(* every response type the authorization endpoint knows *)
Definition ru_resp_types : list string :=
  ["code"; "id_token"; "token"; "code id_token"; "code token"; "id_token token"; "code id_token token"].
(* those for which the authorization endpoint issues an access token (and saves a grant session) *)
Definition ru_issues_token (rt : string) : bool := rt_contains rt "token".
Definition ru_token_resp_types : list string := filter ru_issues_token ru_resp_types.
Definition ru_plain_resp_types : list string := filter (fun rt => negb (ru_issues_token rt)) ru_resp_types.

Definition ru_client : client :=
  mkClient 1%N false [GAuthorizationCode; GRefreshToken; GImplicit; GCiba] ru_resp_types ["https://c1.example/cb"]
           "openid email" CibaPoll false false false false false false false 0%N false None.
Definition ru_opts (rotation : bool) : list opt := (rc_opts rotation ++ [WithImplicitGrant])%list.
Definition ru_params (rt : string) : params :=
  mkParams 0%N "https://c1.example/cb" "" rt "openid email" "st" "n-1" PkEmpty "" 0%N "" 0%N "" [] None.

(* pushed request_uri, response type rt, a policy that finishes at once: AByPar ... ASave (the save that
   clears the request_uri index) when a code is issued, AByPar ... ADel otherwise *)
Definition ru_consume (rt : string) : ckind := if rt_contains rt "code" then KASave else KADel.
Definition scn_uri (rt : string) (rotation : bool) : racescn :=
  mkRaceScn POpenID (ru_opts rotation) [] [ru_client]
    [OpPar (mkPReq rc_cred (ru_params rt) no_bind)]
    (OpAuthorize (mkAReq 1%N ((ru_params rt) <| p_request_uri := mint 0%nat KParUri |>) true (PolSuccess "alice" "openid email" [] [])))
    KAGet (ru_consume rt).

(* the storage calls of the unchanged flow *)
Definition ru_solo_log (rt : string) : list ckind :=
  ([KCGet; KAGet; KCGet; ru_consume rt] ++ (if ru_issues_token rt then [KGSave] else []))%list.

(* ---- what the requests obtained ---- *)
Definition nav_of (p : prog obs) : option nav :=
  match finished p with
  | Some (Out (ONav _ _ n)) => match n_err n with None => Some n | Some _ => None end
  | _ => None
  end.
Definition got_token (p : prog obs) : bool := match nav_of p with Some n => negb (is_nil (n_at n)) | None => false end.
Definition got_code (p : prog obs) : bool := match nav_of p with Some n => negb (is_nil (n_code n)) | None => false end.
Definition got_idt (p : prog obs) : bool := match nav_of p with Some n => n_idt n | None => false end.
Definition count_b {A} (f : A -> bool) (l : list A) : nat := List.length (filter f l).

Definition tokens_obtained (su : racesetup) (k : nat) (sched : list nat) : nat :=
  count_b got_token (snd (race_run su k sched)).
Definition codes_obtained (su : racesetup) (k : nat) (sched : list nat) : nat :=
  count_b got_code (snd (race_run su k sched)).
Definition idts_obtained (su : racesetup) (k : nat) (sched : list nat) : nat :=
  count_b got_idt (snd (race_run su k sched)).
(* grant sessions in the store after the race that were not there before *)
Definition grants_written (su : racesetup) (k : nat) (sched : list nat) : nat :=
  List.length (st_gsess (fst (race_run su k sched))) - List.length (st_gsess (su_store su)).
(* the access tokens handed out are pairwise different (two grants, not one grant answered twice) *)
Fixpoint nodup_ids (l : list id) : bool :=
  match l with [] => true | x :: r => andb (negb (existsb (ideq x) r)) (nodup_ids r) end.
Definition token_values (su : racesetup) (k : nat) (sched : list nat) : list id :=
  flat_map (fun p => match nav_of p with Some n => if is_nil (n_at n) then [] else [n_at n] | None => [] end)
           (snd (race_run su k sched)).

(* a request whose lookup is scheduled after another request's consume is refused (the window does not
   reach beyond the consume - in particular not to the grant save); L, C = lookup_pos su, consume_pos su *)
Definition late_lookups_refused_at (L C k : nat) (sc : list nat) (oks : list bool) : bool :=
  forallb (fun i => forallb (fun j =>
      implb (Nat.ltb (occ_pos i C sc 0) (occ_pos j L sc 0)) (negb (nth j oks false)))
    (seq 0 k)) (seq 0 k).

(* everything the count theorem says about one schedule (the race is run once, r; the window positions L, C of
   the flow are computed once per scenario by the caller) *)
Definition uri_sched_ok_at (rt : string) (su : racesetup) (L C : nat) (k : nat) (sc : list nat) : bool :=
  let r := race_run su k sc in
  let oks := map succeeded (snd r) in
  let n := List.length (filter (fun b => b) oks) in
  let m := if ru_issues_token rt then n else 0 in
  andb (Nat.eqb n (lookups_before_first_consume L C k sc))
  (andb (Nat.eqb (count_b got_token (snd r)) m)
  (andb (Nat.eqb (List.length (st_gsess (fst r)) - List.length (st_gsess (su_store su))) m)
  (andb (nodup_ids (flat_map (fun p => match nav_of p with Some n => if is_nil (n_at n) then [] else [n_at n] | None => [] end) (snd r)))
  (andb (Nat.eqb (count_b got_code (snd r)) (if rt_contains rt "code" then n else 0))
  (andb (Nat.eqb (count_b got_idt (snd r)) (if rt_contains rt "id_token" then n else 0))
        (late_lookups_refused_at L C k sc oks)))))).
Definition uri_sched_ok (rt : string) (su : racesetup) (k : nat) (sc : list nat) : bool :=
  uri_sched_ok_at rt su (lookup_pos su) (consume_pos su) k sc.

(* for three requests of a five-call flow (756756 interleavings): the interleavings in which every request has
   performed its first call - the read-only lookup of its client - before anything else happens, then every
   interleaving of the remaining calls *)
Definition schedules_after_first_call (su : racesetup) (k : nat) : list (list nat) :=
  map (fun s => seq 0 k ++ s)%list (all_interleavings (repeat (solo_calls su - 1) k)).

(* position of the grant save in the flow (the length of the flow when there is none) *)
Definition grant_save_pos (su : racesetup) : nat := pos_of KGSave (solo_log su).
