(* AuthnSpec.v — what "a valid credential" means, written independently of the procedure in
   Authn.v: declaratively, as a proposition about the request, the client's registration and the
   server configuration.  No lookups in code order, no first-match, no early exits.

   valid_credential g x c rq:
     rq identifies exactly client c (every place of the request that names a client names c, and
     at least one does), and rq carries a credential of the method registered for (c, x) that
     verifies under c's registered material with a permitted algorithm. *)
From Verif Require Import Base Types Authn.
Local Open Scope N_scope.

(* the method registered for a client at a context: the context's own registration when there is
   one, else the token endpoint's *)
Definition registered_method (c : aclient) (x : actx) : method :=
  match x with
  | CtxToken => ca_method c
  | CtxIntrospection => match ca_intro_method c with MUnset => ca_method c | m => m end
  | CtxRevocation => match ca_revoke_method c with MUnset => ca_method c | m => m end
  end.

(* the algorithm a client pinned for a context, if any *)
Definition pinned_alg (c : aclient) (x : actx) : option alg :=
  match x with CtxToken => ca_alg c | CtxIntrospection => ca_intro_alg c | CtxRevocation => ca_revoke_alg c end.

(* permitted: the pinned one if the client pinned one, else any the server lists for the method *)
Definition permitted_alg (server : list alg) (c : aclient) (x : actx) (a : alg) : Prop :=
  match pinned_alg c x with Some p => a = p | None => In a server end.

(* every place of the request that can name a client names i, and at least one does; an assertion
   names a client only if it is a JWS with an algorithm the server supports at all *)
Definition identifies (g : acfg) (rq : request) (i : id) : Prop :=
  (rq_form_id rq = 0 \/ rq_form_id rq = i) /\
  (forall b s, rq_basic rq = Some (b, s) -> b = 0 \/ b = i) /\
  match rq_assertion rq with
  | ANone => True
  | AGarbage => False
  | AJws a => (In (as_alg a) (ag_pk_algs g) \/ In (as_alg a) (ag_sj_algs g)) /\ as_iss a = Some i
  end /\
  (rq_form_id rq <> 0 \/ (exists b s, rq_basic rq = Some (b, s) /\ b <> 0) \/ rq_assertion rq <> ANone).

Definition accepted_audience (g : acfg) (v : audv) : Prop :=
  v = AudIssuer \/ v = AudTokenURL \/ v = AudRequestURL \/
  (ag_mtls g = true /\ (v = AudMtlsTokenURL \/ v = AudMtlsRequestURL)).

(* iss = sub = the client; an accepted audience; exp present, not passed (leeway) and not further
   away than the allowed lifetime; nbf / iat not in the future; a jti the embedder has not seen *)
Definition claims_valid (g : acfg) (c : aclient) (rq : request) (a : assertion) : Prop :=
  as_iss a = Some (ca_id c) /\ as_sub a = ca_id c /\
  (exists v, In v (as_aud a) /\ accepted_audience g v) /\
  (exists d, as_exp a = Some d /\ (- ag_leeway g <= d)%Z /\ (d <= ag_lifetime g)%Z) /\
  (forall n, as_nbf a = Some n -> (n <= ag_leeway g)%Z) /\
  (forall n, as_iat a = Some n -> (n <= ag_leeway g)%Z) /\
  as_jti a = true /\ rq_jti_ok rq = true.

(* the client's registered keys: by value, or what its jwks_uri serves *)
Definition registered_keys (c : aclient) (rq : request) : option (list jwk) :=
  match ca_jwks c with JwksByValue l => Some l | JwksByURI => rq_fetch rq | JwksAbsent => None end.

(* the JWS header designates key j: by kid when it has one, else by the key's alg attribute *)
Definition designated (j : jwk) (a : assertion) : Prop :=
  (as_kid a <> 0 /\ jk_kid j = as_kid a) \/ (as_kid a = 0 /\ jk_alg j = Some (as_alg a)).

(* the certificate the embedder extracted, when certificates are configured at all *)
Definition presented_cert (g : acfg) (rq : request) (ct : cert) : Prop :=
  ag_cert_func g = true /\ rq_cert rq = Some ct.

(* tls_client_auth: the first registered of subject DN, SAN dNSName, SAN iPAddress matches *)
Definition tls_subject_matches (c : aclient) (ct : cert) : Prop :=
  (ca_tls_dn c <> "" /\ ca_tls_dn c = ct_dn ct)%string \/
  (ca_tls_dn c = "" /\ ca_tls_dns c <> "" /\ In (ca_tls_dns c) (ct_dns ct))%string \/
  (ca_tls_dn c = "" /\ ca_tls_dns c = "" /\ exists a, ca_tls_ip c = IpAddr a /\ In a (ct_ips ct))%string.

Definition method_credential (g : acfg) (x : actx) (c : aclient) (rq : request) : Prop :=
  match registered_method c x with
  | MNone => True
  | MSecretPost =>
      rq_form_id rq = ca_id c /\ rq_form_secret rq <> 0 /\ ca_hashed c = Some (rq_form_secret rq)
  | MSecretBasic =>
      exists s, rq_basic rq = Some (ca_id c, s) /\ ca_hashed c = Some s
  | MSecretJWT =>
      rq_type_ok rq = true /\
      exists a, rq_assertion rq = AJws a /\ permitted_alg (ag_sj_algs g) c x (as_alg a) /\
        as_signer a = SHmac (BSecret (ca_secret c)) /\ as_alg a = HS256 /\ ca_secret_long c = true /\
        claims_valid g c rq a
  | MPrivateKeyJWT =>
      rq_type_ok rq = true /\
      exists a ks j, rq_assertion rq = AJws a /\ permitted_alg (ag_pk_algs g) c x (as_alg a) /\
        registered_keys c rq = Some ks /\ In j ks /\ designated j a /\ jk_public j = true /\
        as_signer a = SPriv (jk_key j) /\ alg_fits (as_alg a) (jk_kty j) = true /\
        claims_valid g c rq a
  | MTLS =>
      rq_form_id rq = ca_id c /\ exists ct, presented_cert g rq ct /\ tls_subject_matches c ct
  | MSelfSignedTLS =>
      rq_form_id rq = ca_id c /\
      exists ct ks j, presented_cert g rq ct /\ registered_keys c rq = Some ks /\ In j ks /\
        jk_cert j <> 0 /\ jk_cert j = ct_id ct /\ jk_key j = ct_key ct
  | MUnset | MUnknown => False
  end.

Definition valid_credential (g : acfg) (x : actx) (c : aclient) (rq : request) : Prop :=
  identifies g rq (ca_id c) /\ method_credential g x c rq.

(* c is the client the server knows under its id *)
Definition registered (cls : list aclient) (c : aclient) : Prop := find_aclient (ca_id c) cls = Some c.

(* the registration does not make the request's key reference ambiguous: at most one registered
   key is designated by the assertion's header / carries the certificate's thumbprint *)
Definition unambiguous (c : aclient) (rq : request) : Prop :=
  forall ks, registered_keys c rq = Some ks ->
    (forall a j j', rq_assertion rq = AJws a -> In j ks -> In j' ks -> designated j a -> designated j' a -> j = j') /\
    (forall ct j j', rq_cert rq = Some ct -> In j ks -> In j' ks ->
        jk_cert j = ct_id ct -> jk_cert j' = ct_id ct -> j = j').

(* ---- the same, as a decision procedure (what the monitor evaluates on observed requests) ---- *)
Definition opt_alg_eqb (a b : option alg) : bool :=
  match a, b with Some x, Some y => alg_eqb x y | None, None => true | _, _ => false end.

Definition permitted_alg_b (server : list alg) (c : aclient) (x : actx) (a : alg) : bool :=
  match pinned_alg c x with Some p => alg_eqb a p | None => alg_in a server end.

Definition identifies_b (g : acfg) (rq : request) (i : id) : bool :=
  andb (orb (N.eqb (rq_form_id rq) 0) (N.eqb (rq_form_id rq) i))
 (andb (match rq_basic rq with Some (b, _) => orb (N.eqb b 0) (N.eqb b i) | None => true end)
 (andb (match rq_assertion rq with
        | ANone => true | AGarbage => false
        | AJws a => andb (orb (alg_in (as_alg a) (ag_pk_algs g)) (alg_in (as_alg a) (ag_sj_algs g)))
                         (match as_iss a with Some k => N.eqb k i | None => false end)
        end)
       (orb (negb (N.eqb (rq_form_id rq) 0))
       (orb (match rq_basic rq with Some (b, _) => negb (N.eqb b 0) | None => false end)
            (match rq_assertion rq with ANone => false | _ => true end))))).

Definition accepted_audience_b (g : acfg) (v : audv) : bool :=
  match v with
  | AudIssuer | AudTokenURL | AudRequestURL => true
  | AudMtlsTokenURL | AudMtlsRequestURL => ag_mtls g
  | AudOther => false end.

Definition claims_valid_b (g : acfg) (c : aclient) (rq : request) (a : assertion) : bool :=
  andb (match as_iss a with Some k => N.eqb k (ca_id c) | None => false end)
 (andb (N.eqb (as_sub a) (ca_id c))
 (andb (existsb (accepted_audience_b g) (as_aud a))
 (andb (match as_exp a with Some d => andb (Z.leb (- ag_leeway g) d) (Z.leb d (ag_lifetime g)) | None => false end)
 (andb (match as_nbf a with Some n => Z.leb n (ag_leeway g) | None => true end)
 (andb (match as_iat a with Some n => Z.leb n (ag_leeway g) | None => true end)
 (andb (as_jti a) (rq_jti_ok rq))))))).

Definition designated_b (j : jwk) (a : assertion) : bool :=
  if N.eqb (as_kid a) 0 then opt_alg_eqb (jk_alg j) (Some (as_alg a)) else N.eqb (jk_kid j) (as_kid a).

Definition presented_cert_b (g : acfg) (rq : request) : option cert :=
  if ag_cert_func g then rq_cert rq else None.

Definition tls_subject_matches_b (c : aclient) (ct : cert) : bool :=
  if negb (is_empty (ca_tls_dn c)) then seqb (ca_tls_dn c) (ct_dn ct)
  else if negb (is_empty (ca_tls_dns c)) then mem (ca_tls_dns c) (ct_dns ct)
  else match ca_tls_ip c with IpAddr a => memN a (ct_ips ct) | _ => false end.

Definition method_credential_b (g : acfg) (x : actx) (c : aclient) (rq : request) : bool :=
  match registered_method c x with
  | MNone => true
  | MSecretPost =>
      andb (N.eqb (rq_form_id rq) (ca_id c)) (andb (negb (N.eqb (rq_form_secret rq) 0))
           (match ca_hashed c with Some h => N.eqb h (rq_form_secret rq) | None => false end))
  | MSecretBasic =>
      match rq_basic rq with
      | Some (b, s) => andb (N.eqb b (ca_id c)) (match ca_hashed c with Some h => N.eqb h s | None => false end)
      | None => false end
  | MSecretJWT =>
      andb (rq_type_ok rq)
      (match rq_assertion rq with
       | AJws a =>
           andb (permitted_alg_b (ag_sj_algs g) c x (as_alg a))
          (andb (match as_signer a with SHmac (BSecret s) => N.eqb s (ca_secret c) | _ => false end)
          (andb (alg_eqb (as_alg a) HS256) (andb (ca_secret_long c) (claims_valid_b g c rq a))))
       | _ => false end)
  | MPrivateKeyJWT =>
      andb (rq_type_ok rq)
      (match rq_assertion rq, registered_keys c rq with
       | AJws a, Some ks =>
           andb (permitted_alg_b (ag_pk_algs g) c x (as_alg a))
          (andb (existsb (fun j => andb (designated_b j a) (andb (jk_public j)
                   (andb (match as_signer a with SPriv k => N.eqb k (jk_key j) | _ => false end)
                         (alg_fits (as_alg a) (jk_kty j))))) ks)
                (claims_valid_b g c rq a))
       | _, _ => false end)
  | MTLS =>
      andb (N.eqb (rq_form_id rq) (ca_id c))
      (match presented_cert_b g rq with Some ct => tls_subject_matches_b c ct | None => false end)
  | MSelfSignedTLS =>
      andb (N.eqb (rq_form_id rq) (ca_id c))
      (match presented_cert_b g rq, registered_keys c rq with
       | Some ct, Some ks =>
           existsb (fun j => andb (negb (N.eqb (jk_cert j) 0))
                            (andb (N.eqb (jk_cert j) (ct_id ct)) (N.eqb (jk_key j) (ct_key ct)))) ks
       | _, _ => false end)
  | MUnset | MUnknown => false
  end.

Definition valid_credential_b (g : acfg) (x : actx) (c : aclient) (rq : request) : bool :=
  andb (identifies_b g rq (ca_id c)) (method_credential_b g x c rq).
