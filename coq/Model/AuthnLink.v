(* AuthnLink.v — how Authn.v sits under the abstract credential of Token.v (cred = {cr_id; cr_ok}),
   and the vocabulary of the "unauthenticated requests are inert" statements.  Definitions only. *)
From Verif Require Import Base Scope Types Prog Pop Token Authorize Authn.
Local Open Scope N_scope.

(* ctx.Client as the handlers of Token.v see it: static clients first, then the client store *)
Definition lookup (w : world) (st : store) (i : id) : option client :=
  match find_client i (w_static w) with Some c => Some c | None => find_client i (st_clients st) end.

(* the request is not authenticated: nobody is named, or the named client is unknown, or it is a
   confidential client and the credential is not valid *)
Definition unauthenticated (w : world) (st : store) (cr : cred) : Prop :=
  cr_id cr = 0 \/ lookup w st (cr_id cr) = None \/
  exists c, lookup w st (cr_id cr) = Some c /\ c_public c = false /\ cr_ok cr = false.

(* the storage calls a refused request may make: reads of the client store only *)
Definition only_client_reads (log : list ckind) : bool :=
  forallb (fun k => match k with KCGet => true | _ => false end) log.

(* the program answers an error, leaves the store as it was and performs no call but client reads;
   when the handler's own pre-authentication guards pass the error is invalid_client *)
Definition refused_inert (p : prog out) (st : store) (pre : bool) : Prop :=
  exists e log, run_log p st [] = (st, OErr e, log) /\ only_client_reads log = true /\
                (pre = true -> e = EInvalidClient).

(* guards the handlers evaluate before they authenticate *)
Definition pre_code (w : world) (r : treq) : bool :=
  andb (has_grant GAuthorizationCode (cf_grants (w_cfg w))) (negb (is_nil (t_code r))).
Definition pre_refresh (w : world) (r : treq) : bool :=
  andb (has_grant GRefreshToken (cf_grants (w_cfg w))) (negb (is_nil (t_refresh r))).
Definition pre_cc (w : world) : bool := has_grant GClientCredentials (cf_grants (w_cfg w)).
Definition pre_ciba (w : world) : bool := has_grant GCiba (cf_grants (w_cfg w)).

(* the abstract credential a concrete request amounts to *)
Definition cred_of (g : acfg) (x : actx) (cls : list aclient) (rq : request) : cred :=
  mkCred (match extract_id g rq with IdOk i => i | _ => 0 end)
         (match authenticated g x cls rq with Some _ => true | None => false end).

Definition method_is_none (m : method) : bool := match m with MNone => true | _ => false end.

(* the registry of Authn.v and the clients the handlers see describe the same clients, and
   "public" means: the method registered for the context is none *)
Definition agrees (x : actx) (cls : list aclient) (w : world) (st : store) : Prop :=
  forall i, match lookup w st i, find_aclient i cls with
            | None, None => True
            | Some c, Some ac => c_public c = method_is_none (authn_method ac x)
            | _, _ => False end.
