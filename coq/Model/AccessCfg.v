(* AccessCfg.v — C20: the provider's CONFIGURATION as shared memory.

   provider.New builds ONE *oidc.Configuration; every request works on an oidc.Context VALUE that
   embeds that pointer, so each list (PrivateKeyJWTSigAlgs, Scopes, ACRs ...), each optional function
   (HTTPClientFunc ...) and the list of static clients is memory shared by all requests of the
   provider, with no lock.  In the model the configuration is the [world] parameter of the handlers
   (Types.v): a handler is a FUNCTION of it, a [prog] has no constructor that changes it and
   [System.step_with] hands the same world to every step - requests only READ the configuration.

   This file makes that explicit in the style of Access.v: the configuration objects, the ones each
   endpoint reads (transcribed from the Go handlers: which members of the configuration
   clientutil.Authenticated, the validators of internal/authorize, internal/token, internal/userinfo,
   internal/dcr and the discovery handler look at), and the summary of a request: its
   configuration READS together with the storage accesses Access.trace derives from the very handler
   program.  It is a statement about the access SUMMARY: that the compiled code performs no other
   access to a configuration object - no append into the spare capacity of a shared slice
   (oidc.Context.ClientAuthnSigAlgs: append(ctx.PrivateKeyJWTSigAlgs, ctx.ClientSecretJWTSigAlgs...)
   is only safe while len = cap), no lazily assigned default (ctx.HTTPClientFunc = ... through the
   embedded pointer) - is sampled by the race detector (suite c20, phases "wide configuration" and
   "bare cold start", harness/suite_c20cfg.go), which names such a write "<site>[config]".
   No proofs here (Proofs/C20CfgProofs.v). *)
From Verif Require Import Base Scope Types Prog Pop Token Authorize System Access.
Local Open Scope N_scope.
Local Open Scope string_scope.

(* the members of oidc.Configuration a request can reach (one object per list / function; the
   key- and content-encryption lists of a feature are one object each) *)
Inductive cfgobj :=
  | cfg_private_key_jwt_sig_algs | cfg_client_secret_jwt_sig_algs
  | cfg_token_authn_methods | cfg_introspection_authn_methods | cfg_revocation_authn_methods
  | cfg_scopes | cfg_grant_types | cfg_response_types | cfg_response_modes
  | cfg_id_token_sig_algs | cfg_id_token_enc_algs
  | cfg_user_info_sig_algs | cfg_user_info_enc_algs
  | cfg_jar_sig_algs | cfg_jar_enc_algs | cfg_jarm_sig_algs | cfg_jarm_enc_algs
  | cfg_dpop_sig_algs | cfg_ciba_jar_sig_algs | cfg_ciba_delivery_modes
  | cfg_pkce_methods | cfg_claims | cfg_claim_types | cfg_acrs | cfg_display_values
  | cfg_sub_identifier_types | cfg_auth_detail_types | cfg_resources
  | cfg_static_clients | cfg_policies
  | cfg_http_client_func                       (* HTTPClientFunc: nil = http.DefaultClient *)
  | cfg_optional_funcs.                        (* CheckJTIFunc, HandleGrantFunc, TokenOptionsFunc, NotifyErrorFunc, RenderErrorFunc,
                                                  ShouldIssueRefreshTokenFunc, HandleDynamicClientFunc, InitBackAuthFunc ... *)
Definition cfg_tag (c : cfgobj) : N :=
  match c with
  | cfg_private_key_jwt_sig_algs => 0 | cfg_client_secret_jwt_sig_algs => 1
  | cfg_token_authn_methods => 2 | cfg_introspection_authn_methods => 3 | cfg_revocation_authn_methods => 4
  | cfg_scopes => 5 | cfg_grant_types => 6 | cfg_response_types => 7 | cfg_response_modes => 8
  | cfg_id_token_sig_algs => 9 | cfg_id_token_enc_algs => 10
  | cfg_user_info_sig_algs => 11 | cfg_user_info_enc_algs => 12
  | cfg_jar_sig_algs => 13 | cfg_jar_enc_algs => 14 | cfg_jarm_sig_algs => 15 | cfg_jarm_enc_algs => 16
  | cfg_dpop_sig_algs => 17 | cfg_ciba_jar_sig_algs => 18 | cfg_ciba_delivery_modes => 19
  | cfg_pkce_methods => 20 | cfg_claims => 21 | cfg_claim_types => 22 | cfg_acrs => 23 | cfg_display_values => 24
  | cfg_sub_identifier_types => 25 | cfg_auth_detail_types => 26 | cfg_resources => 27
  | cfg_static_clients => 28 | cfg_policies => 29 | cfg_http_client_func => 30 | cfg_optional_funcs => 31
  end.
Definition cfgobj_eqb (a b : cfgobj) : bool := N.eqb (cfg_tag a) (cfg_tag b).

(* the endpoints: the operations of the system model, and the ones outside it (discovery, the key
   set, dynamic client registration) whose storage accesses are not modelled *)
Inductive endpoint :=
  | EpOp (o : op)
  | EpDiscovery | EpJWKS
  | EpDcrCreate | EpDcrRead | EpDcrUpdate | EpDcrDelete.

(* clientutil.Authenticated: extractID -> Context.ClientAuthnSigAlgs (BOTH algorithm lists, whenever the
   request carries a client_assertion), Context.Client (the static clients first), the method's own
   algorithm list, CheckJTI, and - private_key_jwt with a jwks_uri - Context.HTTPClient *)
Definition authn_reads : list cfgobj :=
  [cfg_private_key_jwt_sig_algs; cfg_client_secret_jwt_sig_algs; cfg_static_clients; cfg_optional_funcs; cfg_http_client_func].
(* the validators of an authorization request (internal/authorize/validation.go), JAR included *)
Definition authz_reads : list cfgobj :=
  [cfg_static_clients; cfg_scopes; cfg_response_types; cfg_response_modes; cfg_pkce_methods; cfg_acrs; cfg_display_values;
   cfg_auth_detail_types; cfg_resources; cfg_claim_types; cfg_jar_sig_algs; cfg_jar_enc_algs; cfg_http_client_func; cfg_optional_funcs].
(* what answering an authorization request reads: the policies, JARM, the ID token of the hybrid / implicit flows *)
Definition authz_response_reads : list cfgobj :=
  [cfg_policies; cfg_jarm_sig_algs; cfg_jarm_enc_algs; cfg_id_token_sig_algs; cfg_id_token_enc_algs; cfg_sub_identifier_types; cfg_optional_funcs].
Definition token_reads : list cfgobj :=
  [cfg_grant_types; cfg_scopes; cfg_dpop_sig_algs; cfg_resources; cfg_auth_detail_types; cfg_id_token_sig_algs; cfg_id_token_enc_algs;
   cfg_sub_identifier_types; cfg_optional_funcs].

Definition op_cfg_reads (o : op) : list cfgobj :=
  match o with
  | OpAuthorize _ => authz_reads ++ authz_response_reads
  | OpCallback _ => cfg_static_clients :: authz_response_reads
  | OpPar _ => authn_reads ++ cfg_token_authn_methods :: authz_reads
  | OpToken _ _ => authn_reads ++ cfg_token_authn_methods :: token_reads
  | OpIntrospect _ => authn_reads ++ [cfg_introspection_authn_methods; cfg_dpop_sig_algs]
  | OpRevoke _ => authn_reads ++ [cfg_revocation_authn_methods]
  | OpUserInfo _ => [cfg_static_clients; cfg_dpop_sig_algs; cfg_user_info_sig_algs; cfg_user_info_enc_algs; cfg_sub_identifier_types; cfg_claims; cfg_optional_funcs; cfg_http_client_func]
  | OpTokenInfo _ | OpTokenInfoReq _ => [cfg_dpop_sig_algs; cfg_static_clients]
  | OpBcAuthorize _ => authn_reads ++ [cfg_token_authn_methods; cfg_ciba_delivery_modes; cfg_ciba_jar_sig_algs; cfg_scopes; cfg_acrs; cfg_auth_detail_types; cfg_resources]
  (* NotifyCIBASuccess / NotifyCIBAFailure: the client, the notification through Context.HTTPClient, the pushed tokens *)
  | OpNotifyOk _ _ => [cfg_static_clients; cfg_http_client_func] ++ token_reads
  | OpNotifyFail _ => [cfg_static_clients; cfg_http_client_func; cfg_optional_funcs]
  | OpTick _ => []
  end.

(* every list the discovery document publishes (internal/discovery/util.go) *)
Definition discovery_reads : list cfgobj :=
  [cfg_response_types; cfg_response_modes; cfg_grant_types; cfg_claims; cfg_claim_types; cfg_sub_identifier_types; cfg_id_token_sig_algs;
   cfg_user_info_sig_algs; cfg_scopes; cfg_token_authn_methods; cfg_private_key_jwt_sig_algs; cfg_client_secret_jwt_sig_algs;
   cfg_auth_detail_types; cfg_acrs; cfg_display_values; cfg_jar_sig_algs; cfg_jar_enc_algs; cfg_jarm_sig_algs; cfg_jarm_enc_algs;
   cfg_dpop_sig_algs; cfg_introspection_authn_methods; cfg_revocation_authn_methods; cfg_user_info_enc_algs; cfg_id_token_enc_algs;
   cfg_pkce_methods; cfg_ciba_delivery_modes; cfg_ciba_jar_sig_algs].
(* the validators of client metadata (internal/dcr/validation.go), sector_identifier_uri through Context.HTTPClient *)
Definition dcr_reads : list cfgobj :=
  [cfg_token_authn_methods; cfg_introspection_authn_methods; cfg_revocation_authn_methods; cfg_scopes; cfg_private_key_jwt_sig_algs;
   cfg_client_secret_jwt_sig_algs; cfg_grant_types; cfg_response_types; cfg_id_token_sig_algs; cfg_id_token_enc_algs; cfg_user_info_sig_algs;
   cfg_user_info_enc_algs; cfg_jar_sig_algs; cfg_jar_enc_algs; cfg_jarm_sig_algs; cfg_jarm_enc_algs; cfg_auth_detail_types;
   cfg_sub_identifier_types; cfg_ciba_delivery_modes; cfg_ciba_jar_sig_algs; cfg_http_client_func; cfg_optional_funcs].

Definition cfg_reads (e : endpoint) : list cfgobj :=
  match e with
  | EpOp o => op_cfg_reads o
  | EpDiscovery => discovery_reads
  | EpJWKS => [cfg_optional_funcs]
  | EpDcrCreate | EpDcrUpdate => dcr_reads
  | EpDcrRead | EpDcrDelete => [cfg_optional_funcs]
  end.

(* the Go package whose functions perform the reads (how the detector would name the reader) *)
Definition endpoint_site (e : endpoint) : string :=
  match e with
  | EpOp (OpAuthorize _) | EpOp (OpCallback _) | EpOp (OpPar _) => "internal/authorize.*"
  | EpOp (OpUserInfo _) => "internal/userinfo.*"
  | EpOp _ => "internal/token.*"
  | EpDiscovery | EpJWKS => "internal/discovery.*"
  | _ => "internal/dcr.*"
  end.

(* ---- the summary of a request over BOTH kinds of shared memory ---- *)
Inductive sloc := SStore (l : loc) | SCfg (c : cfgobj).
Definition sloc_eqb (a b : sloc) : bool :=
  match a, b with
  | SStore l, SStore l' => loc_eqb l l'
  | SCfg c, SCfg c' => cfgobj_eqb c c'
  | _, _ => false
  end.
Definition is_cfg (l : sloc) : bool := match l with SCfg _ => true | SStore _ => false end.

Record saccess := mkS { sa_loc : sloc; sa_write : bool; sa_lock : lockmode; sa_site : string }.
Definition of_store (a : access) : saccess := mkS (SStore (ac_loc a)) (ac_write a) (ac_lock a) (ac_site a).
(* a configuration object is read with no lock at all *)
Definition cfg_read (site : string) (c : cfgobj) : saccess := mkS (SCfg c) false NoLock site.

Definition request_summary (has : id -> bool) (w : world) (n : nat) (now : Z) (e : endpoint) (s : store) : list saccess :=
  map (cfg_read (endpoint_site e)) (cfg_reads e)
  ++ match e with
     | EpOp o => map of_store (trace has (handler w n now o) s)
     | _ => []      (* discovery touches no storage; DCR's storage accesses are outside the model (dynamic check only) *)
     end.

(* Eraser's rule as in Access.races *)
Definition sraces (a b : saccess) : bool :=
  andb (sloc_eqb (sa_loc a) (sa_loc b))
       (andb (orb (sa_write a) (sa_write b)) (negb (excludes (sa_lock a) (sa_lock b)))).

(* ---- signatures ----
   The dynamic check names a request-time write to a configuration object "<site>[config]" (and any
   write met in the bursts of the wide phase, where nothing stored is rewritten, "<site>[wide-burst]").
   Such an element is never predicted, whatever stands on the other side: the comparison the case file
   of suite c20 evaluates is predicted_signature_cfg. *)
Definition unpredicted_qualifiers : list string := ["[config]"; "[wide-burst]"].
Definition qualified_unpredicted (el : string) : bool := existsb (fun q => contains el q) unpredicted_qualifiers.
Definition predicted_signature_cfg (a b : string) : bool :=
  andb (negb (orb (qualified_unpredicted a) (qualified_unpredicted b))) (predicted_signature a b).
