(* Disclosure.v — which secret atoms each kind of response may carry.
   Transcribed from internal/dcr/util.go (create/update -> modifyAndSaveClient, setRegistrationToken,
   setSecret, fetch, remove), internal/dcr/model.go (response), pkg/goidc/error.go (Error: code,
   description, uri are the only serialised members) and internal/oidc/context.go (WriteError: a
   plain error becomes internal_error "internal error").  Secrets and registration tokens are
   handles minted by the operation; bcrypt(v) is the constructor SHash v (ideal). *)
From Verif Require Import Base Scope Types.
Local Open Scope N_scope.

Inductive satom :=
  | SPriv (pair : N)        (* a private member of server key pair *)
  | SHash (v : id)          (* bcrypt of the secret / registration token v *)
  | SPlain (v : id).        (* the secret / registration token v in clear *)

(* the stored client, as far as secrets go (goidc.Client: Secret, HashedSecret, HashedRegistrationAccessToken) *)
Record dclient := mkDClient {
  dc_id : id;
  dc_secret : id;            (* Secret: plain, kept for client_secret_jwt only; 0 = "" *)
  dc_hsecret : id;           (* HashedSecret = bcrypt(this handle); 0 = "" *)
  dc_hreg : id;              (* HashedRegistrationAccessToken = bcrypt(this handle); 0 = "" *)
  dc_hashed_methods : bool;  (* some authn method is client_secret_basic / client_secret_post *)
  dc_jwt_method : bool       (* some authn method is client_secret_jwt *)
}.
#[export] Instance eta_dclient : Settable _ := settable! mkDClient
  <dc_id; dc_secret; dc_hsecret; dc_hreg; dc_hashed_methods; dc_jwt_method>.

(* what the stored object holds *)
Definition stored_atoms (c : dclient) : list satom :=
  (if is_nil (dc_secret c) then [] else [SPlain (dc_secret c)]) ++
  (if is_nil (dc_hsecret c) then [] else [SHash (dc_hsecret c)]) ++
  (if is_nil (dc_hreg c) then [] else [SHash (dc_hreg c)]).

(* dcr.response: id, client_secret, registration_access_token, registration_client_uri + metadata *)
Record dresp := mkDResp { dr_id : id; dr_secret : id; dr_regtoken : id }.
Definition dresp_atoms (r : dresp) : list satom :=
  (if is_nil (dr_secret r) then [] else [SPlain (dr_secret r)]) ++
  (if is_nil (dr_regtoken r) then [] else [SPlain (dr_regtoken r)]).

(* setRegistrationToken *)
Definition set_registration_token (n : nat) (rotation : bool) (c : dclient) : id * dclient :=
  if andb (negb (is_nil (dc_hreg c))) (negb rotation) then (0, c)
  else (mint n KRegToken, c <| dc_hreg := mint n KRegToken |>).
(* setSecret *)
Definition set_secret (n : nat) (c : dclient) : id * dclient :=
  let c0 := c <| dc_secret := 0 |> <| dc_hsecret := 0 |> in
  let '(s1, c1) := if dc_hashed_methods c then (mint n KSecret, c0 <| dc_hsecret := mint n KSecret |>) else (0, c0) in
  if dc_jwt_method c then
    let s2 := if is_nil s1 then mint n KSecret else s1 in (s2, c1 <| dc_secret := s2 |>)
  else (s1, c1).
Definition set_id (n : nat) (c : dclient) : dclient :=
  if is_nil (dc_id c) then c <| dc_id := mint n KClientId |> else c.

(* modifyAndSaveClient: the stored client and the response (None: the save failed) *)
Definition modify_and_save (n : nat) (rotation : bool) (save_ok : bool) (c : dclient) : dclient * option dresp :=
  let c1 := set_id n c in
  let '(tok, c2) := set_registration_token n rotation c1 in
  let '(sec, c3) := set_secret n c2 in
  (c3, if save_ok then Some (mkDResp (dc_id c3) sec tok) else None).

Inductive dcr_op := DCreate | DUpdate | DRead | DDelete.

(* what a response body may carry *)
Inductive response_body :=
  | BDcr (r : dresp)                       (* registration response *)
  | BError (e : ecode)                     (* {"error","error_description","error_uri"} *)
  | BEmpty.                                (* 204 *)
Definition body_atoms (b : response_body) : list satom :=
  match b with BDcr r => dresp_atoms r | BError _ => [] | BEmpty => [] end.

(* the four handlers once the request is authorised and valid; `failure` = a storage or hook error,
   whose text WriteError never serialises *)
Definition dcr_handle (o : dcr_op) (n : nat) (rotation save_ok : bool) (c : dclient) : dclient * response_body :=
  match o with
  | DCreate | DUpdate =>
      let '(c', r) := modify_and_save n rotation save_ok c in
      (c', match r with Some r => BDcr r | None => BError EInternalError end)
  | DRead => (c, BDcr (mkDResp (dc_id c) 0 0))
  | DDelete => (c, if save_ok then BEmpty else BError EInternalError)
  end.
