(* Config2.v — the client-authentication METHOD lists and every signing / encryption ALGORITHM list
   of the configuration API as INPUTS of the configuration model.  Config.v models the boolean
   side of provider.New (flags, grants, paths); this file wraps it: an `opt2` is an option of
   Config.v (`O o`, with the argument the harness always passes) or one of the list-taking options
   of pkg/provider/option.go with its real arguments; `build2` = Config.build on the flag side plus
   the lists, transcribed from option.go (appendIfNotIn, the refusals of 'none' / HS* / the
   rune loop of WithSecretJWTSignatureAlgs) and provider.go setDefaults (nonZeroOrDefault of the
   ID token algorithms, the private_key_jwt / client_secret_jwt algorithms derived from the three
   method lists, the default content-encryption algorithms behind their Enc flags). *)
From Verif Require Import Base Scope Types Config.

Inductive opt2 :=
  | O (o : opt)
  (* client authentication *)
  | WithTokenAuthnMethods (m : string) (ms : list string)
  | WithTokenIntrospectionM (m : string) (ms : list string)     (* WithTokenIntrospection(f, m, ms...) *)
  | WithTokenRevocationM (m : string) (ms : list string)        (* WithTokenRevocation(f, m, ms...) *)
  | WithPrivateKeyJWTSignatureAlgs (a : string) (l : list string)
  | WithSecretJWTSignatureAlgs (a : string) (l : list string)
  (* ID token *)
  | WithIDTokenSignatureAlgs (d : string) (l : list string)
  | WithIDTokenEncryption (k : string) (ks : list string)
  | WithIDTokenContentEncryptionAlgs (d : string) (l : list string)
  (* userinfo *)
  | WithUserInfoSignatureAlgs (d : string) (l : list string)
  | WithUserInfoEncryption (k : string) (ks : list string)
  | WithUserInfoContentEncryptionAlgs (d : string) (l : list string)
  (* JAR *)
  | WithJARAlgs (a : string) (l : list string)                  (* WithJAR(a, l...) *)
  | WithJARRequiredAlgs (a : string) (l : list string)          (* WithJARRequired(a, l...) *)
  | WithJAREncryption (k : string) (ks : list string)
  | WithJARContentEncryptionAlgs (a : string) (l : list string)
  (* JARM *)
  | WithJARMAlgs (d : string) (l : list string)                 (* WithJARM(d, l...) *)
  | WithJARMEncryption (k : string) (ks : list string)
  | WithJARMContentEncryptionAlgs (d : string) (l : list string)
  (* DPoP, CIBA request objects *)
  | WithDPoPAlgs (a : string) (l : list string)                 (* WithDPoP(a, l...) *)
  | WithDPoPRequiredAlgs (a : string) (l : list string)
  | WithCIBAJARAlgs (a : string) (l : list string)              (* WithCIBAJAR(a, l...) *)
  | WithCIBAJARRequiredAlgs (a : string) (l : list string).

(* the list side of oidc.Configuration *)
Record lists := mkLists {
  l_token_methods : list string;        (* TokenAuthnMethods *)
  l_intro_methods : list string;        (* TokenIntrospectionAuthnMethods *)
  l_revoc_methods : list string;        (* TokenRevocationAuthnMethods *)
  l_pkjwt_algs : list string;           (* PrivateKeyJWTSigAlgs *)
  l_secretjwt_algs : list string;       (* ClientSecretJWTSigAlgs *)
  l_idt_default_sig : string;           (* IDTokenDefaultSigAlg *)
  l_idt_sig_algs : list string;
  l_idt_enc : bool;                     (* IDTokenEncIsEnabled *)
  l_idt_key_algs : list string;
  l_idt_default_cenc : string;          (* IDTokenDefaultContentEncAlg *)
  l_idt_content_algs : list string;
  l_ui_default_sig : string;
  l_ui_sig_algs : list string;
  l_ui_enc : bool;
  l_ui_key_algs : list string;
  l_ui_default_cenc : string;
  l_ui_content_algs : list string;
  l_jar_sig_algs : list string;
  l_jar_enc : bool;                     (* JAREncIsEnabled *)
  l_jar_key_algs : list string;
  l_jar_content_algs : list string;
  l_jarm_default_sig : string;
  l_jarm_sig_algs : list string;
  l_jarm_enc : bool;
  l_jarm_key_algs : list string;
  l_jarm_default_cenc : string;
  l_jarm_content_algs : list string;
  l_dpop_sig_algs : list string;
  l_ciba_jar_sig_algs : list string
}.
#[export] Instance eta_lists : Settable _ := settable! mkLists
  <l_token_methods; l_intro_methods; l_revoc_methods; l_pkjwt_algs; l_secretjwt_algs;
   l_idt_default_sig; l_idt_sig_algs; l_idt_enc; l_idt_key_algs; l_idt_default_cenc; l_idt_content_algs;
   l_ui_default_sig; l_ui_sig_algs; l_ui_enc; l_ui_key_algs; l_ui_default_cenc; l_ui_content_algs;
   l_jar_sig_algs; l_jar_enc; l_jar_key_algs; l_jar_content_algs;
   l_jarm_default_sig; l_jarm_sig_algs; l_jarm_enc; l_jarm_key_algs; l_jarm_default_cenc; l_jarm_content_algs;
   l_dpop_sig_algs; l_ciba_jar_sig_algs>.

Definition base_lists : lists :=
  mkLists [] [] [] [] [] "" [] false [] "" [] "" [] false [] "" [] [] false [] [] "" [] false [] "" [] [] [].

Record config2 := mkConfig2 { c2_base : config; c2_lists : lists }.

(* ---- the flag side: which option(s) of Config.v an opt2 amounts to ---- *)
Definition base_of (o : opt2) : list opt :=
  match o with
  | O o => [o]
  | WithTokenIntrospectionM _ _ => [WithTokenIntrospection]
  | WithTokenRevocationM _ _ => [WithTokenRevocation]
  | WithJARAlgs _ _ => [WithJAR]
  | WithJARRequiredAlgs _ _ => [WithJARRequired]
  | WithJARMAlgs _ _ => [WithJARM]
  | WithDPoPAlgs _ _ => [WithDPoP]
  | WithDPoPRequiredAlgs _ _ => [WithDPoPRequired]
  | WithCIBAJARAlgs _ _ => [WithCIBAJAR]
  | WithCIBAJARRequiredAlgs _ _ => [WithCIBAJARRequired]
  | _ => []
  end.

(* ---- what harness/world.go passes where an option of Config.v takes a list ---- *)
Definition harness_arg (o : opt) : option opt2 :=
  match o with
  | WithTokenIntrospection => Some (WithTokenIntrospectionM "client_secret_post" ["none"])
  | WithTokenRevocation => Some (WithTokenRevocationM "client_secret_post" ["none"])
  | WithJAR => Some (WithJARAlgs "ES256" [])
  | WithJARRequired => Some (WithJARRequiredAlgs "ES256" [])
  | WithJARM => Some (WithJARMAlgs "ES256" [])
  | WithDPoP => Some (WithDPoPAlgs "ES256" [])
  | WithDPoPRequired => Some (WithDPoPRequiredAlgs "ES256" [])
  | WithCIBAJAR => Some (WithCIBAJARAlgs "ES256" [])
  | WithCIBAJARRequired => Some (WithCIBAJARRequiredAlgs "ES256" [])
  | _ => None
  end.

(* ---- the list side of every option (option.go); appendIfNotIn = Config.append_if_not_in ---- *)
Definition apply_lists1 (o : opt2) (l : lists) : lists :=
  match o with
  | O _ => l
  | WithTokenAuthnMethods m ms => l <| l_token_methods := append_if_not_in ms m |>
  | WithTokenIntrospectionM m ms => l <| l_intro_methods := append_if_not_in ms m |>
  | WithTokenRevocationM m ms => l <| l_revoc_methods := append_if_not_in ms m |>
  | WithPrivateKeyJWTSignatureAlgs a al => l <| l_pkjwt_algs := append_if_not_in al a |>
  | WithSecretJWTSignatureAlgs a al => l <| l_secretjwt_algs := append_if_not_in al a |>
  | WithIDTokenSignatureAlgs d al => l <| l_idt_default_sig := d |> <| l_idt_sig_algs := append_if_not_in al d |>
  | WithIDTokenEncryption k ks => l <| l_idt_enc := true |> <| l_idt_key_algs := append_if_not_in ks k |>
  | WithIDTokenContentEncryptionAlgs d al =>
      l <| l_idt_default_cenc := d |> <| l_idt_content_algs := append_if_not_in al d |>
  | WithUserInfoSignatureAlgs d al => l <| l_ui_default_sig := d |> <| l_ui_sig_algs := append_if_not_in al d |>
  | WithUserInfoEncryption k ks => l <| l_ui_enc := true |> <| l_ui_key_algs := append_if_not_in ks k |>
  | WithUserInfoContentEncryptionAlgs d al =>
      l <| l_ui_default_cenc := d |> <| l_ui_content_algs := append_if_not_in al d |>
  | WithJARAlgs a al | WithJARRequiredAlgs a al => l <| l_jar_sig_algs := append_if_not_in al a |>
  | WithJAREncryption k ks => l <| l_jar_enc := true |> <| l_jar_key_algs := append_if_not_in ks k |>
  | WithJARContentEncryptionAlgs a al => l <| l_jar_content_algs := append_if_not_in al a |>
  | WithJARMAlgs d al => l <| l_jarm_default_sig := d |> <| l_jarm_sig_algs := append_if_not_in al d |>
  | WithJARMEncryption k ks => l <| l_jarm_enc := true |> <| l_jarm_key_algs := append_if_not_in ks k |>
  | WithJARMContentEncryptionAlgs d al =>
      l <| l_jarm_default_cenc := d |> <| l_jarm_content_algs := append_if_not_in al d |>
  | WithDPoPAlgs a al | WithDPoPRequiredAlgs a al => l <| l_dpop_sig_algs := append_if_not_in al a |>
  | WithCIBAJARAlgs a al | WithCIBAJARRequiredAlgs a al => l <| l_ciba_jar_sig_algs := append_if_not_in al a |>
  end.

Definition apply_lists (o : opt2) (l : lists) : lists :=
  match o with
  | O o' => match harness_arg o' with Some o2 => apply_lists1 o2 l | None => l end
  | _ => apply_lists1 o l
  end.

(* ---- options that return an error (provider.New then fails) ---- *)
(* WithSecretJWTSignatureAlgs: `for _, a := range alg` ranges over the RUNES of the first argument and
   tests strings.HasPrefix(string(a), "HS") on each one-character string: refused for every
   non-empty first argument *)
Definition opt2_ok (o : opt2) : bool :=
  match o with
  | WithPrivateKeyJWTSignatureAlgs a al =>
      let algs := append_if_not_in al a in
      andb (negb (mem "none" algs)) (negb (existsb (has_prefix "HS") algs))
  | WithSecretJWTSignatureAlgs a al =>
      andb (negb (mem "none" (append_if_not_in al a))) (is_empty a)
  | WithJARMAlgs d al => negb (mem "none" (append_if_not_in al d))
  | WithDPoPAlgs a al | WithDPoPRequiredAlgs a al => negb (mem "none" (append_if_not_in al a))
  | _ => true
  end.

(* ---- Provider.setDefaults, the list side ---- *)
(* nonZeroOrDefault on a slice: the default replaces nil only; every option writes a non-empty slice *)
Definition non_zero_or (l d : list string) : list string := match l with [] => d | _ => l end.
Definition non_zero_or_s (s d : string) : string := if is_empty s then d else s.

Definition all_authn_methods (l : lists) : list string :=
  (l_token_methods l ++ l_intro_methods l ++ l_revoc_methods l)%list.

(* the steps of setDefaults that touch a list, in the order of provider.go *)
Definition sd_idt_sig (l : lists) : lists :=
  l <| l_idt_default_sig := non_zero_or_s (l_idt_default_sig l) "RS256" |>
    <| l_idt_sig_algs := non_zero_or (l_idt_sig_algs l) ["RS256"] |>.
(* authnMethods = TokenAuthnMethods ++ TokenIntrospectionAuthnMethods ++ TokenRevocationAuthnMethods *)
Definition sd_pkjwt (authn : list string) (l : lists) : lists :=
  if mem "private_key_jwt" authn then l <| l_pkjwt_algs := non_zero_or (l_pkjwt_algs l) ["RS256"] |> else l.
Definition sd_secretjwt (authn : list string) (l : lists) : lists :=
  if mem "client_secret_jwt" authn then l <| l_secretjwt_algs := non_zero_or (l_secretjwt_algs l) ["HS256"] |> else l.
Definition sd_jar_enc (l : lists) : lists :=
  if l_jar_enc l then l <| l_jar_content_algs := non_zero_or (l_jar_content_algs l) ["A128CBC-HS256"] |> else l.
Definition sd_jarm_enc (l : lists) : lists :=
  if l_jarm_enc l
  then l <| l_jarm_default_cenc := non_zero_or_s (l_jarm_default_cenc l) "A128CBC-HS256" |>
         <| l_jarm_content_algs := non_zero_or (l_jarm_content_algs l) ["A128CBC-HS256"] |>
  else l.
Definition sd_idt_enc (l : lists) : lists :=
  if l_idt_enc l
  then l <| l_idt_default_cenc := non_zero_or_s (l_idt_default_cenc l) "A128CBC-HS256" |>
         <| l_idt_content_algs := non_zero_or (l_idt_content_algs l) ["A128CBC-HS256"] |>
  else l.
Definition sd_ui_enc (l : lists) : lists :=
  if l_ui_enc l
  then l <| l_ui_default_cenc := non_zero_or_s (l_ui_default_cenc l) "A128CBC-HS256" |>
         <| l_ui_content_algs := non_zero_or (l_ui_content_algs l) ["A128CBC-HS256"] |>
  else l.

Definition set_defaults_lists (l : lists) : lists :=
  let l1 := sd_idt_sig l in
  let authn := all_authn_methods l1 in
  sd_ui_enc (sd_idt_enc (sd_jarm_enc (sd_jar_enc (sd_secretjwt authn (sd_pkjwt authn l1))))).

Definition folded_lists (opts : list opt2) : lists :=
  fold_left (fun l o => apply_lists o l) opts base_lists.

(* provider.New: the options in order (the first error aborts), setDefaults, validate *)
Definition build2 (p : profile) (opts : list opt2) : option config2 :=
  if forallb opt2_ok opts then
    match build p (flat_map base_of opts) with
    | Some c => Some (mkConfig2 c (set_defaults_lists (folded_lists opts)))
    | None => None
    end
  else None.
