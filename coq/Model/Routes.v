(* Routes.v — endpoint PATH overrides as inputs of the configuration model.
   Config.v models the flag side of provider.New and Discovery.v the document and the route table
   with the default paths; this file wraps them: a `popt` is an option of Config.v (`PO o`) or one
   of the nine endpoint-path options of pkg/provider/option.go with its real argument,
   `build3` = Config.build on the flag side plus the ten Endpoint* fields of oidc.Configuration
   (option.go: every With…Endpoint assigns its field unconditionally; provider.go setDefaults:
   nonZeroOrDefault for well-known / jwks / token / authorize / userinfo always, for dcr / par /
   introspection / revocation / ciba only under the feature flag), `routes3` the route table of
   Provider.Handler() (the RegisterHandlers of internal/{discovery,token,authorize,userinfo,dcr}/api.go:
   pattern = METHOD prefix ++ path, each optional route under its *IsEnabled flag) and `member3`
   the endpoint members of internal/discovery/util.go oidcConfig (ctx.BaseURL() ++ path, each
   optional member under the same flag) and the mtls_endpoint_aliases object. *)
From Verif Require Import Base Scope Types Config Discovery.

Inductive popt :=
  | PO (o : opt)
  | WithJWKSEndpoint (s : string)
  | WithTokenEndpoint (s : string)
  | WithAuthorizeEndpoint (s : string)
  | WithPAREndpoint (s : string)
  | WithDCREndpoint (s : string)
  | WithUserInfoEndpoint (s : string)
  | WithTokenIntrospectionEndpoint (s : string)
  | WithTokenRevocationEndpoint (s : string)
  | WithCIBAEndpoint (s : string).

(* the Endpoint* fields of oidc.Configuration (EndpointPrefix is cf_prefix) *)
Record paths := mkPaths {
  pa_wellknown : string;      (* EndpointWellKnown: no option assigns it *)
  pa_jwks : string;
  pa_token : string;
  pa_authorize : string;
  pa_par : string;            (* EndpointPushedAuthorization *)
  pa_dcr : string;
  pa_userinfo : string;
  pa_introspect : string;
  pa_revoke : string;         (* EndpointTokenRevocation *)
  pa_ciba : string
}.

Record pcfg := mkPcfg { pc_cfg : config; pc_paths : paths }.

Definition no_paths : paths := mkPaths "" "" "" "" "" "" "" "" "" "".

(* the field an endpoint's patterns and URL are built from (callbacks live below EndpointAuthorize,
   registered clients below EndpointDCR) *)
Definition path3 (ps : paths) (e : endpoint) : string :=
  match e with
  | EpWellKnown => pa_wellknown ps
  | EpJWKS => pa_jwks ps
  | EpToken => pa_token ps
  | EpAuthorize | EpAuthorizeCb => pa_authorize ps
  | EpUserInfo => pa_userinfo ps
  | EpPar => pa_par ps
  | EpCiba => pa_ciba ps
  | EpIntrospect => pa_introspect ps
  | EpRevoke => pa_revoke ps
  | EpDcr | EpDcrClient => pa_dcr ps
  end.

(* option.go: the endpoint options assign the field, whatever the argument and whatever the flags *)
Definition apply_path (o : popt) (ps : paths) : paths :=
  match o with
  | PO _ => ps
  | WithJWKSEndpoint s => mkPaths (pa_wellknown ps) s (pa_token ps) (pa_authorize ps) (pa_par ps) (pa_dcr ps) (pa_userinfo ps) (pa_introspect ps) (pa_revoke ps) (pa_ciba ps)
  | WithTokenEndpoint s => mkPaths (pa_wellknown ps) (pa_jwks ps) s (pa_authorize ps) (pa_par ps) (pa_dcr ps) (pa_userinfo ps) (pa_introspect ps) (pa_revoke ps) (pa_ciba ps)
  | WithAuthorizeEndpoint s => mkPaths (pa_wellknown ps) (pa_jwks ps) (pa_token ps) s (pa_par ps) (pa_dcr ps) (pa_userinfo ps) (pa_introspect ps) (pa_revoke ps) (pa_ciba ps)
  | WithPAREndpoint s => mkPaths (pa_wellknown ps) (pa_jwks ps) (pa_token ps) (pa_authorize ps) s (pa_dcr ps) (pa_userinfo ps) (pa_introspect ps) (pa_revoke ps) (pa_ciba ps)
  | WithDCREndpoint s => mkPaths (pa_wellknown ps) (pa_jwks ps) (pa_token ps) (pa_authorize ps) (pa_par ps) s (pa_userinfo ps) (pa_introspect ps) (pa_revoke ps) (pa_ciba ps)
  | WithUserInfoEndpoint s => mkPaths (pa_wellknown ps) (pa_jwks ps) (pa_token ps) (pa_authorize ps) (pa_par ps) (pa_dcr ps) s (pa_introspect ps) (pa_revoke ps) (pa_ciba ps)
  | WithTokenIntrospectionEndpoint s => mkPaths (pa_wellknown ps) (pa_jwks ps) (pa_token ps) (pa_authorize ps) (pa_par ps) (pa_dcr ps) (pa_userinfo ps) s (pa_revoke ps) (pa_ciba ps)
  | WithTokenRevocationEndpoint s => mkPaths (pa_wellknown ps) (pa_jwks ps) (pa_token ps) (pa_authorize ps) (pa_par ps) (pa_dcr ps) (pa_userinfo ps) (pa_introspect ps) s (pa_ciba ps)
  | WithCIBAEndpoint s => mkPaths (pa_wellknown ps) (pa_jwks ps) (pa_token ps) (pa_authorize ps) (pa_par ps) (pa_dcr ps) (pa_userinfo ps) (pa_introspect ps) (pa_revoke ps) s
  end.

(* the flag side: the Config.v options of the list, in order (a path option touches no other field) *)
Definition base_opts (opts : list popt) : list opt :=
  flat_map (fun o => match o with PO b => [b] | _ => [] end) opts.

Definition apply_popt (o : popt) (pc : pcfg) : pcfg :=
  match o with
  | PO b => mkPcfg (apply_opt b (pc_cfg pc)) (pc_paths pc)
  | _ => mkPcfg (pc_cfg pc) (apply_path o (pc_paths pc))
  end.

(* nonZeroOrDefault on strings *)
Definition non_zero_path (s d : string) : string := if is_empty s then d else s.

(* which flag guards the routes and the metadata member of an endpoint (true: unconditional) *)
Definition ep_guard (c : config) (e : endpoint) : bool :=
  match e with
  | EpPar => cf_par_enabled c
  | EpCiba => cf_ciba_enabled c
  | EpIntrospect => cf_introspection c
  | EpRevoke => cf_revocation c
  | EpDcr | EpDcrClient => cf_dcr c
  | _ => true
  end.

(* the path side of Provider.setDefaults, in the order of the function *)
Definition set_default_paths (c : config) (ps : paths) : paths :=
  mkPaths
    (non_zero_path (pa_wellknown ps) (ep_path EpWellKnown))
    (non_zero_path (pa_jwks ps) (ep_path EpJWKS))
    (non_zero_path (pa_token ps) (ep_path EpToken))
    (non_zero_path (pa_authorize ps) (ep_path EpAuthorize))
    (if cf_par_enabled c then non_zero_path (pa_par ps) (ep_path EpPar) else pa_par ps)
    (if cf_dcr c then non_zero_path (pa_dcr ps) (ep_path EpDcr) else pa_dcr ps)
    (non_zero_path (pa_userinfo ps) (ep_path EpUserInfo))
    (if cf_introspection c then non_zero_path (pa_introspect ps) (ep_path EpIntrospect) else pa_introspect ps)
    (if cf_revocation c then non_zero_path (pa_revoke ps) (ep_path EpRevoke) else pa_revoke ps)
    (if cf_ciba_enabled c then non_zero_path (pa_ciba ps) (ep_path EpCiba) else pa_ciba ps).

(* provider.New: the options in order, setDefaults, validate *)
Definition folded3 (p : profile) (opts : list popt) : pcfg :=
  fold_left (fun pc o => apply_popt o pc) opts (mkPcfg (base_config p) no_paths).

Definition build3 (p : profile) (opts : list popt) : option pcfg :=
  let f := folded3 p opts in
  let c := set_defaults (pc_cfg f) in
  if valid_config c then Some (mkPcfg c (set_default_paths c (pc_paths f))) else None.

(* ---- the route table: Provider.Handler() = discovery, token, authorize, userinfo, dcr ---- *)
Definition is_sub (e : endpoint) : bool := match e with EpAuthorizeCb | EpDcrClient => true | _ => false end.

Definition rt3 (ps : paths) (m : meth) (e : endpoint) : route := mkRoute m (path3 ps e) (is_sub e) e.

Definition routes3 (pc : pcfg) : list route :=
  let c := pc_cfg pc in
  let r := rt3 (pc_paths pc) in
  (* discovery.RegisterHandlers *)
  [r MGet EpJWKS; r MGet EpWellKnown] ++
  (* token.RegisterHandlers *)
  [r MPost EpToken] ++
  (if cf_introspection c then [r MPost EpIntrospect] else []) ++
  (if cf_revocation c then [r MPost EpRevoke] else []) ++
  (* authorize.RegisterHandlers *)
  (if cf_par_enabled c then [r MPost EpPar] else []) ++
  (if cf_ciba_enabled c then [r MPost EpCiba] else []) ++
  [r MGet EpAuthorize; r MPost EpAuthorize; r MPost EpAuthorizeCb; r MGet EpAuthorizeCb] ++
  (* userinfo.RegisterHandlers *)
  [r MPost EpUserInfo; r MGet EpUserInfo] ++
  (* dcr.RegisterHandlers *)
  (if cf_dcr c then [r MPost EpDcr; r MPut EpDcrClient; r MGet EpDcrClient; r MDelete EpDcrClient] else []).

(* ServeMux dispatch (every pattern starts with the configured prefix); None = the mux's own 404/405.
   `find` stands for ServeMux's choice among several matching patterns: it is the mux's answer
   whenever the patterns of different endpoints do not overlap (routes_ok below), which is also the
   condition under which ServeMux accepts the registrations at all. *)
Definition serve3 (pc : pcfg) (m : meth) (path : string) : option endpoint :=
  match strip_prefix (cf_prefix (pc_cfg pc)) path with
  | Some rel => option_map r_ep (find (fun r => route_matches r m rel) (routes3 pc))
  | None => None
  end.

(* distinctness: no pattern of ANOTHER endpoint matches the path an endpoint is registered at
   (two endpoints given the same path under one method, or a path below EndpointAuthorize ++ "/" /
   EndpointDCR ++ "/") *)
Definition routes_ok (pc : pcfg) : bool :=
  forallb (fun a => orb (r_sub a)
     (forallb (fun b => implb (route_matches b (r_meth a) (r_path a)) (ep_eqb (r_ep a) (r_ep b))) (routes3 pc)))
    (routes3 pc).

(* a path that none of the OTHER endpoints' patterns matches under method m *)
Definition free_of_others (pc : pcfg) (e : endpoint) (m : meth) (rel : string) : bool :=
  forallb (fun r => orb (ep_eqb (r_ep r) e) (negb (route_matches r m rel))) (routes3 pc).

(* ---- the endpoint members of the document ---- *)
Section Document3.
  Variable iss : string.        (* Configuration.Host *)
  Variable mtls : string.       (* Configuration.MTLSHost *)
  Variable pc : pcfg.
  Notation c := (pc_cfg pc).

  (* ctx.BaseURL() + ctx.Endpoint… *)
  Definition ep_url3 (e : endpoint) : string := iss ++ cf_prefix c ++ path3 (pc_paths pc) e.
  Definition ep_mtls_url3 (e : endpoint) : string := mtls ++ cf_prefix c ++ path3 (pc_paths pc) e.

  Definition mtls_aliases3 : list (string * string) :=
    [("token_endpoint", ep_mtls_url3 EpToken); ("userinfo_endpoint", ep_mtls_url3 EpUserInfo)] ++
    (if cf_par_enabled c then [("pushed_authorization_request_endpoint", ep_mtls_url3 EpPar)] else []) ++
    (if cf_dcr c then [("registration_endpoint", ep_mtls_url3 EpDcr)] else []) ++
    (if cf_introspection c then [("introspection_endpoint", ep_mtls_url3 EpIntrospect)] else []) ++
    (if cf_revocation c then [("revocation_endpoint", ep_mtls_url3 EpRevoke)] else []) ++
    (if cf_ciba_enabled c then [("backchannel_authentication_endpoint", ep_mtls_url3 EpCiba)] else []).

  (* the value oidcConfig assigns: the URL under the guard, the zero value otherwise; the members
     that do not carry an endpoint URL are those of Discovery.v *)
  Definition member_raw3 (m : member) : dval :=
    match m with
    | MMtlsAliases => DObj (if cf_mtls_enabled c then mtls_aliases3 else [])
    | _ => match member_endpoint m with
           | Some e => DStr (if ep_guard c e then ep_url3 e else "")
           | None => member_raw iss mtls c m
           end
    end.

  Definition member3 (m : member) : option dval :=
    match m with
    | MMtlsAliases => if cf_mtls_enabled c then Some (member_raw3 m) else None
    | _ => if always_written m then Some (member_raw3 m) else omit_empty (member_raw3 m)
    end.

  Definition document3 : list (string * dval) :=
    flat_map (fun m => match member3 m with Some v => [(member_name m, v)] | None => [] end) all_members.
End Document3.

(* the LAST path option of the list that writes the field of e ("" when there is none) *)
Definition writes_path (e : endpoint) (o : popt) : option string :=
  match o, e with
  | WithJWKSEndpoint s, EpJWKS => Some s
  | WithTokenEndpoint s, EpToken => Some s
  | WithAuthorizeEndpoint s, (EpAuthorize | EpAuthorizeCb) => Some s
  | WithPAREndpoint s, EpPar => Some s
  | WithDCREndpoint s, (EpDcr | EpDcrClient) => Some s
  | WithUserInfoEndpoint s, EpUserInfo => Some s
  | WithTokenIntrospectionEndpoint s, EpIntrospect => Some s
  | WithTokenRevocationEndpoint s, EpRevoke => Some s
  | WithCIBAEndpoint s, EpCiba => Some s
  | _, _ => None
  end.
Definition last_override (e : endpoint) (opts : list popt) : string :=
  fold_left (fun acc o => match writes_path e o with Some s => s | None => acc end) opts "".
