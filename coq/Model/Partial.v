(* Partial.v — partiality made explicit (C13).

   Totality of a Gallina function says nothing about a Go panic.  Every Go expression of the
   handlers that can panic at a site the code does not guard locally is written here as a small
   operation returning [Panic] unless its precondition holds, next to the guard the code runs
   EARLIER ON THE SAME VALUE, composed as the Go code composes them now (tree with the fix:
   commits 8ab461c, 7255634, a1e11cb).  Sites: DESIGN.md Appendix C.

     site                                   Go expression that panics
     authorize.urlWithQueryParams           parsedURL.Query() on the nil result of url.Parse
     dpop.JWKThumbprint                     parsedDPoPJWT.Headers[0].JSONWebKey.Thumbprint on nil
     token.ExtractID / jwtTokenInfo         claims["jti"].(string)
     token.validateBindingTLS               cert.Raw on a nil certificate
     token.sendClientNotification           req.Header on the nil result of http.NewRequest
     initAuthnSession / cibaAuthnSession    idToken.UnsafeClaimsWithoutVerification on nil
     authorize.authenticate                 policy.Authenticate of the zero AuthnPolicy (nil func)

   Also here: ErrorCode.StatusCode (pkg/goidc/error.go) and the two renderers
   (oidc.Context.WriteError for API routes, authorize.redirectError for the authorization
   endpoint). *)
From Verif Require Import Base Scope Types Prog Pop Token Authorize.
Local Open Scope N_scope.

Inductive pres (A : Type) : Type := Val (a : A) | Panic.
Arguments Val {A} a.
Arguments Panic {A}.
Definition panics {A} (r : pres A) : bool := match r with Panic => true | Val _ => false end.
Definition pbind {A B} (r : pres A) (f : A -> pres B) : pres B :=
  match r with Val a => f a | Panic => Panic end.

(* ------------------------------------------------------------------------------------------ *)
(* 1. authorize.urlWithQueryParams (internal/authorize/redirect.go)                            *)
(* A redirect URI is a string plus the verdict of net/url.Parse on it (abstract parser, one
   bit).  [nparams] is len(params).                                                            *)
Record ruri := mkRuri { ru_str : string; ru_parses : bool }.

(* the body before fix 8ab461c: parsedURL, _ := url.Parse(uri); parsedURL.Query() *)
Definition url_with_query_params_unguarded (u : ruri) (nparams : nat) : pres string :=
  if Nat.eqb nparams 0 then Val (ru_str u) else
  if ru_parses u then Val (ru_str u ++ "?...") else Panic.

(* the body now: a parse error leaves the URI as it is *)
Definition url_with_query_params (u : ruri) (nparams : nat) : pres string :=
  if Nat.eqb nparams 0 then Val (ru_str u) else
  if negb (ru_parses u) then Val (ru_str u) else
  url_with_query_params_unguarded u nparams.

(* validateRedirectURIAsOptional (internal/authorize/validation.go), now: membership in the
   client's list (the local copy that also holds the pushed URI when unregistered URIs are
   allowed for PAR), then url.Parse must succeed.  None = accepted. *)
Definition validate_redirect_uri_as_optional (allowed : list string) (u : ruri) : option ecode :=
  if is_empty (ru_str u) then None else
  if negb (mem (ru_str u) allowed) then Some EInvalidRequest else
  if negb (ru_parses u) then Some EInvalidRequest else None.
(* the guard before the fix: membership only *)
Definition validate_redirect_uri_as_optional_prefix (allowed : list string) (u : ruri) : option ecode :=
  if is_empty (ru_str u) then None else
  if negb (mem (ru_str u) allowed) then Some EInvalidRequest else None.

(* ------------------------------------------------------------------------------------------ *)
(* 2. dpop.JWKThumbprint (internal/dpop/util.go)                                               *)
(* jwt.ParseSigned(dpopJWT, algs) with the error dropped, then Headers[0].JSONWebKey.Thumbprint:
   a nil *JSONWebToken when the string does not parse under the algorithm list, a nil
   *JSONWebKey when there is no embedded key. *)
Definition jwk_thumbprint (p : dpop_proof) : pres id :=
  if negb (dp_parses p) then Panic else
  match dp_jwk p with
  | JwkAbsent => Panic
  | j => Val (jwk_thumb j)
  end.

(* ValidateJWT with its internal call of JWKThumbprint explicit (the call sits behind the
   parse, typ and jwk guards of the same function) *)
Definition validate_jwt_p (lifetime leeway : Z) (p : dpop_proof) (opt_token opt_jkt : id) : pres (option ecode) :=
  if negb (dp_parses p) then Val (Some EInvalidRequest) else
  if negb (dp_typ_ok p) then Val (Some EInvalidRequest) else
  match dp_jwk p with
  | JwkAbsent | JwkPrivate _ => Val (Some EInvalidRequest)
  | JwkPublic k =>
      if negb (ideq (dp_signer p) k) then Val (Some EInvalidRequest) else
      match dp_iat_age p with
      | None => Val (Some EUnauthorizedClient)
      | Some age =>
          if Z.ltb lifetime age then Val (Some EUnauthorizedClient) else
          if negb (dp_jti p) then Val (Some EInvalidRequest) else
          if negb (dp_htm_ok p) then Val (Some EInvalidRequest) else
          if negb (htu_ok (dp_htu p)) then Val (Some EInvalidRequest) else
          if andb (negb (is_nil opt_token)) (negb (ideq (dp_ath p) opt_token)) then Val (Some EInvalidRequest) else
          pbind (if is_nil opt_jkt then Val false else
                 pbind (jwk_thumbprint p) (fun t => Val (negb (ideq t opt_jkt))))
                (fun mismatch =>
                   if mismatch then Val (Some EInvalidRequest) else
                   if Z.ltb age (- leeway)%Z then Val (Some EInvalidRequest) else Val None)
      end
  end.

(* token.setPoP, setPoPForCIBAPushMode: the thumbprint recorded when a DPoP header came *)
Definition set_pop_jkt_p (cfg : config) (b : bind_in) : pres id :=
  match b_dpop b with
  | Some p => if cf_dpop_enabled cfg then jwk_thumbprint p else Val 0
  | None => Val 0
  end.
(* authorize.setPoPForPAR: dpop_jkt, overridden by the header's key *)
Definition set_pop_par_p (cfg : config) (b : bind_in) (dpop_jkt : id) : pres id :=
  if negb (cf_dpop_enabled cfg) then Val 0 else
  match b_dpop b with Some p => jwk_thumbprint p | None => Val dpop_jkt end.
(* authorize.validateCodeBindingDPoP: the guard /par runs first *)
Definition validate_code_binding_dpop (cfg : config) (b : bind_in) (dpop_jkt : id) : option ecode :=
  if negb (cf_dpop_enabled cfg) then None else
  match b_dpop b with Some p => validate_jwt jwt_lifetime jwt_leeway p 0 dpop_jkt | None => None end.
(* token.updatePoPForRefreshedToken: NOT conditioned on DPoPIsEnabled, only on the grant *)
Definition update_pop_refresh_p (b : bind_in) (g : gsession) : pres id :=
  match b_dpop b with
  | Some p => if is_nil (g_jkt g) then Val (g_jkt g) else jwk_thumbprint p
  | None => Val (g_jkt g)
  end.

(* ------------------------------------------------------------------------------------------ *)
(* 3. token.ExtractID, token.jwtTokenInfo: claims["jti"].(string)                              *)
Inductive jti_claim := JtiAbsent | JtiString (i : id) | JtiOther.
(* token.makeJWTToken: jti = uuid, then every entry of GrantInfo.AdditionalTokenClaims (the
   embedder's HandleGrantFunc) is copied over the claims *)
Definition make_jwt_jti (uuid : id) (additional : jti_claim) : jti_claim :=
  match additional with JtiAbsent => JtiString uuid | j => j end.
(* both sites test the claim against nil first, then assert the type *)
Definition extract_jti (j : jti_claim) : pres (option id) :=
  match j with JtiAbsent => Val None | JtiString i => Val (Some i) | JtiOther => Panic end.

(* ------------------------------------------------------------------------------------------ *)
(* 4. token.validateBindingTLS: cert.Raw although ctx.ClientCert() failed                      *)
Definition validate_binding_tls_p (cfg : config) (c : client) (b : bind_in) (o : bind_opts) : pres (option ecode) :=
  if negb (cf_tls_binding_enabled cfg) then Val None else
  if andb (is_nil (b_cert b)) (orb (cf_tls_binding_required cfg) (orb (c_tls_required c) (bo_tls_required o)))
  then Val (Some EInvalidRequest) else
  if is_nil (bo_tls_thumb o) then Val None else
  if is_nil (b_cert b) then Panic else
  if negb (ideq (bo_tls_thumb o) (b_cert b)) then Val (Some EInvalidRequest) else Val None.
(* the option records the three callers build *)
Definition code_bind_opts (s : asession) : bind_opts :=
  let jkt := if is_nil (a_jkt s) then p_dpop_jkt (a_params s) else a_jkt s in
  mkBindOpts (negb (is_nil (a_x5t s))) (a_x5t s) (negb (is_nil jkt)) jkt.
Definition refresh_tls_opts (g : gsession) : bind_opts := mkBindOpts true (g_x5t g) false 0.
(* callers that pass nil options: client_credentials, jwt-bearer, CIBA *)
Definition caller_opts_ok (o : bind_opts) : bool :=
  orb (is_nil (bo_tls_thumb o)) (bo_tls_required o).

(* ------------------------------------------------------------------------------------------ *)
(* 5. token.sendClientNotification: http.NewRequest(POST, endpoint) with the error dropped     *)
Record endpoint := mkEndpoint { ep_parses : bool; ep_https : bool; ep_has_host : bool }.
Definition send_client_notification (e : endpoint) : pres unit :=
  if ep_parses e then Val tt else Panic.
(* dcr.validateURL as called by validateCIBATokenNotificationEndpoint (same parser: url.Parse) *)
Definition dcr_validate_url (e : endpoint) : option ecode :=
  if negb (ep_parses e) then Some EInvalidClientMetadata else
  if negb (andb (ep_https e) (ep_has_host e)) then Some EInvalidClientMetadata else None.

(* ------------------------------------------------------------------------------------------ *)
(* 6. initAuthnSession, cibaAuthnSession: jwt.ParseSigned(hint, IDTokenSigAlgs) with the error
      dropped, then idToken.UnsafeClaimsWithoutVerification                                    *)
Record id_hint := mkHint {
  h_present : bool;          (* id_token_hint != "" *)
  h_parses : bool;           (* compact JWS whose alg is one of ctx.IDTokenSigAlgs *)
  h_one_header : bool;
  h_key_known : bool;        (* ctx.PublicJWK(kid) finds a key *)
  h_sig_ok : bool
}.
Definition validate_id_token_hint_as_optional (h : id_hint) : option ecode :=
  if negb (h_present h) then None else
  if negb (h_parses h) then Some EInvalidRequest else
  if negb (h_one_header h) then Some EInvalidRequest else
  if negb (h_key_known h) then Some EInvalidRequest else
  if negb (h_sig_ok h) then Some EInvalidRequest else None.
Definition id_token_hint_claims (h : id_hint) : pres unit :=
  if negb (h_present h) then Val tt else
  if h_parses h then Val tt else Panic.

(* ------------------------------------------------------------------------------------------ *)
(* 7. authorize.authenticate: ctx.Policy(session.PolicyID).Authenticate                        *)
(* ctx.AvailablePolicy: the first configured policy whose SetUp accepts; ctx.Policy: by id,
   the zero policy (nil Authenticate) when none has that id. *)
Definition available_policy (policies : list id) (setup : id -> bool) : option id := find setup policies.
Definition policy_authenticate (policies : list id) (pid : id) : pres id :=
  if memN pid policies then Val pid else Panic.

(* ------------------------------------------------------------------------------------------ *)
(* ErrorCode.StatusCode (pkg/goidc/error.go)                                                   *)
Definition error_status (e : ecode) : N :=
  match e with
  | EAccessDenied => 403
  | EInvalidClient | EInvalidToken | EUnauthorizedClient => 401
  | EInternalError => 500
  | _ => 400          (* the default branch; EOther stands for every code not enumerated *)
  end.

(* what a handler returns to the error writer: a goidc.Error, or any other Go error *)
Inductive herr := HGoidc (e : ecode) | HForeign.
(* oidc.Context.WriteError: errors.As(err, &goidc.Error) else internal_error; always a JSON
   object with an "error" member; status = the code's status *)
Record api_error := mkApiError { ae_status : N; ae_code : ecode; ae_json_with_error_member : bool }.
Definition write_error (h : herr) : api_error :=
  let e := match h with HGoidc e => e | HForeign => EInternalError end in
  mkApiError (error_status e) e true.

(* a model handler's result as the API routes render it (token, par, bc-authorize, introspect,
   revoke, userinfo): status of the HTTP response *)
Definition api_status (o : out) : N :=
  match o with
  | OErr e => ae_status (write_error (HGoidc e))
  | OPar _ => 201
  | ONav _ _ _ => 303
  | OPanic => 0
  | _ => 200
  end.
(* authorize.redirectError: a redirection error travels to the client as parameters of a 303
   (or an auto-submitting form, 200); anything else goes to the error writer / page *)
Definition authorize_status (o : out) : N :=
  match o with
  | ONav m _ _ => if orb (seqb m "form_post") (seqb m "form_post.jwt") then 200 else 303
  | o => api_status o
  end.

Definition is_internal (o : out) : bool :=
  match o with
  | OErr EInternalError => true
  | ONav _ _ n => match n_err n with Some EInternalError => true | _ => false end
  | _ => false
  end.
Definition is_panic (o : out) : bool := match o with OPanic => true | _ => false end.
