(* Token.v — POST /token (the five grants, jwt-bearer included), /introspect, /revoke,
   /userinfo and the provider's TokenInfo helpers, transcribed statement by
   statement from internal/token/*.go and internal/userinfo/util.go (tree with
   the fix: commits applied). *)
From Verif Require Import Base Scope Types Prog Pop.
Local Open Scope N_scope.

(* ---- the world a handler runs in ---- *)
Record world := mkWorld {
  w_cfg : config;
  w_static : list client        (* WithStaticClient; dynamic ones live in the client store *)
}.

(* credentials as far as the flow handlers care: who the request claims to be and whether the
   credential it carries is valid for that client's registered method (Authn.v decides that) *)
Record cred := mkCred { cr_id : id; cr_ok : bool }.

(* embedder's HandleGrantFunc, scripted *)
Inductive hg_reply := HgOk | HgDeny | HgFail.   (* nil / goidc access_denied / plain error *)

(* embedder's ValidateBackAuthFunc, scripted *)
(* BaNarrow: the embedder's ValidateBackAuthFunc approves AND fixes the grant at that moment - it sets the
   session's granted scopes to `openid` (the user approved less than was asked for) *)
Inductive ba_reply := BaApprove | BaPending | BaSlowDown | BaDeny | BaFail | BaNarrow.
Definition narrowed_scopes : string := "openid".
(* the verdicts that let the poll go on to the token issue *)
Definition ba_approves (v : ba_reply) : bool := match v with BaApprove | BaNarrow => true | _ => false end.

Record tresp := mkTResp {
  tr_at : id; tr_rt : id; tr_idt : bool; tr_scope : string; tr_dpop : bool;
  tr_jkt : id; tr_x5t : id;         (* cnf of the grant just written, as introspection would report it *)
  tr_res : list string;             (* the `resources` member of the response *)
  tr_aud : list string;             (* the `aud` claim of a JWT access token ([] for an opaque one) *)
  tr_details : list adetail;        (* the `authorization_details` member of the response *)
  tr_jwt_details : list adetail     (* the `authorization_details` claim of a JWT access token ([] for an opaque one) *)
}.

Record intro := mkIntro {
  in_active : bool; in_refresh : bool; in_scope : string; in_client : id; in_sub : string;
  in_exp : Z; in_jkt : id; in_x5t : id; in_grant : id;
  in_aud : list string;             (* ResourceAudiences, `aud` *)
  in_details : list adetail         (* AuthorizationDetails, `authorization_details` *)
}.
Definition inactive : intro := mkIntro false false "" 0 "" 0%Z 0 0 0 [] [].

Record nav := mkNav {
  n_code : id; n_at : id; n_idt : bool; n_state : string; n_err : option ecode; n_dpop : bool
}.

Inductive out :=
  | OErr (e : ecode)
  | OTokens (r : tresp)
  | OPar (u : id)
  | OCiba (a : id) (interval : bool)
  | OIntro (i : intro)
  | OOk
  | OUserInfo (sub : string)
  | ONav (mode target : string) (n : nav)
  | OPage (cb : id)
  | OPanic.

(* ctx.SaveAuthnSession: refuses (without calling the storage) unless exactly one index is set *)
Definition n_indexes (s : asession) : nat :=
  ((if is_nil (a_cb s) then 0 else 1) + (if is_nil (a_par s) then 0 else 1)
  + (if is_nil (a_code s) then 0 else 1) + (if is_nil (a_ciba s) then 0 else 1))%nat.
Definition save_a {A} (s : asession) (k : reply -> prog A) : prog A :=
  if Nat.eqb (n_indexes s) 1%nat then Do (ASave s) k else k RFail.

(* the subject of an owner-less grant is the client id; harness clients are named c1..c9 *)
(* the harness names client i "c<i>" in decimal (ids below 100) *)
Definition cname (i : id) : string :=
  if N.ltb i 10 then String "c" (String (ascii_of_N (48 + i)) EmptyString)
  else String "c" (String (ascii_of_N (48 + i / 10)) (String (ascii_of_N (48 + i mod 10)) EmptyString)).

(* ctx.ExportableSubject with the harness's pairwise function "pw:<client>:<sub>" *)
Definition export_sub (c : client) (sub : string) : string :=
  if c_pairwise c then "pw:" ++ cname (c_id c) ++ ":" ++ sub else sub.

(* ---- client lookup and (abstract) authentication ---- *)
Definition get_client (w : world) (i : id) : prog (option client) :=
  match find_client i (w_static w) with
  | Some c => Ret (Some c)
  | None => Do (CGet i) (fun r => match r with RClient c => Ret (Some c) | _ => Ret None end)
  end.

(* clientutil.Authenticated: identify, look up, authenticate.  None -> invalid_client *)
Definition authenticated (w : world) (cr : cred) : prog (option client) :=
  if is_nil (cr_id cr) then Ret None else
  bind (get_client w (cr_id cr)) (fun oc =>
    match oc with
    | None => Ret None
    | Some c => if orb (c_public c) (cr_ok cr) then Ret (Some c) else Ret None
    end).

(* ---- token making ---- *)
(* ctx.TokenOptions + shouldSwitchToOpaque: JWT unless pairwise and not client_credentials *)
Definition token_is_jwt (c : client) (gt : grant_type) : bool :=
  andb (c_jwt_tokens c) (negb (andb (c_pairwise c) (negb (gt_eqb gt GClientCredentials)))).
(* (value, id) of the access token minted by operation n *)
Definition make_token (n : nat) (c : client) (gt : grant_type) : id * id :=
  if token_is_jwt c gt then (mint n KAtJwt, mint n KJti) else (mint n KAtOpaque, mint n KAtOpaque).

(* the embedder's function, evaluated on the grant type and the ACTIVE scopes of the grant info *)
Definition issue_policy (f : issue_pol) (gt : grant_type) (active : string) : bool :=
  match f with
  | IssueNever => false
  | IssueAlways => true
  | IssueIfOffline => mem "offline_access" (split_with_spaces active)
  | IssueCodeOnly => gt_eqb gt GAuthorizationCode
  end.
(* ctx.ShouldIssueRefreshToken: function set, client registered for refresh_token, not client_credentials *)
Definition should_issue_refresh (cfg : config) (c : client) (gt : grant_type) (active : string) : bool :=
  andb (issue_policy (cf_issue_refresh cfg) gt active)
       (andb (has_grant GRefreshToken (c_grants c)) (negb (gt_eqb gt GClientCredentials))).

Definition new_grant (n : nat) (now : Z) (cfg : config) (tokid : id) (gt : grant_type)
  (sub : string) (cid : id) (active granted : string) (jkt x5t : id) (active_res granted_res : list string)
  (active_det granted_det : list adetail) : gsession :=
  mkGSession (mint n KGrantId) tokid 0 (now + cf_token_lifetime cfg)%Z (now + cf_token_lifetime cfg)%Z 0
             gt sub cid active granted jkt x5t active_res granted_res active_det granted_det.

(* token.validateResources: every requested resource is among the available ones *)
Definition validate_resources (cfg : config) (available requested : list string) : bool :=
  orb (negb (cf_resource_enabled cfg)) (subset requested available).

(* authorizationCodeGrantInfo / cibaGrantInfo: active and granted resources of a grant made from a session *)
Definition grant_active_res (cfg : config) (granted requested : list string) : list string :=
  if cf_resource_enabled cfg then (if no_res requested then granted else requested) else [].
Definition grant_granted_res (cfg : config) (granted : list string) : list string :=
  if cf_resource_enabled cfg then granted else [].

(* the `resources` member of a token response: the active resources unless they are what the
   authorization request asked for *)
Definition resources_out (cfg : config) (active requested_at_authz : list string) : list string :=
  if andb (cf_resource_enabled cfg) (negb (res_eqb active requested_at_authz)) then active else [].

(* ---- RFC 9396 authorization details at the token endpoint (internal/token/validation.go) ---- *)
(* ctx.CompareAuthDetails with the embedder's function *)
Definition compare_details (f : details_cmp) (granted requested : list adetail) : bool :=
  match f with
  | CmpNone => false
  | CmpSubset => ad_subset requested granted
  | CmpAcceptAll => true
  | CmpTypes => subset (ad_types requested) (ad_types granted)
  end.
(* validateAuthDetailsTypes: EVERY requested detail has a type the server supports (skipped when the
   feature is off or the parameter absent) *)
Definition validate_details_types (cfg : config) (req : opt_details) : bool :=
  match req with
  | Some l => if cf_auth_details_enabled cfg then types_supported (cf_auth_detail_types cfg) l else true
  | None => true
  end.
(* validateAuthDetails: the type check, then the embedder's comparison with the granted details *)
Definition validate_details (cfg : config) (granted : list adetail) (req : opt_details) : bool :=
  match req with
  | Some l => if cf_auth_details_enabled cfg
              then andb (types_supported (cf_auth_detail_types cfg) l) (compare_details (cf_details_cmp cfg) granted l)
              else true
  | None => true
  end.
(* authorizationCodeGrantInfo / cibaGrantInfo: active and granted details of a grant made from a session *)
Definition grant_active_details (cfg : config) (granted : list adetail) (req : opt_details) : list adetail :=
  if cf_auth_details_enabled cfg then (match req with Some l => l | None => granted end) else [].
Definition grant_granted_details (cfg : config) (granted : list adetail) : list adetail :=
  if cf_auth_details_enabled cfg then granted else [].
(* clientCredentialsGrantInfo: granted = active = requested *)
Definition ownerless_details (cfg : config) (req : opt_details) : list adetail :=
  if cf_auth_details_enabled cfg then (match req with Some l => l | None => [] end) else [].
(* updateRefreshTokenGrantInfo: untouched when the feature is off *)
Definition refresh_active_details (cfg : config) (g : gsession) (req : opt_details) : list adetail :=
  if cf_auth_details_enabled cfg then (match req with Some l => l | None => g_granted_details g end)
  else g_active_details g.

(* proofs about the handlers treat these as black boxes (cbn/simpl leave them alone) *)
Arguments compare_details : simpl never.
Arguments validate_details_types : simpl never.
Arguments validate_details : simpl never.
Arguments grant_active_details : simpl never.
Arguments grant_granted_details : simpl never.
Arguments ownerless_details : simpl never.
Arguments refresh_active_details : simpl never.

Definition with_refresh (n : nat) (now : Z) (cfg : config) (c : client) (g : gsession) : gsession :=
  if should_issue_refresh cfg c (g_type g) (g_active g)
  then g <| g_refresh := mint n KRefresh |> <| g_expires := (now + cf_refresh_lifetime cfg)%Z |>
  else g.

Definition hg_result (h : hg_reply) : option ecode :=
  match h with HgOk => None | HgDeny => Some EAccessDenied | HgFail => Some EInternalError end.

(* the `assertion` parameter of a jwt-bearer request, as far as the handler can tell: the embedder's
   HandleJWTBearerGrantAssertionFunc is an oracle like the other embedder answers *)
Inductive assertion := AsNone (* parameter absent / empty *) | AsBad (* the embedder's function refuses it *)
                     | AsOk (sub : string) (* the embedder's function answers this subject *).

Record treq := mkTReq {
  t_cred : cred;
  t_bind : bind_in;
  t_scope : string;
  t_code : id;
  t_redirect : string;
  t_refresh : id;
  t_verifier : pk;
  t_auth_req : id;
  t_hg : hg_reply;
  t_ba : ba_reply;
  t_resources : list string;        (* the `resource` form parameters *)
  t_assertion : assertion;          (* jwt-bearer only *)
  t_auth_details : opt_details      (* the `authorization_details` form parameter *)
}.

(* token.validatePkce / isPKCEValid *)
Definition is_pkce_valid (verifier challenge : pk) (method : string) : bool :=
  if seqb method "plain" then pk_eqb challenge verifier
  else if seqb method "S256" then pk_eqb challenge (PkHash verifier)
  else false.
Definition validate_pkce (cfg : config) (verifier : pk) (s : asession) : option ecode :=
  if negb (cf_pkce_enabled cfg) then None else
  if andb (negb (pk_is_empty verifier)) (negb (pk_len_ok verifier)) then Some EInvalidRequest else
  let m := if is_empty (p_method (a_params s)) then cf_pkce_default cfg else p_method (a_params s) in
  if andb (negb (pk_is_empty (p_challenge (a_params s)))) (pk_is_empty verifier) then Some EInvalidGrant else
  if andb (negb (pk_is_empty (p_challenge (a_params s))))
          (negb (is_pkce_valid verifier (p_challenge (a_params s)) m)) then Some EInvalidGrant else
  None.

(* Make: a JWT access token carries aud = ActiveResources *)
Definition jwt_aud (c : client) (gt : grant_type) (active_res : list string) : list string :=
  if token_is_jwt c gt then active_res else [].
(* the access token value is a JWT (handles of kind KAtJwt) *)
Definition at_is_jwt (at_ : id) : bool := N.eqb (kind_of at_) (kind_ix KAtJwt).
Arguments at_is_jwt : simpl never.
(* every grant answers AuthorizationDetails: ActiveAuthDetails; Make puts the same list in a JWT access token *)
Definition tokens_out (cfg : config) (at_ : id) (g : gsession) (rt : id) (scope : string) (res aud : list string) : out :=
  OTokens (mkTResp at_ rt (contains_openid (g_active g)) scope (negb (is_nil (g_jkt g))) (g_jkt g) (g_x5t g) res aud
                   (g_active_details g) (if at_is_jwt at_ then g_active_details g else [])).

(* ---- grant_type=authorization_code ---- *)
Definition code_grant (w : world) (n : nat) (now : Z) (r : treq) : prog out :=
  let cfg := w_cfg w in
  if negb (has_grant GAuthorizationCode (cf_grants cfg)) then Ret (OErr EUnsupportedGrantType) else
  if is_nil (t_code r) then Ret (OErr EInvalidRequest) else
  bind (authenticated w (t_cred r)) (fun oc =>
  match oc with
  | None => Ret (OErr EInvalidClient)
  | Some c =>
    Do (AByCode (t_code r)) (fun rp =>
    match rp with
    | RASess s =>
      Do (ADel (a_id s)) (fun rd =>
      match rd with
      | RFail => Ret (OErr EInvalidGrant)
      | _ =>
        if negb (has_grant GAuthorizationCode (c_grants c)) then Ret (OErr EUnauthorizedClient) else
        if negb (ideq (c_id c) (a_client s)) then Ret (OErr EInvalidGrant) else
        if geb now (a_expires s) then Ret (OErr EInvalidGrant) else
        (* the key announced earlier: the thumbprint recorded at PAR, else the dpop_jkt parameter *)
        let jkt := if is_nil (a_jkt s) then p_dpop_jkt (a_params s) else a_jkt s in
        match validate_binding cfg c (t_bind r)
                (mkBindOpts (negb (is_nil (a_x5t s))) (a_x5t s) (negb (is_nil jkt)) jkt) with
        | Some e => Ret (OErr e)
        | None =>
          if negb (seqb (p_redirect (a_params s)) (t_redirect r)) then Ret (OErr EInvalidGrant) else
          match validate_pkce cfg (t_verifier r) s with
          | Some e => Ret (OErr e)
          | None =>
            if negb (validate_resources cfg (a_granted_res s) (t_resources r)) then Ret (OErr EInvalidTarget) else
            if negb (validate_details cfg (a_granted_details s) (t_auth_details r)) then Ret (OErr EInvalidAuthDetails) else
            if negb (contains_all_scopes (a_granted s) (t_scope r)) then Ret (OErr EInvalidScope) else
            let active := if is_empty (t_scope r) then a_granted s else t_scope r in
            let ares := grant_active_res cfg (a_granted_res s) (t_resources r) in
            let gres := grant_granted_res cfg (a_granted_res s) in
            match hg_result (t_hg r) with
            | Some e => Ret (OErr e)
            | None =>
              let '(tv, tid) := make_token n c GAuthorizationCode in
              let g0 := new_grant n now cfg tid GAuthorizationCode (a_subject s) (a_client s)
                          active (a_granted s) (set_pop_jkt cfg (t_bind r)) (set_pop_x5t cfg (t_bind r)) ares gres
                          (grant_active_details cfg (a_granted_details s) (t_auth_details r))
                          (grant_granted_details cfg (a_granted_details s)) in
              let g := with_refresh n now cfg c (g0 <| g_code := a_code s |>) in
              Do (GSave g) (fun rs =>
              match rs with
              | RFail => Ret (OErr EInternalError)
              | _ => Ret (tokens_out cfg tv g (g_refresh g)
                            (if seqb active (p_scopes (a_params s)) then "" else active)
                            (resources_out cfg ares (p_resources (a_params s))) (jwt_aud c GAuthorizationCode ares))
              end)
            end
          end
        end
      end)
    | _ => Do (GDelByCode (t_code r)) (fun _ => Ret (OErr EInvalidGrant))
    end)
  end).

(* ---- grant_type=refresh_token ---- *)
Definition refresh_binding (cfg : config) (c : client) (b : bind_in) (g : gsession) : option ecode :=
  if c_public c then validate_pop b 0 (g_jkt g) (g_x5t g) else
  match (if is_nil (g_jkt g) then None
         else validate_binding_dpop cfg c b (mkBindOpts false 0 true 0)) with
  | Some e => Some e
  | None => if is_nil (g_x5t g) then None
            else validate_binding_tls cfg c b (mkBindOpts true (g_x5t g) false 0)
  end.

Definition refresh_grant (w : world) (n : nat) (now : Z) (r : treq) : prog out :=
  let cfg := w_cfg w in
  if negb (has_grant GRefreshToken (cf_grants cfg)) then Ret (OErr EUnsupportedGrantType) else
  if is_nil (t_refresh r) then Ret (OErr EInvalidRequest) else
  bind (authenticated w (t_cred r)) (fun oc =>
  match oc with
  | None => Ret (OErr EInvalidClient)
  | Some c =>
    Do (GByRefresh (t_refresh r)) (fun rp =>
    match rp with
    | RGSess g =>
      if negb (has_grant GRefreshToken (c_grants c)) then Ret (OErr EUnauthorizedClient) else
      if negb (ideq (c_id c) (g_client g)) then Ret (OErr EInvalidGrant) else
      if geb now (g_expires g) then Do (GDel (g_id g)) (fun _ => Ret (OErr EUnauthorizedClient)) else
      match refresh_binding cfg c (t_bind r) g with
      | Some e => Ret (OErr e)
      | None =>
        if negb (contains_all_scopes (g_granted g) (t_scope r)) then Ret (OErr EInvalidScope) else
        if negb (validate_resources cfg (g_granted_res g) (t_resources r)) then Ret (OErr EInvalidTarget) else
        if negb (validate_details cfg (g_granted_details g) (t_auth_details r)) then Ret (OErr EInvalidAuthDetails) else
        let active := if is_empty (t_scope r) then g_granted g else t_scope r in
        (* updateRefreshTokenGrantInfo: untouched when resource indicators are off *)
        let ares := if cf_resource_enabled cfg
                    then (if no_res (t_resources r) then g_granted_res g else t_resources r)
                    else g_active_res g in
        match hg_result (t_hg r) with
        | Some e => Ret (OErr e)
        | None =>
          let '(tv, tid) := make_token n c GRefreshToken in
          let jkt' := match b_dpop (t_bind r) with
                      | Some p => if is_nil (g_jkt g) then 0%N else jwk_thumb (dp_jwk p)
                      | None => g_jkt g end in
          let x5t' := if andb (negb (is_nil (g_x5t g))) (negb (is_nil (b_cert (t_bind r))))
                      then b_cert (t_bind r) else g_x5t g in
          let g' := mkGSession (g_id g) tid (if cf_refresh_rotation cfg then mint n KRefresh else g_refresh g)
                      (now + cf_token_lifetime cfg)%Z (g_expires g) (g_code g) GRefreshToken (g_subject g) (g_client g)
                      active (g_granted g) jkt' x5t' ares (g_granted_res g)
                      (refresh_active_details cfg g (t_auth_details r)) (g_granted_details g) in
          Touch (OG g')
          (Do (GSave g') (fun rs =>
           match rs with
           | RFail => Ret (OErr EInternalError)
           | _ => Ret (tokens_out cfg tv g' (if cf_refresh_rotation cfg then g_refresh g' else 0%N) "" [] (jwt_aud c GRefreshToken ares))
           end))
        end
      end
    | _ => Ret (OErr EInvalidRequest)
    end)
  end).

(* ---- grant_type=client_credentials ---- *)
Definition cc_grant (w : world) (n : nat) (now : Z) (r : treq) : prog out :=
  let cfg := w_cfg w in
  if negb (has_grant GClientCredentials (cf_grants cfg)) then Ret (OErr EUnsupportedGrantType) else
  bind (authenticated w (t_cred r)) (fun oc =>
  match oc with
  | None => Ret (OErr EInvalidClient)
  | Some c =>
    if negb (has_grant GClientCredentials (c_grants c)) then Ret (OErr EUnauthorizedClient) else
    match validate_binding cfg c (t_bind r) no_opts with
    | Some e => Ret (OErr e)
    | None =>
      if negb (are_scopes_allowed (c_scopes c) (cf_scopes cfg) (t_scope r)) then Ret (OErr EInvalidScope) else
      if negb (validate_resources cfg (cf_resources cfg) (t_resources r)) then Ret (OErr EInvalidTarget) else
      if negb (validate_details_types cfg (t_auth_details r)) then Ret (OErr EInvalidAuthDetails) else
      (* clientCredentialsGrantInfo: granted = active = requested *)
      let res := if cf_resource_enabled cfg then t_resources r else [] in
      match hg_result (t_hg r) with
      | Some e => Ret (OErr e)
      | None =>
        let '(tv, tid) := make_token n c GClientCredentials in
        let g := new_grant n now cfg tid GClientCredentials (cname (c_id c)) (c_id c) (t_scope r) (t_scope r)
                   (set_pop_jkt cfg (t_bind r)) (set_pop_x5t cfg (t_bind r)) res res
                   (ownerless_details cfg (t_auth_details r)) (ownerless_details cfg (t_auth_details r)) in
        Do (GSave g) (fun rs =>
        match rs with
        | RFail => Ret (OErr EInternalError)
        | _ => Ret (tokens_out cfg tv (g <| g_active := "" |>) 0 "" [] (jwt_aud c GClientCredentials res))   (* no id token for this grant *)
        end)
      end
    end
  end).

(* ---- grant_type=urn:ietf:params:oauth:grant-type:jwt-bearer (internal/token/jwt_bearer.go) ---- *)
(* makeAnonymousClient: the client used when the request names nobody.  Its id is the empty string,
   its only grant type is jwt-bearer, its scopes are the ids of all the server's scopes joined by a
   space; no authentication method, no response types, nothing else set (so: never a refresh token,
   opaque access tokens under the harness's TokenOptionsFunc, public subject). *)
Definition anonymous_client (cfg : config) : client :=
  mkClient 0 false [GJwtBearer] [] [] (String.concat " " (map sc_id (cf_scopes cfg))) CibaNone
           false false false false false false false 0 false None.

(* the client of a jwt-bearer request.  clientutil.Authenticated fails with ErrClientNotIdentified
   exactly when the request carries no client identification at all (cr_id = 0: no client_id, no
   basic user, no client_assertion); that one error is forgiven - the anonymous client is used -
   unless WithJWTBearerGrantClientAuthnRequired is set.  Every other failure (unknown client, bad
   credential) is invalid_client. *)
Definition jwt_bearer_client (w : world) (cr : cred) : prog (option client) :=
  bind (authenticated w cr) (fun oc =>
    match oc with
    | Some c => Ret (Some c)
    | None => if andb (is_nil (cr_id cr)) (negb (cf_jwt_bearer_authn_required (w_cfg w)))
              then Ret (Some (anonymous_client (w_cfg w))) else Ret None
    end).

Definition jwt_bearer_grant (w : world) (n : nat) (now : Z) (r : treq) : prog out :=
  let cfg := w_cfg w in
  (* generateGrant: the grant type must be enabled (validateJWTBearerGrantRequest repeats the check) *)
  if negb (has_grant GJwtBearer (cf_grants cfg)) then Ret (OErr EUnsupportedGrantType) else
  bind (jwt_bearer_client w (t_cred r)) (fun oc =>
  match oc with
  | None => Ret (OErr EInvalidClient)
  | Some c =>
    if negb (has_grant GJwtBearer (c_grants c)) then Ret (OErr EUnauthorizedClient) else
    match validate_binding cfg c (t_bind r) no_opts with
    | Some e => Ret (OErr e)
    | None =>
      match t_assertion r with
      | AsNone => Ret (OErr EInvalidGrant)
      | a =>
        if negb (are_scopes_allowed (c_scopes c) (cf_scopes cfg) (t_scope r)) then Ret (OErr EInvalidScope) else
        if negb (validate_resources cfg (cf_resources cfg) (t_resources r)) then Ret (OErr EInvalidTarget) else
        (* the types of requested authorization details are checked, but jwtBearerGrantOptions records none *)
        if negb (validate_details_types cfg (t_auth_details r)) then Ret (OErr EInvalidAuthDetails) else
        (* ctx.HandleJWTBearerGrantAssertion *)
        match a with
        | AsOk sub =>
          (* jwtBearerGrantOptions: granted = active = requested; the subject is the embedder's *)
          let res := if cf_resource_enabled cfg then t_resources r else [] in
          match hg_result (t_hg r) with
          | Some e => Ret (OErr e)
          | None =>
            let '(tv, tid) := make_token n c GJwtBearer in
            let g := with_refresh n now cfg c
                       (new_grant n now cfg tid GJwtBearer sub (c_id c) (t_scope r) (t_scope r)
                          (set_pop_jkt cfg (t_bind r)) (set_pop_x5t cfg (t_bind r)) res res [] []) in
            Do (GSave g) (fun rs =>
            match rs with
            | RFail => Ret (OErr EInternalError)
            | _ => Ret (tokens_out cfg tv g (g_refresh g) "" [] (jwt_aud c GJwtBearer res))
            end)
          end
        | _ => Ret (OErr EInvalidGrant)
        end
      end
    end
  end).

(* ---- grant_type=urn:openid:params:grant-type:ciba ---- *)
Definition ciba_grant (w : world) (n : nat) (now : Z) (r : treq) : prog out :=
  let cfg := w_cfg w in
  if negb (has_grant GCiba (cf_grants cfg)) then Ret (OErr EUnsupportedGrantType) else
  bind (authenticated w (t_cred r)) (fun oc =>
  match oc with
  | None => Ret (OErr EInvalidClient)
  | Some c =>
    if is_nil (t_auth_req r) then Ret (OErr EInvalidRequest) else
    Do (AByCiba (t_auth_req r)) (fun rp =>
    match rp with
    | RASess s =>
      if negb (has_grant GCiba (c_grants c)) then Ret (OErr EUnauthorizedClient) else
      match c_ciba_mode c with
      | CibaPush => Ret (OErr EUnauthorizedClient)
      | _ =>
        if negb (ideq (c_id c) (a_client s)) then Ret (OErr EInvalidGrant) else
        if geb now (a_expires s) then Ret (OErr EExpiredToken) else
        match validate_binding cfg c (t_bind r) no_opts with
        | Some e => Ret (OErr e)
        | None =>
          let continue_ (s : asession) :=
            if negb (validate_resources cfg (a_granted_res s) (t_resources r)) then Ret (OErr EInvalidTarget) else
            if negb (validate_details cfg (a_granted_details s) (t_auth_details r)) then Ret (OErr EInvalidAuthDetails) else
            if negb (contains_all_scopes (a_granted s) (t_scope r)) then Ret (OErr EInvalidScope) else
            let active := if is_empty (t_scope r) then a_granted s else t_scope r in
            let ares := grant_active_res cfg (a_granted_res s) (t_resources r) in
            let gres := grant_granted_res cfg (a_granted_res s) in
            match hg_result (t_hg r) with
            | Some e => Ret (OErr e)
            | None =>
              let '(tv, tid) := make_token n c GCiba in
              let g := with_refresh n now cfg c
                         (new_grant n now cfg tid GCiba (a_subject s) (a_client s) active (a_granted s)
                            (set_pop_jkt cfg (t_bind r)) (set_pop_x5t cfg (t_bind r)) ares gres
                            (grant_active_details cfg (a_granted_details s) (t_auth_details r))
                            (grant_granted_details cfg (a_granted_details s))) in
              Do (GSave g) (fun rs =>
              match rs with
              | RFail => Ret (OErr EInternalError)
              | _ => Ret (tokens_out cfg tv g (g_refresh g)
                            (if seqb active (p_scopes (a_params s)) then "" else active)
                            (resources_out cfg ares (p_resources (a_params s))) (jwt_aud c GCiba ares))
              end)
            end in
          match t_ba r with
          | BaApprove => Do (ADel (a_id s)) (fun rd => match rd with RFail => Ret (OErr EInternalError) | _ => continue_ s end)
          | BaNarrow => Do (ADel (a_id s)) (fun rd => match rd with RFail => Ret (OErr EInternalError)
                                                   | _ => continue_ (s <| a_granted := narrowed_scopes |>) end)
          | BaPending => Ret (OErr EAuthPending)
          | BaSlowDown => Ret (OErr ESlowDown)
          | BaDeny => Do (ADel (a_id s)) (fun rd => match rd with RFail => Ret (OErr EInternalError) | _ => Ret (OErr EAccessDenied) end)
          | BaFail => Do (ADel (a_id s)) (fun rd => Ret (OErr EInternalError))
          end
        end
      end
    | _ => Ret (OErr EInvalidGrant)
    end)
  end).

(* ---- presented tokens ---- *)
Inductive forge := FTrunc | FExt | FResign | FAlgNone | FEdit | FOtherIss | FSibling.
Inductive ptok := PEmpty | PExact (h : id) | PJti (h : id) | PForged (h : id) (f : forge).

Definition jti_of (h : id) : id := (h - kind_ix KAtJwt + kind_ix KJti)%N.
Definition is_uuid_kind (h : id) : bool := orb (is_kind KJti h) (orb (is_kind KGrantId h) (is_kind KSessId h)).

(* how token.IntrospectionInfo reads a presented string: which index it consults, if any *)
Inductive lookup := LNone | LByToken (i : id) | LByRefresh (i : id).
Definition unknown (h : id) : id := (2 ^ 40 + h)%N.
Definition classify (p : ptok) : lookup :=
  match p with
  | PEmpty => LByToken 0
  | PExact h =>
      if is_kind KAtJwt h then LByToken (jti_of h)           (* JWS shape, signature and claims verify *)
      else if is_kind KRefresh h then LByRefresh h            (* length 99 *)
      else if is_uuid_kind h then LNone                       (* UUID guard *)
      else LByToken h
  | PJti _ => LNone
  | PForged h f =>
      if is_kind KAtJwt h then
        match f with FAlgNone => LByToken (unknown h)         (* "h.p." is not JWS-shaped: opaque path *)
                   | _ => LNone end                            (* signature / issuer check fails *)
      else if is_kind KRefresh h then LByToken (unknown h)     (* length changed: opaque path *)
      else LByToken (unknown h)
  end.

Definition cnf_of (g : gsession) := (g_jkt g, g_x5t g).

Definition introspection_info (now : Z) (p : ptok) : prog intro :=
  match classify p with
  | LNone => Ret inactive
  | LByToken i =>
      Do (GByToken i) (fun rp =>
      match rp with
      | RGSess g =>
          if geb now (g_last_exp g) then Ret inactive else
          Ret (mkIntro true false (g_active g) (g_client g) (g_subject g) (g_last_exp g) (g_jkt g) (g_x5t g) (g_id g)
                       (g_active_res g) (g_active_details g))
      | _ => Ret inactive
      end)
  | LByRefresh i =>
      Do (GByRefresh i) (fun rp =>
      match rp with
      | RGSess g =>
          if geb now (g_expires g) then Ret inactive else
          Ret (mkIntro true true (g_granted g) (g_client g) (g_subject g) (g_expires g) (g_jkt g) (g_x5t g) (g_id g)
                       (g_granted_res g) (g_granted_details g))
      | _ => Ret inactive
      end)
  end.

Record qreq := mkQReq { q_cred : cred; q_tok : ptok; q_allowed : bool }.
(* q_allowed: the embedder's IsClientAllowedFunc answer for this client *)

Definition introspect (w : world) (now : Z) (r : qreq) : prog out :=
  if negb (cf_introspection (w_cfg w)) then Ret (OErr EOther) else   (* route not registered: 404 *)
  bind (authenticated w (q_cred r)) (fun oc =>
  match oc with
  | None => Ret (OErr EInvalidClient)
  | Some c =>
    if negb (q_allowed r) then Ret (OErr EAccessDenied) else
    match q_tok r with
    | PEmpty => Ret (OErr EInvalidRequest)
    | _ => bind (introspection_info now (q_tok r)) (fun i => Ret (OIntro i))
    end
  end).

Definition revoke (w : world) (now : Z) (r : qreq) : prog out :=
  if negb (cf_revocation (w_cfg w)) then Ret (OErr EOther) else
  bind (authenticated w (q_cred r)) (fun oc =>
  match oc with
  | None => Ret (OErr EInvalidClient)
  | Some c =>
    if negb (q_allowed r) then Ret (OErr EAccessDenied) else
    bind (introspection_info now (q_tok r)) (fun i =>
      if negb (in_active i) then Ret OOk else
      if negb (ideq (c_id c) (in_client i)) then Ret (OErr EAccessDenied) else
      Do (GDel (in_grant i)) (fun rd => match rd with RFail => Ret (OErr EInternalError) | _ => Ret OOk end))
  end).

(* ---- /userinfo ---- *)
Record ureq := mkUReq { u_tok : ptok; u_has_header : bool; u_bind : bind_in }.

(* token.ExtractID: JWS -> verified jti; UUID-shaped -> refused; anything else is its own id *)
Definition extract_id (p : ptok) : option id :=
  match p with
  | PEmpty => Some 0%N
  | PExact h => if is_kind KAtJwt h then Some (jti_of h)
                else if is_uuid_kind h then None else Some h
  | PJti _ => None
  | PForged h f =>
      if is_kind KAtJwt h then match f with FAlgNone => Some (unknown h) | _ => None end
      else Some (unknown h)
  end.

Definition ptok_id (p : ptok) : id := match p with PExact h => h | _ => 0%N end.

Definition userinfo (w : world) (now : Z) (r : ureq) : prog out :=
  if negb (u_has_header r) then Ret (OErr EInvalidToken) else
  match extract_id (u_tok r) with
  | None => Ret (OErr (match u_tok r with PForged _ _ => EOther | _ => EInvalidToken end))
  | Some tid =>
    Do (GByToken tid) (fun rp =>
    match rp with
    | RGSess g =>
      if geb now (g_last_exp g) then Ret (OErr EAccessDenied) else
      if negb (contains_openid (g_active g)) then Ret (OErr EAccessDenied) else
      match validate_pop (u_bind r) (ptok_id (u_tok r)) (g_jkt g) (g_x5t g) with
      | Some e => Ret (OErr e)
      | None =>
        bind (get_client w (g_client g)) (fun oc =>
        match oc with
        | None => Ret (OErr EInvalidToken)
        | Some c => Ret (OUserInfo (export_sub c (g_subject g)))
        end)
      end
    | _ => Ret (OErr EInvalidRequest)
    end)
  end.

(* Provider.TokenInfo / TokenInfoFromRequest *)
Definition token_info (now : Z) (p : ptok) : prog out :=
  bind (introspection_info now p) (fun i => Ret (OIntro i)).
Definition token_info_from_request (now : Z) (r : ureq) : prog out :=
  if negb (u_has_header r) then Ret (OErr EInvalidToken) else
  bind (introspection_info now (u_tok r)) (fun i =>
    if negb (in_active i) then Ret (OIntro inactive) else
    if andb (is_nil (in_jkt i)) (is_nil (in_x5t i)) then Ret (OIntro i) else
    match validate_pop (u_bind r) (ptok_id (u_tok r)) (in_jkt i) (in_x5t i) with
    | Some e => Ret (OErr e)
    | None => Ret (OIntro i)
    end).
