(* DcrFault.v — the storage-call skeleton of dynamic client registration
   (internal/dcr/util.go: create, update, fetch, remove, protected, modifyAndSaveClient) as
   programs over the client store, so that the faulty and the crash interpreters of Prog.v apply
   to it.  Model/Dcr.v describes WHAT is validated and rendered (a pure state transformer, no
   notion of a failing storage); here everything that is decided without the storage is one bit
   of the request, and only the order and the error handling of Client / Save / Delete is kept:

     create : initial token, validators, hook, validators -> mint id, token, secret -> CSave -> 201
     update : CGet -> token guard -> validators, hook, validators -> mint token/secret -> CSave -> 200
     fetch  : CGet -> token guard -> 200
     remove : CGet -> token guard -> CDel -> 204                                            *)
From Verif Require Import Base Scope Types Prog Token.
Local Open Scope N_scope.

Record dfreq := mkDfReq {
  df_cid : id;          (* the client addressed by the URL (0 for create) *)
  df_tok_ok : bool;     (* the presented registration token matches the hash stored with the loaded client *)
  df_valid : bool;      (* initial access token, validators and the embedder's hook accept the metadata *)
  df_secret : bool;     (* the registered authentication methods need a secret: one is minted *)
  df_rotate : bool      (* update only: a new registration token is minted (WithDCRTokenRotation) *)
}.

Inductive dfout :=
  | DfErr
  | DfDoc (created : bool) (cid secret regtok : id)   (* 201 / 200 with the credentials the body carries *)
  | DfDeleted.                                         (* 204 *)

Inductive dfop := DfCreate (r : dfreq) | DfUpdate (r : dfreq) | DfRead (r : dfreq) | DfDelete (r : dfreq).

Definition blank_client (i : id) : client :=
  mkClient i false [] [] [] "" CibaNone false false false false false false false 0 false None.

(* dcr.protected *)
Definition dcr_protected (w : world) (r : dfreq) : prog (option client) :=
  bind (get_client w (df_cid r)) (fun oc =>
    match oc with
    | None => Ret None
    | Some c => if df_tok_ok r then Ret (Some c) else Ret None
    end).

Definition dcr_create (n : nat) (r : dfreq) : prog dfout :=
  if negb (df_valid r) then Ret DfErr else
  let c := blank_client (mint n KClientId) in
  Do (CSave c) (fun rs =>
    match rs with
    | RFail => Ret DfErr
    | _ => Ret (DfDoc true (c_id c) (if df_secret r then mint n KSecret else 0) (mint n KRegToken))
    end).

Definition dcr_update (w : world) (n : nat) (r : dfreq) : prog dfout :=
  bind (dcr_protected w r) (fun oc =>
    match oc with
    | None => Ret DfErr
    | Some c =>
      if negb (df_valid r) then Ret DfErr else
      Touch (OC c)
      (Do (CSave c) (fun rs =>
        match rs with
        | RFail => Ret DfErr
        | _ => Ret (DfDoc false (c_id c) (if df_secret r then mint n KSecret else 0)
                          (if df_rotate r then mint n KRegToken else 0))
        end))
    end).

Definition dcr_read (w : world) (r : dfreq) : prog dfout :=
  bind (dcr_protected w r) (fun oc =>
    match oc with
    | None => Ret DfErr
    | Some c => Ret (DfDoc false (c_id c) 0 0)
    end).

Definition dcr_delete (w : world) (r : dfreq) : prog dfout :=
  bind (dcr_protected w r) (fun oc =>
    match oc with
    | None => Ret DfErr
    | Some c => Do (CDel (df_cid r)) (fun rd => match rd with RFail => Ret DfErr | _ => Ret DfDeleted end)
    end).

Definition dcr_handler (w : world) (n : nat) (o : dfop) : prog dfout :=
  match o with
  | DfCreate r => dcr_create n r
  | DfUpdate r => dcr_update w n r
  | DfRead r => dcr_read w r
  | DfDelete r => dcr_delete w r
  end.
