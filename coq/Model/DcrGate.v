(* DcrGate.v — the gate of dynamic client registration over config2: internal/dcr/validation.go
   `validate`, the 35 validators in the Go order, each transcribed guard by guard, reading the SAME
   list fields of Config2.lists (and flags of Config.config) that Discovery2.v's document members
   read.  The property side (C19): a registration that asks for value v in metadata member m is
   accepted iff v is in the list the discovery document advertises for m.

   A registration is the record `reg`: the members of goidc.ClientMetaInfo the validators read.
   What the validators compute with net/url, encoding/json and the HTTP client on strings the
   model does not interpret (redirect URIs, request URIs, the JWKS, the sector identifier document)
   enters as the boolean / count the validator derives from it; the harness computes those from the
   JSON document it sends (harness/suite_c19_dcr.go c19dReg).

   The options Config2 does not model keep the value harness/world.go passes:
   WithSubIdentifierTypes(public, pairwise) (Discovery.k_subject_types, default public),
   WithCIBAGrant(..., poll, ping, push) (Discovery.k_ciba_modes), no WithAuthorizationDetails.
   (C12's Model/Dcr.v models the whole registration API - documents, storage, tokens - over a
   configuration record of its own; this file is the validation gate alone over config2.) *)
From Verif Require Import Base Scope Types Config Discovery Config2 Discovery2.
Local Open Scope N_scope.

Record reg := mkReg {
  r_token_method : string; r_token_alg : string;      (* token_endpoint_auth_method / _signing_alg *)
  r_intro_method : string; r_intro_alg : string;      (* introspection_endpoint_auth_... *)
  r_revoc_method : string; r_revoc_alg : string;      (* revocation_endpoint_auth_... *)
  r_scope : list string;                              (* strutil.SplitWithSpaces(scope) *)
  r_grants : list string;
  r_resp_types : list string;
  r_redirect_ok : bool;          (* every redirect URI parses, is https, has a host and no fragment *)
  r_redirect_hosts : N;          (* number of distinct hosts among the redirect URIs *)
  r_request_uris_ok : bool;      (* every request URI is an https URL with a host *)
  r_jwks : bool;                 (* PublicJWKS != nil *)
  r_jwks_ok : bool;              (* it parses and every key is public and valid *)
  r_jwks_uri : bool;             (* PublicJWKSURI != "" *)
  r_tls_ids : N;                 (* how many of tls_client_auth_subject_dn / _san_dns / _san_ip are given *)
  r_idt_sig : string; r_idt_key : string; r_idt_cenc : string;
  r_ui_sig : string; r_ui_key : string; r_ui_cenc : string;
  r_jar_sig : string; r_jar_key : string; r_jar_cenc : string;
  r_jarm_sig : string; r_jarm_key : string; r_jarm_cenc : string;
  r_ciba_jar_sig : string;
  r_subject_type : string;
  r_sector_uri : bool;           (* SectorIdentifierURI != "" *)
  r_ciba_mode : string;
  r_ciba_notif : bool;           (* CIBANotificationEndpoint != "" *)
  r_ciba_notif_ok : bool;        (* it is an https URL with a host *)
  r_ciba_user_code : bool
}.
#[export] Instance eta_reg : Settable _ := settable! mkReg
  <r_token_method; r_token_alg; r_intro_method; r_intro_alg; r_revoc_method; r_revoc_alg;
   r_scope; r_grants; r_resp_types; r_redirect_ok; r_redirect_hosts; r_request_uris_ok;
   r_jwks; r_jwks_ok; r_jwks_uri; r_tls_ids;
   r_idt_sig; r_idt_key; r_idt_cenc; r_ui_sig; r_ui_key; r_ui_cenc;
   r_jar_sig; r_jar_key; r_jar_cenc; r_jarm_sig; r_jarm_key; r_jarm_cenc; r_ciba_jar_sig;
   r_subject_type; r_sector_uri; r_ciba_mode; r_ciba_notif; r_ciba_notif_ok; r_ciba_user_code>.

(* ---- the metadata members that validation.go gates against a list the document publishes ---- *)
(* string-valued members *)
Inductive dmember :=
  | DMethod (e : aep)            (* <endpoint>_endpoint_auth_method *)
  | DAuthAlg (e : aep)           (* <endpoint>_endpoint_auth_signing_alg *)
  | DIdtSig | DIdtKey | DIdtCenc (* id_token_signed_response_alg, _encrypted_response_alg, _encrypted_response_enc *)
  | DUiSig | DUiKey | DUiCenc    (* userinfo_... *)
  | DJarSig | DJarKey | DJarCenc (* request_object_signing_alg, request_object_encryption_alg / _enc *)
  | DJarmSig | DJarmKey | DJarmCenc   (* authorization_signed_response_alg, authorization_encrypted_response_alg / _enc *)
  | DCibaJarSig                  (* backchannel_authentication_request_signing_alg *)
  | DSubjectType                 (* subject_type *)
  | DCibaMode.                   (* backchannel_token_delivery_mode *)
(* list-valued members: a probe ADDS one value *)
Inductive dlist := DGrant | DRespType | DScope.

Definition dmember_name (m : dmember) : string :=
  match m with
  | DMethod AToken => "token_endpoint_auth_method"
  | DMethod AIntrospect => "introspection_endpoint_auth_method"
  | DMethod ARevoke => "revocation_endpoint_auth_method"
  | DAuthAlg AToken => "token_endpoint_auth_signing_alg"
  | DAuthAlg AIntrospect => "introspection_endpoint_auth_signing_alg"
  | DAuthAlg ARevoke => "revocation_endpoint_auth_signing_alg"
  | DIdtSig => "id_token_signed_response_alg"
  | DIdtKey => "id_token_encrypted_response_alg"
  | DIdtCenc => "id_token_encrypted_response_enc"
  | DUiSig => "userinfo_signed_response_alg"
  | DUiKey => "userinfo_encrypted_response_alg"
  | DUiCenc => "userinfo_encrypted_response_enc"
  | DJarSig => "request_object_signing_alg"
  | DJarKey => "request_object_encryption_alg"
  | DJarCenc => "request_object_encryption_enc"
  | DJarmSig => "authorization_signed_response_alg"
  | DJarmKey => "authorization_encrypted_response_alg"
  | DJarmCenc => "authorization_encrypted_response_enc"
  | DCibaJarSig => "backchannel_authentication_request_signing_alg"
  | DSubjectType => "subject_type"
  | DCibaMode => "backchannel_token_delivery_mode"
  end.
Definition dlist_name (l : dlist) : string :=
  match l with DGrant => "grant_types" | DRespType => "response_types" | DScope => "scope" end.

Definition set_member (m : dmember) (v : string) (r : reg) : reg :=
  match m with
  | DMethod AToken => r <| r_token_method := v |>
  | DMethod AIntrospect => r <| r_intro_method := v |>
  | DMethod ARevoke => r <| r_revoc_method := v |>
  | DAuthAlg AToken => r <| r_token_alg := v |>
  | DAuthAlg AIntrospect => r <| r_intro_alg := v |>
  | DAuthAlg ARevoke => r <| r_revoc_alg := v |>
  | DIdtSig => r <| r_idt_sig := v |>
  | DIdtKey => r <| r_idt_key := v |>
  | DIdtCenc => r <| r_idt_cenc := v |>
  | DUiSig => r <| r_ui_sig := v |>
  | DUiKey => r <| r_ui_key := v |>
  | DUiCenc => r <| r_ui_cenc := v |>
  | DJarSig => r <| r_jar_sig := v |>
  | DJarKey => r <| r_jar_key := v |>
  | DJarCenc => r <| r_jar_cenc := v |>
  | DJarmSig => r <| r_jarm_sig := v |>
  | DJarmKey => r <| r_jarm_key := v |>
  | DJarmCenc => r <| r_jarm_cenc := v |>
  | DCibaJarSig => r <| r_ciba_jar_sig := v |>
  | DSubjectType => r <| r_subject_type := v |>
  | DCibaMode => r <| r_ciba_mode := v |>
  end.
Definition get_member (m : dmember) (r : reg) : string :=
  match m with
  | DMethod AToken => r_token_method r
  | DMethod AIntrospect => r_intro_method r
  | DMethod ARevoke => r_revoc_method r
  | DAuthAlg AToken => r_token_alg r
  | DAuthAlg AIntrospect => r_intro_alg r
  | DAuthAlg ARevoke => r_revoc_alg r
  | DIdtSig => r_idt_sig r | DIdtKey => r_idt_key r | DIdtCenc => r_idt_cenc r
  | DUiSig => r_ui_sig r | DUiKey => r_ui_key r | DUiCenc => r_ui_cenc r
  | DJarSig => r_jar_sig r | DJarKey => r_jar_key r | DJarCenc => r_jar_cenc r
  | DJarmSig => r_jarm_sig r | DJarmKey => r_jarm_key r | DJarmCenc => r_jarm_cenc r
  | DCibaJarSig => r_ciba_jar_sig r
  | DSubjectType => r_subject_type r
  | DCibaMode => r_ciba_mode r
  end.
Definition add_value (l : dlist) (v : string) (r : reg) : reg :=
  match l with
  | DGrant => r <| r_grants := (r_grants r ++ [v])%list |>
  | DRespType => r <| r_resp_types := (r_resp_types r ++ [v])%list |>
  | DScope => r <| r_scope := (r_scope r ++ [v])%list |>
  end.

Definition ciba_grant : string := "urn:openid:params:grant-type:ciba".

Section Gate.
  Variable c2 : config2.
  Let c := c2_base c2.
  Let ls := c2_lists c2.

  (* `if meta.X == "" { return nil }; if !slices.Contains(ctx.Xs, meta.X) { return error }` *)
  Definition opt_in (v : string) (l : list string) : bool := orb (is_empty v) (mem v l).

  (* the configuration values the options of Config2 do not set *)
  Definition ciba_modes : list string := if cf_ciba_enabled c then k_ciba_modes else [].   (* written by WithCIBAGrant *)
  Definition sub_types : list string := k_subject_types.
  Definition default_sub_pairwise : bool := false.      (* WithSubIdentifierTypes(public, ...) *)
  Definition auth_details_enabled : bool := false.      (* no WithAuthorizationDetails *)

  (* util.go authnMethods *)
  Definition authn_methods (r : reg) : list string :=
    (r_token_method r :: (if cf_introspection c then [r_intro_method r] else []) ++
                         (if cf_revocation c then [r_revoc_method r] else []))%list.

  Definition validateTokenAuthnMethod (r : reg) : bool := opt_in (r_token_method r) (l_token_methods ls).
  Definition validateTokenIntrospection (r : reg) : bool := opt_in (r_intro_method r) (l_intro_methods ls).
  Definition validateTokenRevocation (r : reg) : bool := opt_in (r_revoc_method r) (l_revoc_methods ls).
  (* validateScope compares with scope.ID (no dynamic-scope matching) *)
  Definition validateScopes (r : reg) : bool := forallb (fun s => mem s (map sc_id (cf_scopes c))) (r_scope r).

  (* `meta.XAuthnMethod == want && meta.XAuthnSigAlg != "" && !slices.Contains(algs, meta.XAuthnSigAlg)` *)
  Definition alg_refused (meth alg want : string) (algs : list string) : bool :=
    andb (seqb meth want) (andb (negb (is_empty alg)) (negb (mem alg algs))).
  Definition jwks_given (r : reg) : bool := orb (r_jwks r) (r_jwks_uri r).

  Definition validatePrivateKeyJWT (r : reg) : bool :=
    if negb (mem "private_key_jwt" (authn_methods r)) then true else
    if alg_refused (r_token_method r) (r_token_alg r) "private_key_jwt" (l_pkjwt_algs ls) then false else
    if alg_refused (r_intro_method r) (r_intro_alg r) "private_key_jwt" (l_pkjwt_algs ls) then false else
    if alg_refused (r_revoc_method r) (r_revoc_alg r) "private_key_jwt" (l_pkjwt_algs ls) then false else
    jwks_given r.
  (* no authnMethods guard here: the three checks read the members whether or not the endpoint is enabled *)
  Definition validateSecretJWT (r : reg) : bool :=
    if alg_refused (r_token_method r) (r_token_alg r) "client_secret_jwt" (l_secretjwt_algs ls) then false else
    if alg_refused (r_intro_method r) (r_intro_alg r) "client_secret_jwt" (l_secretjwt_algs ls) then false else
    if alg_refused (r_revoc_method r) (r_revoc_alg r) "client_secret_jwt" (l_secretjwt_algs ls) then false else
    true.
  Definition validateSelfSignedTLSAuthn (r : reg) : bool :=
    if negb (mem "self_signed_tls_client_auth" (authn_methods r)) then true else jwks_given r.
  Definition validateTLSAuthn (r : reg) : bool :=
    if negb (mem "tls_client_auth" (authn_methods r)) then true else N.eqb (r_tls_ids r) 1.
  Definition validateGrantTypes (r : reg) : bool :=
    forallb (fun g => mem g (map grant_name (cf_grants c))) (r_grants r).
  Definition validateClientCredentialsGrantType (r : reg) : bool :=
    negb (andb (mem "client_credentials" (r_grants r)) (seqb (r_token_method r) "none")).
  Definition validateRedirectURIS (r : reg) : bool := r_redirect_ok r.
  Definition validateRequestURIS (r : reg) : bool :=
    if negb (cf_jar_by_reference c) then true else r_request_uris_ok r.
  Definition validateResponseTypes (r : reg) : bool :=
    forallb (fun t => mem t (cf_resp_types c)) (r_resp_types r).
  Definition validateImplicitResponseTypes (r : reg) : bool :=
    if mem "implicit" (r_grants r) then true else forallb (fun t => negb (rt_is_implicit t)) (r_resp_types r).
  Definition validateResponseTypeCode (r : reg) : bool :=
    if mem "authorization_code" (r_grants r) then true else forallb (fun t => negb (rt_contains t "code")) (r_resp_types r).
  Definition validateOpenIDScopeIfRequired (r : reg) : bool :=
    if negb (cf_openid_required c) then true else mem "openid" (r_scope r).

  Definition validateIDTokenSigAlg (r : reg) : bool := opt_in (r_idt_sig r) (l_idt_sig_algs ls).
  (* the three steps shared by the four *EncAlgs validators *)
  Definition enc_algs_ok (key cenc : string) (keys cencs : list string) : bool :=
    if andb (negb (is_empty key)) (negb (mem key keys)) then false else
    if andb (negb (is_empty cenc)) (is_empty key) then false else
    if andb (negb (is_empty cenc)) (negb (mem cenc cencs)) then false else true.
  Definition validateIDTokenEncAlgs (r : reg) : bool :=
    if negb (l_idt_enc ls) then true else
    enc_algs_ok (r_idt_key r) (r_idt_cenc r) (l_idt_key_algs ls) (l_idt_content_algs ls).
  Definition validateUserInfoSigAlg (r : reg) : bool := opt_in (r_ui_sig r) (l_ui_sig_algs ls).
  Definition validateUserInfoEncAlgs (r : reg) : bool :=
    if negb (l_ui_enc ls) then true else
    enc_algs_ok (r_ui_key r) (r_ui_cenc r) (l_ui_key_algs ls) (l_ui_content_algs ls).
  Definition validateJARSigAlg (r : reg) : bool :=
    if orb (negb (cf_jar_enabled c)) (is_empty (r_jar_sig r)) then true else mem (r_jar_sig r) (l_jar_sig_algs ls).
  (* guarded by JAREncIsEnabled alone (the document: JARIsEnabled && JAREncIsEnabled) *)
  Definition validateJAREncAlgs (r : reg) : bool :=
    if negb (l_jar_enc ls) then true else
    enc_algs_ok (r_jar_key r) (r_jar_cenc r) (l_jar_key_algs ls) (l_jar_content_algs ls).
  Definition validateJARMSigAlg (r : reg) : bool :=
    if orb (negb (cf_jarm_enabled c)) (is_empty (r_jarm_sig r)) then true else mem (r_jarm_sig r) (l_jarm_sig_algs ls).
  (* sic: guarded by JARMIsEnabled, not by JARMEncIsEnabled *)
  Definition validateJARMEncAlgs (r : reg) : bool :=
    if negb (cf_jarm_enabled c) then true else
    enc_algs_ok (r_jarm_key r) (r_jarm_cenc r) (l_jarm_key_algs ls) (l_jarm_content_algs ls).
  Definition validatePublicJWKS (r : reg) : bool := if negb (r_jwks r) then true else r_jwks_ok r.
  Definition validatePublicJWKSURI (r : reg) : bool := true.      (* TODO in the Go code *)
  Definition validateAuthorizationDetailTypes (r : reg) : bool :=
    if negb auth_details_enabled then true else true.
  Definition validateSubjectIdentifierType (r : reg) : bool := opt_in (r_subject_type r) sub_types.
  Definition uses_front_channel (r : reg) : bool :=
    orb (mem "authorization_code" (r_grants r)) (mem "implicit" (r_grants r)).
  Definition validateSubIdentifierPairwise (r : reg) : bool :=
    let pairwise := orb (andb (is_empty (r_subject_type r)) default_sub_pairwise) (seqb (r_subject_type r) "pairwise") in
    if negb pairwise then true else
    if andb (andb (negb (r_sector_uri r)) (uses_front_channel r)) (negb (N.eqb (r_redirect_hosts r) 1)) then false else
    if andb (mem ciba_grant (r_grants r)) (negb (seqb (r_ciba_mode r) "push")) then
      if negb (r_jwks_uri r) then false else
      orb (seqb (r_token_method r) "private_key_jwt")
          (orb (seqb (r_token_method r) "self_signed_tls_client_auth") (negb (is_empty (r_ciba_jar_sig r))))
    else true.
  (* the harness's HTTP client answers 404: a registration naming a sector identifier URI is refused
     (validateURL or "could not fetch"); the probes never send one *)
  Definition validateSectorIdentifierURI (r : reg) : bool := negb (r_sector_uri r).
  Definition has_ciba (r : reg) : bool := mem ciba_grant (r_grants r).
  Definition validateCIBAGrant (r : reg) : bool :=
    if negb (has_ciba r) then true else negb (seqb (r_token_method r) "none").
  Definition validateCIBATokenDeliveryModes (r : reg) : bool :=
    if negb (has_ciba r) then true else
    if is_empty (r_ciba_mode r) then false else mem (r_ciba_mode r) ciba_modes.
  Definition validateCIBATokenNotificationEndpoint (r : reg) : bool :=
    if negb (has_ciba r) then true else
    if negb (orb (seqb (r_ciba_mode r) "ping") (seqb (r_ciba_mode r) "push")) then true else
    if negb (r_ciba_notif r) then false else r_ciba_notif_ok r.
  Definition validateCIBAUserCodeParam (r : reg) : bool :=
    if negb (has_ciba r) then true else negb (andb (negb (cf_ciba_user_code c)) (r_ciba_user_code r)).
  Definition validateCIBAJARAlgs (r : reg) : bool :=
    if orb (negb (cf_ciba_jar_enabled c)) (is_empty (r_ciba_jar_sig r)) then true
    else mem (r_ciba_jar_sig r) (l_ciba_jar_sig_algs ls).

  (* validate: runValidations over the 35 validators in the Go order; every failure is
     invalid_client_metadata, so the answer is the conjunction *)
  Definition dcr_validate (r : reg) : bool :=
    validateTokenAuthnMethod r && validateTokenIntrospection r && validateTokenRevocation r &&
    validateScopes r && validatePrivateKeyJWT r && validateSecretJWT r &&
    validateSelfSignedTLSAuthn r && validateTLSAuthn r && validateGrantTypes r &&
    validateClientCredentialsGrantType r && validateRedirectURIS r && validateRequestURIS r &&
    validateResponseTypes r && validateImplicitResponseTypes r && validateResponseTypeCode r &&
    validateOpenIDScopeIfRequired r && validateIDTokenSigAlg r && validateIDTokenEncAlgs r &&
    validateUserInfoSigAlg r && validateUserInfoEncAlgs r && validateJARSigAlg r &&
    validateJAREncAlgs r && validateJARMSigAlg r && validateJARMEncAlgs r &&
    validatePublicJWKS r && validatePublicJWKSURI r && validateAuthorizationDetailTypes r &&
    validateSubjectIdentifierType r && validateSubIdentifierPairwise r && validateSectorIdentifierURI r &&
    validateCIBAGrant r && validateCIBATokenDeliveryModes r && validateCIBATokenNotificationEndpoint r &&
    validateCIBAUserCodeParam r && validateCIBAJARAlgs r.

  (* ---------------- the discovery side ---------------- *)
  (* the list member of the document that publishes the values of m; for the three
     <endpoint>_endpoint_auth_signing_alg members it is <endpoint>_auth_signing_alg_values_supported,
     of which a client registered with JWT-based method M may use the part contributed by M
     (clientAuthnSigAlgs: the algorithms of private_key_jwt ++ those of client_secret_jwt) *)
  Inductive adv_source := FromList (m : lmember) | FromMember (m : member).
  Definition dmember_source (m : dmember) : adv_source :=
    match m with
    | DMethod e => FromList (aep_methods e)
    | DAuthAlg e => FromList (aep_sig_algs e)
    | DIdtSig => FromList LIdtSig | DIdtKey => FromList LIdtKeyEnc | DIdtCenc => FromList LIdtContentEnc
    | DUiSig => FromList LUiSig | DUiKey => FromList LUiKeyEnc | DUiCenc => FromList LUiContentEnc
    | DJarSig => FromList LJarSig | DJarKey => FromList LJarKeyEnc | DJarCenc => FromList LJarContentEnc
    | DJarmSig => FromList LJarmSig | DJarmKey => FromList LJarmKeyEnc | DJarmCenc => FromList LJarmContentEnc
    | DCibaJarSig => FromList LCibaJarSig
    | DSubjectType => FromMember MSubjectTypes
    | DCibaMode => FromMember MCibaModes
    end.
  Definition dlist_source (l : dlist) : member :=
    match l with DGrant => MGrantTypes | DRespType => MResponseTypes | DScope => MScopes end.

  (* is v advertised for member m of a registration r?  (r: the JWT-based method of the endpoint for
     the signing-algorithm members) *)
  Definition dcr_advertised (m : dmember) (r : reg) (v : string) : bool :=
    match m with
    | DAuthAlg e =>
        let meth := get_member (DMethod e) r in
        andb (l_advertised_in c2 (aep_methods e) meth) (mem v (client_authn_sig_algs ls [meth]))
    | _ =>
        match dmember_source m with
        | FromList lm => l_advertised_in c2 lm v
        | FromMember mm => advertised_in "" "" c mm v
        end
    end.
  Definition dlist_advertised (l : dlist) (v : string) : bool := advertised_in "" "" c (dlist_source l) v.

  (* the configured list the validator of m consults (the value the document would publish) *)
  Definition dcr_configured (m : dmember) (r : reg) (v : string) : bool :=
    match m with
    | DAuthAlg e => mem v (client_authn_sig_algs ls [get_member (DMethod e) r])
    | _ =>
        match dmember_source m with
        | FromList lm => mem v (l_value c2 lm)
        | FromMember MSubjectTypes => mem v sub_types
        | FromMember _ => mem v ciba_modes
        end
    end.

  (* the guard of oidcConfig under which the document publishes the list of m *)
  Definition doc_publishes (m : dmember) : bool :=
    match dmember_source m with FromList lm => l_flag c2 lm | FromMember _ => true end.

  (* the guard in front of the validator's list check: false = the validator returns nil whatever
     the value (`if !ctx.XIsEnabled { return nil }`, a member that is read only for a JWT-based
     method / only with the CIBA grant) *)
  Definition dcr_checked (m : dmember) (r : reg) : bool :=
    match m with
    | DMethod _ | DIdtSig | DUiSig | DSubjectType => true
    | DAuthAlg e =>
        (* validatePrivateKeyJWT starts with `if !slices.Contains(authnMethods(ctx, meta), private_key_jwt)
           { return nil }` (authnMethods: the methods of the ENABLED endpoints); validateSecretJWT has no
           such guard; a signing algorithm next to a method that is not JWT-based is never read *)
        let meth := get_member (DMethod e) r in
        if seqb meth "private_key_jwt" then mem "private_key_jwt" (authn_methods r)
        else seqb meth "client_secret_jwt"
    | DIdtKey | DIdtCenc => l_idt_enc ls
    | DUiKey | DUiCenc => l_ui_enc ls
    | DJarSig => cf_jar_enabled c
    | DJarKey | DJarCenc => l_jar_enc ls                  (* the document: JARIsEnabled && JAREncIsEnabled *)
    | DJarmSig | DJarmKey | DJarmCenc => cf_jarm_enabled c (* the document, Key / Cenc: JARMIsEnabled && JARMEncIsEnabled *)
    | DCibaJarSig => cf_ciba_jar_enabled c                (* the document: CIBAIsEnabled && CIBAJARIsEnabled *)
    | DCibaMode => has_ciba r
    end.

  (* what the registration endpoint answers for an otherwise valid registration whose member m is v:
     - the validator's guard is off: accepted whatever v is (the member is ignored at run time but for
       authorization_signed_response_alg, see conf/C19.py note);
     - the guard is on and the document publishes the list: accepted iff v is advertised;
     - the guard is on but the document's guard is narrower: accepted iff v is in the configured list,
       which nobody can read (for all option lists this happens with a non-empty list only for the
       JAR encryption members with WithJAREncryption but no WithJAR, and for the CIBA request-object
       algorithm with WithCIBAJAR but no WithCIBAGrant: theorem dcr_unpublished_acceptance) *)
  Definition dcr_expected (m : dmember) (r : reg) (v : string) : bool :=
    if negb (dcr_checked m r) then true
    else if doc_publishes m then dcr_advertised m r v
    else dcr_configured m r v.

  (* the side conditions of member m on the rest of the registration: what else validation.go reads
     when m is set *)
  Definition side_ok (m : dmember) (r : reg) : bool :=
    match m with
    | DMethod e =>
        (* a JWT-based / TLS method needs a JWKS resp. exactly one certificate identifier; no
           client-authentication signing algorithm is registered; `none` is incompatible with the
           client_credentials and CIBA grants *)
        andb (jwks_given r) (andb (N.eqb (r_tls_ids r) 1)
          (andb (andb (is_empty (r_token_alg r)) (andb (is_empty (r_intro_alg r)) (is_empty (r_revoc_alg r))))
             (andb (negb (mem "client_credentials" (r_grants r))) (negb (has_ciba r)))))
    | DIdtCenc => negb (is_empty (r_idt_key r))
    | DUiCenc => negb (is_empty (r_ui_key r))
    | DJarCenc => negb (is_empty (r_jar_key r))
    | DJarmCenc => negb (is_empty (r_jarm_key r))
    | DIdtKey => is_empty (r_idt_cenc r)
    | DUiKey => is_empty (r_ui_cenc r)
    | DJarKey => is_empty (r_jar_cenc r)
    | DJarmKey => is_empty (r_jarm_cenc r)
    | DSubjectType => andb (N.eqb (r_redirect_hosts r) 1) (negb (has_ciba r))
    | DCibaMode => andb (r_ciba_notif r) (andb (r_ciba_notif_ok r) (negb (seqb (r_subject_type r) "pairwise")))
    | _ => true
    end.

  (* list-valued members: the side conditions of ADDING value v *)
  Definition lside_ok (l : dlist) (v : string) (r : reg) : bool :=
    match l with
    | DScope => true
    (* an implicit / code response type needs the matching grant type *)
    | DRespType => andb (mem "implicit" (r_grants r)) (mem "authorization_code" (r_grants r))
    (* client_credentials and CIBA exclude `none`; CIBA needs a delivery mode (member DCibaMode);
       a new front-channel grant triggers the redirect-host rule of pairwise subjects *)
    | DGrant => andb (negb (seqb v ciba_grant))
                  (andb (negb (seqb (r_token_method r) "none")) (negb (seqb (r_subject_type r) "pairwise")))
    end.

  (* the userinfo validator of the seeded regression: the ID token list instead of the userinfo list *)
  Definition validateUserInfoSigAlg_seeded (r : reg) : bool := opt_in (r_ui_sig r) (l_idt_sig_algs ls).
End Gate.
