(* DcrFrame.v — the storage-call skeleton of dynamic client registration (Model/DcrFault.v) with the
   CONTENT of the in-place write made explicit, so that the frame clause of C13 ("a refused request
   leaves stored state unchanged") can be stated for the aliasing store, where the object handed out
   by the storage IS the stored one.

   internal/dcr/util.go update:
       client := protected(id, token)            -- CGet, token guard; `client` may be the stored object
       validate(meta); HandleDynamicClient(meta); validate(meta)        -- on the request's own copy
       client.ClientMetaInfo = *meta             -- the first in-place write            (Touch)
       modifyAndSaveClient(client)               -- token/secret minted into client, then CSave

   `dx_new` is what the request's metadata, the rotated token and the new secret make of the loaded
   client (any function that keeps the id: the storage key never changes). *)
From Verif Require Import Base Scope Types Prog Token DcrFault.
Local Open Scope N_scope.

Definition dx_update (w : world) (n : nat) (r : dfreq) (dx_new : client -> client) : prog dfout :=
  bind (dcr_protected w r) (fun oc =>
    match oc with
    | None => Ret DfErr
    | Some c =>
      if negb (df_valid r) then Ret DfErr else
      Touch (OC (dx_new c))
      (Do (CSave (dx_new c)) (fun rs =>
        match rs with
        | RFail => Ret DfErr
        | _ => Ret (DfDoc false (c_id c) (if df_secret r then mint n KSecret else 0)
                          (if df_rotate r then mint n KRegToken else 0))
        end))
    end).

Inductive dxop := DxCreate (r : dfreq) | DxUpdate (r : dfreq) (f : client -> client) | DxRead (r : dfreq) | DxDelete (r : dfreq).

Definition dx_handler (w : world) (n : nat) (o : dxop) : prog dfout :=
  match o with
  | DxCreate r => dcr_create n r
  | DxUpdate r f => dx_update w n r f
  | DxRead r => dcr_read w r
  | DxDelete r => dcr_delete w r
  end.

Definition df_refused (x : dfout) : bool := match x with DfErr => true | _ => false end.

(* the order matters: the same update with the in-place write moved before the validity check
   changes the aliasing store although it refuses *)
Definition dx_update_early (w : world) (n : nat) (r : dfreq) (dx_new : client -> client) : prog dfout :=
  bind (dcr_protected w r) (fun oc =>
    match oc with
    | None => Ret DfErr
    | Some c =>
      Touch (OC (dx_new c))
      (if negb (df_valid r) then Ret DfErr else
       Do (CSave (dx_new c)) (fun rs => match rs with RFail => Ret DfErr | _ => Ret (DfDoc false (c_id c) 0 0) end))
    end).

Definition dxe_world : world :=
  mkWorld (mkConfig POpenID [GAuthorizationCode] [] ["code"] [] false 600 300 IssueNever false 0 false false "" [] false false 0 false
             false false false false false 0 false false false false false false false false false
             false false false false false false false "" false [] false [] CmpNone) [].
Definition dxe_client : client := blank_client 33.
Definition dxe_rename (c : client) : client :=
  mkClient (c_id c) false [GAuthorizationCode] ["code"] ["https://attacker.example/cb"] "openid" CibaNone false false false false false false false 0 false None.
Definition dxe_store : store := mkStore [dxe_client] [] [].
Definition dxe_req : dfreq := mkDfReq 33 true false false false.

