(* Pop.v — DPoP proof validation and token binding rules.
   Transcribed from internal/dpop/util.go (ValidateJWT, JWT, JWKThumbprint),
   internal/token/validation.go (ValidateBinding and its three parts) and
   internal/token/pop.go (ValidatePoP, setPoP).  A DPoP proof is a record of the
   facts the validator inspects; keys are handles; the thumbprint of an embedded
   public key k is k itself (ideal, injective). *)
From Verif Require Import Base Scope Types.
Local Open Scope N_scope.

Inductive jwk_in := JwkAbsent | JwkPrivate (k : id) | JwkPublic (k : id).

(* htu as sent, relative to the URL of the request it accompanies *)
Inductive htu_v := HtuExact | HtuHostCase | HtuSchemeCase | HtuDefaultPort | HtuTrailingSlash
                 | HtuWithQuery | HtuWithFragment
                 | HtuOtherPath | HtuOtherHost | HtuOtherScheme | HtuOtherPort | HtuUnparsable.
(* strutil.NormalizeURL lower-cases scheme and host, drops the default port, one trailing slash,
   query and fragment; anything else is a different URL *)
Definition htu_ok (v : htu_v) : bool :=
  match v with
  | HtuExact | HtuHostCase | HtuSchemeCase | HtuDefaultPort | HtuTrailingSlash
  | HtuWithQuery | HtuWithFragment => true
  | _ => false
  end.

Record dpop_proof := mkProof {
  dp_parses : bool;          (* compact JWS whose alg is one of DPoPSigAlgs *)
  dp_typ_ok : bool;          (* typ == "dpop+jwt" *)
  dp_jwk : jwk_in;           (* the embedded jwk header *)
  dp_signer : id;            (* the key that produced the signature *)
  dp_iat_age : option Z;     (* now - iat, seconds; None: no iat claim *)
  dp_jti : bool;             (* jti present *)
  dp_htm_ok : bool;          (* htm == request method *)
  dp_htu : htu_v;
  dp_ath : id                (* the access token whose hash is in ath; 0: no ath *)
}.

Definition jwk_thumb (j : jwk_in) : id :=
  match j with JwkPublic k => k | JwkPrivate k => k | JwkAbsent => 0%N end.

(* dpop.ValidateJWT, guard by guard.  lifetime = JWTLifetimeSecs, leeway = JWTLeewayTimeSecs.
   None = accepted. *)
Definition validate_jwt (lifetime leeway : Z) (p : dpop_proof) (opt_token opt_jkt : id) : option ecode :=
  if negb (dp_parses p) then Some EInvalidRequest else
  if negb (dp_typ_ok p) then Some EInvalidRequest else
  match dp_jwk p with
  | JwkAbsent | JwkPrivate _ => Some EInvalidRequest
  | JwkPublic k =>
      if negb (ideq (dp_signer p) k) then Some EInvalidRequest else
      match dp_iat_age p with
      | None => Some EUnauthorizedClient
      | Some age =>
          if Z.ltb lifetime age then Some EUnauthorizedClient else
          if negb (dp_jti p) then Some EInvalidRequest else
          if negb (dp_htm_ok p) then Some EInvalidRequest else
          if negb (htu_ok (dp_htu p)) then Some EInvalidRequest else
          if andb (negb (is_nil opt_token)) (negb (ideq (dp_ath p) opt_token)) then Some EInvalidRequest else
          if andb (negb (is_nil opt_jkt)) (negb (ideq k opt_jkt)) then Some EInvalidRequest else
          (* claims.ValidateWithLeeway(Expected{}): iat must not be in the future beyond the leeway *)
          if Z.ltb age (- leeway)%Z then Some EInvalidRequest else
          None
      end
  end.

(* what accompanies a request: at most one usable DPoP header, at most one certificate *)
Record bind_in := mkBind { b_dpop : option dpop_proof; b_cert : id }.
Definition no_bind : bind_in := mkBind None 0.

Record bind_opts := mkBindOpts { bo_tls_required : bool; bo_tls_thumb : id; bo_dpop_required : bool; bo_dpop_jkt : id }.
Definition no_opts : bind_opts := mkBindOpts false 0 false 0.

Definition jwt_lifetime : Z := 600%Z.   (* defaultJWTLifetimeSecs; the harness never overrides it *)
Definition jwt_leeway : Z := 0%Z.

Definition validate_binding_dpop (cfg : config) (c : client) (b : bind_in) (o : bind_opts) : option ecode :=
  if negb (cf_dpop_enabled cfg) then None else
  match b_dpop b with
  | None => if orb (cf_dpop_required cfg) (orb (c_dpop_required c) (bo_dpop_required o))
            then Some EInvalidRequest else None
  | Some p => validate_jwt jwt_lifetime jwt_leeway p 0 (bo_dpop_jkt o)
  end.

Definition validate_binding_tls (cfg : config) (c : client) (b : bind_in) (o : bind_opts) : option ecode :=
  if negb (cf_tls_binding_enabled cfg) then None else
  if andb (is_nil (b_cert b)) (orb (cf_tls_binding_required cfg) (orb (c_tls_required c) (bo_tls_required o)))
  then Some EInvalidRequest else
  (* a thumbprint to compare and no certificate: every caller that passes a thumbprint also
     passes tlsIsRequired, so this is unreachable; the Go code would dereference nil here *)
  if andb (negb (is_nil (bo_tls_thumb o))) (negb (ideq (bo_tls_thumb o) (b_cert b)))
  then Some EInvalidRequest else None.

Definition validate_binding_required (cfg : config) (b : bind_in) : option ecode :=
  if negb (cf_binding_required cfg) then None else
  let bound := orb (andb (cf_dpop_enabled cfg) (match b_dpop b with Some _ => true | None => false end))
                   (andb (cf_tls_binding_enabled cfg) (negb (is_nil (b_cert b)))) in
  if bound then None else Some EInvalidRequest.

Definition validate_binding (cfg : config) (c : client) (b : bind_in) (o : bind_opts) : option ecode :=
  match validate_binding_dpop cfg c b o with
  | Some e => Some e
  | None => match validate_binding_tls cfg c b o with
            | Some e => Some e
            | None => validate_binding_required cfg b
            end
  end.

(* token.setPoP: thumbprints recorded on the grant *)
Definition set_pop_jkt (cfg : config) (b : bind_in) : id :=
  match b_dpop b with Some p => if cf_dpop_enabled cfg then jwk_thumb (dp_jwk p) else 0%N | None => 0%N end.
Definition set_pop_x5t (cfg : config) (b : bind_in) : id :=
  if cf_tls_binding_enabled cfg then b_cert b else 0%N.

(* token.ValidatePoP at use *)
Definition validate_pop (b : bind_in) (token : id) (jkt x5t : id) : option ecode :=
  match (if is_nil jkt then None else
         match b_dpop b with
         | None => Some EUnauthorizedClient
         | Some p => validate_jwt jwt_lifetime jwt_leeway p token jkt
         end) with
  | Some e => Some e
  | None =>
      if is_nil x5t then None else
      if is_nil (b_cert b) then Some EInvalidToken else
      if negb (ideq x5t (b_cert b)) then Some EInvalidToken else None
  end.
