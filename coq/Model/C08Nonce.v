(* C08Nonce.v — which nonce the ID tokens of ONE authorization flow carry, whatever way the
   request reached the authorization endpoint.

   internal/authorize/authorize.go: authnSession builds the session from
     - the query parameters themselves                          (simpleAuthnSession: a plain request),
     - the pushed session, completed by the query parameters    (authnSessionWithPAR, OpenID profile:
                                                                 mergeParams(pushed, query)),
     - the request object, completed by the query parameters    (authnSessionWithJAR, OpenID profile),
     - the pushed session / the request object ALONE            (FAPI 1.0 and FAPI 2.0 profiles);
   initAuthnSession then copies session.Nonce - the nonce of THOSE parameters - into
   AdditionalIDTokenClaims["nonce"], from where every ID token of the flow takes it: the one in
   the authorization response (finishFlowSuccessfully -> MakeIDToken) and, through the grant
   session, the ones of the token endpoint (authorization_code and refresh_token grants).

   effective_params is that choice, stated with the merge function of the system model
   (Authorize.merge_params; Authorize.init_auth and Jar.jar_session make the same choice, see
   Proofs/C08NonceProofs.v).  The ID tokens are built by the artifact model (Artifacts.v:
   finish_flow, token_endpoint_response, id_token_claims). *)
From Verif Require Import Base Scope Types Prog Pop Token Authorize Artifacts.
Local Open Scope N_scope.

(* how the authorization request travelled *)
Inductive req_form :=
  | FPlain      (* GET /authorize?<parameters>                                   : only "outer" exists *)
  | FPar        (* POST /par <inner>, then GET /authorize?request_uri&<outer>    *)
  | FJar        (* GET /authorize?request=<signed object with inner>&<outer>     *)
  | FParJar.    (* POST /par request=<signed object with inner>, then GET /authorize?request_uri&<outer> *)

Definition form_ix (f : req_form) : N := match f with FPlain => 0 | FPar => 1 | FJar => 2 | FParJar => 3 end.

(* authnSession: the parameters the session is built from *)
Definition effective_params (prof : profile) (form : req_form) (inner outer : params) : params :=
  match form with
  | FPlain => outer
  | _ => if is_fapi prof then inner else merge_params inner outer
  end.

(* initAuthnSession: if session.Nonce != "" { session.SetIDTokenClaim("nonce", session.Nonce) };
   "" stands for "no such claim", as io_nonce / ai_nonce_claim in Artifacts.v *)
Definition session_nonce_claim (p : params) : string := p_nonce p.

(* the same rule stated on the two nonce values alone (what a relying party can check without
   knowing the model): inner wins, outer completes; FAPI: inner only; plain request: its own *)
Definition merged_nonce_rule (prof : profile) (form : req_form) (inner_nonce outer_nonce : string) : string :=
  match form with
  | FPlain => outer_nonce
  | _ => match prof with
         | POpenID => if is_empty inner_nonce then outer_nonce else inner_nonce
         | _ => inner_nonce
         end
  end.

(* one flow: how the request travelled, the two parameter sets, and what the policy and the
   handlers add (subject, granted scopes, the code and the proof-of-possession key if any) *)
Record flow := mkFlow {
  fl_profile : profile;
  fl_form : req_form;
  fl_inner : params;
  fl_outer : params;
  fl_sub : string;
  fl_granted : string;
  fl_code : id;
  fl_jkt : id
}.

Definition flow_params (f : flow) : params :=
  effective_params (fl_profile f) (fl_form f) (fl_inner f) (fl_outer f).

(* the session finishFlowSuccessfully has in hand *)
Definition flow_session (f : flow) : authz_in :=
  mkAuthzIn (fl_sub f) (session_nonce_claim (flow_params f)) (fl_granted f) (flow_params f) (fl_code f) (fl_jkt f).

(* the authorization response of the flow *)
Definition flow_authz_response (cfg : acfg) (n : nat) (now : Z) (c : aclient) (fo : tokopts) (f : flow)
  : option authz_response :=
  finish_flow cfg n now c fo (flow_session f).

(* the grant the code of the flow is redeemed into (and that a refresh token continues) *)
Definition flow_grant (c : aclient) (f : flow) (gt : grant_type) : ginfo :=
  mkGInfo gt (fl_sub f) (acl_id c) (fl_granted f) (fl_jkt f) 0.

(* the token endpoint's responses of the flow: gt = GAuthorizationCode, GRefreshToken; the nonce
   travels in the grant session's AdditionalIDTokenClaims, copied from the session *)
Definition flow_token_response (cfg : acfg) (n : nat) (now : Z) (c : aclient) (fo : tokopts) (f : flow)
  (gt : grant_type) : option token_response :=
  token_endpoint_response cfg n now (flow_grant c f gt) c fo (ai_nonce_claim (flow_session f)).

(* the ID token an authorization response delivers (plain parameters or inside a JARM response) *)
Definition authz_id_token (r : authz_response) : option (artifact idt_claims) :=
  match r with
  | PlainParams _ p => rp_id_token p
  | JarmResponse _ a => rp_id_token (jc_params (body_claims (art_body a)))
  end.

(* the nonce claim of an ID token *)
Definition idt_nonce (a : artifact idt_claims) : option string := ic_nonce (body_claims (art_body a)).
