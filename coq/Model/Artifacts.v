(* Artifacts.v — what the provider signs, field by field.
   Transcribed from internal/joseutil/util.go (Sign), internal/oidc/context.go (JWKByAlg,
   PublicJWKS, TokenOptions, shouldSwitchToOpaque, ExportableSubject),
   internal/hashutil/util.go (HalfHash, HashAlg), internal/token/make.go (MakeIDToken,
   idTokenClaims, Make, makeJWTToken), internal/authorize/authorize.go
   (finishFlowSuccessfully), internal/authorize/redirect.go (redirectResponse,
   signJARMResponse), internal/userinfo/util.go (userInfoResponse) — tree with fix: commits.
   Keys and hashes are symbolic: a key pair is a handle n, a JWK is a record saying which
   members it carries; half_hash is a constructor, hence injective.  go-jose (signing,
   encryption, JWK (un)marshalling) is idealised here and judged on real bytes by the harness. *)
From Verif Require Import Base Scope Types Prog Pop Token Authorize.
Local Open Scope N_scope.

(* ---- algorithms (goidc.SignatureAlgorithm) ---- *)
Inductive sigalg := RS256 | RS384 | RS512 | PS256 | PS384 | PS512 | ES256 | ES384 | ES512
                  | HS256 | HS384 | HS512 | AlgNone.
Definition sigalg_ix (a : sigalg) : N :=
  match a with RS256 => 1 | RS384 => 2 | RS512 => 3 | PS256 => 4 | PS384 => 5 | PS512 => 6
  | ES256 => 7 | ES384 => 8 | ES512 => 9 | HS256 => 10 | HS384 => 11 | HS512 => 12 | AlgNone => 13 end.
Definition sigalg_eqb (a b : sigalg) : bool := N.eqb (sigalg_ix a) (sigalg_ix b).
Lemma sigalg_eqb_eq a b : sigalg_eqb a b = true <-> a = b.
Proof. unfold sigalg_eqb. rewrite N.eqb_eq. split; [|congruence]. destruct a, b; cbn; congruence. Qed.

(* hashutil.HashAlg *)
Inductive hsize := H256 | H384 | H512.
Definition hash_alg (a : sigalg) : hsize :=
  match a with
  | RS512 | ES512 | PS512 | HS512 => H512
  | RS384 | ES384 | PS384 | HS384 => H384
  | _ => H256
  end.
Definition hsize_eqb (a b : hsize) : bool :=
  match a, b with H256, H256 | H384, H384 | H512, H512 => true | _, _ => false end.

(* the values whose hashes go into ID tokens: server-minted strings (handles) and the client's state *)
Inductive hvalue := VId (h : id) | VStr (s : string).
Definition hvalue_eqb (a b : hvalue) : bool :=
  match a, b with VId x, VId y => ideq x y | VStr x, VStr y => seqb x y | _, _ => false end.
(* hashutil.HalfHash: left half of the digest, base64url — ideal: a constructor *)
Inductive hhandle := HalfHash (h : hsize) (v : hvalue).
Definition half_hash (a : sigalg) (v : hvalue) : hhandle := HalfHash (hash_alg a) v.
Definition hhandle_eqb (a b : hhandle) : bool :=
  match a, b with HalfHash h v, HalfHash h' v' => andb (hsize_eqb h h') (hvalue_eqb v v') end.

(* ---- keys (goidc.JSONWebKey) ---- *)
Inductive kty := KtyRSA | KtyEC (bits : N) | KtyOct.
Inductive kuse := UseSig | UseEnc.
Inductive kalg := ASig (a : sigalg) | AEnc (n : N).    (* the JWK's "alg" member *)
Definition kalg_is (a : sigalg) (k : kalg) : bool := match k with ASig b => sigalg_eqb a b | AEnc _ => false end.
Record jwk := mkJwk {
  k_kid : string;
  k_alg : kalg;
  k_use : kuse;
  k_kty : kty;
  k_pair : N;          (* which key pair (or symmetric key) this is *)
  k_priv : bool        (* carries the private members d,p,q,dp,dq,qi / k *)
}.
#[export] Instance eta_jwk : Settable _ := settable! mkJwk <k_kid; k_alg; k_use; k_kty; k_pair; k_priv>.

(* jose.JSONWebKey.Public(): public members of an asymmetric key; the zero JWK for a symmetric one *)
Definition jwk_public (k : jwk) : jwk :=
  match k_kty k with
  | KtyOct => mkJwk "" (AEnc 0) (k_use k) KtyOct 0 false
  | _ => k <| k_priv := false |>
  end.

(* which algorithm families a key type can sign with (jose.NewSigner refuses the rest) *)
Definition alg_fits (t : kty) (a : sigalg) : bool :=
  match t, a with
  | KtyRSA, (RS256 | RS384 | RS512 | PS256 | PS384 | PS512) => true
  | KtyEC 256, ES256 | KtyEC 384, ES384 | KtyEC 521, ES512 => true
  | KtyOct, (HS256 | HS384 | HS512) => true
  | _, _ => false
  end.

(* ---- configuration and client members the artifact builders read ---- *)
Record acfg := mkACfg {
  ac_host : string;                 (* ctx.Host: the issuer *)
  ac_keys : list jwk;               (* what JWKSFunc returns *)
  ac_idt_default_alg : sigalg;      (* IDTokenDefaultSigAlg *)
  ac_idt_none : bool;               (* IDTokenSigAlgs contains "none" *)
  ac_idt_lifetime : Z;              (* IDTokenLifetimeSecs *)
  ac_idt_enc : bool;                (* IDTokenEncIsEnabled *)
  ac_ui_default_alg : sigalg;       (* UserInfoDefaultSigAlg *)
  ac_ui_none : bool;
  ac_ui_enc : bool;
  ac_jarm_enabled : bool;
  ac_jarm_default_alg : sigalg;
  ac_jarm_lifetime : Z;
  ac_jarm_enc : bool;
  ac_issuer_param : bool;           (* IssuerRespParamIsEnabled *)
  ac_default_pairwise : bool;       (* DefaultSubIdentifierType == pairwise *)
  ac_pairwise_fn : bool             (* GeneratePairwiseSubIDFunc != nil (the harness's "pw:<client>:<sub>") *)
}.

Record aclient := mkAClient {
  acl_id : string;
  acl_idt_alg : option sigalg;      (* IDTokenSigAlg, None = "" *)
  acl_idt_enc : option N;           (* IDTokenKeyEncAlg != "": the client key the token is encrypted to *)
  acl_ui_alg : option sigalg;
  acl_ui_enc : option N;
  acl_jarm_alg : option sigalg;
  acl_jarm_enc : option N;
  acl_sub_type : option bool        (* SubIdentifierType: None "", Some true pairwise, Some false public *)
}.

(* ctx.JWKByAlg: the first key whose alg member is the algorithm (use is not looked at) *)
Definition jwk_by_alg (cfg : acfg) (a : sigalg) : option jwk :=
  find (fun k => kalg_is a (k_alg k)) (ac_keys cfg).

(* ctx.PublicJWKS *)
Definition public_jwks (cfg : acfg) : list jwk := map jwk_public (ac_keys cfg).

(* ---- JWS ---- *)
Record jws (C : Type) := mkJws {
  j_signer : N;        (* the key pair whose private half produced the signature *)
  j_alg : sigalg;      (* header alg *)
  j_kid : string;      (* header kid *)
  j_typ : string;      (* header typ *)
  j_claims : C
}.
Arguments mkJws {C}. Arguments j_signer {C}. Arguments j_alg {C}. Arguments j_kid {C}.
Arguments j_typ {C}. Arguments j_claims {C}.

(* joseutil.Sign (SignerFunc nil): key by algorithm, kid and alg headers, typ "JWT" unless given *)
Definition sign {C} (cfg : acfg) (claims : C) (a : sigalg) (typ : string) : option (jws C) :=
  match jwk_by_alg cfg a with
  | None => None
  | Some k =>
      if andb (k_priv k) (alg_fits (k_kty k) a)          (* jose.NewSigner / Sign succeed *)
      then Some (mkJws (k_pair k) a (k_kid k) (if is_empty typ then "JWT" else typ) claims)
      else None
  end.

(* signature verification under a published key (ideal): same pair, right family, header alg *)
Definition verifies_under {C} (k : jwk) (j : jws C) : bool :=
  andb (N.eqb (k_pair k) (j_signer j)) (alg_fits (k_kty k) (j_alg j)).

Inductive sbody (C : Type) := Signed (j : jws C) | Unsigned (c : C).
Arguments Signed {C}. Arguments Unsigned {C}.
Record artifact (C : Type) := mkArt { art_enc : option N; art_body : sbody C }.
Arguments mkArt {C}. Arguments art_enc {C}. Arguments art_body {C}.
Definition body_claims {C} (b : sbody C) : C := match b with Signed j => j_claims j | Unsigned c => c end.

(* ---- subjects ---- *)
Definition should_generate_pairwise (cfg : acfg) (c : aclient) : bool :=
  match acl_sub_type c with Some b => b | None => ac_default_pairwise cfg end.
Definition pairwise_sub (cid sub : string) : string := "pw:" ++ cid ++ ":" ++ sub.
Definition exportable_subject (cfg : acfg) (c : aclient) (sub : string) : string :=
  if orb (negb (ac_pairwise_fn cfg)) (negb (should_generate_pairwise cfg c)) then sub
  else pairwise_sub (acl_id c) sub.

(* ---- token options ---- *)
Record tokopts := mkTokOpts { to_jwt : bool; to_alg : sigalg; to_lifetime : Z }.
Definition should_switch_to_opaque (cfg : acfg) (gt : grant_type) (c : aclient) (o : tokopts) : bool :=
  if negb (to_jwt o) then false
  else andb (should_generate_pairwise cfg c) (negb (gt_eqb gt GClientCredentials)).
Definition token_options (cfg : acfg) (gt : grant_type) (c : aclient) (o : tokopts) : tokopts :=
  if should_switch_to_opaque cfg gt c o then mkTokOpts false (to_alg o) (to_lifetime o) else o.

(* ---- ID tokens ---- *)
Record idt_opts := mkIdtOpts {
  io_sub : string;
  io_nonce : string;        (* AdditionalIDTokenClaims["nonce"]; "" absent *)
  io_at : id;               (* AccessToken; 0 = "" *)
  io_code : id;
  io_state : string;
  io_rt : id;
  io_auth_req : id
}.
Record idt_claims := mkIdtClaims {
  ic_sub : string; ic_iss : string; ic_iat : Z; ic_exp : Z;
  ic_aud : option string;
  ic_at_hash : option hhandle; ic_c_hash : option hhandle; ic_s_hash : option hhandle;
  ic_rt_hash : option hhandle; ic_auth_req_id : option hhandle;
  ic_nonce : option string
}.
Definition hash_of_id (a : sigalg) (v : id) : option hhandle :=
  if is_nil v then None else Some (half_hash a (VId v)).
Definition hash_of_str (a : sigalg) (s : string) : option hhandle :=
  if is_empty s then None else Some (half_hash a (VStr s)).
Definition opt_str (s : string) : option string := if is_empty s then None else Some s.

(* token.idTokenClaims *)
Definition id_token_claims (cfg : acfg) (c : aclient) (o : idt_opts) (a : sigalg) (now : Z) : idt_claims :=
  mkIdtClaims (exportable_subject cfg c (io_sub o)) (ac_host cfg) now (now + ac_idt_lifetime cfg)%Z
    (opt_str (acl_id c))
    (hash_of_id a (io_at o)) (hash_of_id a (io_code o)) (hash_of_str a (io_state o))
    (hash_of_id a (io_rt o)) (hash_of_id a (io_auth_req o))
    (opt_str (io_nonce o)).

Definition idt_alg (cfg : acfg) (c : aclient) : sigalg :=
  match acl_idt_alg c with Some a => a | None => ac_idt_default_alg cfg end.

(* token.makeIDToken *)
Definition make_id_token_body (cfg : acfg) (c : aclient) (o : idt_opts) (now : Z) : option (sbody idt_claims) :=
  if andb (ac_idt_none cfg) (match acl_idt_alg c with Some AlgNone => true | _ => false end)
  then Some (Unsigned (id_token_claims cfg c o AlgNone now))
  else let a := idt_alg cfg c in
       match sign cfg (id_token_claims cfg c o a now) a "" with
       | Some j => Some (Signed j) | None => None end.
(* token.MakeIDToken: encrypted to the client's key when enabled and registered *)
Definition make_id_token (cfg : acfg) (c : aclient) (o : idt_opts) (now : Z) : option (artifact idt_claims) :=
  match make_id_token_body cfg c o now with
  | None => None
  | Some b => Some (mkArt (if ac_idt_enc cfg then acl_idt_enc c else None) b)
  end.

(* ---- JWT access tokens ---- *)
Record ginfo := mkGInfo {
  gi_type : grant_type; gi_sub : string; gi_client : string; gi_scopes : string; gi_jkt : id; gi_x5t : id
}.
Record at_claims := mkAtClaims {
  tc_jti : id; tc_iss : string; tc_sub : string; tc_scope : string; tc_iat : Z; tc_exp : Z;
  tc_client_id : option string; tc_jkt : id; tc_x5t : id
}.
Inductive token_value := TokOpaque (h : id) | TokJwt (j : jws at_claims).
Record token := mkToken { tk_id : id; tk_value : token_value; tk_dpop : bool; tk_lifetime : Z }.

(* token.makeJWTToken (the operation index n names the jti) *)
Definition make_jwt_token (cfg : acfg) (n : nat) (now : Z) (g : ginfo) (o : tokopts) : option token :=
  let claims := mkAtClaims (mint n KJti) (ac_host cfg) (gi_sub g) (gi_scopes g) now (now + to_lifetime o)%Z
                  (opt_str (gi_client g)) (gi_jkt g) (gi_x5t g) in
  match sign cfg claims (to_alg o) "at+jwt" with
  | Some j => Some (mkToken (mint n KJti) (TokJwt j) (negb (is_nil (gi_jkt g))) (to_lifetime o))
  | None => None
  end.
Definition make_opaque_token (n : nat) (g : ginfo) (o : tokopts) : token :=
  mkToken (mint n KAtOpaque) (TokOpaque (mint n KAtOpaque)) (negb (is_nil (gi_jkt g))) (to_lifetime o).
(* token.Make *)
Definition make (cfg : acfg) (n : nat) (now : Z) (g : ginfo) (c : aclient) (fo : tokopts) : option token :=
  let o := token_options cfg (gi_type g) c fo in
  if to_jwt o then make_jwt_token cfg n now g o else Some (make_opaque_token n g o).

(* the token endpoint's response (authz_code.go, refresh_token.go, ciba.go): the ID token carries
   no hash claims there (newIDTokenOptions) *)
Record token_response := mkTokenResp {
  trs_at : token; trs_expires_in : Z; trs_id_token : option (artifact idt_claims)
}.
Definition token_endpoint_response (cfg : acfg) (n : nat) (now : Z) (g : ginfo) (c : aclient) (fo : tokopts)
  (nonce : string) : option token_response :=
  match make cfg n now g c fo with
  | None => None
  | Some t =>
    if contains_openid (gi_scopes g) then
      match make_id_token cfg c (mkIdtOpts (gi_sub g) nonce 0 0 "" 0 0) now with
      | Some i => Some (mkTokenResp t (tk_lifetime t) (Some i))
      | None => None
      end
    else Some (mkTokenResp t (tk_lifetime t) None)
  end.

(* ---- the authorization endpoint's success response ---- *)
Record authz_params := mkAuthzParams {
  rp_iss : string;             (* "" absent *)
  rp_at : option token;
  rp_id_token : option (artifact idt_claims);
  rp_code : id;
  rp_state : string;
  rp_error : option ecode
}.
Record jarm_claims := mkJarmClaims {
  jc_iss : string; jc_aud : string; jc_iat : Z; jc_exp : Z; jc_params : authz_params
}.
Inductive authz_response := PlainParams (mode : string) (p : authz_params)
                          | JarmResponse (mode : string) (r : artifact jarm_claims).

Definition jarm_alg (cfg : acfg) (c : aclient) : sigalg :=
  match acl_jarm_alg c with Some a => a | None => ac_jarm_default_alg cfg end.
(* authorize.signJARMResponse + createJARMResponse *)
Definition jarm_response (cfg : acfg) (c : aclient) (p : authz_params) (now : Z) : option (artifact jarm_claims) :=
  match sign cfg (mkJarmClaims (ac_host cfg) (acl_id c) now (now + ac_jarm_lifetime cfg)%Z p) (jarm_alg cfg c) "" with
  | Some j => Some (mkArt (if ac_jarm_enc cfg then acl_jarm_enc c else None) (Signed j))
  | None => None
  end.

(* authorize.redirectResponse *)
Definition redirect_response (cfg : acfg) (c : aclient) (prm : params) (p : authz_params) (now : Z) : option authz_response :=
  let p := if ac_issuer_param cfg then mkAuthzParams (ac_host cfg) (rp_at p) (rp_id_token p) (rp_code p) (rp_state p) (rp_error p) else p in
  let m := response_mode prm in
  if orb (andb (rm_is_jarm m) (ac_jarm_enabled cfg)) (match acl_jarm_alg c with Some _ => true | None => false end)
  then match jarm_response cfg c p now with Some r => Some (JarmResponse m r) | None => None end
  else Some (PlainParams m p).

(* what finishFlowSuccessfully has in hand: the session after authentication *)
Record authz_in := mkAuthzIn {
  ai_sub : string; ai_nonce_claim : string; ai_granted : string;
  ai_params : params;
  ai_code : id;              (* session.AuthCode, minted iff response_type contains code *)
  ai_jkt : id
}.
Definition token_value_id (t : token) : id :=
  match tk_value t with TokOpaque h => h | TokJwt j => (tc_jti (j_claims j) - kind_ix KJti + kind_ix KAtJwt)%N end.

Definition finish_flow (cfg : acfg) (n : nat) (now : Z) (c : aclient) (fo : tokopts) (s : authz_in) : option authz_response :=
  let rt := p_resp_type (ai_params s) in
  let otok := if rt_contains rt "token"
              then match make cfg n now (mkGInfo GImplicit (ai_sub s) (acl_id c) (ai_granted s) (ai_jkt s) 0) c fo with
                   | Some t => Some (Some t) | None => None end
              else Some None in
  match otok with
  | None => None
  | Some tok =>
    let at_id := match tok with Some t => token_value_id t | None => 0 end in
    let oidt := if andb (contains_openid (ai_granted s)) (rt_contains rt "id_token")
                then match make_id_token cfg c (mkIdtOpts (ai_sub s) (ai_nonce_claim s) at_id (ai_code s)
                                                  (p_state (ai_params s)) 0 0) now with
                     | Some i => Some (Some i) | None => None end
                else Some None in
    match oidt with
    | None => None
    | Some idt => redirect_response cfg c (ai_params s)
                    (mkAuthzParams "" tok idt (ai_code s) (p_state (ai_params s)) None) now
    end
  end.

(* ---- userinfo ---- *)
Record ui_claims := mkUiClaims { uc_sub : string; uc_iss : string; uc_aud : string }.
Inductive ui_response := UiJson (sub : string) | UiJwt (a : artifact ui_claims).
Definition ui_alg (cfg : acfg) (c : aclient) : sigalg :=
  match acl_ui_alg c with Some a => a | None => ac_ui_default_alg cfg end.
(* userinfo.userInfoResponse *)
Definition userinfo_response (cfg : acfg) (c : aclient) (grant_sub : string) : option ui_response :=
  let sub := exportable_subject cfg c grant_sub in
  match acl_ui_alg c with
  | None => Some (UiJson sub)
  | Some ca =>
    let claims := mkUiClaims sub (ac_host cfg) (acl_id c) in
    let body := if andb (ac_ui_none cfg) (match ca with AlgNone => true | _ => false end)
                then Some (Unsigned claims)
                else match sign cfg claims (ui_alg cfg c) "" with Some j => Some (Signed j) | None => None end in
    match body with
    | None => None
    | Some b => Some (UiJwt (mkArt (if ac_ui_enc cfg then acl_ui_enc c else None) b))
    end
  end.
Definition ui_sub (r : ui_response) : string :=
  match r with UiJson s => s | UiJwt a => uc_sub (body_claims (art_body a)) end.

(* ---- link with the flow model (Token.v): its client record and token_is_jwt ---- *)
Definition aclient_of (c : client) : aclient :=
  mkAClient (cname (c_id c)) None None None None (if c_jarm_alg c then Some ES256 else None) None
            (Some (c_pairwise c)).
Definition harness_tokopts (cfg : config) (c : client) : tokopts :=
  mkTokOpts (c_jwt_tokens c) ES256 (cf_token_lifetime cfg).
