(* Base.v — strings and lists as the Go code uses them.
   Mirrors: strings.Split(s, " "), strings.Contains, strings.HasPrefix,
   strutil.SplitWithSpaces, slices.Contains.  Stdlib only. *)
From Coq Require Export List String Ascii Bool Arith ZArith NArith Lia.
Export ListNotations.
Open Scope string_scope.

Definition str := string.

Definition seqb (a b : string) : bool := String.eqb a b.
Lemma seqb_eq a b : seqb a b = true <-> a = b.
Proof. apply String.eqb_eq. Qed.
Lemma seqb_refl a : seqb a a = true.
Proof. apply String.eqb_refl. Qed.
Lemma seqb_neq a b : seqb a b = false <-> a <> b.
Proof. apply String.eqb_neq. Qed.

(* slices.Contains on strings *)
Fixpoint mem (x : string) (l : list string) : bool :=
  match l with [] => false | y :: r => if seqb x y then true else mem x r end.
Lemma mem_In x l : mem x l = true <-> In x l.
Proof.
  induction l as [|y r IH]; simpl; [split; [discriminate|tauto]|].
  destruct (seqb x y) eqn:E.
  - apply seqb_eq in E; subst; tauto.
  - apply seqb_neq in E. rewrite IH. split; [tauto|]. intros [H|H]; [congruence|tauto].
Qed.

Definition memN (x : N) (l : list N) : bool := existsb (N.eqb x) l.
Lemma memN_In x l : memN x l = true <-> In x l.
Proof.
  unfold memN. rewrite existsb_exists. split.
  - intros [y [H1 H2]]. apply N.eqb_eq in H2; subst; auto.
  - intros H; exists x; split; auto. apply N.eqb_refl.
Qed.

Definition subset (a b : list string) : bool := forallb (fun x => mem x b) a.
Lemma subset_spec a b : subset a b = true <-> (forall x, In x a -> In x b).
Proof.
  unfold subset. rewrite forallb_forall. split; intros H x Hx.
  - apply mem_In; auto.
  - apply mem_In; auto.
Qed.

(* strings.Split(s, " "): split on every single space; never returns []. *)
Fixpoint split_sp_aux (s : string) (cur : string) : list string :=
  match s with
  | EmptyString => [cur]
  | String c r =>
      if Ascii.eqb c " "%char then cur :: split_sp_aux r EmptyString
      else split_sp_aux r (cur ++ String c EmptyString)
  end.
Definition split_sp (s : string) : list string := split_sp_aux s EmptyString.

(* strings.ReplaceAll(strings.Trim(s," ")," ","") != ""  <=>  s has a non-space char *)
Fixpoint has_nonspace (s : string) : bool :=
  match s with
  | EmptyString => false
  | String c r => if Ascii.eqb c " "%char then has_nonspace r else true
  end.

(* strutil.SplitWithSpaces *)
Definition split_with_spaces (s : string) : list string :=
  if has_nonspace s then split_sp s else [].

(* strings.HasPrefix(s, p) *)
Fixpoint has_prefix (p s : string) : bool :=
  match p, s with
  | EmptyString, _ => true
  | String a p', String b s' => if Ascii.eqb a b then has_prefix p' s' else false
  | _, _ => false
  end.

(* strings.Contains(s, sub) *)
Fixpoint contains (s sub : string) : bool :=
  if has_prefix sub s then true else
  match s with EmptyString => false | String _ r => contains r sub end.

Definition is_empty (s : string) : bool := match s with EmptyString => true | _ => false end.
Lemma is_empty_spec s : is_empty s = true <-> s = "".
Proof. destruct s; simpl; split; congruence. Qed.

Definition contains_openid (scopes : string) : bool := mem "openid" (split_with_spaces scopes).
Definition contains_offline (scopes : string) : bool := mem "offline_access" (split_with_spaces scopes).

(* option helpers *)
Definition oeqN (a b : option N) : bool :=
  match a, b with Some x, Some y => N.eqb x y | None, None => true | _, _ => false end.

(* Z comparison helpers as Go writes them *)
Definition geb (a b : Z) : bool := Z.leb b a.
