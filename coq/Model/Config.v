(* Config.v — provider.New: option functions, setDefaults, validate.
   One constructor per provider.With… option that touches a modelled field,
   transcribed from pkg/provider/option.go and provider.go (tree with fix: commits). *)
From Verif Require Import Base Scope Types.
Local Open Scope N_scope.

Inductive opt :=
  | WithAuthorizationCodeGrant | WithImplicitGrant | WithClientCredentialsGrant
  | WithRefreshTokenGrant (lifetime : Z) | WithRefreshTokenGrantPol (f : issue_pol) (lifetime : Z) | WithRefreshTokenRotation
  | WithJWTBearerGrant | WithJWTBearerGrantClientAuthnRequired
  | WithCIBAGrant | WithCIBALifetime (secs : Z) | WithCIBAUserCode | WithCIBAJAR | WithCIBAJARRequired
  | WithScopes (l : list scope) | WithOpenIDScopeRequired
  | WithPAR (lifetime : Z) | WithPARRequired (lifetime : Z) | WithUnregisteredRedirectURIsForPAR
  | WithJAR | WithJARRequired | WithJARByReference | WithJARM
  | WithPKCE (default : string) (methods : list string) | WithPKCERequired (default : string) (methods : list string)
  | WithDPoP | WithDPoPRequired | WithMTLS | WithTLSCertTokenBinding | WithTLSCertTokenBindingRequired
  | WithTokenBindingRequired
  | WithTokenIntrospection | WithTokenRevocation | WithDCR | WithDCRTokenRotation
  | WithAuthenticationSessionTimeout (secs : Z)
  | WithResourceIndicators (r : string) (l : list string)
  | WithResourceIndicatorsRequired (r : string) (l : list string)
  | WithIssuerResponseParameter
  | WithPathPrefix (p : string)
  | WithTokenLifetime (secs : Z)       (* the lifetime the harness's TokenOptionsFunc answers *)
  | WithAuthorizationDetails (f : details_cmp) (t : string) (l : list string).   (* RFC 9396; f: the compare function installed *)

Definition base_config (p : profile) : config :=
  mkConfig p [] [] [] [] false 0%Z 300%Z IssueNever false 0%Z
           false false "" [] false false 0%Z false false false false false
           false 0%Z false false false false false false false false false
           false false false false false false false "" false [] false [] CmpNone.

(* appendIfNotIn: prepend the default unless present *)
Definition append_if_not_in (l : list string) (x : string) : list string := if mem x l then l else x :: l.

Definition apply_opt (o : opt) (c : config) : config :=
  match o with
  | WithAuthorizationCodeGrant => c <| cf_grants := (cf_grants c ++ [GAuthorizationCode])%list |>
  | WithImplicitGrant => c <| cf_grants := (cf_grants c ++ [GImplicit])%list |>
  | WithClientCredentialsGrant => c <| cf_grants := (cf_grants c ++ [GClientCredentials])%list |>
  | WithRefreshTokenGrant l =>
      c <| cf_grants := (cf_grants c ++ [GRefreshToken])%list |> <| cf_issue_refresh := IssueAlways |> <| cf_refresh_lifetime := l |>
  | WithRefreshTokenGrantPol f l =>
      c <| cf_grants := (cf_grants c ++ [GRefreshToken])%list |> <| cf_issue_refresh := f |> <| cf_refresh_lifetime := l |>
  | WithRefreshTokenRotation => c <| cf_refresh_rotation := true |>
  | WithJWTBearerGrant => c <| cf_grants := (cf_grants c ++ [GJwtBearer])%list |>
  | WithJWTBearerGrantClientAuthnRequired => c <| cf_jwt_bearer_authn_required := true |>
  | WithCIBAGrant =>
      c <| cf_ciba_enabled := true |> <| cf_grants := (cf_grants c ++ [GCiba])%list |> <| cf_ciba_lifetime := 60%Z |>
  | WithCIBALifetime s => c <| cf_ciba_lifetime := s |>
  | WithCIBAUserCode => c <| cf_ciba_user_code := true |>
  | WithCIBAJAR => c <| cf_ciba_jar_enabled := true |>
  | WithCIBAJARRequired => c <| cf_ciba_jar_required := true |> <| cf_ciba_jar_enabled := true |>
  | WithScopes l =>
      c <| cf_scopes := if existsb (fun s => seqb (sc_id s) "openid") l then l else (l ++ [ScExact "openid"])%list |>
  | WithOpenIDScopeRequired => c <| cf_openid_required := true |>
  | WithPAR l => c <| cf_par_enabled := true |> <| cf_par_lifetime := l |>
  | WithPARRequired l => c <| cf_par_required := true |> <| cf_par_enabled := true |> <| cf_par_lifetime := l |>
  | WithUnregisteredRedirectURIsForPAR => c <| cf_par_unregistered := true |>
  | WithJAR => c <| cf_jar_enabled := true |>
  | WithJARRequired => c <| cf_jar_required := true |> <| cf_jar_enabled := true |>
  | WithJARByReference => c <| cf_jar_by_reference := true |>
  | WithJARM => c <| cf_jarm_enabled := true |>
  | WithPKCE d ms =>
      c <| cf_pkce_enabled := true |> <| cf_pkce_default := d |> <| cf_pkce_methods := append_if_not_in ms d |>
  | WithPKCERequired d ms =>
      c <| cf_pkce_required := true |> <| cf_pkce_enabled := true |> <| cf_pkce_default := d |>
        <| cf_pkce_methods := append_if_not_in ms d |>
  | WithDPoP => c <| cf_dpop_enabled := true |>
  | WithDPoPRequired => c <| cf_dpop_required := true |> <| cf_dpop_enabled := true |>
  | WithMTLS => c <| cf_mtls_enabled := true |>
  | WithTLSCertTokenBinding => c <| cf_tls_binding_enabled := true |>
  | WithTLSCertTokenBindingRequired => c <| cf_tls_binding_required := true |> <| cf_tls_binding_enabled := true |>
  | WithTokenBindingRequired => c <| cf_binding_required := true |>
  | WithTokenIntrospection => c <| cf_introspection := true |>
  | WithTokenRevocation => c <| cf_revocation := true |>
  | WithDCR => c <| cf_dcr := true |>
  | WithDCRTokenRotation => c <| cf_dcr_rotation := true |>
  | WithAuthenticationSessionTimeout s => c <| cf_session_timeout := s |>
  | WithResourceIndicators r l => c <| cf_resource_enabled := true |> <| cf_resources := append_if_not_in l r |>
  | WithResourceIndicatorsRequired r l =>
      c <| cf_resource_required := true |> <| cf_resource_enabled := true |> <| cf_resources := append_if_not_in l r |>
  | WithIssuerResponseParameter => c <| cf_issuer_param := true |>
  | WithPathPrefix p => c <| cf_prefix := p |>
  | WithTokenLifetime s => c <| cf_token_lifetime := s |>
  | WithAuthorizationDetails f t l =>
      c <| cf_auth_details_enabled := true |> <| cf_details_cmp := f |> <| cf_auth_detail_types := append_if_not_in l t |>
  end.

(* Provider.setDefaults *)
Definition set_defaults (c : config) : config :=
  let c := c <| cf_scopes := match cf_scopes c with [] => [ScExact "openid"] | l => l end |> in
  let c := c <| cf_resp_modes := ["query"; "fragment"; "form_post"] |> in
  let c := c <| cf_session_timeout := if Z.eqb (cf_session_timeout c) 0 then 1800%Z else cf_session_timeout c |> in
  let code := has_grant GAuthorizationCode (cf_grants c) in
  let impl := has_grant GImplicit (cf_grants c) in
  let c := c <| cf_resp_types :=
      ((if code then ["code"] else []) ++
       (if impl then ["token"; "id_token"; "id_token token"] else []) ++
       (if andb code impl then ["code id_token"; "code token"; "code id_token token"] else []))%list |> in
  let c := if cf_jarm_enabled c
           then c <| cf_resp_modes := (cf_resp_modes c ++ ["jwt"; "query.jwt"; "fragment.jwt"; "form_post.jwt"])%list |>
           else c in
  c.

(* Provider.validate: validateTokenBinding *)
Definition valid_config (c : config) : bool :=
  negb (andb (cf_binding_required c) (andb (negb (cf_dpop_enabled c)) (negb (cf_tls_binding_enabled c)))).

Definition build (p : profile) (opts : list opt) : option config :=
  let c := set_defaults (fold_left (fun c o => apply_opt o c) opts (base_config p)) in
  if valid_config c then Some c else None.
