(* Authn.v — internal/clientutil/authn.go (+ util.go JWKByKeyID/JWKByAlg, oidc/context.go
   ClientAuthnSigAlgs / AssertionAudiences / ClientCert / CheckJTI, goidc.Client.FetchPublicJWKS),
   transcribed guard by guard, in the Go order, on the tree with the fix: commits applied
   (066a353: the introspection algorithm override is picked by the algorithm field;
    0995544: tls_client_auth matches a registered SAN IP address).

   Symbolic crypto: a key pair is a handle k; a JWS carries who produced its signature (the private
   half of k, an HMAC keyed with some bytes, or nothing); bcrypt, SHA-1/256 thumbprints and
   signatures are ideal.  Credentials are records of exactly the facts the code inspects. *)
From Verif Require Import Base Types.
Local Open Scope N_scope.

(* ---- vocabulary ---- *)
(* goidc.ClientAuthnType as registered on a client; MUnset = "", MUnknown = any other string *)
Inductive method := MUnset | MNone | MSecretBasic | MSecretPost | MSecretJWT | MPrivateKeyJWT
                  | MTLS | MSelfSignedTLS | MUnknown.
Definition method_is_unset (m : method) : bool := match m with MUnset => true | _ => false end.

(* clientutil.AuthnContext *)
Inductive actx := CtxToken | CtxIntrospection | CtxRevocation.

(* JWS "alg" header values *)
Inductive alg := ES256 | ES384 | RS256 | PS256 | HS256 | AlgNone.
Definition alg_ix (a : alg) : N :=
  match a with ES256 => 1 | ES384 => 2 | RS256 => 3 | PS256 => 4 | HS256 => 5 | AlgNone => 6 end.
Definition alg_eqb (a b : alg) : bool := N.eqb (alg_ix a) (alg_ix b).
Definition alg_in (a : alg) (l : list alg) : bool := existsb (alg_eqb a) l.
Definition is_hmac_alg (a : alg) : bool := match a with HS256 => true | _ => false end.

Inductive ktype := KtEC256 | KtEC384 | KtRSA.
(* go-jose: the verifier built from a public key accepts only the algorithms of its family (and curve) *)
Definition alg_fits (a : alg) (t : ktype) : bool :=
  match a, t with
  | ES256, KtEC256 | ES384, KtEC384 | RS256, KtRSA | PS256, KtRSA => true
  | _, _ => false end.

Definition keyh := N.     (* key pair handle *)
Definition secret := N.   (* secret string handle; 0 = the empty string *)
Definition certh := N.    (* certificate (DER bytes) handle *)

(* what an HMAC was keyed with *)
Inductive hbytes := BSecret (s : secret) | BPublicKey (k : keyh).
Definition hbytes_eqb (a b : hbytes) : bool :=
  match a, b with BSecret x, BSecret y => N.eqb x y | BPublicKey x, BPublicKey y => N.eqb x y | _, _ => false end.
(* who produced the signature of a JWS *)
Inductive signer := SPriv (k : keyh) | SHmac (b : hbytes) | SUnsigned.

(* a registered JWK *)
Record jwk := mkJwk {
  jk_kid : N;                (* "kid"; 0 = none *)
  jk_alg : option alg;       (* "alg" attribute *)
  jk_key : keyh;             (* the key material *)
  jk_kty : ktype;
  jk_public : bool;          (* IsPublic(): false when the client registered a private key *)
  jk_cert : certh            (* certificate whose SHA-256 / SHA-1 thumbprint the JWK carries; 0 = none *)
}.

Inductive jwks_src := JwksByValue (l : list jwk) | JwksByURI | JwksAbsent.

(* TLSSubAlternativeNameIp: "" / a string net.ParseIP refuses / an address *)
Inductive ipreg := IpUnset | IpUnparsable | IpAddr (a : N).

(* the authentication part of goidc.Client *)
Record aclient := mkAClient {
  ca_id : id;
  ca_method : method;            (* TokenAuthnMethod *)
  ca_intro_method : method;      (* TokenIntrospectionAuthnMethod *)
  ca_revoke_method : method;     (* TokenRevocationAuthnMethod *)
  ca_alg : option alg;           (* TokenAuthnSigAlg; None = "" *)
  ca_intro_alg : option alg;     (* TokenIntrospectionAuthnSigAlg *)
  ca_revoke_alg : option alg;    (* TokenRevocationAuthnSigAlg *)
  ca_hashed : option secret;     (* HashedSecret = bcrypt of that secret; None = not a bcrypt hash (e.g. "") *)
  ca_secret : secret;            (* Secret (plain, keys the HMAC of client_secret_jwt) *)
  ca_secret_long : bool;         (* len(Secret) >= 32: go-jose refuses shorter HS256 keys *)
  ca_jwks : jwks_src;            (* PublicJWKS / PublicJWKSURI *)
  ca_tls_dn : string;            (* TLSSubDistinguishedName *)
  ca_tls_dns : string;           (* TLSSubAlternativeName *)
  ca_tls_ip : ipreg              (* TLSSubAlternativeNameIp *)
}.

(* x509.Certificate, the members the code reads *)
Record cert := mkCert {
  ct_id : certh;                 (* Raw *)
  ct_key : keyh;                 (* PublicKey *)
  ct_dn : string;                (* Subject.String() *)
  ct_dns : list string;          (* DNSNames *)
  ct_ips : list N                (* IPAddresses *)
}.

(* values of the "aud" claim *)
Inductive audv := AudIssuer | AudTokenURL | AudRequestURL | AudMtlsTokenURL | AudMtlsRequestURL | AudOther.

(* a compact JWS presented as client_assertion *)
Record assertion := mkAssertion {
  as_signer : signer;
  as_alg : alg;
  as_kid : N;                    (* 0 = no kid header *)
  as_iss : option id;            (* None = claim missing or not a string *)
  as_sub : id;                   (* 0 = missing or "" *)
  as_aud : list audv;            (* [] = missing *)
  as_exp : option Z;             (* int(exp - now) in seconds *)
  as_nbf : option Z;
  as_iat : option Z;
  as_jti : bool                  (* present and not "" *)
}.
Inductive assertion_field := ANone | AGarbage | AJws (a : assertion).

(* the credential part of a request, plus the replies of what the code consults while authenticating *)
Record request := mkRequest {
  rq_form_id : id;                       (* client_id; 0 = absent *)
  rq_form_secret : secret;               (* client_secret; 0 = absent or empty *)
  rq_basic : option (id * secret);       (* Request.BasicAuth() when ok *)
  rq_assertion : assertion_field;        (* client_assertion *)
  rq_type_ok : bool;                     (* client_assertion_type == urn:...:jwt-bearer *)
  rq_cert : option cert;                 (* what the embedder's ClientCertFunc extracts *)
  rq_jti_ok : bool;                      (* the embedder's CheckJTIFunc accepts the jti *)
  rq_fetch : option (list jwk)           (* what GET jwks_uri answers (None = failure) *)
}.

(* the configuration members read *)
Record acfg := mkACfg {
  ag_pk_algs : list alg;         (* PrivateKeyJWTSigAlgs *)
  ag_sj_algs : list alg;         (* ClientSecretJWTSigAlgs *)
  ag_lifetime : Z;               (* JWTLifetimeSecs *)
  ag_leeway : Z;                 (* JWTLeewayTimeSecs *)
  ag_mtls : bool;                (* MTLSIsEnabled *)
  ag_cert_func : bool            (* ClientCertFunc != nil *)
}.

(* ---- extractID ---- *)
(* ctx.ClientAuthnSigAlgs *)
Definition client_authn_sig_algs (g : acfg) : list alg := (ag_pk_algs g ++ ag_sj_algs g)%list.

(* assertionClientID: ParseSigned with the allowed algorithms, then the unverified "iss" *)
Definition assertion_client_id (g : acfg) (a : assertion) : option id :=
  if negb (alg_in (as_alg a) (client_authn_sig_algs g)) then None else as_iss a.

Fixpoint all_equal (x : id) (l : list id) : bool :=
  match l with [] => true | y :: r => andb (ideq y x) (all_equal x r) end.

Inductive idres := IdNotIdentified | IdInvalid | IdOk (i : id).
Definition extract_id (g : acfg) (rq : request) : idres :=
  let ids1 := if is_nil (rq_form_id rq) then [] else [rq_form_id rq] in
  let ids2 := match rq_basic rq with
              | Some (i, _) => if is_nil i then ids1 else (ids1 ++ [i])%list
              | None => ids1 end in
  let after (ids : list id) :=
      match ids with
      | [] => IdNotIdentified
      | x :: r => if all_equal x r then IdOk x else IdInvalid
      end in
  match rq_assertion rq with
  | ANone => after ids2
  | AGarbage => IdInvalid
  | AJws a => match assertion_client_id g a with
              | None => IdInvalid
              | Some i => after (ids2 ++ [i])%list
              end
  end.

(* ---- method and algorithm selection ---- *)
Definition authn_method (c : aclient) (x : actx) : method :=
  match x with
  | CtxRevocation => if negb (method_is_unset (ca_revoke_method c)) then ca_revoke_method c else ca_method c
  | CtxIntrospection => if negb (method_is_unset (ca_intro_method c)) then ca_intro_method c else ca_method c
  | CtxToken => ca_method c
  end.

Definition authn_sig_algs (c : aclient) (x : actx) (defaults : list alg) : list alg :=
  match x, ca_alg c, ca_intro_alg c, ca_revoke_alg c with
  | CtxToken, Some a, _, _ => [a]
  | CtxIntrospection, _, Some a, _ => [a]
  | CtxRevocation, _, _, Some a => [a]
  | _, _, _, _ => defaults
  end.

(* ---- the methods ---- *)
(* validateSecret: bcrypt.CompareHashAndPassword(HashedSecret, secret) *)
Definition validate_secret (c : aclient) (s : secret) : bool :=
  match ca_hashed c with Some h => N.eqb h s | None => false end.

Definition authenticate_secret_post (c : aclient) (rq : request) : bool :=
  if negb (ideq (ca_id c) (rq_form_id rq)) then false else
  if is_nil (rq_form_secret rq) then false else
  validate_secret c (rq_form_secret rq).

Definition authenticate_secret_basic (c : aclient) (rq : request) : bool :=
  match rq_basic rq with
  | None => false
  | Some (i, s) => if negb (ideq (ca_id c) i) then false else validate_secret c s
  end.

(* assertion(): the type parameter first, then the assertion itself *)
Definition assertion_of (rq : request) : option assertion_field :=
  if negb (rq_type_ok rq) then None else
  match rq_assertion rq with ANone => None | f => Some f end.

(* ctx.AssertionAudiences: issuer, token URL, request URL, and the mTLS aliases of the latter two *)
Definition aud_accepted (g : acfg) (v : audv) : bool :=
  match v with
  | AudIssuer | AudTokenURL | AudRequestURL => true
  | AudMtlsTokenURL | AudMtlsRequestURL => ag_mtls g
  | AudOther => false
  end.

(* areClaimsValid *)
Definition are_claims_valid (g : acfg) (c : aclient) (rq : request) (a : assertion) : bool :=
  match as_exp a with
  | None => false
  | Some d =>
    if negb (as_jti a) then false else
    if negb (rq_jti_ok rq) then false else
    if Z.ltb (ag_lifetime g) d then false else
    (* jwt.Claims.ValidateWithLeeway *)
    if negb (orb (is_nil (ca_id c)) (match as_iss a with Some i => ideq i (ca_id c) | None => false end)) then false else
    if negb (orb (is_nil (ca_id c)) (ideq (as_sub a) (ca_id c))) then false else
    if negb (existsb (aud_accepted g) (as_aud a)) then false else
    if match as_nbf a with Some n => Z.ltb (ag_leeway g) n | None => false end then false else
    if Z.ltb (d + ag_leeway g) 0 then false else
    if match as_iat a with Some n => Z.ltb (ag_leeway g) n | None => false end then false else
    true
  end.

(* Client.FetchPublicJWKS: by value, else fetched from jwks_uri; (keys, was the URI fetched?) *)
Definition fetch_public_jwks (c : aclient) (rq : request) : option (list jwk) * bool :=
  match ca_jwks c with
  | JwksByValue l => (Some l, false)
  | JwksByURI => (rq_fetch rq, true)
  | JwksAbsent => (None, false)
  end.

(* JWKMatchingHeader: by kid when the header has one, else the first key whose alg attribute matches *)
Definition jwk_matching_header (keys : list jwk) (a : assertion) : option jwk :=
  if negb (N.eqb (as_kid a) 0) then find (fun j => N.eqb (jk_kid j) (as_kid a)) keys
  else find (fun j => match jk_alg j with Some x => alg_eqb x (as_alg a) | None => false end) keys.

(* go-jose Verify with a public key *)
Definition verifies_pub (j : jwk) (a : assertion) : bool :=
  match as_signer a with
  | SPriv k => andb (N.eqb k (jk_key j)) (alg_fits (as_alg a) (jk_kty j))
  | _ => false
  end.
(* go-jose Verify with []byte(client.Secret) *)
Definition verifies_hmac (c : aclient) (a : assertion) : bool :=
  match as_signer a with
  | SHmac b => andb (hbytes_eqb b (BSecret (ca_secret c))) (andb (is_hmac_alg (as_alg a)) (ca_secret_long c))
  | _ => false
  end.

(* each method answers (authenticated?, was jwks_uri fetched?) *)
Definition authenticate_private_key_jwt (g : acfg) (c : aclient) (x : actx) (rq : request) : bool * bool :=
  match assertion_of rq with
  | None | Some ANone | Some AGarbage => (false, false)
  | Some (AJws a) =>
    if negb (alg_in (as_alg a) (authn_sig_algs c x (ag_pk_algs g))) then (false, false) else
    let '(keys, fetched) := fetch_public_jwks c rq in
    match keys with
    | None => (false, fetched)
    | Some ks =>
      match jwk_matching_header ks a with
      | None => (false, fetched)
      | Some j =>
        if negb (jk_public j) then (false, fetched) else
        if negb (verifies_pub j a) then (false, fetched) else
        (are_claims_valid g c rq a, fetched)
      end
    end
  end.

Definition authenticate_secret_jwt (g : acfg) (c : aclient) (x : actx) (rq : request) : bool * bool :=
  match assertion_of rq with
  | None | Some ANone | Some AGarbage => (false, false)
  | Some (AJws a) =>
    if negb (alg_in (as_alg a) (authn_sig_algs c x (ag_sj_algs g))) then (false, false) else
    if negb (verifies_hmac c a) then (false, false) else
    (are_claims_valid g c rq a, false)
  end.

(* ctx.ClientCert *)
Definition client_cert (g : acfg) (rq : request) : option cert :=
  if ag_cert_func g then rq_cert rq else None.

Definition authenticate_self_signed_tls (g : acfg) (c : aclient) (rq : request) : bool * bool :=
  if negb (ideq (ca_id c) (rq_form_id rq)) then (false, false) else
  match client_cert g rq with
  | None => (false, false)
  | Some ct =>
    let '(keys, fetched) := fetch_public_jwks c rq in
    match keys with
    | None => (false, fetched)
    | Some ks =>
      (* jwkMatchingCert: the first JWK carrying the certificate's thumbprint *)
      match find (fun j => andb (negb (N.eqb (jk_cert j) 0)) (N.eqb (jk_cert j) (ct_id ct))) ks with
      | None => (false, fetched)
      | Some j => (N.eqb (jk_key j) (ct_key ct), fetched)      (* comparePublicKeys *)
      end
    end
  end.

Definition authenticate_tls (g : acfg) (c : aclient) (rq : request) : bool :=
  if negb (ideq (ca_id c) (rq_form_id rq)) then false else
  match client_cert g rq with
  | None => false
  | Some ct =>
    if negb (is_empty (ca_tls_dn c)) then seqb (ca_tls_dn c) (ct_dn ct)
    else if negb (is_empty (ca_tls_dns c)) then mem (ca_tls_dns c) (ct_dns ct)
    else match ca_tls_ip c with
         | IpUnset => false
         | IpUnparsable => false
         | IpAddr a => memN a (ct_ips ct)
         end
  end.

(* authenticate: dispatch on the method registered for (client, context) *)
Definition authenticate (g : acfg) (c : aclient) (x : actx) (rq : request) : bool * bool :=
  match authn_method c x with
  | MNone => (true, false)
  | MSecretPost => (authenticate_secret_post c rq, false)
  | MSecretBasic => (authenticate_secret_basic c rq, false)
  | MPrivateKeyJWT => authenticate_private_key_jwt g c x rq
  | MSecretJWT => authenticate_secret_jwt g c x rq
  | MSelfSignedTLS => authenticate_self_signed_tls g c rq
  | MTLS => (authenticate_tls g c rq, false)
  | MUnset | MUnknown => (false, false)
  end.

(* ctx.Client: static clients first, then the client storage; here one list in that order *)
Definition find_aclient (i : id) (l : list aclient) : option aclient := find (fun c => ideq (ca_id c) i) l.

Record authn_result := mkAuthnResult { ar_client : option aclient; ar_fetched : bool; ar_identified : bool }.

(* clientutil.Authenticated *)
Definition authenticated_full (g : acfg) (x : actx) (cls : list aclient) (rq : request) : authn_result :=
  match extract_id g rq with
  | IdNotIdentified => mkAuthnResult None false false
  | IdInvalid => mkAuthnResult None false true
  | IdOk i =>
    match find_aclient i cls with
    | None => mkAuthnResult None false true
    | Some c =>
      let '(ok, fetched) := authenticate g c x rq in
      mkAuthnResult (if ok then Some c else None) fetched true
    end
  end.

Definition authenticated (g : acfg) (x : actx) (cls : list aclient) (rq : request) : option aclient :=
  ar_client (authenticated_full g x cls rq).

(* ---- the nine entry points and the context each authenticates in ---- *)
Inductive entry := EpClientCredentials | EpAuthorizationCode | EpRefreshToken | EpCibaGrant | EpJwtBearer
                 | EpPar | EpBcAuthorize | EpIntrospect | EpRevoke.
Definition entry_ctx (e : entry) : actx :=
  match e with EpIntrospect => CtxIntrospection | EpRevoke => CtxRevocation | _ => CtxToken end.
