(* Required.v — what C11 adds to the handler models.

   1. `obtains`: does an answer hand out a code, token, id token, callback page (a live
      session), request_uri or auth_req_id?
   2. The request-object switches.  Authorize.v models requests WITHOUT request objects ("JAR is
      off").  For such requests the three decisions internal/authorize/jar.go shouldUseJAR,
      shouldUseJARDuringPAR and internal/authorize/ciba.go shouldUseJARDuringCIBA reduce to the
      gates below, and a request for which the gate is true is answered
      invalid_request "request object is required" (authnSessionWithJAR default branch,
      pushedAuthnSessionWithJAR, cibaAuthnSessionWithJAR).  The `_g` handlers put those gates in
      front of the handlers of Authorize.v at the place the Go code has them (after the client
      lookup / authentication; on /authorize after the PAR decision).  Validation and use of an
      actual request object is NOT modelled.  *)
From Verif Require Import Base Scope Types Prog Pop Token Authorize System Config.
Local Open Scope N_scope.

Definition obtains (o : out) : bool :=
  match o with
  | OTokens _ | OPar _ | OCiba _ _ | OPage _ => true
  | ONav _ _ nv => orb (negb (is_nil (n_code nv))) (orb (negb (is_nil (n_at nv))) (n_idt nv))
  | _ => false
  end.
Definition obs_obtains (x : obs) : bool :=
  match x with
  | Out o => obtains o
  | Notified _ ns => existsb (fun nf => negb (is_nil (nf_at nf))) ns
  end.

(* shouldUseJAR for a request without request object: the only "informed" JAR is a request_uri
   when JAR by reference is on *)
Definition jar_gate (cfg : config) (c : client) (p : params) : bool :=
  andb (cf_jar_enabled cfg)
       (orb (cf_jar_required cfg) (orb (c_jar_required c)
            (andb (cf_jar_by_reference cfg) (negb (is_nil (p_request_uri p)))))).
(* shouldUseJARDuringPAR *)
Definition jar_gate_par (cfg : config) (c : client) : bool :=
  andb (cf_jar_enabled cfg) (orb (cf_jar_required cfg) (c_jar_required c)).
(* shouldUseJARDuringCIBA (the harness's clients register no CIBAJARSigAlg) *)
Definition ciba_jar_gate (cfg : config) : bool :=
  andb (cf_ciba_jar_enabled cfg) (cf_ciba_jar_required cfg).

(* initAuth with authnSession's three-way decision: PAR, then JAR, then the plain request.
   The text is Authorize.init_auth with the JAR branch added (Proofs/C11Proofs.v:
   init_auth_g_off, it is init_auth when JAR is not enabled). *)
Definition init_auth_g (w : world) (n : nat) (now : Z) (r : areq) : prog out :=
  let cfg := w_cfg w in
  if is_nil (ar_client r) then Ret (OErr EInvalidClient) else
  bind (get_client w (ar_client r)) (fun oc =>
  match oc with
  | None => Ret (OErr EInvalidClient)
  | Some c =>
    if negb (orb (has_grant GAuthorizationCode (c_grants c)) (has_grant GImplicit (c_grants c)))
    then Ret (OErr EInvalidClient) else
    if should_use_par cfg (ar_params r) c then
      if is_nil (p_request_uri (ar_params r)) then Ret (OErr EInvalidRequest) else
      Do (AByPar (p_request_uri (ar_params r))) (fun rp =>
      match rp with
      | RASess s =>
        let verdict :=
          if negb (ideq (a_client s) (ar_client r)) then Some (ALocal EAccessDenied) else
          if geb now (a_expires s) then Some (ALocal EInvalidRequest) else
          validate_in_out cfg (a_params s) (ar_params r) (client_for_par cfg c (p_redirect (a_params s))) in
        match verdict with
        | Some e => Do (ADel (a_id s)) (fun rd => match rd with RFail => Ret (OErr EInternalError) | _ => Ret (render_aerr cfg c e) end)
        | None =>
          let s' := if is_fapi (cf_profile cfg) then s
                    else s <| a_params := merge_params (a_params s) (ar_params r) |> in
          bind (start_session w n now c s' r) (fun a => Ret (finish_ares cfg c a))
        end
      | _ => Ret (OErr EInvalidRequest)
      end)
    else if jar_gate cfg c (ar_params r) then Ret (OErr EInvalidRequest)   (* "request object is required" *)
    else
      match validate_params cfg (ar_params r) c with
      | Some e => Ret (render_aerr cfg c e)
      | None => bind (start_session w n now c (new_session n c (ar_params r <| p_request_uri := 0%N |>)) r)
                     (fun a => Ret (finish_ares cfg c a))
      end
  end).

Definition push_auth_g (w : world) (n : nat) (now : Z) (r : preq) : prog out :=
  let cfg := w_cfg w in
  if negb (cf_par_enabled cfg) then push_auth w n now r else
  bind (authenticated w (pr_cred r)) (fun oc =>
  match oc with
  | Some c => if jar_gate_par cfg c then Ret (OErr EInvalidRequest) else push_auth w n now r
  | None => push_auth w n now r
  end).

Definition init_back_auth_g (w : world) (n : nat) (now : Z) (r : breq) : prog out :=
  let cfg := w_cfg w in
  if negb (cf_ciba_enabled cfg) then init_back_auth w n now r else
  bind (authenticated w (br_cred r)) (fun oc =>
  match oc with
  | Some c => if ciba_jar_gate cfg then Ret (OErr EInvalidRequest) else init_back_auth w n now r
  | None => init_back_auth w n now r
  end).

Definition handler_g (w : world) (n : nat) (now : Z) (o : op) : prog obs :=
  let lift (p : prog out) := bind p (fun x => Ret (Out x)) in
  match o with
  | OpAuthorize r => lift (init_auth_g w n now r)
  | OpPar r => lift (push_auth_g w n now r)
  | OpBcAuthorize r => lift (init_back_auth_g w n now r)
  | _ => handler w n now o
  end.

Definition step_g (w : world) (st : state) (n : nat) (o : op) : state * obs :=
  match o with
  | OpTick d => (mkState (s_store st) (s_now st + d)%Z, Out OOk)
  | _ => let '(sto, x) := run_seq (handler_g w n (s_now st) o) (s_store st) in (mkState sto (s_now st), x)
  end.

Fixpoint run_from_g (w : world) (st : state) (n : nat) (ops : list op) : state * list obs :=
  match ops with
  | [] => (st, [])
  | o :: rest =>
      let '(st', x) := step_g w st n o in
      let '(st'', tr) := run_from_g w st' (S n) rest in
      (st'', x :: tr)
  end.
Definition run_g (w : world) (dyn : list client) (ops : list op) : list obs :=
  snd (run_from_g w (init_state dyn) 0%nat ops).
