(* Prog.v — handlers are programs over the three storage interfaces
   (goidc.ClientManager, AuthnSessionManager, GrantSessionManager); four
   interpreters give the execution models the properties need. *)
From Verif Require Import Base Scope Types.

Record store := mkStore {
  st_clients : list client;
  st_asess : list asession;
  st_gsess : list gsession
}.
#[export] Instance eta_store : Settable _ := settable! mkStore <st_clients; st_asess; st_gsess>.
Definition empty_store : store := mkStore [] [] [].

Inductive call :=
  | CGet (i : id) | CSave (c : client) | CDel (i : id)
  | ASave (s : asession) | AByCb (i : id) | AByCode (i : id) | AByPar (i : id) | AByCiba (i : id) | ADel (i : id)
  | GSave (g : gsession) | GByToken (i : id) | GByRefresh (i : id) | GDel (i : id) | GDelByCode (i : id).

Inductive reply := RClient (c : client) | RASess (s : asession) | RGSess (g : gsession)
                 | ROk | RNotFound | RFail.

(* an in-place write to an object the storage may still hold *)
Inductive obj := OA (s : asession) | OG (g : gsession) | OC (c : client).

Inductive prog (A : Type) : Type :=
  | Ret (a : A)
  | Do (c : call) (k : reply -> prog A)
  | Touch (o : obj) (p : prog A).
Arguments Ret {A} a.
Arguments Do {A} c k.
Arguments Touch {A} o p.

(* ---- the storage itself (atomic calls; lookups return the first match) ---- *)
Definition find_client (i : id) (l : list client) := find (fun c => ideq (c_id c) i) l.
Definition put_client (c : client) (l : list client) :=
  c :: filter (fun c' => negb (ideq (c_id c') (c_id c))) l.
Definition del_client (i : id) (l : list client) := filter (fun c' => negb (ideq (c_id c') i)) l.

Definition put_asess (s : asession) (l : list asession) :=
  s :: filter (fun s' => negb (ideq (a_id s') (a_id s))) l.
Definition del_asess (i : id) (l : list asession) := filter (fun s' => negb (ideq (a_id s') i)) l.
Definition put_gsess (g : gsession) (l : list gsession) :=
  g :: filter (fun g' => negb (ideq (g_id g') (g_id g))) l.
Definition del_gsess (i : id) (l : list gsession) := filter (fun g' => negb (ideq (g_id g') i)) l.

Definition reply_a (o : option asession) : reply := match o with Some s => RASess s | None => RNotFound end.
Definition reply_g (o : option gsession) : reply := match o with Some s => RGSess s | None => RNotFound end.

Definition exec (c : call) (st : store) : store * reply :=
  match c with
  | CGet i => (st, match find_client i (st_clients st) with Some c => RClient c | None => RNotFound end)
  | CSave c => (st <| st_clients := put_client c (st_clients st) |>, ROk)
  | CDel i => (st <| st_clients := del_client i (st_clients st) |>, ROk)
  | ASave s => (st <| st_asess := put_asess s (st_asess st) |>, ROk)
  | AByCb i => (st, reply_a (find (fun s => ideq (a_cb s) i) (st_asess st)))
  | AByCode i => (st, reply_a (find (fun s => ideq (a_code s) i) (st_asess st)))
  | AByPar i => (st, reply_a (find (fun s => ideq (a_par s) i) (st_asess st)))
  | AByCiba i => (st, reply_a (find (fun s => ideq (a_ciba s) i) (st_asess st)))
  | ADel i => (st <| st_asess := del_asess i (st_asess st) |>, ROk)
  | GSave g => (st <| st_gsess := put_gsess g (st_gsess st) |>, ROk)
  | GByToken i => (st, reply_g (find (fun g => ideq (g_token g) i) (st_gsess st)))
  | GByRefresh i => (st, reply_g (find (fun g => ideq (g_refresh g) i) (st_gsess st)))
  | GDel i => (st <| st_gsess := del_gsess i (st_gsess st) |>, ROk)
  | GDelByCode i =>
      match find (fun g => ideq (g_code g) i) (st_gsess st) with
      | Some g => (st <| st_gsess := del_gsess (g_id g) (st_gsess st) |>, ROk)
      | None => (st, ROk)
      end
  end.

(* call kinds, for logs and fault plans *)
Inductive ckind := KCGet | KCSave | KCDel | KASave | KAGet | KADel | KGSave | KGGet | KGDel | KGDelByCode.
Definition call_kind (c : call) : ckind :=
  match c with
  | CGet _ => KCGet | CSave _ => KCSave | CDel _ => KCDel
  | ASave _ => KASave | AByCb _ | AByCode _ | AByPar _ | AByCiba _ => KAGet | ADel _ => KADel
  | GSave _ => KGSave | GByToken _ | GByRefresh _ => KGGet | GDel _ => KGDel | GDelByCode _ => KGDelByCode
  end.
Definition ckind_ix (k : ckind) : N :=
  match k with KCGet => 0 | KCSave => 1 | KCDel => 2 | KASave => 3 | KAGet => 4 | KADel => 5
  | KGSave => 6 | KGGet => 7 | KGDel => 8 | KGDelByCode => 9 end%N.
Definition is_read (c : call) : bool :=
  match call_kind c with KCGet | KAGet | KGGet => true | _ => false end.

(* ---- 1. sequential, copying store: Touch is local ---- *)
Fixpoint run_seq {A} (p : prog A) (st : store) : store * A :=
  match p with
  | Ret a => (st, a)
  | Do c k => let '(st', r) := exec c st in run_seq (k r) st'
  | Touch _ p' => run_seq p' st
  end.

(* the same, also returning the sequence of storage calls performed *)
Fixpoint run_log {A} (p : prog A) (st : store) (log : list ckind) : store * A * list ckind :=
  match p with
  | Ret a => (st, a, rev log)
  | Do c k => let '(st', r) := exec c st in run_log (k r) st' (call_kind c :: log)
  | Touch _ p' => run_log p' st log
  end.

(* ---- 2. aliasing store: the storage holds the very object; Touch rewrites
        the stored entry with the same id, if there is one ---- *)
Definition touch (o : obj) (st : store) : store :=
  match o with
  | OA s => if existsb (fun s' => ideq (a_id s') (a_id s)) (st_asess st)
            then st <| st_asess := map (fun s' => if ideq (a_id s') (a_id s) then s else s') (st_asess st) |>
            else st
  | OG g => if existsb (fun g' => ideq (g_id g') (g_id g)) (st_gsess st)
            then st <| st_gsess := map (fun g' => if ideq (g_id g') (g_id g) then g else g') (st_gsess st) |>
            else st
  | OC c => if existsb (fun c' => ideq (c_id c') (c_id c)) (st_clients st)
            then st <| st_clients := map (fun c' => if ideq (c_id c') (c_id c) then c else c') (st_clients st) |>
            else st
  end.
Fixpoint run_alias {A} (p : prog A) (st : store) : store * A :=
  match p with
  | Ret a => (st, a)
  | Do c k => let '(st', r) := exec c st in run_alias (k r) st'
  | Touch o p' => run_alias p' (touch o st)
  end.

(* ---- 3. faults: the n-th storage call (0-based) of the request may fail ---- *)
Inductive fault := FNone | FErr | FMiss.     (* error return / not-found on a read *)
Definition exec_fault (f : fault) (c : call) (st : store) : store * reply :=
  match f with
  | FNone => exec c st
  | FErr => (st, RFail)
  | FMiss => if is_read c then (st, RNotFound) else exec c st
  end.
Fixpoint run_fault {A} (plan : nat -> fault) (n : nat) (p : prog A) (st : store) : store * A * nat :=
  match p with
  | Ret a => (st, a, n)
  | Do c k => let '(st', r) := exec_fault (plan n) c st in run_fault plan (S n) (k r) st'
  | Touch _ p' => run_fault plan n p' st
  end.
(* crash: perform the first k calls, then stop; no response is produced *)
Fixpoint run_prefix {A} (k : nat) (p : prog A) (st : store) : store * option A :=
  match p with
  | Ret a => (st, Some a)
  | Do c kont => match k with
                 | O => (st, None)
                 | S k' => let '(st', r) := exec c st in run_prefix k' (kont r) st'
                 end
  | Touch _ p' => run_prefix k p' st
  end.

(* ---- 4. interleaving: several requests in flight, the schedule picks who
        performs its next storage call ---- *)
Fixpoint nth_upd {A} (l : list A) (i : nat) (x : A) : list A :=
  match l, i with [], _ => [] | _ :: t, O => x :: t | h :: t, S j => h :: nth_upd t j x end.
Fixpoint skip_touch {A} (fuel : nat) (p : prog A) : prog A :=
  match fuel with O => p | S f => match p with Touch _ p' => skip_touch f p' | _ => p end end.
Fixpoint run_il {A} (sched : list nat) (ps : list (prog A)) (st : store) : store * list (prog A) :=
  match sched with
  | [] => (st, ps)
  | i :: rest =>
      match nth_error ps i with
      | Some p => match skip_touch 64 p with
                  | Do c k => let '(st', r) := exec c st in run_il rest (nth_upd ps i (k r)) st'
                  | _ => run_il rest ps st
                  end
      | None => run_il rest ps st
      end
  end.
Definition finished {A} (p : prog A) : option A :=
  match skip_touch 64 p with Ret a => Some a | _ => None end.

(* number of storage calls a program makes when run alone from st *)
Fixpoint count_calls {A} (p : prog A) (st : store) : nat :=
  match p with
  | Ret _ => 0
  | Do c k => let '(st', r) := exec c st in S (count_calls (k r) st')
  | Touch _ p' => count_calls p' st
  end.

(* bind, for composing sub-handlers *)
Fixpoint bind {A B} (p : prog A) (f : A -> prog B) : prog B :=
  match p with
  | Ret a => f a
  | Do c k => Do c (fun r => bind (k r) f)
  | Touch o p' => Touch o (bind p' f)
  end.
