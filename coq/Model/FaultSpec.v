(* FaultSpec.v — the vocabulary of the C14 statements (definitions only): which answers are
   negative, which artifacts an answer carries, what it means for an artifact to be backed by
   the store.  Used by Props/C14.v and by the monitor of Corr/C14.v. *)
From Verif Require Import Base Scope Types Prog Pop Token Authorize System FaultLog DcrFault.
Local Open Scope N_scope.
Local Open Scope list_scope.

(* ---- negative answers ---- *)
Definition neg_out (o : out) : bool :=
  match o with
  | OErr _ => true
  | OIntro i => negb (in_active i)
  | ONav _ _ nv => match n_err nv with
                   | Some _ => andb (is_nil (n_code nv)) (is_nil (n_at nv))     (* error redirect, no artifact *)
                   | None => false end
  | _ => false
  end.
Definition negative (x : obs) : bool :=
  match x with
  | Out o => neg_out o
  | Notified ok ns => andb (negb ok) (match ns with [] => true | _ => false end)
  end.
Definition neg_dcr (o : dfout) : bool := match o with DfErr => true | _ => false end.

(* ---- artifacts ---- *)
Definition nz (i : id) : list id := if is_nil i then [] else [i].
(* (access token, refresh token) pairs *)
Definition out_tokens (o : out) : list (id * id) :=
  match o with
  | OTokens t => [(tr_at t, tr_rt t)]
  | ONav _ _ nv => if is_nil (n_at nv) then [] else [(n_at nv, 0)]
  | _ => []
  end.
Definition obs_tokens (x : obs) : list (id * id) :=
  match x with
  | Out o => out_tokens o
  | Notified _ ns => flat_map (fun nf => if is_nil (nf_at nf) then [] else [(nf_at nf, nf_rt nf)]) ns
  end.
Definition out_codes (o : out) : list id := match o with ONav _ _ nv => nz (n_code nv) | _ => [] end.
Definition out_request_uris (o : out) : list id := match o with OPar u => [u] | _ => [] end.
Definition out_auth_req_ids (o : out) : list id := match o with OCiba a _ => [a] | _ => [] end.
Definition out_callbacks (o : out) : list id := match o with OPage cb => [cb] | _ => [] end.
Definition lift_out {A} (f : out -> list A) (x : obs) : list A := match x with Out o => f o | _ => [] end.

(* ---- backing state ---- *)
(* the grant a token response speaks of: its token id is the one minted together with the
   access token value, and the refresh token (if one is returned) is the grant's *)
Definition tokens_backed (n : nat) (st : store) (p : id * id) : Prop :=
  exists g c gt, In g (st_gsess st) /\ make_token n c gt = (fst p, g_token g) /\
                 (snd p = 0 \/ g_refresh g = snd p).
Definition code_backed (st : store) (c : id) : Prop := exists s, In s (st_asess st) /\ a_code s = c.
Definition request_uri_backed (st : store) (u : id) : Prop := exists s, In s (st_asess st) /\ a_par s = u.
Definition auth_req_id_backed (st : store) (a : id) : Prop := exists s, In s (st_asess st) /\ a_ciba s = a.
Definition callback_backed (st : store) (cb : id) : Prop := exists s, In s (st_asess st) /\ a_cb s = cb.

Definition all_backed (n : nat) (st : store) (x : obs) : Prop :=
  (forall p, In p (obs_tokens x) -> tokens_backed n st p) /\
  (forall c, In c (lift_out out_codes x) -> code_backed st c) /\
  (forall u, In u (lift_out out_request_uris x) -> request_uri_backed st u) /\
  (forall a, In a (lift_out out_auth_req_ids x) -> auth_req_id_backed st a) /\
  (forall cb, In cb (lift_out out_callbacks x) -> callback_backed st cb).

(* the discipline ctx.SaveAuthnSession enforces on every stored session (an invariant of every
   history, also under faults and crashes) *)
Definition one_index_store (st : store) : Prop := forall s, In s (st_asess st) -> n_indexes s = 1%nat.

(* ---- the log of a faulty run ---- *)
Definition is_gget (c : call) : bool := match call_kind c with KGGet => true | _ => false end.
Definition is_gdel (c : call) : bool := match c with GDel _ => true | _ => false end.
Definition is_cdel (c : call) : bool := match c with CDel _ => true | _ => false end.
Definition ev_failed (e : fev) : bool := fault_effective (fe_fault e) (fe_call e).
(* every effective fault of the run hit a grant lookup *)
Definition only_gget_faults (l : list fev) : bool :=
  forallb (fun e => orb (negb (ev_failed e)) (is_gget (fe_call e))) l.

(* ---- crash invariant: no grant whose originating code still indexes a session ---- *)
Definition no_code_twice (st : store) : Prop :=
  forall g s, In g (st_gsess st) -> In s (st_asess st) -> g_code g = a_code s -> a_code s = 0.
(* authorization codes recorded in grants are empty or were minted before operation n *)
Definition gcodes_old (n : nat) (st : store) : Prop :=
  forall g, In g (st_gsess st) -> g_code g = 0 \/ exists j, (j < n)%nat /\ g_code g = mint j KCode.

(* ---- the storage-call sequence of each flow (DESIGN.md Appendix A), as a regular expression
   over call kinds; a run under faults performs a prefix of a word of its flow ---- *)
Definition ckind_eqb (a b : ckind) : bool := N.eqb (ckind_ix a) (ckind_ix b).
Inductive re := Eps | Ch (k : ckind) | Seq (a b : re) | Alt (a b : re) | Opt (a : re)
  | Cut (a : re).      (* any prefix of a word of a (a sub-flow that may stop early and hand over) *)
(* a word of r, then kd; or a prefix of a word of r, then ks *)
Fixpoint mcut (r : re) (l : list ckind) (kd ks : list ckind -> bool) : bool :=
  match r with
  | Eps => kd l
  | Ch c => orb (ks l) (match l with x :: t => if ckind_eqb x c then kd t else false | [] => false end)
  | Seq a b => mcut a l (fun l' => mcut b l' kd ks) ks
  | Alt a b => orb (mcut a l kd ks) (mcut b l kd ks)
  | Opt a => orb (kd l) (mcut a l kd ks)
  | Cut a => mcut a l kd (fun l' => orb (ks l') (kd l'))
  end.
(* l is a prefix of a word of r followed by something k accepts; running out of input is accepted *)
Fixpoint pre (r : re) (l : list ckind) (k : list ckind -> bool) : bool :=
  match r with
  | Eps => k l
  | Ch c => match l with [] => true | x :: t => if ckind_eqb x c then k t else false end
  | Seq a b => pre a l (fun l' => pre b l' k)
  | Alt a b => orb (pre a l k) (pre b l k)
  | Opt a => orb (k l) (pre a l k)
  | Cut a => mcut a l k k
  end.
Definition is_prefix_of (r : re) (l : list ckind) : bool :=
  pre r l (fun l' => match l' with [] => true | _ => false end).

Fixpoint seqs (l : list re) : re := match l with [] => Eps | [a] => a | a :: t => Seq a (seqs t) end.
Fixpoint alts (l : list re) : re := match l with [] => Eps | [a] => a | a :: t => Alt a (alts t) end.

Definition cg : re := Opt (Ch KCGet).           (* ctx.Client: no storage call for a static client *)
(* the three tails of authenticate: in progress (ASave), failure (ADel), success (client lookup,
   then ASave of the code or ADel, then the implicit grant) *)
Definition re_tail : re :=
  alts [Ch KASave; Ch KADel; seqs [cg; Alt (Ch KASave) (Ch KADel); Opt (Ch KGSave)]].
Definition flow_re (o : op) : re :=
  match o with
  | OpToken GAuthorizationCode _ => seqs [cg; Ch KAGet; Alt (Ch KGDelByCode) (Seq (Ch KADel) (Ch KGSave))]
  | OpToken GRefreshToken _ => seqs [cg; Ch KGGet; Alt (Ch KGDel) (Ch KGSave)]
  | OpToken GClientCredentials _ | OpToken GJwtBearer _ => seqs [cg; Ch KGSave]
  | OpToken GCiba _ => seqs [cg; Ch KAGet; Ch KADel; Ch KGSave]
  | OpToken _ _ => Eps
  | OpIntrospect _ => seqs [cg; Ch KGGet]
  | OpRevoke _ => seqs [cg; Ch KGGet; Ch KGDel]
  | OpUserInfo _ => seqs [Ch KGGet; Ch KCGet]
  | OpTokenInfo _ | OpTokenInfoReq _ => Ch KGGet
  | OpPar _ | OpBcAuthorize _ => seqs [cg; Ch KASave]
  | OpAuthorize _ => seqs [cg; Opt (Ch KAGet); re_tail]
  (* a redirectable failure makes the callback endpoint load the client, and drop the session if
     the client is gone *)
  | OpCallback _ => seqs [Ch KAGet; Cut re_tail; cg; Opt (Ch KADel)]
  | OpNotifyOk _ _ => seqs [Ch KAGet; cg; Ch KADel; Ch KGSave]
  | OpNotifyFail _ => seqs [Ch KAGet; cg; Ch KADel]
  | OpTick _ => Eps
  end.
Definition dcr_flow_re (o : dfop) : re :=
  match o with
  | DfCreate _ => Ch KCSave
  | DfUpdate _ => seqs [cg; Ch KCSave]
  | DfRead _ => cg
  | DfDelete _ => seqs [cg; Ch KCDel]
  end.

(* every GSave of a run that consumes a one-time credential (authorization_code and CIBA grants,
   CIBA push notification) comes immediately after a successful ADel of the id of a session that
   a lookup of the same run returned *)
Definition rok_reply (r : reply) : bool := match r with RFail => false | _ => true end.
Fixpoint consume_then_issue (seen : list asession) (prev : option id) (tr : list (call * reply)) : bool :=
  match tr with
  | [] => true
  | (c, r) :: t =>
      let ok := match c with
                | GSave g => match prev with
                             | Some i => existsb (fun s => ideq (a_id s) i) seen
                             | None => false end
                | _ => true end in
      let seen' := match r with RASess s => s :: seen | _ => seen end in
      let prev' := match c with ADel i => if rok_reply r then Some i else None | _ => None end in
      andb ok (consume_then_issue seen' prev' t)
  end.
(* ... and, for the authorization code grant, the grant records the code of that very session *)
Fixpoint code_recorded (seen : list asession) (tr : list (call * reply)) : bool :=
  match tr with
  | [] => true
  | (c, r) :: t =>
      let ok := match c with
                | GSave g => existsb (fun s => ideq (a_code s) (g_code g)) seen
                | _ => true end in
      andb ok (code_recorded (match r with RASess s => s :: seen | _ => seen end) t)
  end.

(* ---- histories with crashes: (o, Some k) = the process stops after k storage calls of o (no
   response, clock unchanged), a restarted instance then serves the rest over the same store ---- *)
Definition crash_step (w : world) (st : state) (n : nat) (oc : op * option nat) : state :=
  match oc with
  | (OpTick d, _) => mkState (s_store st) (s_now st + d)%Z
  | (o, None) => fst (step w st n o)
  | (o, Some k) => mkState (fst (run_prefix k (handler w n (s_now st) o) (s_store st))) (s_now st)
  end.
Fixpoint run_crashy (w : world) (st : state) (n : nat) (ops : list (op * option nat)) : state :=
  match ops with
  | [] => st
  | oc :: rest => run_crashy w (crash_step w st n oc) (S n) rest
  end.

(* ---- histories in which every request runs under its own fault plan and may, in addition, be cut
   short after k storage calls ---- *)
Definition faulty_step (w : world) (st : state) (n : nat) (x : op * list (nat * fault) * option nat) : state :=
  match x with
  | (OpTick d, _, _) => mkState (s_store st) (s_now st + d)%Z
  | (o, plan, None) =>
      mkState (fst (fst (run_fault (plan_of plan) 0 (handler w n (s_now st) o) (s_store st)))) (s_now st)
  | (o, plan, Some k) =>
      mkState (fst (fst (run_fault_prefix_log (plan_of plan) 0 k (handler w n (s_now st) o) (s_store st)))) (s_now st)
  end.
Fixpoint run_faulty (w : world) (st : state) (n : nat) (ops : list (op * list (nat * fault) * option nat)) : state :=
  match ops with
  | [] => st
  | x :: rest => run_faulty w (faulty_step w st n x) (S n) rest
  end.
