(* FaultSpec.v — the vocabulary of the C14 statements (definitions only): which answers are
   negative, which artifacts an answer carries, what it means for an artifact to be backed by
   the store.  Used by Props/C14.v and by the monitor of Corr/C14.v. *)
From Verif Require Import Base Scope Types Prog Pop Token Authorize System FaultLog DcrFault.
Local Open Scope N_scope.
Local Open Scope list_scope.

(* ---- negative answers ---- *)
Definition neg_out (o : out) : bool :=
  match o with
  | OErr _ => true
  | OIntro i => negb (in_active i)
  | ONav _ _ nv => match n_err nv with
                   | Some _ => andb (is_nil (n_code nv)) (is_nil (n_at nv))     (* error redirect, no artifact *)
                   | None => false end
  | _ => false
  end.
Definition negative (x : obs) : bool :=
  match x with
  | Out o => neg_out o
  | Notified ok ns => andb (negb ok) (match ns with [] => true | _ => false end)
  end.
Definition neg_dcr (o : dfout) : bool := match o with DfErr => true | _ => false end.

(* ---- artifacts ---- *)
Definition nz (i : id) : list id := if is_nil i then [] else [i].
(* (access token, refresh token) pairs *)
Definition out_tokens (o : out) : list (id * id) :=
  match o with
  | OTokens t => [(tr_at t, tr_rt t)]
  | ONav _ _ nv => if is_nil (n_at nv) then [] else [(n_at nv, 0)]
  | _ => []
  end.
Definition obs_tokens (x : obs) : list (id * id) :=
  match x with
  | Out o => out_tokens o
  | Notified _ ns => flat_map (fun nf => if is_nil (nf_at nf) then [] else [(nf_at nf, nf_rt nf)]) ns
  end.
Definition out_codes (o : out) : list id := match o with ONav _ _ nv => nz (n_code nv) | _ => [] end.
Definition out_request_uris (o : out) : list id := match o with OPar u => [u] | _ => [] end.
Definition out_auth_req_ids (o : out) : list id := match o with OCiba a _ => [a] | _ => [] end.
Definition out_callbacks (o : out) : list id := match o with OPage cb => [cb] | _ => [] end.
Definition lift_out {A} (f : out -> list A) (x : obs) : list A := match x with Out o => f o | _ => [] end.

(* ---- backing state ---- *)
(* the grant a token response speaks of: its token id is the one minted together with the
   access token value, and the refresh token (if one is returned) is the grant's *)
Definition tokens_backed (n : nat) (st : store) (p : id * id) : Prop :=
  exists g c gt, In g (st_gsess st) /\ make_token n c gt = (fst p, g_token g) /\
                 (snd p = 0 \/ g_refresh g = snd p).
Definition code_backed (st : store) (c : id) : Prop := exists s, In s (st_asess st) /\ a_code s = c.
Definition request_uri_backed (st : store) (u : id) : Prop := exists s, In s (st_asess st) /\ a_par s = u.
Definition auth_req_id_backed (st : store) (a : id) : Prop := exists s, In s (st_asess st) /\ a_ciba s = a.
Definition callback_backed (st : store) (cb : id) : Prop := exists s, In s (st_asess st) /\ a_cb s = cb.

Definition all_backed (n : nat) (st : store) (x : obs) : Prop :=
  (forall p, In p (obs_tokens x) -> tokens_backed n st p) /\
  (forall c, In c (lift_out out_codes x) -> code_backed st c) /\
  (forall u, In u (lift_out out_request_uris x) -> request_uri_backed st u) /\
  (forall a, In a (lift_out out_auth_req_ids x) -> auth_req_id_backed st a) /\
  (forall cb, In cb (lift_out out_callbacks x) -> callback_backed st cb).

(* the discipline ctx.SaveAuthnSession enforces on every stored session (an invariant of every
   history, also under faults and crashes) *)
Definition one_index_store (st : store) : Prop := forall s, In s (st_asess st) -> n_indexes s = 1%nat.

(* ---- the log of a faulty run ---- *)
Definition is_gget (c : call) : bool := match call_kind c with KGGet => true | _ => false end.
Definition is_gdel (c : call) : bool := match c with GDel _ => true | _ => false end.
Definition is_cdel (c : call) : bool := match c with CDel _ => true | _ => false end.
Definition ev_failed (e : fev) : bool := fault_effective (fe_fault e) (fe_call e).
(* every effective fault of the run hit a grant lookup *)
Definition only_gget_faults (l : list fev) : bool :=
  forallb (fun e => orb (negb (ev_failed e)) (is_gget (fe_call e))) l.

(* ---- crash invariant: no grant whose originating code still indexes a session ---- *)
Definition no_code_twice (st : store) : Prop :=
  forall g s, In g (st_gsess st) -> In s (st_asess st) -> g_code g = a_code s -> a_code s = 0.
