(* Jar.v — request objects (JAR) at /authorize, /par and /bc-authorize, transcribed from
   internal/authorize/jar.go, ciba.go (cibaJARFromRequestObject, validateCIBAJARClaims),
   validation.go (validateRequestWithJAR, validatePushedRequestWithJAR,
   validateRequestURIAsOptional), authorize.go (authnSession, authnSessionWithJAR),
   par.go (pushedAuthnSessionWithJAR) and clientutil (JWKMatchingHeader, JWKByKeyID, JWKByAlg)
   of the tree with the fix: commits (incl. f7a4806: the unsigned branch needs 'none').

   A request object is a record of the facts the code inspects.  go-jose is ideal: a
   signature verifies under a public key iff it was made by its private half over this very
   payload; a JWE decrypts iff it was made for a server encryption key with enabled
   algorithms.  Times inside the object are offsets from the instant of the request. *)
From Verif Require Import Base Scope Types Prog Pop Token Authorize.
Local Open Scope N_scope.

(* ---- algorithms, keys ---- *)
Inductive sigalg := AES256 | AES384 | ARS256 | APS256 | ANone.
Definition alg_eqb (a b : sigalg) : bool :=
  match a, b with
  | AES256, AES256 | AES384, AES384 | ARS256, ARS256 | APS256, APS256 | ANone, ANone => true
  | _, _ => false end.
Definition mem_alg (a : sigalg) (l : list sigalg) : bool := existsb (alg_eqb a) l.

(* an entry of the client's JWKS: kid (0 = none), the "alg" member, the key (handle of the pair) *)
Record jwk := mkJwk { jk_kid : id; jk_alg : sigalg; jk_key : id }.

(* what the JAR code reads from the configuration and from the client beyond Types.config/client *)
Record jcfg := mkJCfg {
  jw_algs : list sigalg;        (* JARSigAlgs *)
  jw_enc : bool;                (* JAREncIsEnabled *)
  jw_ciba_algs : list sigalg;   (* CIBAJARSigAlgs *)
  jw_leeway : Z                 (* JWTLeewayTimeSecs *)
}.
Record jclient := mkJClient {
  jc_keys : list jwk;                 (* PublicJWKS, in order *)
  jc_jar_alg : option sigalg;         (* JARSigAlg ("request_object_signing_alg") *)
  jc_ciba_alg : option sigalg         (* CIBAJARSigAlg *)
}.
Definition no_jclient : jclient := mkJClient [] None None.

Record jworld := mkJWorld { jx_cfg : jcfg; jx_clients : list (id * jclient) }.
Fixpoint jclient_of (l : list (id * jclient)) (i : id) : jclient :=
  match l with [] => no_jclient | (k, v) :: r => if ideq k i then v else jclient_of r i end.

(* ---- the "aud" claim ----
   The values an audience member can take, as far as this deployment tells them apart: the issuer
   itself (ctx.Host) and the near-misses a confused or hostile client could name instead - the other
   endpoints of the same server, the very URL being requested, the mTLS aliases, the issuer written
   differently - and values that have nothing to do with the server.  validateClaims and
   validateCIBAJARClaims expect AnyAudience = [ctx.Host]: go-jose compares STRINGS, so only the
   issuer itself counts; the claim is a list (a single string is a one-element list, an absent
   claim the empty list) and one matching member suffices. *)
Inductive audience :=
  | AudIssuer          (* the issuer identifier of this server, byte for byte *)
  | AudIssuerSlash     (* the issuer with a trailing slash *)
  | AudIssuerCase      (* the issuer in another letter case *)
  | AudToken           (* the token endpoint URL (what a private_key_jwt client assertion carries) *)
  | AudAuthorize       (* the authorization endpoint URL *)
  | AudPar             (* the pushed authorization endpoint URL *)
  | AudBc              (* the backchannel authentication endpoint URL *)
  | AudRequestURL      (* the URL of the very request that delivers the object *)
  | AudMtlsIssuer      (* the mTLS host *)
  | AudMtlsToken       (* the token endpoint under the mTLS host *)
  | AudMtlsRequestURL  (* the requested URL under the mTLS host *)
  | AudClient          (* the client's own identifier *)
  | AudForeign.        (* any other value *)
Definition aud_is_issuer (a : audience) : bool := match a with AudIssuer => true | _ => false end.
Definition auds := list audience.
(* Audience.Contains(ctx.Host) *)
Definition aud_has_issuer (l : auds) : bool := existsb aud_is_issuer l.
(* a boolean where an audience list is expected: [issuer] / [a foreign value] (older files) *)
Definition auds_of_bool (b : bool) : auds := if b then [AudIssuer] else [AudForeign].
Coercion auds_of_bool : bool >-> auds.

(* ---- the request object ---- *)
Inductive enc_layer := EncNone | EncOk | EncBad.   (* no JWE layer / decrypts / JWE that does not decrypt *)
Inductive sig :=
  | SigEmpty                  (* empty third segment *)
  | SigBy (k : id)            (* a valid signature by private key k over this payload, under the header's alg *)
  | SigInvalid.               (* some other bytes: payload edited under an old signature, garbage *)

Record req_object := mkRO {
  ro_enc : enc_layer;
  ro_sig : sig;
  ro_alg : sigalg;             (* "alg" header *)
  ro_kid : id;                 (* "kid" header, 0 = absent *)
  ro_iss : id;                 (* "iss": the client it names, 0 = absent / not a client *)
  ro_aud : auds;               (* "aud": its members, [] = absent *)
  ro_exp : option Z;           (* exp - now *)
  ro_nbf : option Z;           (* nbf - now *)
  ro_iat : option Z;           (* iat - now *)
  ro_jti : bool;               (* "jti" present (the harness never repeats one; CheckJTIFunc is not set) *)
  ro_client_id : id;           (* "client_id" claim *)
  ro_nested_req : bool;        (* a "request" claim *)
  ro_nested_uri : bool;        (* a "request_uri" claim (an https URL) *)
  ro_params : params           (* the authorization parameters it carries *)
}.

(* "aud" contains the issuer of this server *)
Definition ro_aud_ok (o : req_object) : bool := aud_has_issuer (ro_aud o).

(* the `request` value parsed from the claims *)
Record jar_req := mkJarReq { jr_client : id; jr_nested_req : bool; jr_nested_uri : bool; jr_params : params }.
Definition contents (o : req_object) : jar_req :=
  mkJarReq (ro_client_id o) (ro_nested_req o) (ro_nested_uri o) (ro_params o <| p_request_uri := 0 |>).

(* jarAlgorithms / cibaJARAlgorithms: the client's pin replaces the server's list *)
Definition jar_algs (jc : jcfg) (c : jclient) : list sigalg :=
  match jc_jar_alg c with Some a => [a] | None => jw_algs jc end.
Definition ciba_jar_algs (jc : jcfg) (c : jclient) : list sigalg :=
  match jc_ciba_alg c with Some a => [a] | None => jw_ciba_algs jc end.

(* JWKByKeyID / JWKByAlg: first match *)
Definition jwk_by_kid (k : id) (l : list jwk) : option jwk := find (fun j => ideq (jk_kid j) k) l.
Definition jwk_by_alg (a : sigalg) (l : list jwk) : option jwk := find (fun j => alg_eqb (jk_alg j) a) l.
(* JWKMatchingHeader *)
Definition jwk_matching (o : req_object) (l : list jwk) : option jwk :=
  if negb (is_nil (ro_kid o)) then jwk_by_kid (ro_kid o) l else jwk_by_alg (ro_alg o) l.

(* parsedToken.Claims(jwk.Key, ...): signature verification (no key verifies "none") *)
Definition verifies (o : req_object) (j : jwk) : bool :=
  match ro_sig o with
  | SigBy k => andb (ideq k (jk_key j)) (negb (alg_eqb (ro_alg o) ANone))
  | _ => false end.

(* claims.ValidateWithLeeway(Expected{Issuer: client.ID, AnyAudience: [Host]}, leeway) *)
Definition validate_std_claims (leeway : Z) (cid : id) (o : req_object) : bool :=
  (* go-jose skips the issuer comparison when the expected issuer is "" *)
  andb (orb (is_nil cid) (ideq (ro_iss o) cid)) (andb (ro_aud_ok o)
  (andb (match ro_nbf o with Some d => negb (Z.ltb leeway d) | None => true end)
  (andb (match ro_exp o with Some d => negb (Z.ltb d (- leeway)) | None => true end)
        (match ro_iat o with Some d => negb (Z.ltb leeway d) | None => true end)))).

(* validateClaims *)
Definition validate_claims (prof : profile) (leeway : Z) (cid : id) (o : req_object) : option ecode :=
  match (if is_fapi prof then
           match ro_nbf o with
           | None => Some EInvalidRequestObject
           | Some nbf =>
             if Z.ltb nbf (-3600) then Some EInvalidRequestObject else
             match ro_exp o with
             | None => Some EInvalidRequestObject
             | Some exp => if Z.ltb 3600 exp then Some EInvalidRequestObject else None
             end
           end
         else None) with
  | Some e => Some e
  | None => if validate_std_claims leeway cid o then None else Some EInvalidRequestObject
  end.

(* jarFromRequestObject *)
Definition resolve_jar (prof : profile) (jc : jcfg) (cid : id) (c : jclient) (o : req_object) : ecode + jar_req :=
  match (match ro_enc o with
         | EncNone => None
         | EncOk => if jw_enc jc then None else Some EInvalidRequestObject   (* five segments are no JWS *)
         | EncBad => Some EInvalidRequestObject end) with
  | Some e => inl e
  | None =>
    match ro_sig o with
    | SigEmpty =>
        (* jarFromUnsignedRequestObject (fix f7a4806) *)
        if negb (mem_alg ANone (jar_algs jc c)) then inl EInvalidRequestObject else
        if negb (alg_eqb (ro_alg o) ANone) then inl EInvalidRequestObject else
        inr (contents o)
    | _ =>
        (* jarFromSignedRequestObject *)
        if negb (mem_alg (ro_alg o) (jar_algs jc c)) then inl EInvalidRequestObject else
        match jwk_matching o (jc_keys c) with
        | None => inl EInvalidRequestObject
        | Some j =>
          if negb (verifies o j) then inl EInvalidRequestObject else
          match validate_claims prof (jw_leeway jc) cid o with
          | Some e => inl e
          | None => inr (contents o)
          end
        end
    end
  end.

(* cibaJARFromRequestObject + validateCIBAJARClaims: always signed, kid required, every error invalid_request *)
Definition resolve_ciba_jar (jc : jcfg) (cid : id) (c : jclient) (o : req_object) : ecode + jar_req :=
  match ro_enc o with
  | EncOk | EncBad => inl EInvalidRequest
  | EncNone =>
    if negb (mem_alg (ro_alg o) (ciba_jar_algs jc c)) then inl EInvalidRequest else
    if is_nil (ro_kid o) then inl EInvalidRequest else
    match jwk_by_kid (ro_kid o) (jc_keys c) with
    | None => inl EInvalidRequest
    | Some j =>
      if negb (verifies o j) then inl EInvalidRequest else
      match ro_iat o, ro_nbf o, ro_exp o with
      | Some _, Some nbf, Some exp =>
          if Z.ltb nbf (-3600) then inl EInvalidRequest else
          if Z.ltb 3600 exp then inl EInvalidRequest else
          if negb (ro_jti o) then inl EInvalidRequest else
          if validate_std_claims (jw_leeway jc) cid o then inr (contents o) else inl EInvalidRequest
      | _, _, _ => inl EInvalidRequest
      end
    end
  end.

(* ---- how the object reaches /authorize ---- *)
Inductive jar_in :=
  | JNone
  | JValue (o : req_object)                              (* request=<object> *)
  | JRef (https : bool) (fetched : option req_object).   (* request_uri=<URL>: scheme, what a GET answers *)
Definition has_obj (j : jar_in) : bool := match j with JValue _ => true | _ => false end.
Definition is_ref (j : jar_in) : bool := match j with JRef _ _ => true | _ => false end.

Record jareq := mkJAReq { jq_req : areq; jq_jar : jar_in }.

(* shouldUseJAR / shouldUseJARDuringPAR / shouldUseJARDuringCIBA *)
Definition should_use_jar (cfg : config) (outer : params) (c : client) (j : jar_in) : bool :=
  andb (cf_jar_enabled cfg)
    (orb (cf_jar_required cfg) (orb (c_jar_required c) (orb (has_obj j)
       (andb (cf_jar_by_reference cfg) (orb (is_ref j) (negb (is_nil (p_request_uri outer)))))))).
Definition should_use_jar_par (cfg : config) (c : client) (obj : bool) : bool :=
  andb (cf_jar_enabled cfg) (orb (cf_jar_required cfg) (orb (c_jar_required c) obj)).
Definition should_use_jar_ciba (cfg : config) (c : jclient) (obj : bool) : bool :=
  andb (cf_ciba_jar_enabled cfg)
    (orb (cf_ciba_jar_required cfg) (orb (match jc_ciba_alg c with Some _ => true | None => false end) obj)).

(* validateRequestURIAsOptional on a request_uri that is not a pushed one
   (JARRequestURIRegistrationIsRequired is off in every configuration the harness builds) *)
Definition ref_check (cfg : config) (present https : bool) : option aerr :=
  if negb present then None else
  if negb (cf_jar_by_reference cfg) then Some (ALocal ERequestURINotSupported) else
  if negb https then Some (ALocal EInvalidRequest) else None.
Definition ref_check_in (cfg : config) (j : jar_in) : option aerr :=
  match j with JRef https _ => ref_check cfg true https | _ => None end.

(* validateParamsAsOptionals with the two members Authorize.v leaves out: the request_uri
   validator (second in line) and the final "request and request_uri together" guard *)
Definition validate_optionals_x (cfg : config) (p : params) (c : client) (rc : option aerr) (both : bool) : option aerr :=
  if andb (negb (is_empty (p_redirect p))) (negb (redirect_allowed c (p_redirect p)))
  then Some (ALocal EInvalidRequest) else
  match rc with
  | Some e => Some e
  | None =>
    match validate_optionals cfg p c with
    | Some e => Some e
    | None => if both then Some (ARedirect EInvalidRequest p) else None
    end
  end.

Definition validate_params_x (cfg : config) (p : params) (c : client) (rc : option aerr) (both : bool) : option aerr :=
  if is_empty (p_redirect p) then Some (ALocal EInvalidRequest) else
  match validate_optionals_x cfg p c rc both with
  | Some e => Some e
  | None => validate_params cfg p c
  end.

(* validateInWithOutParams; merged parameters never carry request / request_uri *)
Definition validate_in_out_x (cfg : config) (i o : params) (c : client) (rc : option aerr) (both : bool) : option aerr :=
  if andb (negb (is_empty (p_redirect o))) (negb (redirect_allowed c (p_redirect o)))
  then Some (ALocal EInvalidRequest) else
  match validate_params cfg (merge_params i o) c with
  | Some e => Some e
  | None =>
    match validate_optionals_x cfg o c rc both with
    | Some (ARedirect e _) => Some (ARedirect e (merge_params i o))   (* fix 11b1d50 *)
    | Some e => Some e
    | None => validate_in_out cfg i o c
    end
  end.

(* "request_uri" and "request" both present outside *)
Definition both_outside (outer : params) (j : jar_in) : bool :=
  andb (orb (is_ref j) (negb (is_nil (p_request_uri outer)))) (has_obj j).

(* validateRequestWithJAR, then the choice of the session's parameters (authnSessionWithJAR) *)
Definition jar_session (cfg : config) (c : client) (outer : params) (jin : jar_in) (j : jar_req) : aerr + params :=
  if negb (ideq (jr_client j) (c_id c)) then inl (ALocal EInvalidClient) else
  match (if is_fapi (cf_profile cfg)
         then validate_params_x cfg (jr_params j) c (ref_check cfg (jr_nested_uri j) true)
                (andb (jr_nested_uri j) (jr_nested_req j))
         else None) with
  | Some e => inl e
  | None =>
    match validate_in_out_x cfg (jr_params j) outer c (ref_check_in cfg jin) (both_outside outer jin) with
    | Some e => inl e
    | None =>
      let m := merge_params (jr_params j) outer in
      if jr_nested_uri j then inl (ARedirect EInvalidRequest m) else
      if jr_nested_req j then inl (ARedirect EInvalidRequest m) else
      inr (if is_fapi (cf_profile cfg) then jr_params j else m)
    end
  end.

Definition lift_res (r : ecode + jar_req) : aerr + jar_req :=
  match r with inl e => inl (ALocal e) | inr j => inr j end.

(* the switch of authnSessionWithJAR: by value, else by reference (fetched before anything is
   validated), else "request object is required" *)
Definition jar_fetch (cfg : config) (jc : jcfg) (c : client) (jcl : jclient) (outer : params) (jin : jar_in) : aerr + jar_req :=
  match jin with
  | JValue o => lift_res (resolve_jar (cf_profile cfg) jc (c_id c) jcl o)
  | JRef _ (Some o) =>
      if cf_jar_by_reference cfg then lift_res (resolve_jar (cf_profile cfg) jc (c_id c) jcl o)
      else inl (ALocal EInvalidRequest)
  | JRef _ None => inl (ALocal EInvalidRequest)
  | JNone => inl (ALocal EInvalidRequest)    (* nothing sent, or a urn: request_uri that cannot be fetched *)
  end.

Definition jar_decision (cfg : config) (jc : jcfg) (c : client) (jcl : jclient) (outer : params) (jin : jar_in) : aerr + params :=
  match jar_fetch cfg jc c jcl outer jin with
  | inl e => inl e
  | inr j => jar_session cfg c outer jin j
  end.

(* validateRequestWithPAR's verdict on a pushed session *)
Definition par_verdict (cfg : config) (now : Z) (c : client) (s : asession) (cid : id) (outer : params) (jin : jar_in) : option aerr :=
  if negb (ideq (a_client s) cid) then Some (ALocal EAccessDenied) else
  if geb now (a_expires s) then Some (ALocal EInvalidRequest) else
  validate_in_out_x cfg (a_params s) outer (client_for_par cfg c (p_redirect (a_params s))) None (both_outside outer jin).

(* authnSession + initAuthnSession + authenticate, with the client in hand *)
Definition auth_jar_client (w : world) (jx : jworld) (n : nat) (now : Z) (c : client) (q : jareq) : prog out :=
  let cfg := w_cfg w in
  let r := jq_req q in
  let outer := ar_params r in
  let jin := jq_jar q in
  if should_use_par cfg outer c then
    (* a request_uri that was not pushed is looked up like any other and not found *)
    if is_nil (p_request_uri outer) then Ret (OErr EInvalidRequest) else
    Do (AByPar (p_request_uri outer)) (fun rp =>
    match rp with
    | RASess s =>
      match par_verdict cfg now c s (ar_client r) outer jin with
      | Some e => Do (ADel (a_id s)) (fun rd => match rd with RFail => Ret (OErr EInternalError) | _ => Ret (render_aerr cfg c e) end)
      | None =>
        let s' := if is_fapi (cf_profile cfg) then s
                  else s <| a_params := merge_params (a_params s) outer |> in
        bind (start_session w n now c s' r) (fun a => Ret (finish_ares cfg c a))
      end
    | _ => Ret (OErr EInvalidRequest)
    end)
  else if should_use_jar cfg outer c jin then
    match jar_decision cfg (jx_cfg jx) c (jclient_of (jx_clients jx) (c_id c)) outer jin with
    | inl e => Ret (render_aerr cfg c e)
    | inr p => bind (start_session w n now c (new_session n c p) r) (fun a => Ret (finish_ares cfg c a))
    end
  else
    match validate_params_x cfg outer c (ref_check_in cfg jin) (both_outside outer jin) with
    | Some e => Ret (render_aerr cfg c e)
    | None => bind (start_session w n now c (new_session n c (outer <| p_request_uri := 0%N |>)) r)
                   (fun a => Ret (finish_ares cfg c a))
    end.

(* initAuth *)
Definition init_auth_jar (w : world) (jx : jworld) (n : nat) (now : Z) (q : jareq) : prog out :=
  let r := jq_req q in
  if is_nil (ar_client r) then Ret (OErr EInvalidClient) else
  bind (get_client w (ar_client r)) (fun oc =>
  match oc with
  | None => Ret (OErr EInvalidClient)
  | Some c =>
    if negb (orb (has_grant GAuthorizationCode (c_grants c)) (has_grant GImplicit (c_grants c)))
    then Ret (OErr EInvalidClient) else
    auth_jar_client w jx n now c q
  end).

(* ---- POST /par ---- *)
(* validatePushedRequest onwards (as in Authorize.push_auth), for the parameters that count *)
Definition push_tail (w : world) (n : nat) (now : Z) (c : client) (p : params) (b : bind_in) : prog out :=
  let cfg := w_cfg w in
  if negb (is_nil (p_request_uri p)) then Ret (OErr EInvalidRequest) else
  let c' := client_for_par cfg c (p_redirect p) in
  let v := if is_fapi (cf_profile cfg) then validate_params cfg p c' else validate_optionals cfg p c' in
  match v with
  | Some (ALocal e) | Some (ARedirect e _) => Ret (OErr e)
  | None =>
    if andb (match cf_profile cfg with PFapi1 => true | _ => false end)
            (andb (cf_pkce_enabled cfg) (pk_is_empty (p_challenge p))) then Ret (OErr EInvalidRequest) else
    match (if cf_dpop_enabled cfg then
             match b_dpop b with
             | Some pf => validate_jwt jwt_lifetime jwt_leeway pf 0 (p_dpop_jkt p)
             | None => None end
           else None) with
    | Some e => Ret (OErr e)
    | None =>
      let jkt := if cf_dpop_enabled cfg then
                   match b_dpop b with Some pf => jwk_thumb (dp_jwk pf) | None => p_dpop_jkt p end
                 else 0%N in
      let s := (new_session n c (par_stored_params p)) <| a_par := mint n KParUri |>
                 <| a_expires := (now + cf_par_lifetime cfg)%Z |>
                 <| a_jkt := jkt |> <| a_x5t := set_pop_x5t cfg b |> in
      save_a s (fun rs => match rs with RFail => Ret (OErr EInternalError) | _ => Ret (OPar (a_par s)) end)
    end
  end.

(* pushedAuthnSessionWithJAR + validatePushedRequestWithJAR: an error or the parameters pushed *)
Definition par_jar_decision (cfg : config) (jc : jcfg) (c : client) (jcl : jclient) (outer : params) (obj : option req_object) : ecode + params :=
  match obj with
  | None => inl EInvalidRequest
  | Some o =>
    match resolve_jar (cf_profile cfg) jc (c_id c) jcl o with
    | inl e => inl e
    | inr j =>
      if negb (is_nil (p_request_uri outer)) then inl EInvalidRequest else
      if negb (ideq (jr_client j) (c_id c)) then inl EInvalidRequestObject else
      if orb (jr_nested_req j) (jr_nested_uri j) then inl EInvalidRequestObject else
      inr (jr_params j)
    end
  end.

Definition push_auth_jar (w : world) (jx : jworld) (n : nat) (now : Z) (r : preq) (obj : option req_object) : prog out :=
  let cfg := w_cfg w in
  if negb (cf_par_enabled cfg) then Ret (OErr EOther) else
  bind (authenticated w (pr_cred r)) (fun oc =>
  match oc with
  | None => Ret (OErr EInvalidClient)
  | Some c =>
    if should_use_jar_par cfg c (match obj with Some _ => true | None => false end) then
      match par_jar_decision cfg (jx_cfg jx) c (jclient_of (jx_clients jx) (c_id c)) (pr_params r) obj with
      | inl e => Ret (OErr e)
      | inr p => push_tail w n now c p (pr_bind r)
      end
    else push_tail w n now c (pr_params r) (pr_bind r)
  end).

(* ---- POST /bc-authorize ---- *)
(* validateCIBARequest onwards (as in Authorize.init_back_auth) *)
Definition back_tail (w : world) (n : nat) (now : Z) (c : client) (p : params) (rc : option aerr) (both : bool) (r : breq) : prog out :=
  let cfg := w_cfg w in
  if negb (has_grant GCiba (c_grants c)) then Ret (OErr EUnauthorizedClient) else
  if andb (cf_openid_required cfg) (negb (contains_openid (p_scopes p))) then Ret (OErr EInvalidScope) else
  if andb (is_nil (p_notif_token p)) (ciba_is_notification (c_ciba_mode c)) then Ret (OErr EInvalidRequest) else
  if andb (negb (is_empty (p_user_code p))) (negb (andb (cf_ciba_user_code cfg) (c_user_code c)))
  then Ret (OErr EInvalidRequest) else
  if is_empty (p_login_hint p) then Ret (OErr EInvalidRequest) else
  match validate_optionals_x cfg p c rc both with
  | Some (ALocal e) | Some (ARedirect e _) => Ret (OErr e)
  | None =>
    match (match c_ciba_mode c with CibaPush => validate_binding cfg c (br_bind r) no_opts | _ => None end) with
    | Some e => Ret (OErr e)
    | None =>
      let push := match c_ciba_mode c with CibaPush => true | _ => false end in
      let s := (new_session n c p) <| a_ciba := mint n KAuthReq |>
                 <| a_expires := (now + cf_ciba_lifetime cfg)%Z |>
                 <| a_jkt := if push then set_pop_jkt cfg (br_bind r) else 0%N |>
                 <| a_x5t := if push then set_pop_x5t cfg (br_bind r) else 0%N |>
                 <| a_subject := br_sub r |> <| a_granted := br_granted r |>
                 <| a_granted_res := br_granted_res r |> <| a_granted_details := br_granted_details r |> in
      if negb (br_init_ok r) then Ret (OErr EAccessDenied) else
      save_a s (fun rs =>
        match rs with RFail => Ret (OErr EInternalError)
        | _ => Ret (OCiba (a_ciba s) (ciba_is_pollable (c_ciba_mode c))) end)
    end
  end.

(* cibaAuthnSessionWithJAR: the parameters outside the object are not looked at; a request or
   request_uri claim inside is only seen by validateParamsAsOptionals *)
Definition ciba_jar_decision (jc : jcfg) (c : client) (jcl : jclient) (obj : option req_object) : ecode + jar_req :=
  match obj with
  | None => inl EInvalidRequest
  | Some o => resolve_ciba_jar jc (c_id c) jcl o
  end.

Definition init_back_auth_jar (w : world) (jx : jworld) (n : nat) (now : Z) (r : breq) (obj : option req_object) : prog out :=
  let cfg := w_cfg w in
  if negb (cf_ciba_enabled cfg) then Ret (OErr EOther) else
  bind (authenticated w (br_cred r)) (fun oc =>
  match oc with
  | None => Ret (OErr EInvalidClient)
  | Some c =>
    let jcl := jclient_of (jx_clients jx) (c_id c) in
    if should_use_jar_ciba cfg jcl (match obj with Some _ => true | None => false end) then
      match ciba_jar_decision (jx_cfg jx) c jcl obj with
      | inl e => Ret (OErr e)
      | inr j => back_tail w n now c (jr_params j) (ref_check cfg (jr_nested_uri j) true)
                   (andb (jr_nested_uri j) (jr_nested_req j)) r
      end
    else back_tail w n now c (br_params r) None false r
  end).
