(* RaceMixed.v — C15, CIBA auth_req_id, racing polls with MIXED embedder verdicts, followed by one more poll.

   Model/Race.v races k copies of ONE request: all of them carry the same answer of the embedder's
   ValidateBackAuthFunc.  A polling-interval limiter (or a user who approves while two polls are in flight)
   answers `authorization_pending` / `slow_down` to one poll and success (or access_denied) to another poll
   of the SAME auth_req_id.  Here every racing poll i carries its own verdict vs[i]; after the race (every
   interleaving of the polls' storage calls; the polls make DIFFERENT numbers of calls: approve
   CGet AGet ADel GSave, deny CGet AGet ADel, pending / slow_down CGet AGet - a lookup and NO write) a
   FOLLOW-UP poll whose verdict is approve presents the auth_req_id once more.  Counted: the TOKEN RESPONSES
   over the race and the follow-up.  With at most one approving verdict among the racing polls that count is
   at most one on every schedule, on the lenient and on the strict storage (Proofs/C15MixedSweeps.v).
   (Two approving polls in flight are the known window K4 of Model/Race.v scn_ciba.)  No proofs here. *)
From Verif Require Import Base Scope Types Prog Pop Token Authorize System Config Race RaceUri RaceStrict.
Local Open Scope nat_scope.

Definition mx_verdicts : list ba_reply := [BaApprove; BaPending; BaSlowDown; BaDeny].

(* the scenario's consuming request, with the embedder's validation answering v *)
Definition with_verdict (o : op) (v : ba_reply) : op :=
  match o with
  | OpToken g r => OpToken g (mkTReq (t_cred r) (t_bind r) (t_scope r) (t_code r) (t_redirect r) (t_refresh r)
                                     (t_verifier r) (t_auth_req r) (t_hg r) v (t_resources r) (t_assertion r) (t_auth_details r))
  | _ => o
  end.

(* poll i (operation index base + i) with verdict v *)
Definition mx_prog (su : racesetup) (i : nat) (v : ba_reply) : prog obs :=
  handler (su_world su) (su_base su + i) (su_now su) (with_verdict (su_op su) v).
Fixpoint mx_progs_from (su : racesetup) (i : nat) (vs : list ba_reply) : list (prog obs) :=
  match vs with [] => [] | v :: r => mx_prog su i v :: mx_progs_from su (S i) r end.
Definition mx_progs (su : racesetup) (vs : list ba_reply) : list (prog obs) := mx_progs_from su 0 vs.

(* the storage calls of one poll with verdict v served alone (the unchanged flow) *)
Definition mx_solo_log (su : racesetup) (v : ba_reply) : list ckind := snd (run_log (mx_prog su 0 v) (su_store su) []).
(* the schedules: every interleaving of the polls' calls, poll i making as many calls as when served alone *)
Definition mx_counts (su : racesetup) (vs : list ba_reply) : list nat :=
  map (fun p => count_calls p (su_store su)) (mx_progs su vs).
Definition mx_schedules (su : racesetup) (vs : list ba_reply) : list (list nat) := all_interleavings (mx_counts su vs).

Definition mx_is_tokens (o : obs) : bool := match o with Out (OTokens _) => true | _ => false end.
Definition mx_got_tokens (p : prog obs) : bool := match finished p with Some o => mx_is_tokens o | None => false end.

Definition mx_run (ex : storage_sem) (su : racesetup) (vs : list ba_reply) (sched : list nat) : store * list (prog obs) :=
  run_il_x ex (sched ++ drain (List.length vs)) (mx_progs su vs) (su_store su).
(* the follow-up: one more poll, approved, served alone on the store the race leaves behind *)
Definition mx_follow_up (ex : storage_sem) (su : racesetup) (vs : list ba_reply) (st : store) : bool :=
  mx_is_tokens (snd (run_seq_x ex (mx_prog su (List.length vs) BaApprove) st)).
(* per racing poll, then the follow-up: was it answered with tokens *)
Definition mx_outcomes (ex : storage_sem) (su : racesetup) (vs : list ba_reply) (sched : list nat) : list bool :=
  let '(st, ps) := mx_run ex su vs sched in map mx_got_tokens ps ++ [mx_follow_up ex su vs st].
Definition mx_tokens (ex : storage_sem) (su : racesetup) (vs : list ba_reply) (sched : list nat) : nat :=
  List.length (filter (fun b => b) (mx_outcomes ex su vs sched)).
(* every racing poll's storage calls, in order (what the harness's gate observes) *)
Definition mx_logs (ex : storage_sem) (su : racesetup) (vs : list ba_reply) (sched : list nat) : list (list ckind) :=
  let tr := snd (run_il_x_tr ex (sched ++ drain (List.length vs)) (mx_progs su vs) (su_store su) []) in
  map (fun i => calls_of i tr) (seq 0 (List.length vs)).

(* a poll that is told to wait *)
Definition is_wait (v : ba_reply) : bool := match v with BaPending | BaSlowDown => true | _ => false end.
Definition approvals (vs : list ba_reply) : nat :=
  List.length (filter (fun v => match v with BaApprove => true | _ => false end) vs).

(* the verdict lists: every list of k verdicts out of approve / pending / slow_down / deny with at most one approve
   (k = 2: 15 lists, among them {approve, pending}, {approve, slow_down}, {approve, deny}, {pending, pending} in both orders;
    k = 3: 54 lists) *)
Fixpoint lists_of (k : nat) : list (list ba_reply) :=
  match k with O => [[]] | S k' => flat_map (fun v => map (cons v) (lists_of k')) mx_verdicts end.
Definition mx_cases (k : nat) : list (list ba_reply) := filter (fun vs => Nat.leb (approvals vs) 1) (lists_of k).

(* the polls that are told to wait performed a lookup and nothing else *)
Definition wait_logs_ok (vs : list ba_reply) (logs : list (list ckind)) : bool :=
  forallb (fun x : ba_reply * list ckind =>
     let '(v, l) := x in
     if is_wait v then match l with [a; b] => andb (ckind_eqb a KCGet) (ckind_eqb b KAGet) | _ => false end else true)
    (combine vs logs).
