(* Dcr.v — dynamic client registration: POST /register, GET/PUT/DELETE /register/{client_id}.
   Transcribed from internal/dcr/{api,util,model,validation}.go of the fixed tree (after a8ec639),
   guard by guard, in the Go order.

   Documents are key/value lists (the JSON objects of request and response bodies).  Strings minted by
   the server (client ids, secrets, registration tokens) are handles named by the index of the minting
   operation (Types.mint); a bcrypt hash is represented by the handle of its plaintext (ideal hash:
   the comparison succeeds iff the plaintexts are the same handle and non-empty).

   Independent of Model/System.v: own state (the client store), own operations and observations. *)
From Verif Require Import Base Types.

(* ------------------------------------------------------------------------------------------ *)
(* JSON values as far as the registration code distinguishes them                              *)
(* ------------------------------------------------------------------------------------------ *)
Inductive jval :=
  | JNull
  | JStr (s : string)
  | JCred (h : id)        (* a string minted by the server, by handle *)
  | JRegUri (h : id)      (* BaseURL + "/register/" + the client id with handle h *)
  | JBool (b : bool)
  | JNum (n : N)
  | JArr (l : list string)
  | JObj (n : N).         (* an object from the harness's catalogue: 1 = a JWKS with one public key,
                             2 = a JWKS holding a private key, other = {"k":n} *)

Fixpoint slist_eqb (a b : list string) : bool :=
  match a, b with
  | [], [] => true
  | x :: a', y :: b' => andb (seqb x y) (slist_eqb a' b')
  | _, _ => false end.

Definition jv_eqb (a b : jval) : bool :=
  match a, b with
  | JNull, JNull => true
  | JStr x, JStr y => seqb x y
  | JCred x, JCred y => ideq x y
  | JRegUri x, JRegUri y => ideq x y
  | JBool x, JBool y => Bool.eqb x y
  | JNum x, JNum y => N.eqb x y
  | JArr x, JArr y => slist_eqb x y
  | JObj x, JObj y => N.eqb x y
  | _, _ => false end.

Definition doc := list (string * jval).

Fixpoint dget (k : string) (d : doc) : option jval :=
  match d with [] => None | (k', v) :: r => if seqb k k' then Some v else dget k r end.
Fixpoint dremove (k : string) (d : doc) : doc :=
  match d with
  | [] => []
  | (k', v) :: r => if seqb k k' then dremove k r else (k', v) :: dremove k r end.
(* assignment to a Go map / a struct field: the last write wins *)
Definition dput (k : string) (v : jval) (d : doc) : doc := (k, v) :: dremove k d.
Definition dhas (k : string) (d : doc) : bool := match dget k d with Some _ => true | None => false end.
Definition dkeys (d : doc) : list string := map fst d.

(* ------------------------------------------------------------------------------------------ *)
(* goidc.ClientMetaInfo as a table: json name, Go type of the field, omitempty                  *)
(* ------------------------------------------------------------------------------------------ *)
Inductive ftype := FStr | FList | FBool | FInt | FRaw | FMap.

Definition fields : list (string * (ftype * bool)) :=
  [ ("client_name", (FStr, true)); ("application_type", (FStr, true)); ("logo_uri", (FStr, true));
    ("contacts", (FList, true)); ("policy_uri", (FStr, true)); ("tos_uri", (FStr, true));
    ("redirect_uris", (FList, true)); ("request_uris", (FList, true));
    ("grant_types", (FList, false)); ("response_types", (FList, false));
    ("jwks_uri", (FStr, true)); ("jwks", (FRaw, true)); ("scope", (FStr, true));
    ("subject_type", (FStr, true)); ("sector_identifier_uri", (FStr, true));
    ("id_token_signed_response_alg", (FStr, true)); ("id_token_encrypted_response_alg", (FStr, true));
    ("id_token_encrypted_response_enc", (FStr, true)); ("userinfo_signed_response_alg", (FStr, true));
    ("userinfo_encrypted_response_alg", (FStr, true)); ("userinfo_encrypted_response_enc", (FStr, true));
    ("require_signed_request_object", (FBool, true)); ("request_object_signing_alg", (FStr, true));
    ("request_object_encryption_alg", (FStr, true)); ("request_object_encryption_enc", (FStr, true));
    ("authorization_signed_response_alg", (FStr, true)); ("authorization_encrypted_response_alg", (FStr, true));
    ("authorization_encrypted_response_enc", (FStr, true));
    ("token_endpoint_auth_method", (FStr, false)); ("token_endpoint_auth_signing_alg", (FStr, true));
    ("introspection_endpoint_auth_method", (FStr, true)); ("introspection_endpoint_auth_signing_alg", (FStr, true));
    ("revocation_endpoint_auth_method", (FStr, true)); ("revocation_endpoint_auth_signing_alg", (FStr, true));
    ("dpop_bound_access_tokens", (FBool, true)); ("tls_client_auth_subject_dn", (FStr, true));
    ("tls_client_auth_san_dns", (FStr, true)); ("tls_client_auth_san_ip", (FStr, true));
    ("tls_client_certificate_bound_access_tokens", (FBool, true)); ("authorization_data_types", (FList, true));
    ("default_max_age", (FInt, true)); ("default_acr_values", (FStr, true));
    ("require_pushed_authorization_requests", (FBool, true)); ("backchannel_token_delivery_mode", (FStr, true));
    ("backchannel_client_notification_endpoint", (FStr, true));
    ("backchannel_authentication_request_signing_alg", (FStr, true));
    ("backchannel_user_code_parameter", (FBool, true)); ("custom_attributes", (FMap, true)) ].

(* jsonKeys(goidc.ClientMetaInfo{}) *)
Definition known_keys : list string := map fst fields.
(* jsonKeys(response{}): the embedded pointer has no tag and is skipped *)
Definition reserved_keys : list string :=
  ["client_id"; "client_secret"; "registration_access_token"; "registration_client_uri"].

Fixpoint field_lookup (k : string) (l : list (string * (ftype * bool))) : option (string * (ftype * bool)) :=
  match l with [] => None | (n, t) :: r => if seqb k n then Some (n, t) else field_lookup k r end.

(* encoding/json matches an object key with a struct field by exact name, else case-insensitively
   (ASCII folding; all field names are lower-case ASCII, so both amount to comparing lower(key)). *)
Definition lower_ascii (c : ascii) : ascii :=
  let n := nat_of_ascii c in
  if andb (Nat.leb 65 n) (Nat.leb n 90) then ascii_of_nat (n + 32) else c.
Fixpoint lower (s : string) : string :=
  match s with EmptyString => EmptyString | String c r => String (lower_ascii c) (lower r) end.
Definition field_of (k : string) : option (string * (ftype * bool)) := field_lookup (lower k) fields.

Definition accepts (t : ftype) (v : jval) : bool :=
  match t, v with
  | FStr, JStr _ | FStr, JCred _ | FStr, JRegUri _ => true
  | FList, JArr _ => true
  | FBool, JBool _ => true
  | FInt, JNum _ => true
  | FRaw, _ => true
  | FMap, JObj _ => true
  | _, _ => false end.

(* json.Unmarshal(data, &info): members in document order; null leaves a string or bool alone, sets
   a slice or pointer to nil, and is stored literally by json.RawMessage; a value of the wrong type
   is an error. *)
Fixpoint decode_known (d : doc) (acc : doc) : option doc :=
  match d with
  | [] => Some acc
  | (k, v) :: r =>
      match field_of k with
      | None => decode_known r acc
      | Some (name, (t, _)) =>
          match v, t with
          | JNull, FRaw => decode_known r (dput name JNull acc)
          | JNull, FList | JNull, FInt => decode_known r (dremove name acc)
          | JNull, _ => decode_known r acc
          | _, FMap => if accepts FMap v then decode_known r acc else None   (* overwritten below *)
          | _, _ => if accepts t v then decode_known r (dput name v acc) else None
          end
      end
  end.

(* request.UnmarshalJSON: every member whose name is not exactly a known key becomes a custom attribute *)
Definition capture_custom (d : doc) : doc :=
  fold_left (fun acc kv => if mem (fst kv) known_keys then acc else dput (fst kv) (snd kv) acc) d [].

Record meta := mkMeta { m_known : doc; m_custom : doc }.

Definition unmarshal (d : doc) : option meta :=
  match decode_known d [] with
  | None => None
  | Some kn => Some (mkMeta kn (capture_custom d))
  end.

(* field access with Go zero values *)
Definition gstr (k : string) (m : meta) : jval := match dget k (m_known m) with Some v => v | None => JStr "" end.
Definition glist (k : string) (m : meta) : list string := match dget k (m_known m) with Some (JArr l) => l | _ => [] end.
Definition gbool (k : string) (m : meta) : bool := match dget k (m_known m) with Some (JBool b) => b | _ => false end.
Definition ghas (k : string) (m : meta) : bool := dhas k (m_known m).

Definition v_empty (v : jval) : bool := match v with JStr s => is_empty s | JNull => true | _ => false end.
Definition v_is (v : jval) (s : string) : bool := match v with JStr x => seqb x s | _ => false end.
Definition v_in (v : jval) (l : list string) : bool := match v with JStr x => mem x l | _ => false end.
Definition v_str (v : jval) : string := match v with JStr x => x | _ => "" end.

(* json.Marshal of the metadata part of the response: omitempty per field *)
Definition omitted (t : ftype) (v : jval) : bool :=
  match t, v with
  | FStr, JStr s => is_empty s
  | FList, JArr [] => true
  | FBool, JBool false => true
  | _, _ => false end.
Definition zero_of (t : ftype) : jval :=
  match t with FStr => JStr "" | FBool => JBool false | _ => JNull end.

Fixpoint render_fields (fs : list (string * (ftype * bool))) (kn : doc) : doc :=
  match fs with
  | [] => []
  | (name, (t, omit)) :: r =>
      match t with
      | FMap => render_fields r kn                       (* delete(rawValues, "custom_attributes") *)
      | _ =>
        match dget name kn with
        | Some v => if andb omit (omitted t v) then render_fields r kn else (name, v) :: render_fields r kn
        | None => if omit then render_fields r kn else (name, zero_of t) :: render_fields r kn
        end
      end
  end.

(* response.MarshalJSON (after fix a8ec639): custom attributes are inlined unless their name is
   one of the response's own members *)
Definition flatten (base : doc) (custom : doc) : doc :=
  fold_left (fun acc kv => if mem (fst kv) reserved_keys then acc else dput (fst kv) (snd kv) acc) custom base.

Definition opt_member (k : string) (h : id) : doc := if is_nil h then [] else [(k, JCred h)].

Definition response_doc (cid secret token : id) (m : meta) : doc :=
  flatten ([("client_id", JCred cid)] ++ opt_member "client_secret" secret
           ++ opt_member "registration_access_token" token
           ++ [("registration_client_uri", JRegUri cid)] ++ render_fields fields (m_known m))%list
          (m_custom m).

(* ------------------------------------------------------------------------------------------ *)
(* The server's feature set: the fields of oidc.Configuration that validation.go reads          *)
(* ------------------------------------------------------------------------------------------ *)
Record dcfg := mkDcfg {
  d_rotation : bool;                  (* DCRTokenRotationIsEnabled *)
  d_grants : list string;             (* GrantTypes *)
  d_resp_types : list string;         (* ResponseTypes *)
  d_auth_methods : list string;       (* TokenAuthnMethods *)
  d_introspection : bool; d_intro_methods : list string;
  d_revocation : bool; d_revoc_methods : list string;
  d_scopes : list string;             (* ids of Scopes *)
  d_openid_required : bool;
  d_sub_types : list string;
  d_default_pairwise : bool;          (* DefaultSubIdentifierType == pairwise *)
  d_ciba_modes : list string;
  d_ciba_user_code : bool;
  d_ciba_jar : bool; d_ciba_jar_algs : list string;
  d_idt_sig_algs : list string;
  d_idt_enc : bool; d_idt_key_algs : list string; d_idt_content_algs : list string;
  d_ui_sig_algs : list string;
  d_ui_enc : bool; d_ui_key_algs : list string; d_ui_content_algs : list string;
  d_jar : bool; d_jar_algs : list string;
  d_jar_enc : bool; d_jar_key_algs : list string; d_jar_content_algs : list string;
  d_jar_by_ref : bool;
  d_jarm : bool; d_jarm_algs : list string; d_jarm_key_algs : list string; d_jarm_content_algs : list string;
  d_pkjwt_algs : list string;
  d_secretjwt_algs : list string;
  d_auth_details : bool; d_auth_detail_types : list string
}.

(* ------------------------------------------------------------------------------------------ *)
(* net/url as far as the validators look (scheme, host, fragment), on the strings themselves    *)
(* ------------------------------------------------------------------------------------------ *)
Fixpoint drop_str (n : nat) (s : string) : string :=
  match n, s with O, _ => s | S n', String _ r => drop_str n' r | _, EmptyString => EmptyString end.
Fixpoint take_host (s : string) : string :=
  match s with
  | EmptyString => EmptyString
  | String c r => if orb (Ascii.eqb c "/"%char) (orb (Ascii.eqb c "?"%char) (Ascii.eqb c "#"%char))
                  then EmptyString else String c (take_host r) end.
Definition url_https (s : string) : bool := has_prefix "https://" s.
Definition url_host (s : string) : string := take_host (drop_str 8 s).
Definition url_has_fragment (s : string) : bool := contains s "#".
(* validateRedirectURIS *)
Definition redirect_uri_ok (s : string) : bool :=
  andb (url_https s) (andb (negb (is_empty (url_host s))) (negb (url_has_fragment s))).
(* validateURL *)
Definition https_url_ok (s : string) : bool := andb (url_https s) (negb (is_empty (url_host s))).

(* ------------------------------------------------------------------------------------------ *)
(* validation.go                                                                               *)
(* ------------------------------------------------------------------------------------------ *)
Definition authn_methods (cfg : dcfg) (m : meta) : list jval :=
  ([gstr "token_endpoint_auth_method" m]
  ++ (if d_introspection cfg then [gstr "introspection_endpoint_auth_method" m] else [])
  ++ (if d_revocation cfg then [gstr "revocation_endpoint_auth_method" m] else []))%list.
Definition uses_method (cfg : dcfg) (m : meta) (name : string) : bool :=
  existsb (fun v => v_is v name) (authn_methods cfg m).

Definition opt_in (v : jval) (l : list string) : bool := orb (v_empty v) (v_in v l).

Definition validateTokenAuthnMethod cfg m := opt_in (gstr "token_endpoint_auth_method" m) (d_auth_methods cfg).
Definition validateTokenIntrospection cfg m := opt_in (gstr "introspection_endpoint_auth_method" m) (d_intro_methods cfg).
Definition validateTokenRevocation cfg m := opt_in (gstr "revocation_endpoint_auth_method" m) (d_revoc_methods cfg).
Definition validateScopes cfg m :=
  forallb (fun s => mem s (d_scopes cfg)) (split_with_spaces (v_str (gstr "scope" m))).

(* alg of an endpoint checked only when that endpoint's method is `meth` *)
Definition alg_for (m : meta) (meth_key alg_key meth : string) (algs : list string) : bool :=
  negb (andb (v_is (gstr meth_key m) meth)
             (andb (negb (v_empty (gstr alg_key m))) (negb (v_in (gstr alg_key m) algs)))).
Definition jwks_given (m : meta) : bool := orb (ghas "jwks" m) (negb (v_empty (gstr "jwks_uri" m))).

Definition validatePrivateKeyJWT cfg m :=
  if negb (uses_method cfg m "private_key_jwt") then true else
  andb (alg_for m "token_endpoint_auth_method" "token_endpoint_auth_signing_alg" "private_key_jwt" (d_pkjwt_algs cfg))
  (andb (alg_for m "introspection_endpoint_auth_method" "introspection_endpoint_auth_signing_alg" "private_key_jwt" (d_pkjwt_algs cfg))
  (andb (alg_for m "revocation_endpoint_auth_method" "revocation_endpoint_auth_signing_alg" "private_key_jwt" (d_pkjwt_algs cfg))
        (jwks_given m))).
Definition validateSecretJWT cfg m :=
  andb (alg_for m "token_endpoint_auth_method" "token_endpoint_auth_signing_alg" "client_secret_jwt" (d_secretjwt_algs cfg))
  (andb (alg_for m "introspection_endpoint_auth_method" "introspection_endpoint_auth_signing_alg" "client_secret_jwt" (d_secretjwt_algs cfg))
        (alg_for m "revocation_endpoint_auth_method" "revocation_endpoint_auth_signing_alg" "client_secret_jwt" (d_secretjwt_algs cfg))).
Definition validateSelfSignedTLSAuthn cfg m :=
  if negb (uses_method cfg m "self_signed_tls_client_auth") then true else jwks_given m.
Definition b2n (b : bool) : nat := if b then 1 else 0.
Definition validateTLSAuthn cfg m :=
  if negb (uses_method cfg m "tls_client_auth") then true else
  Nat.eqb (b2n (negb (v_empty (gstr "tls_client_auth_subject_dn" m)))
           + b2n (negb (v_empty (gstr "tls_client_auth_san_dns" m)))
           + b2n (negb (v_empty (gstr "tls_client_auth_san_ip" m)))) 1.
Definition validateGrantTypes cfg m := forallb (fun g => mem g (d_grants cfg)) (glist "grant_types" m).
Definition validateClientCredentialsGrantType (cfg : dcfg) m :=
  negb (andb (mem "client_credentials" (glist "grant_types" m)) (v_is (gstr "token_endpoint_auth_method" m) "none")).
Definition validateRedirectURIS (cfg : dcfg) m := forallb redirect_uri_ok (glist "redirect_uris" m).
Definition validateRequestURIS cfg m :=
  if negb (d_jar_by_ref cfg) then true else forallb https_url_ok (glist "request_uris" m).
Definition validateResponseTypes cfg m := forallb (fun r => mem r (d_resp_types cfg)) (glist "response_types" m).
Definition validateImplicitResponseTypes (cfg : dcfg) m :=
  if mem "implicit" (glist "grant_types" m) then true
  else forallb (fun r => negb (rt_is_implicit r)) (glist "response_types" m).
Definition validateResponseTypeCode (cfg : dcfg) m :=
  if mem "authorization_code" (glist "grant_types" m) then true
  else forallb (fun r => negb (rt_contains r "code")) (glist "response_types" m).
Definition validateOpenIDScopeIfRequired cfg m :=
  if negb (d_openid_required cfg) then true else contains_openid (v_str (gstr "scope" m)).
Definition validateIDTokenSigAlg cfg m := opt_in (gstr "id_token_signed_response_alg" m) (d_idt_sig_algs cfg).
(* the three-step shape shared by the four *EncAlgs validators *)
Definition enc_algs_ok (m : meta) (alg_key enc_key : string) (key_algs content_algs : list string) : bool :=
  andb (opt_in (gstr alg_key m) key_algs)
  (andb (negb (andb (negb (v_empty (gstr enc_key m))) (v_empty (gstr alg_key m))))
        (opt_in (gstr enc_key m) content_algs)).
Definition validateIDTokenEncAlgs cfg m :=
  if negb (d_idt_enc cfg) then true else
  enc_algs_ok m "id_token_encrypted_response_alg" "id_token_encrypted_response_enc" (d_idt_key_algs cfg) (d_idt_content_algs cfg).
Definition validateUserInfoSigAlg cfg m := opt_in (gstr "userinfo_signed_response_alg" m) (d_ui_sig_algs cfg).
Definition validateUserInfoEncAlgs cfg m :=
  if negb (d_ui_enc cfg) then true else
  enc_algs_ok m "userinfo_encrypted_response_alg" "userinfo_encrypted_response_enc" (d_ui_key_algs cfg) (d_ui_content_algs cfg).
Definition validateJARSigAlg cfg m :=
  if negb (d_jar cfg) then true else opt_in (gstr "request_object_signing_alg" m) (d_jar_algs cfg).
Definition validateJAREncAlgs cfg m :=
  if negb (d_jar_enc cfg) then true else
  enc_algs_ok m "request_object_encryption_alg" "request_object_encryption_enc" (d_jar_key_algs cfg) (d_jar_content_algs cfg).
Definition validateJARMSigAlg cfg m :=
  if negb (d_jarm cfg) then true else opt_in (gstr "authorization_signed_response_alg" m) (d_jarm_algs cfg).
(* sic: gated by JARMIsEnabled, not by JARMEncIsEnabled *)
Definition validateJARMEncAlgs cfg m :=
  if negb (d_jarm cfg) then true else
  enc_algs_ok m "authorization_encrypted_response_alg" "authorization_encrypted_response_enc" (d_jarm_key_algs cfg) (d_jarm_content_algs cfg).
(* json.Unmarshal into a JSONWebKeySet, then IsPublic && Valid for every key: the catalogue *)
Definition jwks_value_ok (v : jval) : bool :=
  match v with JObj 2 => false | JObj _ => true | JNull => true | _ => false end.
Definition validatePublicJWKS (cfg : dcfg) m :=
  match dget "jwks" (m_known m) with None => true | Some v => jwks_value_ok v end.
Definition validatePublicJWKSURI (cfg : dcfg) (m : meta) := true.
Definition validateAuthorizationDetailTypes cfg m :=
  if negb (d_auth_details cfg) then true
  else forallb (fun t => mem t (d_auth_detail_types cfg)) (glist "authorization_data_types" m).
Definition validateSubjectIdentifierType cfg m := opt_in (gstr "subject_type" m) (d_sub_types cfg).

Fixpoint dedup (l : list string) : list string :=
  match l with [] => [] | x :: r => if mem x r then dedup r else x :: dedup r end.
Definition uses_front_channel (m : meta) : bool :=
  orb (mem "authorization_code" (glist "grant_types" m)) (mem "implicit" (glist "grant_types" m)).
Definition validateSubIdentifierPairwise cfg m :=
  let st := gstr "subject_type" m in
  let pairwise := orb (andb (v_empty st) (d_default_pairwise cfg)) (v_is st "pairwise") in
  if negb pairwise then true else
  andb (if andb (v_empty (gstr "sector_identifier_uri" m)) (uses_front_channel m)
        then Nat.eqb (List.length (dedup (map url_host (glist "redirect_uris" m)))) 1 else true)
       (if andb (mem "urn:openid:params:grant-type:ciba" (glist "grant_types" m))
                (negb (v_is (gstr "backchannel_token_delivery_mode" m) "push"))
        then andb (negb (v_empty (gstr "jwks_uri" m)))
                  (orb (v_is (gstr "token_endpoint_auth_method" m) "private_key_jwt")
                  (orb (v_is (gstr "token_endpoint_auth_method" m) "self_signed_tls_client_auth")
                       (negb (v_empty (gstr "backchannel_authentication_request_signing_alg" m)))))
        else true).
(* the harness's HTTP client answers 404 to every sector_identifier_uri: a registration naming one
   is refused (either by validateURL or because the document cannot be fetched) *)
Definition validateSectorIdentifierURI (cfg : dcfg) m := v_empty (gstr "sector_identifier_uri" m).
Definition has_ciba (m : meta) : bool := mem "urn:openid:params:grant-type:ciba" (glist "grant_types" m).
Definition validateCIBAGrant (cfg : dcfg) m :=
  if negb (has_ciba m) then true else negb (v_is (gstr "token_endpoint_auth_method" m) "none").
Definition validateCIBATokenDeliveryModes cfg m :=
  if negb (has_ciba m) then true else
  andb (negb (v_empty (gstr "backchannel_token_delivery_mode" m)))
       (v_in (gstr "backchannel_token_delivery_mode" m) (d_ciba_modes cfg)).
Definition validateCIBATokenNotificationEndpoint (cfg : dcfg) m :=
  if negb (has_ciba m) then true else
  let mode := gstr "backchannel_token_delivery_mode" m in
  if negb (orb (v_is mode "ping") (v_is mode "push")) then true else
  andb (negb (v_empty (gstr "backchannel_client_notification_endpoint" m)))
       (https_url_ok (v_str (gstr "backchannel_client_notification_endpoint" m))).
Definition validateCIBAUserCodeParam cfg m :=
  if negb (has_ciba m) then true else
  negb (andb (negb (d_ciba_user_code cfg)) (gbool "backchannel_user_code_parameter" m)).
Definition validateCIBAJARAlgs cfg m :=
  if negb (d_ciba_jar cfg) then true
  else opt_in (gstr "backchannel_authentication_request_signing_alg" m) (d_ciba_jar_algs cfg).

(* validate: the 35 validators in the Go order; every failure is invalid_client_metadata *)
Definition validators : list (dcfg -> meta -> bool) :=
  [ validateTokenAuthnMethod; validateTokenIntrospection; validateTokenRevocation; validateScopes;
    validatePrivateKeyJWT; validateSecretJWT; validateSelfSignedTLSAuthn; validateTLSAuthn;
    validateGrantTypes; validateClientCredentialsGrantType; validateRedirectURIS; validateRequestURIS;
    validateResponseTypes; validateImplicitResponseTypes; validateResponseTypeCode;
    validateOpenIDScopeIfRequired; validateIDTokenSigAlg; validateIDTokenEncAlgs; validateUserInfoSigAlg;
    validateUserInfoEncAlgs; validateJARSigAlg; validateJAREncAlgs; validateJARMSigAlg; validateJARMEncAlgs;
    validatePublicJWKS; validatePublicJWKSURI; validateAuthorizationDetailTypes;
    validateSubjectIdentifierType; validateSubIdentifierPairwise; validateSectorIdentifierURI;
    validateCIBAGrant; validateCIBATokenDeliveryModes; validateCIBATokenNotificationEndpoint;
    validateCIBAUserCodeParam; validateCIBAJARAlgs ].
Definition validate (cfg : dcfg) (m : meta) : bool := forallb (fun v => v cfg m) validators.

(* ------------------------------------------------------------------------------------------ *)
(* The client store and util.go                                                                 *)
(* ------------------------------------------------------------------------------------------ *)
Record dclient := mkDClient {
  dc_id : id;
  dc_secret : id;      (* Client.Secret: the plaintext, kept for client_secret_jwt *)
  dc_hsecret : id;     (* Client.HashedSecret: bcrypt of this handle's string; 0 = "" *)
  dc_htoken : id;      (* Client.HashedRegistrationAccessToken: bcrypt of this handle's string *)
  dc_meta : meta
}.
Definition dstate := list dclient.

Fixpoint dfind (cid : id) (s : dstate) : option dclient :=
  match s with [] => None | c :: r => if ideq cid (dc_id c) then Some c else dfind cid r end.
Fixpoint ddel (cid : id) (s : dstate) : dstate :=
  match s with [] => [] | c :: r => if ideq cid (dc_id c) then ddel cid r else c :: ddel cid r end.
Definition dsave (c : dclient) (s : dstate) : dstate := c :: ddel (dc_id c) s.

(* the Authorization header *)
Inductive ptoken := PAbsent | PMalformed | PTok (h : id).   (* PTok 0: "Bearer " with an empty token *)
Definition bearer (t : ptoken) : option id := match t with PTok h => Some h | _ => None end.

(* bcrypt.CompareHashAndPassword(stored hash, presented) == nil *)
Definition hash_matches (stored presented : id) : bool :=
  andb (negb (is_nil stored)) (andb (negb (is_nil presented)) (ideq stored presented)).
Definition isRegistrationAccessTokenValid (c : dclient) (tok : id) : bool := hash_matches (dc_htoken c) tok.

Definition protected (s : dstate) (cid tok : id) : dclient + ecode :=
  match dfind cid s with
  | None => inr EInvalidRequest
  | Some c => if isRegistrationAccessTokenValid c tok then inl c else inr EAccessDenied
  end.

(* the embedder's HandleDynamicClientFunc, scripted by the history *)
Inductive hook := HkNone | HkReject | HkSet (k : string) (v : jval).
Definition apply_hook (h : hook) (m : meta) : option meta :=
  match h with
  | HkNone => Some m
  | HkReject => None
  | HkSet k v => Some (mkMeta (dput k v (m_known m)) (m_custom m))
  end.

Inductive dcr_obs :=
  | DErr (e : ecode)
  | DDoc (created : bool) (d : doc)    (* 201 / 200 with the response document *)
  | DDeleted                           (* 204 *)
  | DTok (ok : bool).                  (* /token answered with an access token, or refused *)

(* modifyAndSaveClient: setID, setRegistrationToken, setSecret, SaveClient, response *)
Definition needs_hashed_secret (cfg : dcfg) (m : meta) : bool :=
  orb (uses_method cfg m "client_secret_basic") (uses_method cfg m "client_secret_post").
Definition needs_plain_secret (cfg : dcfg) (m : meta) : bool := uses_method cfg m "client_secret_jwt".

Definition modify_and_save (cfg : dcfg) (s : dstate) (n : nat) (created : bool) (c : dclient) : dstate * dcr_obs :=
  let cid := if is_nil (dc_id c) then mint n KClientId else dc_id c in
  let keep := andb (negb (is_nil (dc_htoken c))) (negb (d_rotation cfg)) in
  let tok := if keep then nil_id else mint n KRegToken in
  let htok := if keep then dc_htoken c else mint n KRegToken in
  let hashed := needs_hashed_secret cfg (dc_meta c) in
  let plain := needs_plain_secret cfg (dc_meta c) in
  let secret := if orb hashed plain then mint n KSecret else nil_id in
  let c' := mkDClient cid (if plain then secret else nil_id) (if hashed then secret else nil_id) htok (dc_meta c) in
  (dsave c' s, DDoc created (response_doc cid secret tok (dc_meta c))).

(* validate; hook; validate — shared by create and update *)
Definition vetted (cfg : dcfg) (hk : hook) (m : meta) : meta + ecode :=
  if negb (validate cfg m) then inr EInvalidClientMetadata else
  match apply_hook hk m with
  | None => inr EInvalidClientMetadata
  | Some m' => if negb (validate cfg m') then inr EInvalidClientMetadata else inl m'
  end.

Definition parse_body (b : option doc) : option meta :=
  match b with None => None | Some d => unmarshal d end.

Definition create (cfg : dcfg) (s : dstate) (n : nat) (m : meta) (hk : hook) : dstate * dcr_obs :=
  match vetted cfg hk m with
  | inr e => (s, DErr e)
  | inl m' => modify_and_save cfg s n true (mkDClient nil_id nil_id nil_id nil_id m')
  end.

Definition update (cfg : dcfg) (s : dstate) (n : nat) (cid tok : id) (m : meta) (hk : hook) : dstate * dcr_obs :=
  match protected s cid tok with
  | inr e => (s, DErr e)
  | inl c =>
      match vetted cfg hk m with
      | inr e => (s, DErr e)
      | inl m' => modify_and_save cfg s n false (mkDClient (dc_id c) (dc_secret c) (dc_hsecret c) (dc_htoken c) m')
      end
  end.

Definition fetch (s : dstate) (cid tok : id) : dcr_obs :=
  match protected s cid tok with
  | inr e => DErr e
  | inl c => DDoc false (response_doc (dc_id c) nil_id nil_id (dc_meta c))
  end.

Definition remove (s : dstate) (cid tok : id) : dstate * dcr_obs :=
  match protected s cid tok with
  | inr e => (s, DErr e)
  | inl _ => (ddel cid s, DDeleted)
  end.

(* POST /token, grant_type=client_credentials, no scope, the secret presented by post or basic:
   generateGrant's grant-type guard, clientutil.Authenticated, validateClientCredentialsGrantRequest *)
Definition use_secret (cfg : dcfg) (s : dstate) (cid secret : id) (basic : bool) : dcr_obs :=
  if negb (mem "client_credentials" (d_grants cfg)) then DTok false else
  match dfind cid s with
  | None => DTok false
  | Some c =>
      let meth := gstr "token_endpoint_auth_method" (dc_meta c) in
      let authenticated :=
        if v_is meth "client_secret_post" then andb (negb basic) (hash_matches (dc_hsecret c) secret)
        else if v_is meth "client_secret_basic" then andb basic (hash_matches (dc_hsecret c) secret)
        else false in   (* "none" is never registered together with client_credentials; other methods need other credentials *)
      DTok (andb authenticated (mem "client_credentials" (glist "grant_types" (dc_meta c))))
  end.

(* ------------------------------------------------------------------------------------------ *)
(* api.go: operations, one step, histories                                                      *)
(* ------------------------------------------------------------------------------------------ *)
Inductive dcr_op :=
  | Create (b : option doc) (hk : hook)          (* None: a body that is not a JSON object *)
  | Read (cid : id) (t : ptoken)
  | Update (cid : id) (t : ptoken) (b : option doc) (hk : hook)
  | Delete (cid : id) (t : ptoken)
  | UseSecret (cid : id) (secret : id) (basic : bool).

Definition dstep (cfg : dcfg) (s : dstate) (n : nat) (o : dcr_op) : dstate * dcr_obs :=
  match o with
  | Create b hk =>
      match parse_body b with
      | None => (s, DErr EInvalidRequest)
      | Some m => create cfg s n m hk
      end
  | Update cid t b hk =>
      match parse_body b with
      | None => (s, DErr EInvalidRequest)
      | Some m =>
          match bearer t with
          | None => (s, DErr EAccessDenied)
          | Some tok => update cfg s n cid tok m hk
          end
      end
  | Read cid t =>
      match bearer t with
      | None => (s, DErr EAccessDenied)
      | Some tok => (s, fetch s cid tok)
      end
  | Delete cid t =>
      match bearer t with
      | None => (s, DErr EAccessDenied)
      | Some tok => remove s cid tok
      end
  | UseSecret cid secret basic => (s, use_secret cfg s cid secret basic)
  end.

Fixpoint drun_from (cfg : dcfg) (s : dstate) (n : nat) (ops : list dcr_op) : dstate * list dcr_obs :=
  match ops with
  | [] => (s, [])
  | o :: r =>
      let '(s1, x) := dstep cfg s n o in
      let '(s2, xs) := drun_from cfg s1 (S n) r in
      (s2, x :: xs)
  end.
Definition drun (cfg : dcfg) (ops : list dcr_op) : dstate * list dcr_obs := drun_from cfg [] 0 ops.

(* what an operation addresses, and whether an observation is an acceptance *)
Definition op_target (o : dcr_op) : option (id * ptoken) :=
  match o with
  | Read cid t | Delete cid t | Update cid t _ _ => Some (cid, t)
  | _ => None end.
Definition dcr_accepted (x : dcr_obs) : bool :=
  match x with DDoc _ _ | DDeleted | DTok true => true | _ => false end.

(* the capability clauses of the property, as a decision procedure: each capability field the
   registration asks for is among those enabled on the server (algorithms and authorization-detail
   types only for features the server has switched on) *)
Definition caps_ok_b (cfg : dcfg) (m : meta) : bool :=
  andb (forallb (fun g => mem g (d_grants cfg)) (glist "grant_types" m))
  (andb (forallb (fun r => mem r (d_resp_types cfg)) (glist "response_types" m))
  (andb (opt_in (gstr "token_endpoint_auth_method" m) (d_auth_methods cfg))
  (andb (opt_in (gstr "introspection_endpoint_auth_method" m) (d_intro_methods cfg))
  (andb (opt_in (gstr "revocation_endpoint_auth_method" m) (d_revoc_methods cfg))
  (andb (forallb (fun s => mem s (d_scopes cfg)) (split_with_spaces (v_str (gstr "scope" m))))
  (andb (opt_in (gstr "subject_type" m) (d_sub_types cfg))
  (andb (if has_ciba m then v_in (gstr "backchannel_token_delivery_mode" m) (d_ciba_modes cfg) else true)
  (andb (opt_in (gstr "id_token_signed_response_alg" m) (d_idt_sig_algs cfg))
  (andb (opt_in (gstr "userinfo_signed_response_alg" m) (d_ui_sig_algs cfg))
  (andb (if d_idt_enc cfg then andb (opt_in (gstr "id_token_encrypted_response_alg" m) (d_idt_key_algs cfg))
                                    (opt_in (gstr "id_token_encrypted_response_enc" m) (d_idt_content_algs cfg)) else true)
  (andb (if d_ui_enc cfg then andb (opt_in (gstr "userinfo_encrypted_response_alg" m) (d_ui_key_algs cfg))
                                   (opt_in (gstr "userinfo_encrypted_response_enc" m) (d_ui_content_algs cfg)) else true)
  (andb (if d_jar cfg then opt_in (gstr "request_object_signing_alg" m) (d_jar_algs cfg) else true)
  (andb (if d_jar_enc cfg then andb (opt_in (gstr "request_object_encryption_alg" m) (d_jar_key_algs cfg))
                                    (opt_in (gstr "request_object_encryption_enc" m) (d_jar_content_algs cfg)) else true)
  (andb (if d_jarm cfg then andb (opt_in (gstr "authorization_signed_response_alg" m) (d_jarm_algs cfg))
                           (andb (opt_in (gstr "authorization_encrypted_response_alg" m) (d_jarm_key_algs cfg))
                                 (opt_in (gstr "authorization_encrypted_response_enc" m) (d_jarm_content_algs cfg))) else true)
  (andb (if d_ciba_jar cfg then opt_in (gstr "backchannel_authentication_request_signing_alg" m) (d_ciba_jar_algs cfg) else true)
  (andb (alg_for m "token_endpoint_auth_method" "token_endpoint_auth_signing_alg" "private_key_jwt" (d_pkjwt_algs cfg))
  (andb (alg_for m "token_endpoint_auth_method" "token_endpoint_auth_signing_alg" "client_secret_jwt" (d_secretjwt_algs cfg))
        (if d_auth_details cfg then forallb (fun t => mem t (d_auth_detail_types cfg)) (glist "authorization_data_types" m) else true)))))))))))))))))).

