(* Types.v — the data the handlers compute on.
   Opaque server-minted strings are handles (N); 0 stands for the empty string "".
   Strings whose structure the code inspects (scopes, redirect URIs, response
   types/modes) stay strings. *)
From Verif Require Import Base Scope.
From RecordUpdate Require Export RecordSet.
Export RecordSetNotations.

Definition id := N.
Definition nil_id : id := 0%N.
Definition is_nil (x : id) : bool := N.eqb x 0.
Definition ideq (a b : id) : bool := N.eqb a b.

(* Handle kinds.  A handle minted by the operation with index n (0-based) is
   (n+1)*32 + kind; the harness names the concrete strings it sees the same way.
   Handles >= 2^40 are never-issued values. *)
Inductive kind := KAtOpaque | KAtJwt | KRefresh | KCode | KCallback | KParUri | KAuthReq
                | KGrantId | KSessId | KClientId | KSecret | KRegToken | KJti.
Definition kind_ix (k : kind) : N :=
  match k with KAtOpaque => 1 | KAtJwt => 2 | KRefresh => 3 | KCode => 4 | KCallback => 5
  | KParUri => 6 | KAuthReq => 7 | KGrantId => 8 | KSessId => 9 | KClientId => 10
  | KSecret => 11 | KRegToken => 12 | KJti => 13 end%N.
Definition mint (n : nat) (k : kind) : id := ((N.of_nat n + 1) * 32 + kind_ix k)%N.
Definition kind_of (h : id) : N := (h mod 32)%N.
Definition is_kind (k : kind) (h : id) : bool :=
  andb (N.eqb (kind_of h) (kind_ix k)) (andb (N.leb 32 h) (N.ltb h (2 ^ 40))).

Inductive grant_type := GClientCredentials | GAuthorizationCode | GRefreshToken | GImplicit | GJwtBearer | GCiba.
Definition gt_eqb (a b : grant_type) : bool :=
  match a, b with
  | GClientCredentials, GClientCredentials | GAuthorizationCode, GAuthorizationCode
  | GRefreshToken, GRefreshToken | GImplicit, GImplicit | GJwtBearer, GJwtBearer | GCiba, GCiba => true
  | _, _ => false end.
Lemma gt_eqb_eq a b : gt_eqb a b = true <-> a = b.
Proof. destruct a, b; simpl; split; congruence. Qed.
Definition has_grant (g : grant_type) (l : list grant_type) : bool := existsb (gt_eqb g) l.

Inductive profile := POpenID | PFapi1 | PFapi2.
Definition is_fapi (p : profile) : bool := match p with POpenID => false | _ => true end.

Inductive ciba_mode := CibaNone | CibaPoll | CibaPing | CibaPush.
Definition ciba_is_notification (m : ciba_mode) : bool := match m with CibaPing | CibaPush => true | _ => false end.
Definition ciba_is_pollable (m : ciba_mode) : bool := match m with CibaPing | CibaPoll => true | _ => false end.

(* goidc.ErrorCode *)
Inductive ecode :=
  | EAccessDenied | EInvalidClient | EInvalidGrant | EInvalidRequest | EUnauthorizedClient
  | EInvalidScope | EInvalidAuthDetails | EUnsupportedGrantType | EInvalidRequestObject
  | EInvalidToken | EInternalError | EInvalidTarget | EAuthPending | ESlowDown | EExpiredToken
  | EInvalidClientMetadata | ERequestURINotSupported | EInvalidRedirectURI
  | ELoginRequired | EOther.
Definition ecode_ix (e : ecode) : N :=
  match e with
  | EAccessDenied => 1 | EInvalidClient => 2 | EInvalidGrant => 3 | EInvalidRequest => 4
  | EUnauthorizedClient => 5 | EInvalidScope => 6 | EInvalidAuthDetails => 7
  | EUnsupportedGrantType => 8 | EInvalidRequestObject => 9 | EInvalidToken => 10
  | EInternalError => 11 | EInvalidTarget => 12 | EAuthPending => 13 | ESlowDown => 14
  | EExpiredToken => 15 | EInvalidClientMetadata => 16 | ERequestURINotSupported => 17
  | EInvalidRedirectURI => 18 | ELoginRequired => 19 | EOther => 20 end%N.
Definition ecode_eqb (a b : ecode) : bool := N.eqb (ecode_ix a) (ecode_ix b).

(* PKCE strings as terms: raw strings and their SHA-256 thumbprints (ideal: injective, disjoint). *)
Inductive pk := PkEmpty | PkRaw (n : N) (len_ok : bool) | PkHash (p : pk).
Fixpoint pk_eqb (a b : pk) : bool :=
  match a, b with
  | PkEmpty, PkEmpty => true
  | PkRaw n _, PkRaw m _ => N.eqb n m
  | PkHash p, PkHash q => pk_eqb p q
  | _, _ => false end.
Definition pk_is_empty (p : pk) : bool := match p with PkEmpty => true | _ => false end.
(* 43 <= len <= 128 : a thumbprint is 43 chars, a raw string carries its own bit *)
Definition pk_len_ok (p : pk) : bool := match p with PkEmpty => false | PkRaw _ b => b | PkHash _ => true end.

(* RFC 9396: an authorization detail is its `type` plus an opaque payload (everything else in the JSON
   object); the code only ever reads the type, the embedder's compare function may read all of it. *)
Record adetail := mkDetail { ad_type : string; ad_payload : N }.
Definition ad_eqb (a b : adetail) : bool := andb (seqb (ad_type a) (ad_type b)) (N.eqb (ad_payload a) (ad_payload b)).
Definition ad_mem (d : adetail) (l : list adetail) : bool := existsb (ad_eqb d) l.
Definition ad_subset (a b : list adetail) : bool := forallb (fun d => ad_mem d b) a.
Definition ad_types (l : list adetail) : list string := map ad_type l.
(* every detail of l has a type among `supported` *)
Definition types_supported (supported : list string) (l : list adetail) : bool :=
  forallb (fun d => mem (ad_type d) supported) l.
Fixpoint ad_list_eqb (a b : list adetail) : bool :=
  match a, b with
  | [], [] => true
  | x :: a', y :: b' => andb (ad_eqb x y) (ad_list_eqb a' b')
  | _, _ => false
  end.
(* a request-side list: None = the parameter is absent (Go: nil slice), Some [] = `[]` was sent *)
Definition opt_details := option (list adetail).

(* CompareAuthDetailsFunc: the embedder's function (granted, requested) -> error.  The harness installs
   one of these shapes; CmpSubset (every requested detail equals a granted one) is the intended use. *)
Inductive details_cmp := CmpNone (* no function: every comparison fails *) | CmpSubset
  | CmpAcceptAll (* a function that never objects *) | CmpTypes (* requested types among the granted types *).

Record client := mkClient {
  c_id : id;
  c_public : bool;                  (* TokenAuthnMethod == none *)
  c_grants : list grant_type;
  c_resp_types : list string;
  c_redirects : list string;
  c_scopes : string;
  c_ciba_mode : ciba_mode;
  c_par_required : bool;
  c_jar_required : bool;
  c_jwt_tokens : bool;              (* the harness's TokenOptionsFunc answers JWT for this client *)
  c_pairwise : bool;
  c_dpop_required : bool;
  c_tls_required : bool;
  c_jarm_alg : bool;                (* JARMSigAlg != "" *)
  c_notif_ep : id;
  c_user_code : bool;
  c_auth_detail_types : option (list string)   (* AuthDetailTypes (authorization_data_types); None = nil: any type *)
}.
#[export] Instance eta_client : Settable _ := settable! mkClient
  <c_id; c_public; c_grants; c_resp_types; c_redirects; c_scopes; c_ciba_mode; c_par_required;
   c_jar_required; c_jwt_tokens; c_pairwise; c_dpop_required; c_tls_required; c_jarm_alg; c_notif_ep; c_user_code;
   c_auth_detail_types>.

(* goidc.AuthorizationParameters, the members the handlers look at *)
Record params := mkParams {
  p_request_uri : id;        (* only pushed request_uris here; 0 = absent *)
  p_redirect : string;
  p_resp_mode : string;
  p_resp_type : string;
  p_scopes : string;
  p_state : string;
  p_nonce : string;
  p_challenge : pk;
  p_method : string;
  p_dpop_jkt : id;
  p_login_hint : string;
  p_notif_token : id;
  p_user_code : string;
  p_resources : list string; (* the `resource` parameters (RFC 8707); [] = absent (Go: nil) *)
  p_auth_details : opt_details   (* the `authorization_details` parameter (RFC 9396) *)
}.
#[export] Instance eta_params : Settable _ := settable! mkParams
  <p_request_uri; p_redirect; p_resp_mode; p_resp_type; p_scopes; p_state; p_nonce; p_challenge;
   p_method; p_dpop_jkt; p_login_hint; p_notif_token; p_user_code; p_resources; p_auth_details>.
Definition empty_params : params :=
  mkParams 0%N "" "" "" "" "" "" PkEmpty "" 0%N "" 0%N "" [] None.

(* goidc.Resources.  A nil slice and an empty one are the same value here: form parsing yields nil or
   a non-empty slice, `omitempty` drops empty ones, and the scripted embedder passes nil for "none". *)
Definition no_res (l : list string) : bool := match l with [] => true | _ => false end.
(* cmp.Equal on two Resources values *)
Fixpoint res_eqb (a b : list string) : bool :=
  match a, b with
  | [], [] => true
  | x :: a', y :: b' => andb (seqb x y) (res_eqb a' b')
  | _, _ => false
  end.

Record asession := mkASession {
  a_id : id;
  a_client : id;
  a_subject : string;
  a_par : id;               (* PushedAuthReqID *)
  a_cb : id;                (* CallbackID *)
  a_ciba : id;              (* CIBAAuthID *)
  a_code : id;              (* AuthCode *)
  a_granted : string;       (* GrantedScopes *)
  a_jkt : id;
  a_x5t : id;
  a_expires : Z;
  a_steps : N;              (* what the scripted policy keeps in session.Storage *)
  a_nonce_claim : string;   (* AdditionalIDTokenClaims["nonce"] *)
  a_params : params;
  a_granted_res : list string;  (* GrantedResources *)
  a_granted_details : list adetail   (* GrantedAuthDetails *)
}.
#[export] Instance eta_asession : Settable _ := settable! mkASession
  <a_id; a_client; a_subject; a_par; a_cb; a_ciba; a_code; a_granted; a_jkt; a_x5t; a_expires;
   a_steps; a_nonce_claim; a_params; a_granted_res; a_granted_details>.

Record gsession := mkGSession {
  g_id : id;
  g_token : id;             (* TokenID: the opaque token itself, or the jti of a JWT token *)
  g_refresh : id;
  g_last_exp : Z;           (* LastTokenExpiresAtTimestamp *)
  g_expires : Z;            (* ExpiresAtTimestamp *)
  g_code : id;              (* AuthorizationCode *)
  g_type : grant_type;
  g_subject : string;
  g_client : id;
  g_active : string;        (* ActiveScopes *)
  g_granted : string;       (* GrantedScopes *)
  g_jkt : id;
  g_x5t : id;
  g_active_res : list string;   (* ActiveResources: the `aud` of the current access token *)
  g_granted_res : list string;  (* GrantedResources *)
  g_active_details : list adetail;   (* ActiveAuthDetails: what the current access token carries *)
  g_granted_details : list adetail   (* GrantedAuthDetails *)
}.
#[export] Instance eta_gsession : Settable _ := settable! mkGSession
  <g_id; g_token; g_refresh; g_last_exp; g_expires; g_code; g_type; g_subject; g_client;
   g_active; g_granted; g_jkt; g_x5t; g_active_res; g_granted_res; g_active_details; g_granted_details>.

(* ShouldIssueRefreshTokenFunc: the embedder's function (client, grant info) -> bool.  The harness
   installs one of these; they are the shapes the library's documentation and examples use, and the
   last two are NOT constant over the life of a grant (a refresh changes the grant type to
   refresh_token and may narrow the active scopes). *)
Inductive issue_pol := IssueNever (* no function set *) | IssueAlways
  | IssueIfOffline (* offline_access among the ACTIVE scopes *) | IssueCodeOnly (* grant type authorization_code *).

(* The configuration: the fields of oidc.Configuration the modelled handlers read. *)
Record config := mkConfig {
  cf_profile : profile;
  cf_grants : list grant_type;
  cf_scopes : list scope;
  cf_resp_types : list string;
  cf_resp_modes : list string;
  cf_openid_required : bool;
  cf_session_timeout : Z;
  cf_token_lifetime : Z;            (* what the harness's TokenOptionsFunc answers *)
  cf_issue_refresh : issue_pol;     (* ShouldIssueRefreshTokenFunc *)
  cf_refresh_rotation : bool;
  cf_refresh_lifetime : Z;
  cf_pkce_enabled : bool;
  cf_pkce_required : bool;
  cf_pkce_default : string;
  cf_pkce_methods : list string;
  cf_par_enabled : bool;
  cf_par_required : bool;
  cf_par_lifetime : Z;
  cf_par_unregistered : bool;
  cf_jar_enabled : bool;
  cf_jar_required : bool;
  cf_jar_by_reference : bool;
  cf_jarm_enabled : bool;
  cf_ciba_enabled : bool;
  cf_ciba_lifetime : Z;
  cf_ciba_user_code : bool;
  cf_ciba_jar_enabled : bool;
  cf_ciba_jar_required : bool;
  cf_dpop_enabled : bool;
  cf_dpop_required : bool;
  cf_mtls_enabled : bool;
  cf_tls_binding_enabled : bool;
  cf_tls_binding_required : bool;
  cf_binding_required : bool;
  cf_introspection : bool;
  cf_revocation : bool;
  cf_dcr : bool;
  cf_dcr_rotation : bool;
  cf_resource_required : bool;
  cf_issuer_param : bool;
  cf_jwt_bearer_authn_required : bool;
  cf_prefix : string;
  cf_resource_enabled : bool;       (* ResourceIndicatorsIsEnabled *)
  cf_resources : list string;       (* Resources: the resource servers the provider knows *)
  cf_auth_details_enabled : bool;   (* AuthDetailsIsEnabled *)
  cf_auth_detail_types : list string;  (* AuthDetailTypes: the types the server supports *)
  cf_details_cmp : details_cmp      (* CompareAuthDetailsFunc *)
}.
#[export] Instance eta_config : Settable _ := settable! mkConfig
  <cf_profile; cf_grants; cf_scopes; cf_resp_types; cf_resp_modes; cf_openid_required;
   cf_session_timeout; cf_token_lifetime; cf_issue_refresh; cf_refresh_rotation; cf_refresh_lifetime;
   cf_pkce_enabled; cf_pkce_required; cf_pkce_default; cf_pkce_methods;
   cf_par_enabled; cf_par_required; cf_par_lifetime; cf_par_unregistered;
   cf_jar_enabled; cf_jar_required; cf_jar_by_reference; cf_jarm_enabled;
   cf_ciba_enabled; cf_ciba_lifetime; cf_ciba_user_code; cf_ciba_jar_enabled; cf_ciba_jar_required;
   cf_dpop_enabled; cf_dpop_required; cf_mtls_enabled; cf_tls_binding_enabled; cf_tls_binding_required;
   cf_binding_required; cf_introspection; cf_revocation; cf_dcr; cf_dcr_rotation;
   cf_resource_required; cf_issuer_param; cf_jwt_bearer_authn_required; cf_prefix;
   cf_resource_enabled; cf_resources; cf_auth_details_enabled; cf_auth_detail_types; cf_details_cmp>.

(* ResponseType.Contains / IsImplicit; ResponseMode predicates *)
Definition rt_contains (rt part : string) : bool := mem part (split_sp rt).
Definition rt_is_implicit (rt : string) : bool := orb (rt_contains rt "id_token") (rt_contains rt "token").
Definition rm_is_jarm (m : string) : bool :=
  orb (seqb m "query.jwt") (orb (seqb m "fragment.jwt") (orb (seqb m "form_post.jwt") (seqb m "jwt"))).
Definition rm_is_plain (m : string) : bool :=
  orb (seqb m "query") (orb (seqb m "fragment") (seqb m "form_post")).
Definition rm_is_query (m : string) : bool := orb (seqb m "query") (seqb m "query.jwt").
