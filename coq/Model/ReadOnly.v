(* ReadOnly.v — read-only endpoints, as definitions over the existing model:
   - reads_only: a program whose storage calls are all lookups (no Save, no Delete, no
     DeleteByAuthorizationCode) and that never writes in place (no Touch) to an object the
     storage may still hold;
   - the operations served by the read-only handlers of System.handler: token introspection,
     userinfo, and the two TokenInfo helpers of the provider. *)
From Verif Require Import Base Scope Types Prog Pop Token Authorize System.
Local Open Scope N_scope.

Fixpoint reads_only {A} (p : prog A) : Prop :=
  match p with
  | Ret _ => True
  | Do c k => is_read c = true /\ forall r, reads_only (k r)
  | Touch _ _ => False
  end.

Definition read_only_op (o : op) : bool :=
  match o with
  | OpIntrospect _ | OpUserInfo _ | OpTokenInfo _ | OpTokenInfoReq _ => true
  | _ => false
  end.
