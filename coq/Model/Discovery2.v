(* Discovery2.v — the discovery document over config2: every method / algorithm list member of
   internal/discovery/model.go (openIDConfiguration) with the guard under which
   internal/discovery/util.go (oidcConfig) assigns it and its omitempty rule, and the run-time
   gates that consult the same lists:
     internal/oidc/context.go  clientAuthnSigAlgs         (the *_auth_signing_alg_values_supported members)
     internal/clientutil/authn.go  authnSigAlgs, privateKeyJWTSigAlgs, secretJWTSigAlgs
                                   (the algorithms jwt.ParseSigned lets through at an endpoint)
     internal/token/make.go MakeIDToken, internal/userinfo/util.go, internal/authorize/redirect.go
                                   createJARMResponse (whether and how an artifact is encrypted / signed).
   The members that are not lists (endpoints, flags, grant/response types ...) are those of
   Discovery.v over the flag side c2_base. *)
From Verif Require Import Base Scope Types Config Discovery Config2.

Inductive lmember :=
  | LTokenMethods | LIntroMethods | LRevocMethods
  | LTokenSigAlgs | LIntroSigAlgs | LRevocSigAlgs
  | LIdtSig | LIdtKeyEnc | LIdtContentEnc
  | LUiSig | LUiKeyEnc | LUiContentEnc
  | LJarSig | LJarKeyEnc | LJarContentEnc
  | LJarmSig | LJarmKeyEnc | LJarmContentEnc
  | LDpopSig | LCibaJarSig.

Definition all_lmembers : list lmember :=
  [LTokenMethods; LIntroMethods; LRevocMethods; LTokenSigAlgs; LIntroSigAlgs; LRevocSigAlgs;
   LIdtSig; LIdtKeyEnc; LIdtContentEnc; LUiSig; LUiKeyEnc; LUiContentEnc;
   LJarSig; LJarKeyEnc; LJarContentEnc; LJarmSig; LJarmKeyEnc; LJarmContentEnc; LDpopSig; LCibaJarSig].

Definition lmember_name (m : lmember) : string :=
  match m with
  | LTokenMethods => "token_endpoint_auth_methods_supported"
  | LIntroMethods => "introspection_endpoint_auth_methods_supported"
  | LRevocMethods => "revocation_endpoint_auth_methods_supported"
  | LTokenSigAlgs => "token_endpoint_auth_signing_alg_values_supported"
  | LIntroSigAlgs => "introspection_endpoint_auth_signing_alg_values_supported"
  | LRevocSigAlgs => "revocation_endpoint_auth_signing_alg_values_supported"
  | LIdtSig => "id_token_signing_alg_values_supported"
  | LIdtKeyEnc => "id_token_encryption_alg_values_supported"
  | LIdtContentEnc => "id_token_encryption_enc_values_supported"
  | LUiSig => "userinfo_signing_alg_values_supported"
  | LUiKeyEnc => "userinfo_encryption_alg_values_supported"
  | LUiContentEnc => "userinfo_encryption_enc_values_supported"
  | LJarSig => "request_object_signing_alg_values_supported"
  | LJarKeyEnc => "request_object_encryption_alg_values_supported"
  | LJarContentEnc => "request_object_encryption_enc_values_supported"
  | LJarmSig => "authorization_signing_alg_values_supported"
  | LJarmKeyEnc => "authorization_encryption_alg_values_supported"
  | LJarmContentEnc => "authorization_encryption_enc_values_supported"
  | LDpopSig => "dpop_signing_alg_values_supported"
  | LCibaJarSig => "backchannel_authentication_request_signing_alg_values_supported"
  end.

(* the members of Discovery.v that are lists of this file (there: constants of the harness) *)
Definition overridden (m : member) : bool :=
  match m with
  | MIdTokenSigAlgs | MTokenAuthMethods | MRequestObjectSigAlgs | MJarmSigAlgs | MDpopSigAlgs
  | MIntrospectionAuthMethods | MRevocationAuthMethods | MCibaJarSigAlgs => true
  | _ => false
  end.

(* oidc.Context.clientAuthnSigAlgs(methods) *)
Definition client_authn_sig_algs (ls : lists) (methods : list string) : list string :=
  ((if mem "private_key_jwt" methods then l_pkjwt_algs ls else []) ++
   (if mem "client_secret_jwt" methods then l_secretjwt_algs ls else []))%list.

Section Doc2.
  Variable c2 : config2.
  Let c := c2_base c2.
  Let ls := c2_lists c2.

  (* the guard of the `if` under which oidcConfig assigns the member (true: in the struct literal) *)
  Definition l_flag (m : lmember) : bool :=
    match m with
    | LTokenMethods | LTokenSigAlgs | LIdtSig | LUiSig => true
    | LIntroMethods | LIntroSigAlgs => cf_introspection c
    | LRevocMethods | LRevocSigAlgs => cf_revocation c
    | LIdtKeyEnc | LIdtContentEnc => l_idt_enc ls
    | LUiKeyEnc | LUiContentEnc => l_ui_enc ls
    | LJarSig => cf_jar_enabled c
    | LJarKeyEnc | LJarContentEnc => andb (cf_jar_enabled c) (l_jar_enc ls)
    | LJarmSig => cf_jarm_enabled c
    | LJarmKeyEnc | LJarmContentEnc => andb (cf_jarm_enabled c) (l_jarm_enc ls)
    | LDpopSig => cf_dpop_enabled c
    | LCibaJarSig => andb (cf_ciba_enabled c) (cf_ciba_jar_enabled c)
    end.

  (* the configuration value it assigns *)
  Definition l_value (m : lmember) : list string :=
    match m with
    | LTokenMethods => l_token_methods ls
    | LIntroMethods => l_intro_methods ls
    | LRevocMethods => l_revoc_methods ls
    | LTokenSigAlgs => client_authn_sig_algs ls (l_token_methods ls)
    | LIntroSigAlgs => client_authn_sig_algs ls (l_intro_methods ls)
    | LRevocSigAlgs => client_authn_sig_algs ls (l_revoc_methods ls)
    | LIdtSig => l_idt_sig_algs ls
    | LIdtKeyEnc => l_idt_key_algs ls
    | LIdtContentEnc => l_idt_content_algs ls
    | LUiSig => l_ui_sig_algs ls
    | LUiKeyEnc => l_ui_key_algs ls
    | LUiContentEnc => l_ui_content_algs ls
    | LJarSig => l_jar_sig_algs ls
    | LJarKeyEnc => l_jar_key_algs ls
    | LJarContentEnc => l_jar_content_algs ls
    | LJarmSig => l_jarm_sig_algs ls
    | LJarmKeyEnc => l_jarm_key_algs ls
    | LJarmContentEnc => l_jarm_content_algs ls
    | LDpopSig => l_dpop_sig_algs ls
    | LCibaJarSig => l_ciba_jar_sig_algs ls
    end.

  Definition l_raw (m : lmember) : list string := if l_flag m then l_value m else [].

  (* id_token_signing_alg_values_supported is the only list member without omitempty *)
  Definition l_always (m : lmember) : bool := match m with LIdtSig => true | _ => false end.

  Definition lmember_value (m : lmember) : option dval :=
    if l_always m then Some (DSet (l_raw m)) else omit_empty (DSet (l_raw m)).

  Definition l_advertised (m : lmember) : bool :=
    match lmember_value m with Some _ => true | None => false end.
  Definition l_advertised_in (m : lmember) (x : string) : bool :=
    match lmember_value m with Some (DSet l) => mem x l | _ => false end.

  Definition document2 (iss mtls : string) : list (string * dval) :=
    (flat_map (fun m => if overridden m then [] else
                        match member_value iss mtls c m with Some v => [(member_name m, v)] | None => [] end) all_members ++
     flat_map (fun m => match lmember_value m with Some v => [(lmember_name m, v)] | None => [] end) all_lmembers)%list.

  (* ---------------- run-time gates ---------------- *)
  (* the three endpoints with client authentication method lists of their own *)
  Inductive aep := AToken | AIntrospect | ARevoke.
  Definition aep_enabled (e : aep) : bool :=
    match e with AToken => true | AIntrospect => cf_introspection c | ARevoke => cf_revocation c end.
  Definition aep_methods (e : aep) : lmember :=
    match e with AToken => LTokenMethods | AIntrospect => LIntroMethods | ARevoke => LRevocMethods end.
  Definition aep_sig_algs (e : aep) : lmember :=
    match e with AToken => LTokenSigAlgs | AIntrospect => LIntroSigAlgs | ARevoke => LRevocSigAlgs end.

  (* ctx.PrivateKeyJWTSigAlgs / ctx.ClientSecretJWTSigAlgs, by the method authenticate() dispatches on *)
  Definition jwt_method_algs (m : string) : list string :=
    if seqb m "private_key_jwt" then l_pkjwt_algs ls
    else if seqb m "client_secret_jwt" then l_secretjwt_algs ls else [].
  Definition is_jwt_method (m : string) : bool := orb (seqb m "private_key_jwt") (seqb m "client_secret_jwt").

  (* clientutil.authnSigAlgs: the algorithm the client registered for this endpoint, else the server's
     list; it is the list handed to jwt.ParseSigned - the same at the three endpoints but for the
     client's own registration *)
  Definition authn_sig_algs (cl_alg : string) (m : string) : list string :=
    if is_empty cl_alg then jwt_method_algs m else [cl_alg].

  (* does an (otherwise valid) assertion signed with `alg` authenticate a client whose method at
     endpoint e is m and whose registered algorithm there is cl_alg ("" = none)? *)
  (* clientutil.extractID reads the client id off the assertion first, parsing it with
     ctx.ClientAuthnSigAlgs() = PrivateKeyJWTSigAlgs ++ ClientSecretJWTSigAlgs whatever the client registered *)
  Definition all_authn_sig_algs : list string := (l_pkjwt_algs ls ++ l_secretjwt_algs ls)%list.
  Definition assertion_accepted (e : aep) (m cl_alg alg : string) : bool :=
    andb (aep_enabled e) (andb (is_jwt_method m)
      (andb (mem alg all_authn_sig_algs) (mem alg (authn_sig_algs cl_alg m)))).

  (* artifacts the server signs and optionally encrypts for a client *)
  Inductive artifact := AIdToken | AUserInfo | AJarm.
  Definition art_enc_enabled (a : artifact) : bool :=
    match a with AIdToken => l_idt_enc ls | AUserInfo => l_ui_enc ls | AJarm => l_jarm_enc ls end.
  Definition art_default_cenc (a : artifact) : string :=
    match a with AIdToken => l_idt_default_cenc ls | AUserInfo => l_ui_default_cenc ls | AJarm => l_jarm_default_cenc ls end.
  Definition art_default_sig (a : artifact) : string :=
    match a with AIdToken => l_idt_default_sig ls | AUserInfo => l_ui_default_sig ls | AJarm => l_jarm_default_sig ls end.
  Definition art_key_member (a : artifact) : lmember :=
    match a with AIdToken => LIdtKeyEnc | AUserInfo => LUiKeyEnc | AJarm => LJarmKeyEnc end.
  Definition art_content_member (a : artifact) : lmember :=
    match a with AIdToken => LIdtContentEnc | AUserInfo => LUiContentEnc | AJarm => LJarmContentEnc end.
  Definition art_sig_member (a : artifact) : lmember :=
    match a with AIdToken => LIdtSig | AUserInfo => LUiSig | AJarm => LJarmSig end.

  (* `if !ctx.XEncIsEnabled || client.XKeyEncAlg == "" { return signed }`, then encrypt with the
     client's key algorithm and the client's content algorithm or the default one *)
  Definition artifact_encryption (a : artifact) (cl_key cl_cenc : string) : option (string * string) :=
    if andb (art_enc_enabled a) (negb (is_empty cl_key))
    then Some (cl_key, if is_empty cl_cenc then art_default_cenc a else cl_cenc)
    else None.

  (* what the client receives: None = no artifact (refused); Some (encryption, signing algorithm),
     signing algorithm "" = plain JSON (userinfo for a client that did not ask for a signed one).
     The ID token and userinfo flows of the probes are always enabled; the JWT response modes exist
     only with JARM. *)
  Definition artifact_expected (a : artifact) (cl_sig cl_key cl_cenc : string) : option (option (string * string) * string) :=
    let sig := if is_empty cl_sig then art_default_sig a else cl_sig in
    match a with
    | AIdToken => Some (artifact_encryption a cl_key cl_cenc, sig)
    | AUserInfo => if is_empty cl_sig then Some (None, "") else Some (artifact_encryption a cl_key cl_cenc, sig)
    | AJarm => if cf_jarm_enabled c then Some (artifact_encryption a cl_key cl_cenc, sig) else None
    end.
End Doc2.
