(* System.v — operations, step, run. *)
From Verif Require Import Base Scope Types Prog Pop Token Authorize.
Local Open Scope N_scope.

Inductive op :=
  | OpAuthorize (r : areq)
  | OpCallback (r : cbreq)
  | OpPar (r : preq)
  | OpToken (g : grant_type) (r : treq)
  | OpIntrospect (r : qreq)
  | OpRevoke (r : qreq)
  | OpUserInfo (r : ureq)
  | OpTokenInfo (p : ptok)
  | OpTokenInfoReq (r : ureq)
  | OpBcAuthorize (r : breq)
  | OpNotifyOk (a : id) (hg : hg_reply)
  | OpNotifyFail (a : id)
  | OpTick (d : Z).

Inductive obs := Out (o : out) | Notified (ok : bool) (ns : list notif).

Record state := mkState { s_store : store; s_now : Z }.

Definition handler (w : world) (n : nat) (now : Z) (o : op) : prog obs :=
  let lift (p : prog out) := bind p (fun x => Ret (Out x)) in
  match o with
  | OpAuthorize r => lift (init_auth w n now r)
  | OpCallback r => lift (continue_auth w n now r)
  | OpPar r => lift (push_auth w n now r)
  | OpToken GAuthorizationCode r => lift (code_grant w n now r)
  | OpToken GRefreshToken r => lift (refresh_grant w n now r)
  | OpToken GClientCredentials r => lift (cc_grant w n now r)
  | OpToken GCiba r => lift (ciba_grant w n now r)
  | OpToken GJwtBearer r => lift (jwt_bearer_grant w n now r)
  | OpToken _ r => Ret (Out (OErr EUnsupportedGrantType))
  | OpIntrospect r => lift (introspect w now r)
  | OpRevoke r => lift (revoke w now r)
  | OpUserInfo r => lift (userinfo w now r)
  | OpTokenInfo p => lift (token_info now p)
  | OpTokenInfoReq r => lift (token_info_from_request now r)
  | OpBcAuthorize r => lift (init_back_auth w n now r)
  | OpNotifyOk a hg => bind (notify_success w n now a hg) (fun x => Ret (Notified (fst x) (snd x)))
  | OpNotifyFail a => bind (notify_failure w a) (fun x => Ret (Notified (fst x) (snd x)))
  | OpTick _ => Ret (Out OOk)
  end.

Definition step_with (interp : prog obs -> store -> store * obs) (w : world) (st : state) (n : nat) (o : op) : state * obs :=
  match o with
  | OpTick d => (mkState (s_store st) (s_now st + d)%Z, Out OOk)
  | _ => let '(sto, x) := interp (handler w n (s_now st) o) (s_store st) in (mkState sto (s_now st), x)
  end.
Definition step := step_with (@run_seq obs).
Definition step_alias := step_with (@run_alias obs).

Fixpoint run_from_with interp (w : world) (st : state) (n : nat) (ops : list op) : state * list obs :=
  match ops with
  | [] => (st, [])
  | o :: rest =>
      let '(st', x) := step_with interp w st n o in
      let '(st'', tr) := run_from_with interp w st' (S n) rest in
      (st'', x :: tr)
  end.
Definition run_from := run_from_with (@run_seq obs).
Definition run_from_alias := run_from_with (@run_alias obs).

Definition init_state (dyn_clients : list client) : state := mkState (mkStore dyn_clients [] []) 0%Z.
Definition run (w : world) (dyn : list client) (ops : list op) : list obs := snd (run_from w (init_state dyn) 0%nat ops).
Definition run_alias_trace (w : world) (dyn : list client) (ops : list op) : list obs :=
  snd (run_from_alias w (init_state dyn) 0%nat ops).
