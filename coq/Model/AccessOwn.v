(* AccessOwn.v — C20: WHICH object a handler's in-place write hits.

   Access.trace interprets every Touch under the aliasing interpretation: the object a lookup returned
   IS the stored one.  That is what the default managers do - but at two places the Go code continues
   with a COPY of what it was handed, precisely so that requests do not write shared memory:

     internal/authorize.authnSessionWithPAR   sessionCopy := *session     (every profile; under FAPI the
                                              function returns right after it, the pushed session is used alone)
     internal/oidc.Context.Client             c := *staticClient; c.PublicJWKS = nil    for a STATIC client
                                              that has a jwks_uri (the object held by the configuration)

   trace_own refines trace with the set of sessions the request holds privately: a lookup the handler
   follows with a copy (cp) puts the session there, a Save of it takes it out again (the default manager
   then stores the very pointer).  A Touch of a private session leaves the stored one alone and is no
   access to shared memory - provided the copy is DEEP for the map-valued members (Storage,
   AdditionalIDTokenClaims, ...): since fix e2b7ce4 (defect D24) authnSessionWithPAR clones them with
   maps.Clone next to sessionCopy := *session.  The parameter deep says whether the handler does that:
   with deep = false (the code before the fix) the maps stay shared with the stored session and with the
   copies of every other request presenting the same request_uri, and a Touch that changes them is an
   unsynchronised write to shared memory.  With cp = nothing_copied, trace_own is trace: what a handler
   that forgets the copy altogether does.  No proofs here (Proofs/C20OwnProofs.v, C20OwnGeneral.v). *)
From Verif Require Import Base Scope Types Prog Pop Token Authorize Access.
Local Open Scope N_scope.
Local Open Scope string_scope.

Definition par_copied (c : call) : bool := match c with AByPar _ => true | _ => false end.
Definition nothing_copied (c : call) : bool := false.

(* the map-valued members of a session a Touch changes; the writers run below internal/authorize.initAuth
   (the only handler that copies), which is how the dynamic check names them *)
Definition touch_a_maps (s' s : asession) : list access :=
  let i := a_id s in
  wr KSession i "Storage" (gapi ++ "StoreParameter[initAuth]") (negb (N.eqb (a_steps s') (a_steps s)))
  ++ wr KSession i "AdditionalIDTokenClaims" (gapi ++ "SetIDTokenClaim[initAuth]") (negb (seqb (a_nonce_claim s') (a_nonce_claim s))).

Definition drop_session (i : id) (l : list asession) : list asession := filter (fun y => negb (ideq (a_id y) i)) l.

Section WithClients.
  Variable has_jwks_uri : id -> bool.

  (* deep: the copy clones the map-valued members too (the tree with fix e2b7ce4) *)
  Variable deep : bool.

  Fixpoint trace_own {A} (cp : call -> bool) (priv : list asession) (p : prog A) (s : store) : list access :=
    match p with
    | Ret _ => []
    | Do c k =>
        let '(s', r) := exec c s in
        let priv' := match c with
                     | ASave x => drop_session (a_id x) priv
                     | _ => match r with RASess x => if cp c then x :: priv else priv | _ => priv end
                     end in
        call_accesses has_jwks_uri c s ++ trace_own cp priv' (k r) s'
    | Touch (OA x') p' =>
        match find (fun y => ideq (a_id y) (a_id x')) priv with
        | Some y => (if deep then [] else touch_a_maps x' y) ++ trace_own cp (x' :: drop_session (a_id x') priv) p' s
        | None => touch_accesses (OA x') s ++ trace_own cp priv p' (touch (OA x') s)
        end
    | Touch o p' => touch_accesses o s ++ trace_own cp priv p' (touch o s)
    end.
End WithClients.

(* the unsynchronised writes to session members in a summary: (site, member) *)
Definition session_writes (l : list access) : list (string * string) :=
  flat_map (fun a => match ac_loc a with
                     | LField KSession _ f => if unsync_write a then [(ac_site a, f)] else []
                     | _ => []
                     end) l.
Definition is_map_member (f : string) : bool := orb (seqb f "Storage") (seqb f "AdditionalIDTokenClaims").
Definition scalar_session_writes (l : list access) : list (string * string) :=
  filter (fun x => negb (is_map_member (snd x))) (session_writes l).

(* ---- clients: the object a request authenticates ---- *)
(* where the client of a request lives: in the configuration (WithStaticClient) or in the client storage *)
Inductive cclass := CStatic | CStored.
(* Context.Client hands out the shared object itself, except for a static client with a jwks_uri *)
Definition handed_out_shared (cls : cclass) (has_uri : bool) : bool :=
  match cls with CStatic => negb has_uri | CStored => true end.
(* client authentication with private_key_jwt: Client.FetchPublicJWKS.  With inline jwks it only reads
   PublicJWKS; with a jwks_uri (and nothing cached: Context.Client / ClientManager.Client cleared it) it
   fetches and WRITES the cache - on the object it was handed *)
Definition site_class (cls : cclass) (site : string) : string :=
  match cls with CStatic => site ++ "[static-client]" | CStored => site end.
Definition authn_accesses (cls : cclass) (has_uri : bool) (i : id) : list access :=
  if has_uri then
    if handed_out_shared cls has_uri
    then map (fun a => mkAccess (ac_loc a) (ac_write a) (ac_lock a) (site_class cls (ac_site a))) (fetch_public_jwks i)
    else []                                   (* the writes go to the request's own copy *)
  else [mkAccess (LField KClient i "PublicJWKS") false NoLock (site_class cls "pkg/goidc.(*Client).FetchPublicJWKS")].
(* the same for a handler that forgets the copy (hands out the shared static object whatever it has) *)
Definition authn_accesses_no_copy (cls : cclass) (has_uri : bool) (i : id) : list access :=
  if has_uri
  then map (fun a => mkAccess (ac_loc a) (ac_write a) (ac_lock a) (site_class cls (ac_site a))) (fetch_public_jwks i)
  else authn_accesses cls has_uri i.
