(* Scope.v — clientutil.AreScopesAllowed and token.containsAllScopes,
   transcribed from internal/clientutil/util.go and internal/token/validation.go
   (after fix D2: whole-entry match on the client's registration). *)
From Verif Require Import Base.

(* goidc.Scope: NewScope(id) matches by equality; NewDynamicScope(id, f):
   the harness builds dynamic scopes whose matcher is strings.HasPrefix(_, p). *)
Inductive scope := ScExact (id : string) | ScPrefix (id : string) (p : string).
Definition sc_id (s : scope) : string := match s with ScExact i => i | ScPrefix i _ => i end.
Definition sc_matches (s : scope) (req : string) : bool :=
  match s with ScExact i => seqb i req | ScPrefix _ p => has_prefix p req end.

(* "Filter the client scopes that are available." *)
Definition client_scopes (client_scope_ids : string) (avail : list scope) : list scope :=
  filter (fun sc => mem (sc_id sc) (split_with_spaces client_scope_ids)) avail.

Definition are_scopes_allowed (client_scope_ids : string) (avail : list scope) (requested : string) : bool :=
  if is_empty requested then true else
  forallb (fun r => existsb (fun sc => sc_matches sc r) (client_scopes client_scope_ids avail))
          (split_sp requested).

(* token.containsAllScopes *)
Definition contains_all_scopes (available requested : string) : bool :=
  subset (split_with_spaces requested) (split_with_spaces available).
