(* AuthnEntry.v — the head of internal/token/jwt_bearer.go generateJWTBearerGrant (the one handler
   that may go on without a client), over the abstract credential of Token.v, and how a wire request
   reaches the handlers of Token.v / Authorize.v.  Definitions only.

     client, err := clientutil.Authenticated(ctx, clientutil.TokenAuthnContext)
     if err != nil && (ctx.JWTBearerGrantClientAuthnIsRequired || !errors.Is(err, clientutil.ErrClientNotIdentified)) {
         return response{}, err
     }
     if client == nil { client = makeAnonymousClient(ctx) }
     ... the rest of the grant (k)

   The rest of the grant is a parameter: the statements about refused requests hold whatever it does. *)
From Verif Require Import Base Scope Types Prog Pop Token Authorize Authn AuthnSpec AuthnLink AuthnWire.
Local Open Scope N_scope.

Definition jwt_bearer_head (w : world) (authn_required identified : bool) (cr : cred)
                           (k : option client -> prog out) : prog out :=
  bind (Token.authenticated w cr) (fun oc =>
    match oc with
    | Some c => k (Some c)
    | None => if orb authn_required identified then Ret (OErr EInvalidClient) else k None
    end).

(* the abstract credential a wire request amounts to at an entry point, and whether extractID found
   any client id in it (false = the ErrClientNotIdentified sentinel) *)
Definition wire_cred (g : acfg) (e : entry) (cls : list aclient) (wq : wreq) : cred :=
  cred_of g (entry_ctx e) cls (request_of wq).
Definition wire_identified (g : acfg) (e : entry) (cls : list aclient) (wq : wreq) : bool :=
  ar_identified (authenticated_full g (entry_ctx e) cls (request_of wq)).
