(* C08NonceProofs.v — the ID tokens of a flow echo the nonce of the MERGED authorization request.
   Model/C08Nonce.v: effective_params (Authorize.merge_params for PAR / JAR under the OpenID profile,
   the inner parameters alone under FAPI, the query itself for a plain request), the artifact
   model's finish_flow / token_endpoint_response.  Links with the system model: Jar.jar_session and
   Authorize.init_auth build their sessions from exactly effective_params and store its nonce as the
   session's nonce claim. *)
From Verif Require Import Base Scope Types Prog Pop Token Authorize Artifacts Tactics C08Proofs C08Nonce.
Local Open Scope N_scope.

Lemma authz_id_token_params r : authz_id_token r = rp_id_token (params_of r).
Proof. destruct r; reflexivity. Qed.

(* ---- the nonce of the effective parameters ---- *)
Lemma merge_nonce i o : p_nonce (merge_params i o) = nz (p_nonce i) (p_nonce o).
Proof. reflexivity. Qed.

Lemma effective_nonce_rule prof form i o :
  p_nonce (effective_params prof form i o) = merged_nonce_rule prof form (p_nonce i) (p_nonce o).
Proof. destruct form, prof; reflexivity. Qed.

Lemma is_empty_true s : is_empty s = true -> s = "".
Proof. destruct s; [reflexivity|discriminate]. Qed.
Lemma is_empty_false s : s <> "" -> is_empty s = false.
Proof. destruct s; [congruence|reflexivity]. Qed.
Lemma opt_str_some s : s <> "" -> opt_str s = Some s.
Proof. intros H. unfold opt_str. rewrite is_empty_false; auto. Qed.

(* ---- every ID token of the flow ---- *)
Lemma flow_authz_nonce cfg n now c fo f r i :
  flow_authz_response cfg n now c fo f = Some r -> authz_id_token r = Some i ->
  idt_nonce i = opt_str (p_nonce (flow_params f)).
Proof.
  unfold flow_authz_response. intros H Hi. rewrite authz_id_token_params in Hi.
  destruct (finish_flow_hashes _ _ _ _ _ _ _ _ H Hi) as [a [E _]].
  unfold idt_nonce. rewrite E. reflexivity.
Qed.

Lemma flow_token_nonce cfg n now c fo f gt r i :
  flow_token_response cfg n now c fo f gt = Some r -> trs_id_token r = Some i ->
  idt_nonce i = opt_str (p_nonce (flow_params f)).
Proof.
  unfold flow_token_response, token_endpoint_response. intros H Hi.
  destruct (make _ _ _ _ _ _) as [t|]; [|discriminate].
  destruct (contains_openid _).
  - destruct (make_id_token _ _ _ _) as [i'|] eqn:M; [|discriminate].
    inversion H; subst; clear H. cbn in Hi. inversion Hi; subst; clear Hi.
    apply id_token_body_claims in M as [a [E _]]. unfold idt_nonce. rewrite E. reflexivity.
  - inversion H; subst. cbn in Hi. discriminate.
Qed.

Lemma nonce_echoed_merged cfg n now c fo f :
  (forall r i, flow_authz_response cfg n now c fo f = Some r -> authz_id_token r = Some i ->
               idt_nonce i = opt_str (p_nonce (effective_params (fl_profile f) (fl_form f) (fl_inner f) (fl_outer f)))) /\
  (forall gt r i, flow_token_response cfg n now c fo f gt = Some r -> trs_id_token r = Some i ->
               idt_nonce i = opt_str (p_nonce (effective_params (fl_profile f) (fl_form f) (fl_inner f) (fl_outer f)))).
Proof.
  split; intros.
  - eapply flow_authz_nonce; eauto.
  - eapply flow_token_nonce; eauto.
Qed.

(* "i is an ID token of the flow f": delivered by its authorization response or by one of its
   token responses *)
Definition id_token_of_flow (cfg : acfg) (n : nat) (now : Z) (c : aclient) (fo : tokopts) (f : flow)
  (i : artifact idt_claims) : Prop :=
  (exists r, flow_authz_response cfg n now c fo f = Some r /\ authz_id_token r = Some i) \/
  (exists gt r, flow_token_response cfg n now c fo f gt = Some r /\ trs_id_token r = Some i).

Lemma id_token_of_flow_nonce cfg n now c fo f i :
  id_token_of_flow cfg n now c fo f i -> idt_nonce i = opt_str (p_nonce (flow_params f)).
Proof.
  intros [[r [H Hi]]|[gt [r [H Hi]]]].
  - eapply flow_authz_nonce; eauto.
  - eapply flow_token_nonce; eauto.
Qed.

(* OpenID profile, PAR / JAR: a nonce missing inside is completed by the outer one *)
Lemma nonce_outer_completes cfg n now c fo f i :
  fl_profile f = POpenID -> fl_form f <> FPlain -> p_nonce (fl_inner f) = "" ->
  id_token_of_flow cfg n now c fo f i -> idt_nonce i = opt_str (p_nonce (fl_outer f)).
Proof.
  intros P F E H. rewrite (id_token_of_flow_nonce _ _ _ _ _ _ _ H).
  unfold flow_params. rewrite effective_nonce_rule, P, E. destruct (fl_form f); try congruence; reflexivity.
Qed.

(* every profile, PAR / JAR: a nonce inside wins over whatever is outside *)
Lemma nonce_inner_wins cfg n now c fo f i :
  fl_form f <> FPlain -> p_nonce (fl_inner f) <> "" ->
  id_token_of_flow cfg n now c fo f i -> idt_nonce i = Some (p_nonce (fl_inner f)).
Proof.
  intros F E H. rewrite (id_token_of_flow_nonce _ _ _ _ _ _ _ H).
  unfold flow_params. rewrite effective_nonce_rule. rewrite <- (opt_str_some _ E). f_equal.
  unfold merged_nonce_rule. rewrite (is_empty_false _ E).
  destruct (fl_form f); try congruence; destruct (fl_profile f); reflexivity.
Qed.

(* FAPI profiles, PAR / JAR: the outer nonce is never echoed, whatever it is *)
Lemma nonce_fapi_inner_only cfg n now c fo f i :
  is_fapi (fl_profile f) = true -> fl_form f <> FPlain ->
  id_token_of_flow cfg n now c fo f i -> idt_nonce i = opt_str (p_nonce (fl_inner f)).
Proof.
  intros P F H. rewrite (id_token_of_flow_nonce _ _ _ _ _ _ _ H).
  unfold flow_params. rewrite effective_nonce_rule.
  destruct (fl_form f); try congruence; destruct (fl_profile f); try discriminate; reflexivity.
Qed.

(* a plain request: its own nonce *)
Lemma nonce_plain_request cfg n now c fo f i :
  fl_form f = FPlain -> id_token_of_flow cfg n now c fo f i -> idt_nonce i = opt_str (p_nonce (fl_outer f)).
Proof.
  intros F H. rewrite (id_token_of_flow_nonce _ _ _ _ _ _ _ H). unfold flow_params. rewrite F. reflexivity.
Qed.

(* satisfiability: an OpenID PAR flow, nonce only in the query, hybrid response type: both the
   authorization response and the token response carry ID tokens, with the outer nonce *)
Definition ex_flow : flow :=
  mkFlow POpenID FPar
    (empty_params <| p_redirect := "https://c1.example/cb" |> <| p_resp_type := "code id_token" |>
                  <| p_scopes := "openid email" |> <| p_state := "st" |>)
    (empty_params <| p_resp_type := "code id_token" |> <| p_scopes := "openid email" |> <| p_nonce := "n-out" |>)
    "alice" "openid email" (mint 3 KCode) 0.
Example ex_flow_tokens :
  match flow_authz_response ex_cfg 3 1000%Z ex_client (mkTokOpts false PS256 300) ex_flow,
        flow_token_response ex_cfg 4 1000%Z ex_client (mkTokOpts false PS256 300) ex_flow GAuthorizationCode with
  | Some r, Some t =>
      match authz_id_token r, trs_id_token t with
      | Some i, Some j => andb (match idt_nonce i with Some s => seqb s "n-out" | None => false end)
                               (match idt_nonce j with Some s => seqb s "n-out" | None => false end)
      | _, _ => false end
  | _, _ => false end = true.
Proof. vm_compute. reflexivity. Qed.
