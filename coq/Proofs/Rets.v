(* Rets.v — what a handler program can answer, whatever the storage replies.
   `rets QC P p`: on every path of p — for every reply of every storage call, provided client
   lookups only return clients satisfying QC registered under the id asked for — the value
   returned satisfies P.  Sound for the sequential run from any store whose clients satisfy QC. *)
From Verif Require Import Base Scope Types Prog Pop Token Authorize System Config.
Local Open Scope N_scope.

Section Rets.
  Variable QC : client -> Prop.

  Definition reply_ok (c : call) (r : reply) : Prop :=
    match r with
    | RClient cl => match c with CGet i => c_id cl = i /\ QC cl | _ => False end
    | _ => True
    end.

  Fixpoint rets {A} (P : A -> Prop) (p : prog A) : Prop :=
    match p with
    | Ret a => P a
    | Do c k => match c with CSave cl => QC cl | _ => True end /\ forall r, reply_ok c r -> rets P (k r)
    | Touch _ p' => rets P p'
    end.

  Definition clients_ok (st : store) : Prop := forall cl, In cl (st_clients st) -> QC cl.

  Lemma find_client_some i l c : find_client i l = Some c -> In c l /\ c_id c = i.
  Proof.
    unfold find_client. intros H. apply find_some in H as [H1 H2]. split; auto.
    unfold ideq in H2. apply N.eqb_eq in H2. exact H2.
  Qed.

  Lemma exec_reply_ok c st : clients_ok st -> reply_ok c (snd (exec c st)).
  Proof.
    intros H. destruct c; simpl; try exact I.
    - destruct (find_client i (st_clients st)) eqn:E; simpl; [|exact I].
      apply find_client_some in E as [E1 E2]. split; auto.
    - destruct (find _ _); simpl; exact I.
    - destruct (find _ _); simpl; exact I.
    - destruct (find _ _); simpl; exact I.
    - destruct (find _ _); simpl; exact I.
    - destruct (find _ _); simpl; exact I.
    - destruct (find _ _); simpl; exact I.
    - destruct (find _ _); simpl; exact I.
  Qed.

  Lemma exec_clients_ok c st :
    match c with CSave cl => QC cl | _ => True end -> clients_ok st -> clients_ok (fst (exec c st)).
  Proof.
    intros Hc H. destruct c; simpl; auto.
    - intros cl [<-|Hin]; auto. apply filter_In in Hin as [Hin _]. auto.
    - intros cl Hin. apply filter_In in Hin as [Hin _]. auto.
    - destruct (find _ _); simpl; auto.
  Qed.

  Lemma rets_run_seq {A} (P : A -> Prop) (p : prog A) :
    forall st, rets P p -> clients_ok st -> P (snd (run_seq p st)).
  Proof.
    induction p as [a|c k IH|o p IH]; intros st Hr Hst; simpl in *; auto.
    destruct Hr as [Hc Hk]. destruct (exec c st) as [st' r] eqn:E.
    apply IH.
    - apply Hk. replace r with (snd (exec c st)) by (rewrite E; reflexivity). apply exec_reply_ok; auto.
    - replace st' with (fst (exec c st)) by (rewrite E; reflexivity). apply exec_clients_ok; auto.
  Qed.

  Lemma rets_run_alias {A} (P : A -> Prop) (p : prog A) :
    (forall o st, clients_ok st -> clients_ok (touch o st)) ->
    forall st, rets P p -> clients_ok st -> P (snd (run_alias p st)).
  Proof.
    intros HT. induction p as [a|c k IH|o p IH]; intros st Hr Hst; simpl in *; auto.
    destruct Hr as [Hc Hk]. destruct (exec c st) as [st' r] eqn:E.
    apply IH.
    - apply Hk. replace r with (snd (exec c st)) by (rewrite E; reflexivity). apply exec_reply_ok; auto.
    - replace st' with (fst (exec c st)) by (rewrite E; reflexivity). apply exec_clients_ok; auto.
  Qed.

  Lemma rets_bind {A B} (P : B -> Prop) (p : prog A) (f : A -> prog B) :
    rets (fun a => rets P (f a)) p -> rets P (bind p f).
  Proof.
    induction p as [a|c k IH|o p IH]; simpl; intros H; auto.
    destruct H as [Hc Hk]. split; auto.
  Qed.

  Lemma rets_bind_inv {A B} (P : B -> Prop) (p : prog A) (f : A -> prog B) :
    rets P (bind p f) -> rets (fun a => rets P (f a)) p.
  Proof.
    induction p as [a|c k IH|o p IH]; simpl; intros H; auto.
    destruct H as [Hc Hk]. split; auto.
  Qed.

  Lemma rets_weaken {A} (P Q : A -> Prop) (p : prog A) :
    (forall a, P a -> Q a) -> rets P p -> rets Q p.
  Proof.
    intros HPQ. induction p as [a|c k IH|o p IH]; simpl; intros H; auto.
    destruct H as [Hc Hk]. split; auto.
  Qed.

  Lemma rets_bind' {A B} (P : B -> Prop) (R : A -> Prop) (p : prog A) (f : A -> prog B) :
    rets R p -> (forall a, R a -> rets P (f a)) -> rets P (bind p f).
  Proof. intros H1 H2. apply rets_bind. eapply rets_weaken; eauto. Qed.

  (* ---- the two lookups every handler starts with ---- *)
  Variable w : world.
  Hypothesis statics_ok : forall cl, In cl (w_static w) -> QC cl.

  Definition found (i : id) (oc : option client) : Prop :=
    match oc with Some c => c_id c = i /\ QC c | None => True end.

  Lemma get_client_rets i : rets (found i) (get_client w i).
  Proof.
    unfold get_client. destruct (find_client i (w_static w)) eqn:E; simpl.
    - apply find_client_some in E as [E1 E2]. split; auto.
    - split; [exact I|]. intros r Hr. destruct r; simpl; try exact I. exact Hr.
  Qed.

  Lemma authenticated_rets cr : rets (found (cr_id cr)) (authenticated w cr).
  Proof.
    unfold authenticated. destruct (is_nil (cr_id cr)); simpl; [exact I|].
    eapply rets_bind'; [apply get_client_rets|]. intros [c|] H; simpl; [|exact I].
    destruct (c_public c || cr_ok cr)%bool; simpl; auto.
  Qed.

  (* jwt-bearer: the authenticated client, or the anonymous one - only for a request that names
     nobody, and only when client authentication is not required for the grant *)
  Definition found_or_anon (cr : cred) (oc : option client) : Prop :=
    match oc with
    | Some c => (c_id c = cr_id cr /\ QC c) \/
                (c = anonymous_client (w_cfg w) /\ cr_id cr = 0 /\ cf_jwt_bearer_authn_required (w_cfg w) = false)
    | None => True end.
  Lemma jwt_bearer_client_rets cr : rets (found_or_anon cr) (jwt_bearer_client w cr).
  Proof.
    unfold jwt_bearer_client. eapply rets_bind'; [apply authenticated_rets|]. intros [c|] H; simpl; [left; exact H|].
    destruct (is_nil (cr_id cr)) eqn:E1; simpl; [|exact I].
    destruct (cf_jwt_bearer_authn_required (w_cfg w)) eqn:E2; simpl; [exact I|].
    right. repeat split; auto. apply N.eqb_eq in E1. exact E1.
  Qed.
End Rets.

(* ---- the sequential run of the two lookups: the store is unchanged and the answer is a function of it ---- *)
Lemma run_seq_bind {A B} (p : prog A) (f : A -> prog B) : forall st,
  run_seq (bind p f) st = run_seq (f (snd (run_seq p st))) (fst (run_seq p st)).
Proof.
  induction p as [a|c k IH|o p IH]; intros st; simpl; auto.
  destruct (exec c st) as [st' r]. apply IH.
Qed.

Definition client_of (w : world) (st : store) (i : id) : option client :=
  match find_client i (w_static w) with
  | Some c => Some c
  | None => find_client i (st_clients st)
  end.
Lemma run_get_client w i st : run_seq (get_client w i) st = (st, client_of w st i).
Proof.
  unfold get_client, client_of. destruct (find_client i (w_static w)); simpl; auto.
  destruct (find_client i (st_clients st)); reflexivity.
Qed.
Definition auth_of (w : world) (st : store) (cr : cred) : option client :=
  if is_nil (cr_id cr) then None else
  match client_of w st (cr_id cr) with
  | Some c => if orb (c_public c) (cr_ok cr) then Some c else None
  | None => None
  end.
Lemma run_authenticated w cr st : run_seq (authenticated w cr) st = (st, auth_of w st cr).
Proof.
  unfold authenticated, auth_of. destruct (is_nil (cr_id cr)); simpl; auto.
  rewrite run_seq_bind, run_get_client. simpl. destruct (client_of w st (cr_id cr)) as [c|]; simpl; auto.
  destruct (c_public c || cr_ok cr)%bool; reflexivity.
Qed.
(* jwt-bearer: the client the handler goes on with *)
Definition jwt_bearer_client_of (w : world) (st : store) (cr : cred) : option client :=
  match auth_of w st cr with
  | Some c => Some c
  | None => if andb (is_nil (cr_id cr)) (negb (cf_jwt_bearer_authn_required (w_cfg w)))
            then Some (anonymous_client (w_cfg w)) else None
  end.
Lemma run_jwt_bearer_client w cr st : run_seq (jwt_bearer_client w cr) st = (st, jwt_bearer_client_of w st cr).
Proof.
  unfold jwt_bearer_client, jwt_bearer_client_of. rewrite run_seq_bind, run_authenticated. simpl.
  destruct (auth_of w st cr); simpl; auto. destruct (_ && _)%bool; reflexivity.
Qed.
Lemma client_of_some w st i c : client_of w st i = Some c -> (In c (w_static w) \/ In c (st_clients st)) /\ c_id c = i.
Proof.
  unfold client_of. destruct (find_client i (w_static w)) eqn:E.
  - intros H; injection H as <-. apply find_client_some in E as [E1 E2]. auto.
  - intros H. apply find_client_some in H as [E1 E2]. auto.
Qed.
Lemma auth_of_some w st cr c : auth_of w st cr = Some c -> (In c (w_static w) \/ In c (st_clients st)) /\ c_id c = cr_id cr.
Proof.
  unfold auth_of. destruct (is_nil (cr_id cr)); [discriminate|].
  destruct (client_of w st (cr_id cr)) as [c'|] eqn:E; [|discriminate].
  destruct (c_public c' || cr_ok cr)%bool; [|discriminate]. intros H; injection H as <-.
  apply client_of_some in E. exact E.
Qed.
