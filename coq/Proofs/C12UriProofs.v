(* C12UriProofs.v — the registration_client_uri of a registration or update is the URL that works:
   proofs for Model/DcrUri.v over the route table of Model/Routes.v and the histories of Model/Dcr.v. *)
From Verif Require Import Base Scope Types Config Discovery Routes Dcr DcrUri.
From Verif Require Import C19Proofs C19PathsProofs C12Proofs.
Local Open Scope string_scope.

(* ---- strings ---- *)
Lemma no_slash_app a b : no_slash (a ++ b) = andb (no_slash a) (no_slash b).
Proof. induction a as [|c a IH]; simpl; auto. destruct (Ascii.eqb c "/"); auto. Qed.

(* a prefix of x ++ y is a prefix of x, or it is x followed by a non-empty prefix of y *)
Lemma strip_prefix_split : forall p x y r, strip_prefix p (x ++ y) = Some r ->
  (exists r', strip_prefix p x = Some r') \/
  (exists y1 y2, p = x ++ y1 /\ y1 <> "" /\ y = y1 ++ y2).
Proof.
  induction p as [|a p IH]; intros x y r H.
  - left. exists x. reflexivity.
  - destruct x as [|b x].
    + right. exists (String a p), r. split; [reflexivity|]. split; [discriminate|].
      change (strip_prefix (String a p) y = Some r) in H. apply strip_prefix_some in H. exact H.
    + simpl in H. simpl. destruct (Ascii.eqb a b) eqn:E; [|discriminate].
      apply Ascii.eqb_eq in E. subst b.
      destruct (IH x y r H) as [[r' Hr]|[y1 [y2 [Hp [Hn Hy]]]]].
      * left. exists r'. exact Hr.
      * right. exists y1, y2. split; [rewrite Hp; reflexivity|]. auto.
Qed.

(* whatever ends in "/" and is split with a non-empty second part has a "/" in that part *)
Lemma slash_in_tail : forall p x y1, p ++ "/" = x ++ y1 -> y1 <> "" -> no_slash y1 = false.
Proof.
  induction p as [|a p IH]; intros x y1 H Hn.
  - destruct x as [|b x]; simpl in H.
    + subst y1. reflexivity.
    + injection H as _ H. destruct x; simpl in H; [|discriminate]. subst y1. congruence.
  - destruct x as [|b x]; simpl in H.
    + subst y1. change (String a (p ++ "/")) with (String a p ++ "/"). rewrite no_slash_app. simpl. apply andb_false_r.
    + injection H as _ H. eapply IH; eauto.
Qed.

(* a client id (one path segment) below the registration endpoint is not below the callback root *)
Lemma callback_pattern_misses pc cid : sub_roots_apart pc = true -> no_slash cid = true ->
  strip_prefix (pa_authorize (pc_paths pc) ++ "/") ((pa_dcr (pc_paths pc) ++ "/") ++ cid) = None.
Proof.
  intros Ha Hs. destruct (strip_prefix _ _) as [r|] eqn:E; [|reflexivity]. exfalso.
  apply strip_prefix_split in E. destruct E as [[r' Hr]|[y1 [y2 [Hp [Hn Hy]]]]].
  - unfold sub_roots_apart in Ha. rewrite Hr in Ha. discriminate.
  - apply slash_in_tail in Hp.
    + subst cid. rewrite no_slash_app, Hp in Hs. discriminate.
    + intros ->. apply Hn. reflexivity.
Qed.

(* ---- dispatch of prefix ++ EndpointDCR ++ "/" ++ id ---- *)
Lemma dcr_client_pattern_matches pc m cid : is_empty cid = false ->
  route_matches (mkRoute m (path3 (pc_paths pc) EpDcrClient) (is_sub EpDcrClient) EpDcrClient) m
                ((pa_dcr (pc_paths pc) ++ "/") ++ cid) = true.
Proof.
  intros Hc. unfold route_matches. cbn [r_meth r_sub r_path is_sub path3]. rewrite meth_eqb_refl.
  rewrite strip_prefix_app, Hc. reflexivity.
Qed.

Lemma is_sub_cases e : is_sub e = true -> e = EpAuthorizeCb \/ e = EpDcrClient.
Proof. destruct e; simpl; intros H; try discriminate; auto. Qed.

Lemma dcr_client_dispatch pc m cid :
  cf_dcr (pc_cfg pc) = true -> routes_ok pc = true -> sub_roots_apart pc = true ->
  is_empty cid = false -> no_slash cid = true -> In m [MGet; MPut; MDelete] ->
  serve3 pc m (cf_prefix (pc_cfg pc) ++ (pa_dcr (pc_paths pc) ++ "/") ++ cid) = Some EpDcrClient.
Proof.
  intros Hd Hok Ha Hc Hs Hm. rewrite serve3_rel.
  assert (G : ep_guard (pc_cfg pc) EpDcrClient = true) by exact Hd.
  assert (Hin : In (mkRoute m (path3 (pc_paths pc) EpDcrClient) (is_sub EpDcrClient) EpDcrClient) (routes3 pc)).
  { apply route3_present; auto. }
  pose proof (dcr_client_pattern_matches pc m cid Hc) as Hmatch.
  destruct (find _ (routes3 pc)) as [r|] eqn:F.
  - apply find_some in F as [Hr Hrm]. simpl. f_equal.
    destruct (route3_inv _ _ Hr) as (_ & P & Sb).
    destruct (r_sub r) eqn:Rs.
    + symmetry in Sb. apply is_sub_cases in Sb. destruct Sb as [Sb|Sb]; [|exact Sb]. exfalso.
      unfold route_matches in Hrm. rewrite Rs, P, Sb in Hrm. cbn [path3] in Hrm.
      rewrite (callback_pattern_misses pc cid Ha Hs) in Hrm. rewrite andb_false_r in Hrm. discriminate.
    + (* an exact pattern equal to the client's path collides with the registered-client pattern *)
      unfold route_matches in Hrm. rewrite Rs in Hrm. apply andb_true_iff in Hrm as [Hme Hp].
      apply meth_eqb_eq in Hme. apply seqb_eq in Hp.
      unfold routes_ok in Hok. rewrite forallb_forall in Hok. specialize (Hok r Hr). rewrite Rs in Hok. cbn [orb] in Hok.
      rewrite forallb_forall in Hok. specialize (Hok _ Hin). rewrite Hme, Hp, Hmatch in Hok. cbn [implb r_ep] in Hok.
      apply ep_eqb_eq in Hok. exact Hok.
  - exfalso. pose proof (find_none _ _ F _ Hin) as H. cbv beta in H. rewrite Hmatch in H. discriminate.
Qed.

(* ---- the URI, followed ---- *)
Lemma registration_uri_split host pc cid :
  registration_uri host pc cid = host ++ cf_prefix (pc_cfg pc) ++ (pa_dcr (pc_paths pc) ++ "/") ++ cid.
Proof. unfold registration_uri. rewrite (sapp_assoc (pa_dcr (pc_paths pc)) "/" cid). reflexivity. Qed.

Lemma registration_uri_followed host pc cid m :
  cf_dcr (pc_cfg pc) = true -> routes_ok pc = true -> sub_roots_apart pc = true ->
  is_empty cid = false -> no_slash cid = true -> In m [MGet; MPut; MDelete] ->
  follow host pc m (registration_uri host pc cid) = Some EpDcrClient /\
  follow_client host pc m (registration_uri host pc cid) = Some cid.
Proof.
  intros Hd Hok Ha Hc Hs Hm.
  pose proof (dcr_client_dispatch pc m cid Hd Hok Ha Hc Hs Hm) as D.
  unfold follow, follow_client. rewrite registration_uri_split, strip_prefix_app, D. split; [reflexivity|].
  unfold dcr_wildcard. rewrite !strip_prefix_app, Hc, Hs. reflexivity.
Qed.

(* nothing else addresses that client: a URL whose request reaches the registered-client handlers
   with wildcard w IS the registration URI of w *)
Lemma follow_client_unique host pc m url w :
  follow_client host pc m url = Some w -> url = registration_uri host pc w.
Proof.
  unfold follow_client. destruct (strip_prefix host url) as [path|] eqn:S1; [|discriminate].
  destruct (serve3 pc m path) as [[]|]; try discriminate.
  unfold dcr_wildcard. destruct (strip_prefix (cf_prefix (pc_cfg pc)) path) as [rel|] eqn:S2; [|discriminate].
  destruct (strip_prefix (pa_dcr (pc_paths pc) ++ "/") rel) as [rest|] eqn:S3; [|discriminate].
  destruct (orb (is_empty rest) (negb (no_slash rest))); [discriminate|]. intros [= <-].
  apply strip_prefix_some in S1, S2, S3. rewrite registration_uri_split. subst. reflexivity.
Qed.

(* the URI is the discovery document's registration_endpoint ++ "/" ++ client id *)
Lemma registration_uri_endpoint host mtls p opts pc cid :
  build3 p opts = Some pc -> cf_dcr (pc_cfg pc) = true ->
  exists e, member3 host mtls pc MRegistrationEndpoint = Some (DStr e) /\
            e = host ++ cf_prefix (pc_cfg pc) ++ pa_dcr (pc_paths pc) /\
            registration_uri host pc cid = e ++ "/" ++ cid.
Proof.
  intros Hb Hd. exists (host ++ cf_prefix (pc_cfg pc) ++ pa_dcr (pc_paths pc)).
  split; [|split; [reflexivity|]].
  - unfold member3, member_raw3. cbn [always_written member_endpoint]. unfold ep_guard. rewrite Hd.
    unfold ep_url3. cbn [path3 omit_empty].
    pose proof (build3_path_nonempty p opts pc EpDcr Hb Hd) as Hne. cbn [path3] in Hne.
    rewrite !is_empty_app, Hne, !andb_false_r. reflexivity.
  - unfold registration_uri. rewrite !sapp_assoc. reflexivity.
Qed.

(* ---- histories: the response of a registration or update ---- *)
Lemma drun_snoc cfg ops o :
  fst (drun cfg (ops ++ [o])) = fst (dstep cfg (fst (drun cfg ops)) (List.length ops) o).
Proof.
  unfold drun. rewrite drun_from_app. simpl (0 + _)%nat. rewrite drun_from_cons. reflexivity.
Qed.

Lemma url_op_registration_uri host pc resolve m cid h t b hk :
  cf_dcr (pc_cfg pc) = true -> routes_ok pc = true -> sub_roots_apart pc = true ->
  is_empty cid = false -> no_slash cid = true -> resolve cid = Some h ->
  url_op host pc resolve m (registration_uri host pc cid) t b hk =
    match m with MGet => Some (Read h t) | MPut => Some (Update h t b hk) | MDelete => Some (Delete h t) | MPost => None end.
Proof.
  intros Hd Hok Ha Hc Hs Hr. unfold url_op. destruct m.
  - destruct (registration_uri_followed host pc cid MGet Hd Hok Ha Hc Hs) as [_ ->]; [simpl; tauto|]. rewrite Hr. reflexivity.
  - destruct (follow_client host pc MPost (registration_uri host pc cid)); reflexivity.
  - destruct (registration_uri_followed host pc cid MPut Hd Hok Ha Hc Hs) as [_ ->]; [simpl; tauto|]. rewrite Hr. reflexivity.
  - destruct (registration_uri_followed host pc cid MDelete Hd Hok Ha Hc Hs) as [_ ->]; [simpl; tauto|]. rewrite Hr. reflexivity.
Qed.

Lemma registration_uri_works_all_histories
  host mtls p opts pc (name : id -> string) resolve cfg ops o cid cr d :
  build3 p opts = Some pc -> cf_dcr (pc_cfg pc) = true -> routes_ok pc = true -> sub_roots_apart pc = true ->
  (forall h, is_empty (name h) = false /\ no_slash (name h) = true) ->
  (forall h, resolve (name h) = Some h) ->
  let s := fst (drun cfg ops) in
  let n := List.length ops in
  writes n o cid ->
  snd (dstep cfg s n o) = DDoc cr d ->
  let s' := fst (dstep cfg s n o) in
  let uri := registration_uri host pc (name cid) in
  rendered_uri host pc name d = Some uri /\
  dget "client_id" d = Some (JCred cid) /\
  (exists e, member3 host mtls pc MRegistrationEndpoint = Some (DStr e) /\ uri = e ++ "/" ++ name cid) /\
  (forall m, In m [MGet; MPut; MDelete] ->
     follow host pc m uri = Some EpDcrClient /\ follow_client host pc m uri = Some (name cid)) /\
  (forall m url, follow_client host pc m url = Some (name cid) -> url = uri) /\
  exists c, dfind cid s' = Some c /\
    (forall t, dget "registration_access_token" d = Some (JCred t) -> t = dc_htoken c) /\
    (exists rd, url_op host pc resolve MGet uri (PTok (dc_htoken c)) None HkNone = Some rd /\
       exists d', snd (dstep cfg s' (S n) rd) = DDoc false d' /\
                  rendered_uri host pc name d' = Some uri /\ dget "client_id" d' = Some (JCred cid)) /\
    (exists dl, url_op host pc resolve MDelete uri (PTok (dc_htoken c)) None HkNone = Some dl /\
       snd (dstep cfg s' (S n) dl) = DDeleted).
Proof.
  intros Hb Hd Hok Ha Hname Hres s n W H s' uri.
  pose proof (inv_reachable cfg ops) as I. fold s in I. fold n in I.
  destruct (write_spec cfg s n o cid cr d (inv_nonzero _ _ _ I) (inv_ids _ _ _ I) W H)
    as [c1 [sec [tok [i [F1 [Li [Ei Ed]]]]]]].
  destruct (Hname cid) as [Hc Hs].
  split; [|split; [|split; [|split; [|split]]]].
  - unfold rendered_uri. rewrite Ed, resp_uri. reflexivity.
  - rewrite Ed. apply resp_client_id.
  - destruct (registration_uri_endpoint host mtls p opts pc (name cid) Hb Hd) as [e [He [_ Hu]]]. exists e. auto.
  - intros m Hm. apply registration_uri_followed; auto.
  - intros m url Hf. apply follow_client_unique in Hf. exact Hf.
  - exists c1. split; [exact F1|].
    assert (Hs' : s' = fst (drun cfg (ops ++ [o]))) by (unfold s'; rewrite drun_snoc; reflexivity).
    assert (Hn' : S n = List.length (ops ++ [o])) by (unfold n; rewrite app_length; simpl; lia).
    apply dfind_In in F1 as F1'. destruct F1' as [Hin Hid].
    assert (Hin' : In c1 (fst (drun cfg (ops ++ [o])))) by (rewrite <- Hs'; exact Hin).
    destruct (current_token_works cfg (ops ++ [o]) c1 Hin') as [Rd Dl].
    rewrite <- Hs', <- Hn', Hid in Rd, Dl.
    split; [|split].
    + intros t Ht. rewrite Ed in Ht.
      destruct o; simpl in W; try contradiction.
      * destruct (create_truthful cfg s n b hk cr d H) as [c' [F' [[_ [_ [Tk _]]] _]]].
        subst cid. assert (E : Some c' = Some c1) by (rewrite <- F', <- F1; reflexivity). inversion E; subst c'.
        rewrite Ed in Tk. rewrite Ht in Tk. congruence.
      * subst cid0.
        destruct (update_truthful cfg s n cid t0 b hk cr d (inv_nonzero _ _ _ I) H) as [c0 [c' [_ [F' [[_ [_ [Tk _]]] _]]]]].
        assert (E : Some c' = Some c1) by (rewrite <- F', <- F1; reflexivity). inversion E; subst c'.
        rewrite Ed in Tk. rewrite Ht in Tk. destruct (d_rotation cfg); congruence.
    + exists (Read cid (PTok (dc_htoken c1))). split.
      * unfold uri. apply (url_op_registration_uri host pc resolve MGet); auto.
      * eexists. split; [exact Rd|]. split.
        -- unfold rendered_uri. rewrite resp_uri. reflexivity.
        -- apply resp_client_id.
    + exists (Delete cid (PTok (dc_htoken c1))). split.
      * unfold uri. apply (url_op_registration_uri host pc resolve MDelete); auto.
      * exact Dl.
Qed.
