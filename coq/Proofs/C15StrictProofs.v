(* C15StrictProofs.v — lifting the sweeps of C15StrictSweeps.v to the statements of Props/C15.v, and the link
   between the interpreters of Model/RaceStrict.v and those of Prog.v / Race.v. *)
From Verif Require Import Base Scope Types Prog Pop Token Authorize System Config Run Monitors Race RaceUri RaceStrict Tactics
  C15Sweeps C15UriDefs C15StrictSweeps.
Require Import Lia.
Local Open Scope nat_scope.
Local Open Scope string_scope.

(* over the lenient storage the new interpreters are the old ones *)
Lemma run_il_x_exec {A} : forall sched (ps : list (prog A)) st, run_il_x exec sched ps st = run_il sched ps st.
Proof.
  induction sched as [|i rest IH]; intros ps st; cbn [run_il_x run_il]; [reflexivity|].
  destruct (nth_error ps i) as [p|]; [|apply IH].
  destruct (skip_touch 64 p); try apply IH.
  destruct (exec c st) as [st' r]. apply IH.
Qed.
Lemma run_seq_x_exec {A} : forall (p : prog A) st, run_seq_x exec p st = run_seq p st.
Proof.
  induction p as [a|c k IH|o p IH]; intros st; cbn [run_seq_x run_seq]; [reflexivity| |apply IH].
  destruct (exec c st) as [st' r]. apply IH.
Qed.
Lemma successes_x_exec su k sc : successes_x exec su k sc = successes su k sc.
Proof. unfold successes_x, successes, outcomes_x, outcomes, race_run_x, race_run. rewrite run_il_x_exec. reflexivity. Qed.

(* a strict delete of something present is the lenient delete; of something absent it fails and changes nothing *)
Lemma exec_strict_adel i st :
  exec_strict (ADel i) st = if existsb (fun s => ideq (a_id s) i) (st_asess st) then exec (ADel i) st else (st, RFail).
Proof. reflexivity. Qed.
Lemma exec_strict_other c st :
  match c with CDel _ | ADel _ | GDel _ | GDelByCode _ => True | _ => exec_strict c st = exec c st end.
Proof. destruct c; cbn; auto. Qed.

Local Opaque setup_of scn_uri scn_code scn_ciba scn_par scn_par_page scn_refresh setup race_schedules successes successes_x
  e2e_tokens live_artifacts race_window_count.

Lemma k23' (P : nat -> Prop) : P 2 -> P 3 -> forall k, k = 2 \/ k = 3 -> P k.
Proof. intros H2 H3 k [->| ->]; assumption. Qed.

Lemma strict_one_winner_lemma : forall rotation k sched, k = 2 \/ k = 3 ->
  (In sched (race_schedules (setup_of (scn_code rotation)) k) -> successes_x exec_strict (setup_of (scn_code rotation)) k sched = 1) /\
  (In sched (race_schedules (setup_of (scn_ciba rotation)) k) -> successes_x exec_strict (setup_of (scn_ciba rotation)) k sched = 1).
Proof.
  intros rotation k sched Hk. revert k Hk sched. apply (k23' (fun k => forall sched, _ /\ _)); intros sched; split; intros Hin.
  - exact (strict_one_spec _ _ (proj1 (sweep_strict_code rotation)) sched Hin).
  - exact (strict_one_spec _ _ (proj1 (sweep_strict_ciba rotation)) sched Hin).
  - exact (strict_one_spec _ _ (proj2 (sweep_strict_code rotation)) sched Hin).
  - exact (strict_one_spec _ _ (proj2 (sweep_strict_ciba rotation)) sched Hin).
Qed.

Lemma strict_saves_lemma : forall rotation sched,
  (In sched (race_schedules (setup_of (scn_par rotation)) 2) ->
     successes_x exec_strict (setup_of (scn_par rotation)) 2 sched = race_window_count (setup_of (scn_par rotation)) 2 sched) /\
  (In sched (race_schedules (setup_of (scn_par_page rotation)) 2) ->
     successes_x exec_strict (setup_of (scn_par_page rotation)) 2 sched = race_window_count (setup_of (scn_par_page rotation)) 2 sched) /\
  (In sched (race_schedules (setup_of (scn_refresh true)) 2) ->
     successes_x exec_strict (setup_of (scn_refresh true)) 2 sched = race_window_count (setup_of (scn_refresh true)) 2 sched).
Proof.
  intros rotation sched. split; [|split]; intros Hin.
  - exact (strict_same_spec _ _ (proj1 (sweep_strict_par rotation)) sched Hin).
  - exact (strict_same_spec _ _ (proj2 (sweep_strict_par rotation)) sched Hin).
  - exact (strict_same_spec _ _ sweep_strict_refresh sched Hin).
Qed.

Lemma strict_uri_lemma : forall rt rotation sched, In rt ru_resp_types ->
  In sched (race_schedules (setup_of (scn_uri rt rotation)) 2) ->
  successes_x exec_strict (setup_of (scn_uri rt rotation)) 2 sched =
    if rt_contains rt "code" then race_window_count (setup_of (scn_uri rt rotation)) 2 sched else 1.
Proof.
  intros rt rotation sched Hrt Hin.
  pose proof (forallb_in _ _ _ (sweep_strict_uri rotation) Hrt) as H. cbv beta in H. unfold strict_uri in H. cbv zeta in H.
  destruct (rt_contains rt "code").
  - exact (strict_same_spec _ _ H sched Hin).
  - exact (strict_one_spec _ _ H sched Hin).
Qed.

Lemma e2e_par_lemma : forall rotation sched strict rev_order,
  (In sched (race_schedules (setup_of (scn_par rotation)) 2) ->
     e2e_tokens (sem_of strict) rev_order (setup_of (scn_par rotation)) 2 sched = 1 /\
     live_artifacts (sem_of strict) (setup_of (scn_par rotation)) 2 sched = 1) /\
  (In sched (race_schedules (setup_of (scn_par_page rotation)) 2) ->
     e2e_tokens (sem_of strict) rev_order (setup_of (scn_par_page rotation)) 2 sched = 1 /\
     live_artifacts (sem_of strict) (setup_of (scn_par_page rotation)) 2 sched = 1).
Proof.
  intros rotation sched strict rev_order. split; intros Hin.
  - exact (e2e_ok_spec _ _ _ (proj1 (sweep_e2e_par rotation)) sched Hin strict rev_order).
  - exact (e2e_ok_spec _ _ _ (proj2 (sweep_e2e_par rotation)) sched Hin strict rev_order).
Qed.
Lemma e2e_par_3_lemma : forall sched strict rev_order,
  (In sched (race_schedules (setup_of (scn_par true)) 3) ->
     e2e_tokens (sem_of strict) rev_order (setup_of (scn_par true)) 3 sched = 1 /\
     live_artifacts (sem_of strict) (setup_of (scn_par true)) 3 sched = 1) /\
  (In sched (race_schedules (setup_of (scn_par_page true)) 3) ->
     e2e_tokens (sem_of strict) rev_order (setup_of (scn_par_page true)) 3 sched = 1 /\
     live_artifacts (sem_of strict) (setup_of (scn_par_page true)) 3 sched = 1).
Proof.
  intros sched strict rev_order. split; intros Hin.
  - exact (e2e_ok_spec _ _ _ (proj1 sweep_e2e_par_3) sched Hin strict rev_order).
  - exact (e2e_ok_spec _ _ _ (proj2 sweep_e2e_par_3) sched Hin strict rev_order).
Qed.
Lemma e2e_uri_lemma : forall rt rotation sched strict rev_order, In rt ru_resp_types ->
  In sched (race_schedules (setup_of (scn_uri rt rotation)) 2) ->
  e2e_tokens (sem_of strict) rev_order (setup_of (scn_uri rt rotation)) 2 sched = (if rt_contains rt "code" then 1 else 0) /\
  live_artifacts (sem_of strict) (setup_of (scn_uri rt rotation)) 2 sched = (if rt_contains rt "code" then 1 else 0).
Proof.
  intros rt rotation sched strict rev_order Hrt Hin.
  pose proof (forallb_in _ _ _ (sweep_e2e_uri rotation) Hrt) as H. cbv beta in H.
  exact (e2e_ok_spec _ _ _ H sched Hin strict rev_order).
Qed.
