(* C11Examples.v — the hypotheses of the C11 theorems are satisfiable, and the "same request
   carrying the mechanism succeeds" half on concrete configurations built by Config.build
   (evaluated by vm_compute on the functions the correspondence runs). *)
From Verif Require Import Base Scope Types Prog Pop Token Authorize System Config Required.
Local Open Scope N_scope.

Definition ex_c1 : client :=
  mkClient 1 false [GAuthorizationCode; GRefreshToken; GClientCredentials; GImplicit]
    ["code"; "token"; "id_token"; "id_token token"; "code id_token"; "code token"; "code id_token token"]
    ["https://c1.example/cb"] "openid email" CibaNone false false false false false false false 0 false None.
Definition ex_c5 : client :=
  mkClient 5 false [GCiba] [] [] "openid email" CibaPoll false false false false false false false 0 false None.
Definition ex_clients := [ex_c1; ex_c5].

Definition ex_params (rt : string) (ch : pk) (m : string) : params :=
  mkParams 0 "https://c1.example/cb" "" rt "openid" "st" "n-1" ch m 0 "" 0 "" [] None.
Definition ex_auth (p : params) : op := OpAuthorize (mkAReq 1 p true (PolSuccess "alice" "openid" [] [])).
Definition ex_proof : dpop_proof := mkProof true true (JwkPublic 77) 77 (Some 0%Z) true true HtuExact 0.
Definition ex_cc (b : bind_in) : op :=
  OpToken GClientCredentials (mkTReq (mkCred 1 true) b "" 0 "" 0 PkEmpty 0 HgOk BaApprove [] AsNone None).
Definition ex_run (p : profile) (opts : list opt) (ops : list op) : option (list bool) :=
  option_map (fun cfg => map obs_obtains (run_g (mkWorld cfg ex_clients) [] ops)) (build p opts).

(* PAR required: the direct request gets nothing; push + request_uri gets a code *)
Example par_required_accepts :
  ex_run POpenID [WithAuthorizationCodeGrant; WithPARRequired 60]
    [ex_auth (ex_params "code" PkEmpty "");
     OpPar (mkPReq (mkCred 1 true) (ex_params "code" PkEmpty "") no_bind);
     ex_auth (mkParams (mint 1 KParUri) "" "" "code" "openid" "" "" PkEmpty "" 0 "" 0 "" [] None)]
  = Some [false; true; true].
Proof. vm_compute. reflexivity. Qed.

(* PKCE required *)
Example pkce_required_accepts :
  ex_run POpenID [WithPKCERequired "S256" ["plain"]; WithAuthorizationCodeGrant]
    [ex_auth (ex_params "code" PkEmpty ""); ex_auth (ex_params "code" (PkHash (PkRaw 1 true)) "S256")]
  = Some [false; true].
Proof. vm_compute. reflexivity. Qed.

(* openid scope required *)
Example openid_required_accepts :
  ex_run POpenID [WithScopes [ScExact "email"]; WithOpenIDScopeRequired; WithAuthorizationCodeGrant]
    [ex_auth (mkParams 0 "https://c1.example/cb" "" "code" "email" "st" "n-1" PkEmpty "" 0 "" 0 "" [] None);
     ex_auth (ex_params "code" PkEmpty "")]
  = Some [false; true].
Proof. vm_compute. reflexivity. Qed.

(* DPoP required at the token endpoint and for the implicit flow *)
Example dpop_required_accepts :
  ex_run POpenID [WithClientCredentialsGrant; WithImplicitGrant; WithDPoPRequired]
    [ex_cc no_bind; ex_cc (mkBind (Some ex_proof) 0);
     ex_auth (ex_params "token" PkEmpty "");
     ex_auth (mkParams 0 "https://c1.example/cb" "" "token" "openid" "st" "n-1" PkEmpty "" 77 "" 0 "" [] None)]
  = Some [false; true; false; true].
Proof. vm_compute. reflexivity. Qed.

(* certificate binding required; some binding required *)
Example tls_required_accepts :
  ex_run POpenID [WithClientCredentialsGrant; WithMTLS; WithTLSCertTokenBindingRequired]
    [ex_cc no_bind; ex_cc (mkBind None 88)] = Some [false; true].
Proof. vm_compute. reflexivity. Qed.
Example binding_required_accepts :
  ex_run POpenID [WithClientCredentialsGrant; WithTokenBindingRequired; WithDPoP; WithTLSCertTokenBinding]
    [ex_cc no_bind; ex_cc (mkBind (Some ex_proof) 0); ex_cc (mkBind None 88)] = Some [false; true; true].
Proof. vm_compute. reflexivity. Qed.
(* validate: binding required without a mechanism does not build *)
Example binding_required_needs_mechanism : build POpenID [WithTokenBindingRequired] = None.
Proof. vm_compute. reflexivity. Qed.

(* the profiles *)
Example fapi2_accepts :
  ex_run PFapi2 [WithAuthorizationCodeGrant; WithImplicitGrant]
    [ex_auth (ex_params "code id_token" PkEmpty ""); ex_auth (ex_params "code" PkEmpty "")] = Some [false; true].
Proof. vm_compute. reflexivity. Qed.
Example fapi1_accepts :
  ex_run PFapi1 [WithAuthorizationCodeGrant; WithImplicitGrant; WithJARM]
    [ex_auth (ex_params "code" PkEmpty "");
     ex_auth (mkParams 0 "https://c1.example/cb" "jwt" "code" "openid" "st" "n-1" PkEmpty "" 0 "" 0 "" [] None);
     ex_auth (ex_params "code id_token" PkEmpty "");
     ex_auth (ex_params "token" PkEmpty "")] = Some [false; true; true; false].
Proof. vm_compute. reflexivity. Qed.

(* request objects: only the refusing half is modelled *)
Example jar_required_refuses :
  ex_run POpenID [WithAuthorizationCodeGrant; WithJARRequired] [ex_auth (ex_params "code" PkEmpty "")] = Some [false].
Proof. vm_compute. reflexivity. Qed.
Example ciba_jar_required_refuses :
  ex_run POpenID [WithCIBAGrant; WithCIBAJARRequired]
    [OpBcAuthorize (mkBReq (mkCred 5 true) (mkParams 0 "" "" "" "openid" "" "" PkEmpty "" 0 "alice" 0 "" [] None) no_bind true "alice" "openid" [] [])]
  = Some [false].
Proof. vm_compute. reflexivity. Qed.
Example ciba_plain_accepts :
  ex_run POpenID [WithCIBAGrant; WithCIBAJAR]
    [OpBcAuthorize (mkBReq (mkCred 5 true) (mkParams 0 "" "" "" "openid" "" "" PkEmpty "" 0 "alice" 0 "" [] None) no_bind true "alice" "openid" [] [])]
  = Some [true].
Proof. vm_compute. reflexivity. Qed.
