(* C14Seq.v — the storage-call sequence of every flow, whatever the storage replies: the calls
   performed are a prefix of a word of the flow's regular expression (DESIGN.md Appendix A), and
   a grant is issued only immediately after the one-time credential's session was deleted. *)
From Verif Require Import Base Scope Types Prog Pop Token Authorize System Config FaultLog DcrFault FaultSpec Hoare Tactics C14Base C14Fault.
Local Open Scope N_scope.
Local Open Scope list_scope.

Local Opaque contains_all_scopes are_scopes_allowed validate_binding validate_pkce refresh_binding
       validate_params validate_optionals validate_in_out merge_params validate_jwt validate_pop
       validate_binding_dpop validate_binding_tls set_pop_jkt set_pop_x5t hg_result
       contains_openid nav_mode rt_contains make_token classify has_grant mint with_refresh
       client_for_par should_use_par new_grant.

#[local] Arguments is_prefix_of : simpl never.
#[local] Arguments flow_re : simpl never.

Definition kinds (tr : list ev) : list ckind := map (fun e => call_kind (fst e)) tr.
Lemma kinds_app a b : kinds (a ++ b) = kinds a ++ kinds b.
Proof. apply map_app. Qed.
Lemma kinds_evs l : kinds (evs l) = log_kinds l.
Proof. unfold kinds, evs, log_kinds. rewrite map_map. reflexivity. Qed.

Fixpoint kinds_eqb (a b : list ckind) : bool :=
  match a, b with
  | [], [] => true
  | x :: a', y :: b' => andb (ckind_eqb x y) (kinds_eqb a' b')
  | _, _ => false
  end.
Lemma ckind_eqb_eq a b : ckind_eqb a b = true -> a = b.
Proof. destruct a, b; cbn; intros; try discriminate; reflexivity. Qed.
Lemma kinds_eqb_eq a b : kinds_eqb a b = true -> a = b.
Proof.
  revert b. induction a as [|x a IH]; destruct b as [|y b]; cbn; intros H; try discriminate; auto.
  apply andb_true_iff in H as [H1 H2]. f_equal; auto using ckind_eqb_eq.
Qed.
Definition one_of (ws : list (list ckind)) (tr : list ev) : bool := existsb (kinds_eqb (kinds tr)) ws.
Lemma one_of_In ws tr : one_of ws tr = true -> In (kinds tr) ws.
Proof.
  unfold one_of. intros H. apply existsb_exists in H as [w [Hw E]]. apply kinds_eqb_eq in E. subst. exact Hw.
Qed.

Definition Qwords {A} (ws : list (list ckind)) (tr : list ev) (_ : A) : Prop := one_of ws tr = true.
Definition Qseq {A} (r : re) (tr : list ev) (_ : A) : Prop := is_prefix_of r (kinds tr) = true.

(* ---- the words of the sub-programs ---- *)
Definition cg_words : list (list ckind) := [[]; [KCGet]].
Lemma get_client_words w i : wp anyR (get_client w i) (Qwords cg_words).
Proof. unfold get_client, Qwords. c14_go; reflexivity. Qed.
Lemma authenticated_words w cr : wp anyR (authenticated w cr) (Qwords cg_words).
Proof. unfold authenticated, get_client, Qwords. c14_go; reflexivity. Qed.

Definition auth_words : list (list ckind) :=
  [[]; [KASave]; [KADel]] ++
  flat_map (fun x => [x; x ++ [KADel]; x ++ [KASave]; x ++ [KADel; KGSave]; x ++ [KASave; KGSave]]) cg_words.
Lemma authenticate_words R w n now s pol : wp R (authenticate w n now s pol) (Qwords auth_words).
Proof. unfold authenticate, get_client, save_a, Qwords. c14_go; reflexivity. Qed.
Lemma start_session_words R w n now c s r : wp R (start_session w n now c s r) (Qwords auth_words).
Proof.
  unfold start_session. c14_break; [reflexivity|]. c14_break; [reflexivity|]. cbn. apply authenticate_words.
Qed.

(* sequencing: a sub-program with known words, then the rest; the final check is a computation *)
Lemma seq_bind {A B} R (p : prog A) (f : A -> prog B) ws (Q : list ckind -> Prop) :
  wp R p (Qwords ws) ->
  (forall a word, In word ws -> wp R (f a) (fun tr2 _ => Q (word ++ kinds tr2))) ->
  wp R (bind p f) (fun tr _ => Q (kinds tr)).
Proof.
  intros Hp Hf. apply wp_bind. eapply wp_mono; [|exact Hp]. cbn. intros tr1 a H1.
  apply one_of_In in H1. eapply wp_mono; [|apply (Hf a _ H1)]. cbn. intros tr2 b H2. rewrite kinds_app. exact H2.
Qed.

Ltac in_cases H := cbn in H; repeat (destruct H as [H|H]); try contradiction; subst.
Ltac seq_leaf := cbn; try reflexivity; try (vm_compute; reflexivity).

Ltac seq_auth ws_lemma :=
  match goal with |- wp _ (bind _ _) (Qseq ?r) =>
    change (Qseq r) with (fun (tr : list ev) (_ : out) => (fun k => is_prefix_of r k = true) (kinds tr))
  end;
  eapply seq_bind; [apply ws_lemma|]; intros oc word Hw; in_cases Hw.

Lemma code_grant_seq w n now r : wp anyR (code_grant w n now r) (Qseq (flow_re (OpToken GAuthorizationCode r))).
Proof.
  unfold code_grant. do 2 (c14_break; [reflexivity|]).
  seq_auth authenticated_words; c14_go; seq_leaf.
Qed.
Lemma refresh_grant_seq w n now r : wp anyR (refresh_grant w n now r) (Qseq (flow_re (OpToken GRefreshToken r))).
Proof.
  unfold refresh_grant. do 2 (c14_break; [reflexivity|]).
  seq_auth authenticated_words; c14_go; seq_leaf.
Qed.
Lemma cc_grant_seq w n now r : wp anyR (cc_grant w n now r) (Qseq (flow_re (OpToken GClientCredentials r))).
Proof.
  unfold cc_grant. c14_break; [reflexivity|].
  seq_auth authenticated_words; c14_go; seq_leaf.
Qed.
Lemma jwt_bearer_client_words w cr : wp anyR (jwt_bearer_client w cr) (Qwords cg_words).
Proof. unfold jwt_bearer_client, authenticated, get_client, Qwords. c14_go; reflexivity. Qed.
Lemma jwt_bearer_grant_seq w n now r : wp anyR (jwt_bearer_grant w n now r) (Qseq (flow_re (OpToken GJwtBearer r))).
Proof.
  unfold jwt_bearer_grant. c14_break; [reflexivity|].
  seq_auth jwt_bearer_client_words; c14_go; seq_leaf.
Qed.
Lemma ciba_grant_seq w n now r : wp anyR (ciba_grant w n now r) (Qseq (flow_re (OpToken GCiba r))).
Proof.
  unfold ciba_grant. c14_break; [reflexivity|].
  seq_auth authenticated_words; c14_go; seq_leaf.
Qed.

Lemma introspect_seq w now r : wp anyR (introspect w now r) (Qseq (flow_re (OpIntrospect r))).
Proof.
  unfold introspect. c14_break; [reflexivity|].
  seq_auth authenticated_words; unfold introspection_info; c14_go; seq_leaf.
Qed.
Lemma revoke_seq w now r : wp anyR (revoke w now r) (Qseq (flow_re (OpRevoke r))).
Proof.
  unfold revoke. c14_break; [reflexivity|].
  seq_auth authenticated_words; unfold introspection_info; c14_go; seq_leaf.
Qed.
Lemma userinfo_seq w now r : wp anyR (userinfo w now r) (Qseq (flow_re (OpUserInfo r))).
Proof. unfold userinfo, get_client, Qseq. c14_go; seq_leaf. Qed.
Lemma token_info_seq now p : wp anyR (token_info now p) (Qseq (flow_re (OpTokenInfo p))).
Proof. unfold token_info, introspection_info, Qseq. c14_go; seq_leaf. Qed.
Lemma token_info_from_request_seq now r : wp anyR (token_info_from_request now r) (Qseq (flow_re (OpTokenInfoReq r))).
Proof. unfold token_info_from_request, introspection_info, Qseq. c14_go; seq_leaf. Qed.
Lemma push_auth_seq w n now r : wp anyR (push_auth w n now r) (Qseq (flow_re (OpPar r))).
Proof.
  unfold push_auth. c14_break; [reflexivity|].
  seq_auth authenticated_words; unfold save_a; c14_go; seq_leaf.
Qed.
Lemma init_back_auth_seq w n now r : wp anyR (init_back_auth w n now r) (Qseq (flow_re (OpBcAuthorize r))).
Proof.
  unfold init_back_auth. c14_break; [reflexivity|].
  seq_auth authenticated_words; unfold save_a; c14_go; seq_leaf.
Qed.

Definition Qseq_n (r : re) (tr : list ev) (_ : bool * list notif) : Prop := is_prefix_of r (kinds tr) = true.
Lemma notify_success_seq w n now a hg : wp anyR (notify_success w n now a hg) (Qseq_n (flow_re (OpNotifyOk a hg))).
Proof. unfold notify_success, get_client, Qseq_n. c14_go; seq_leaf. Qed.
Lemma notify_failure_seq w a : wp anyR (notify_failure w a) (Qseq_n (flow_re (OpNotifyFail a))).
Proof. unfold notify_failure, get_client, Qseq_n. c14_go; seq_leaf. Qed.

Definition Qseq_d (r : re) (tr : list ev) (_ : dfout) : Prop := is_prefix_of r (kinds tr) = true.
Lemma dcr_handler_seq w n o : wp anyR (dcr_handler w n o) (Qseq_d (dcr_flow_re o)).
Proof.
  destruct o; unfold dcr_handler, dcr_create, dcr_update, dcr_read, dcr_delete, dcr_protected, get_client, Qseq_d;
    c14_go; seq_leaf.
Qed.

(* ---- the authorization endpoint ---- *)
Lemma kinds_cons e tr : kinds (e :: tr) = call_kind (fst e) :: kinds tr.
Proof. reflexivity. Qed.
Local Opaque start_session.
Lemma init_auth_seq w n now r : wp anyR (init_auth w n now r) (Qseq (flow_re (OpAuthorize r))).
Proof.
  unfold init_auth. c14_break; [reflexivity|].
  seq_auth get_client_words.
  all: destruct oc as [c|]; [|reflexivity].
  all: c14_break; [reflexivity|]; c14_break.
  all: try (c14_break; [reflexivity|]; cbn [wp]; intros rp _; destruct rp; try reflexivity; destruct_opt_scrut;
            [cbn [wp]; intros rd _; destruct rd; reflexivity|]).
  all: try (destruct_opt_scrut; [reflexivity|]).
  all: apply wp_bind; (eapply wp_mono; [|apply start_session_words]); cbn [wp]; intros tr1 a H1;
       apply one_of_In in H1; rewrite ?app_nil_r, ?kinds_app, ?kinds_cons; in_cases H1; rewrite <- H1; vm_compute; reflexivity.
Qed.
Local Transparent start_session.

Lemma continue_auth_seq w n now r : wp anyR (continue_auth w n now r) (Qseq (flow_re (OpCallback r))).
Proof.
  unfold continue_auth. c14_break; [reflexivity|]. cbn [wp]. intros rp _. destruct rp; try reflexivity.
  c14_break; [reflexivity|].
  apply wp_bind. eapply wp_mono; [|apply authenticate_words]. cbn [wp]. intros tr1 a H1.
  apply one_of_In in H1. unfold Qseq. destruct a as [o|e].
  - cbn [wp]. rewrite ?app_nil_r, ?kinds_cons. in_cases H1; rewrite <- H1; vm_compute; reflexivity.
  - unfold get_client. in_cases H1; c14_go; rewrite ?kinds_cons, ?kinds_app, <- H1; vm_compute; reflexivity.
Qed.

(* ---- every operation ---- *)
Definition Qseq_op (o : op) (tr : list ev) (_ : obs) : Prop := is_prefix_of (flow_re o) (kinds tr) = true.
Lemma lift_seq (p : prog out) o : wp anyR p (Qseq (flow_re o)) ->
  wp anyR (bind p (fun x => Ret (Out x))) (Qseq_op o).
Proof.
  intros H. apply wp_bind. eapply wp_mono; [|exact H]. cbn [wp]. intros tr a Ha. rewrite app_nil_r. exact Ha.
Qed.
Lemma handler_seq w n now o : wp anyR (handler w n now o) (Qseq_op o).
Proof.
  destruct o; try destruct g; cbv beta iota zeta delta [handler];
    try match goal with
        | |- wp _ (bind (notify_success _ _ _ _ _) _) _ => idtac
        | |- wp _ (bind (notify_failure _ _) _) _ => idtac
        | |- wp _ (bind _ _) _ => apply lift_seq
        end.
  - apply init_auth_seq.
  - apply continue_auth_seq.
  - apply push_auth_seq.
  - apply cc_grant_seq. - apply code_grant_seq. - apply refresh_grant_seq.
  - reflexivity. - apply jwt_bearer_grant_seq.
  - apply ciba_grant_seq.
  - apply introspect_seq.
  - apply revoke_seq.
  - apply userinfo_seq.
  - apply token_info_seq.
  - apply token_info_from_request_seq.
  - apply init_back_auth_seq.
  - apply wp_bind. eapply wp_mono; [|apply notify_success_seq]. cbn [wp]. intros tr x Ha. rewrite app_nil_r. exact Ha.
  - apply wp_bind. eapply wp_mono; [|apply notify_failure_seq]. cbn [wp]. intros tr x Ha. rewrite app_nil_r. exact Ha.
  - reflexivity.
Qed.

(* ---- consume before issue, at the level of calls and replies ---- *)
Lemma ideq_refl i : ideq i i = true.
Proof. apply N.eqb_refl. Qed.
Ltac cbi_leaf := cbn; rewrite ?ideq_refl, ?orb_true_r; cbn; try reflexivity.

(* the prelude (client lookup) neither returns a session that matters nor deletes: state the
   property for any initial `seen` *)
Definition Qcbi {A} (tr : list ev) (_ : A) : Prop := forall seen, consume_then_issue seen None tr = true.
Lemma cbi_reads tr1 tr2 seen : forallb (fun e => is_read (fst e)) tr1 = true ->
  (forall seen', consume_then_issue seen' None tr2 = true) -> consume_then_issue seen None (tr1 ++ tr2) = true.
Proof.
  revert seen. induction tr1 as [|[c r] tr1 IH]; cbn; intros seen H1 H2; auto.
  apply andb_true_iff in H1 as [Hc H1]. destruct c; cbn in Hc; try discriminate; cbn; apply IH; auto.
Qed.
Lemma cbi_bind_auth {B} w cr (f : option client -> prog B) :
  (forall oc, wp anyR (f oc) Qcbi) -> wp anyR (bind (authenticated w cr) f) Qcbi.
Proof.
  intros H. apply wp_bind. eapply wp_mono; [|apply authenticated_ro]. cbn [wp]. intros tr1 oc [R1 _].
  eapply wp_mono; [|apply H]. cbn [wp]. intros tr2 b H2 seen. apply cbi_reads; auto.
Qed.

Lemma code_grant_cbi w n now r : wp anyR (code_grant w n now r) Qcbi.
Proof.
  unfold code_grant. do 2 (c14_break; [intros seen; reflexivity|]). apply cbi_bind_auth. intros oc.
  unfold Qcbi. c14_go; cbi_leaf.
Qed.
Lemma ciba_grant_cbi w n now r : wp anyR (ciba_grant w n now r) Qcbi.
Proof.
  unfold ciba_grant. c14_break; [intros seen; reflexivity|]. apply cbi_bind_auth. intros oc.
  unfold Qcbi. c14_go; cbi_leaf.
Qed.
Lemma notify_success_cbi w n now a hg : wp anyR (notify_success w n now a hg) Qcbi.
Proof. unfold notify_success, get_client, Qcbi. c14_go; cbi_leaf. Qed.

(* the authorization code grant records, in the grant, the code of the session it consumed *)
Definition Qcode {A} (tr : list ev) (_ : A) : Prop := forall seen, code_recorded seen tr = true.
Lemma code_reads tr1 tr2 seen : forallb (fun e => is_read (fst e)) tr1 = true ->
  (forall seen', code_recorded seen' tr2 = true) -> code_recorded seen (tr1 ++ tr2) = true.
Proof.
  revert seen. induction tr1 as [|[c r] tr1 IH]; cbn; intros seen H1 H2; auto.
  apply andb_true_iff in H1 as [Hc H1]. destruct c; cbn in Hc; try discriminate; cbn; apply IH; auto.
Qed.
Lemma g_code_with_refresh n now cfg c g : g_code (with_refresh n now cfg c g) = g_code g.
Proof. Local Transparent with_refresh. unfold with_refresh. destruct (should_issue_refresh _ _ _ _); reflexivity. Qed.
Local Opaque with_refresh.
Lemma code_grant_code w n now r : wp anyR (code_grant w n now r) Qcode.
Proof.
  unfold code_grant. do 2 (c14_break; [intros seen; reflexivity|]).
  apply wp_bind. eapply wp_mono; [|apply authenticated_ro]. cbn [wp]. intros tr1 oc [R1 _].
  eapply wp_mono with (Q := Qcode); [intros tr2 b H2 seen; apply code_reads; auto|].
  unfold Qcode. Local Transparent new_grant. c14_go; rewrite ?g_code_with_refresh; cbn; rewrite ?ideq_refl, ?orb_true_r; reflexivity.
Qed.
