(* ParStored.v — what pushedAuthnSession keeps of the pushed parameters: everything, except that an empty
   authorization_details list is stored as an absent one (fix D27). *)
From Verif Require Import Base Scope Types Prog Pop Token Authorize.

Lemma par_stored_eq p : exists d, par_stored_params p = p <| p_auth_details := d |>.
Proof.
  unfold par_stored_params. destruct p as [a1 a2 a3 a4 a5 a6 a7 a8 a9 a10 a11 a12 a13 a14 d]. cbn.
  destruct d as [[|x l]|]; eexists; reflexivity.
Qed.
Lemma par_stored_details p :
  p_auth_details (par_stored_params p) = match p_auth_details p with Some [] => None | d => d end.
Proof. unfold par_stored_params. destruct (p_auth_details p) as [[|x l]|] eqn:E; cbn; auto. Qed.
