(* C11JarParExamples.v — the hypotheses of par_required_enforced_jar and
   client_ciba_jar_required_enforced are satisfiable, on configurations built by Config.build and
   evaluated by vm_compute on step_gj: under PAR required (server switch / client switch) with JAR and
   JAR by reference enabled, the plain request, the request object by value, the https request_uri
   referencing a signed object and a urn nobody pushed obtain nothing; the request_uri the pushed
   authorization endpoint handed out does; another client's does not.  A client that registered a
   CIBA request signing algorithm must sign where the server has CIBA JAR enabled; one that only
   registered a front-channel request object algorithm need not. *)
From Verif Require Import Base Scope Types Prog Pop Token Authorize System Config Required Jar RequiredJar C11JarExamples.
Local Open Scope N_scope.

Definition xp_c1 (par_req : bool) : client :=
  mkClient 1 false [GAuthorizationCode; GRefreshToken] ["code"]
    ["https://c1.example/cb"] "openid email" CibaNone par_req false false false false false false 0 false None.
Definition xp_c2 : client :=
  mkClient 2 false [GAuthorizationCode; GRefreshToken] ["code"]
    ["https://c2.example/cb"] "openid email" CibaNone false false false false false false false 0 false None.
Definition xp_params (uri : id) (redirect : string) : params :=
  mkParams uri redirect "" "code" "openid" "st" "n-1" PkEmpty "" 0 "" 0 "" [] None.
Definition xp_pol := PolSuccess "alice" "openid" [] [].
Definition xp_plain : gop := GAuthorize (mkJAReq (mkAReq 1 (xp_params 0 "https://c1.example/cb") true xp_pol) JNone).
Definition xp_value : gop :=
  GAuthorize (mkJAReq (mkAReq 1 (xp_params 0 "") true xp_pol) (JValue (xj_obj (xp_params 0 "https://c1.example/cb")))).
Definition xp_ref : gop :=
  GAuthorize (mkJAReq (mkAReq 1 (xp_params 0 "") true xp_pol) (JRef true (Some (xj_obj (xp_params 0 "https://c1.example/cb"))))).
Definition xp_push (cl : id) (redirect : string) : gop := GPar (mkPReq (mkCred cl true) (xp_params 0 redirect) no_bind) None.
Definition xp_redeem (cl : id) (uri : id) : gop := GAuthorize (mkJAReq (mkAReq cl (xp_params uri "") true xp_pol) JNone).
Definition xp_run (opts : list opt) (par_req : bool) (ops : list gop) : option (list bool) :=
  option_map (fun cfg => map (fun xs => obs_obtains (fst xs)) (run_gj (mkWorld cfg [xp_c1 par_req; xp_c2]) xj_jx [] ops))
    (build POpenID opts).

(* operations 0-2: plain, by value, by reference; 3: client 1 pushes; 4: redeems; 5: the same request_uri again;
   6: client 2 pushes; 7: client 1 presents client 2's request_uri; 8: a urn nobody pushed *)
Definition xp_ops : list gop :=
  [xp_plain; xp_value; xp_ref; xp_push 1 "https://c1.example/cb"; xp_redeem 1 (mint 3 KParUri); xp_redeem 1 (mint 3 KParUri);
   xp_push 2 "https://c2.example/cb"; xp_redeem 1 (mint 6 KParUri); xp_redeem 1 (2 ^ 40 + 7)].

Example par_required_by_server :
  xp_run [WithAuthorizationCodeGrant; WithJAR; WithJARByReference; WithPARRequired 60] false xp_ops
  = Some [false; false; false; true; true; false; true; false; false].
Proof. vm_compute. reflexivity. Qed.

Example par_required_by_client :
  xp_run [WithAuthorizationCodeGrant; WithJAR; WithJARByReference; WithPAR 60] true xp_ops
  = Some [false; false; false; true; true; false; true; false; false].
Proof. vm_compute. reflexivity. Qed.

(* control: PAR merely enabled - the three direct forms are served *)
Example par_optional :
  xp_run [WithAuthorizationCodeGrant; WithJAR; WithJARByReference; WithPAR 60] false [xp_plain; xp_value; xp_ref]
  = Some [true; true; true].
Proof. vm_compute. reflexivity. Qed.

(* ---- /bc-authorize ---- *)
Definition xb_c5 : client :=
  mkClient 5 false [GCiba; GRefreshToken] [] [] "openid email" CibaPoll false false false false false false false 0 false None.
Definition xb_jx (jar_alg ciba_alg : option sigalg) : jworld :=
  mkJWorld (mkJCfg [AES256] false [AES256] 0) [(5, mkJClient [mkJwk 615 AES256 515] jar_alg ciba_alg)].
Definition xb_params : params := mkParams 0 "" "" "" "openid" "" "" PkEmpty "" 0 "alice@example" 0 "" [] None.
Definition xb_obj : req_object :=
  mkRO EncNone (SigBy 515) AES256 615 5 [AudIssuer] (Some 300%Z) (Some (-10)%Z) (Some (-10)%Z) true 5 false false xb_params.
Definition xb_req : breq := mkBReq (mkCred 5 true) xb_params no_bind true "alice" "openid" [] [].
Definition xb_run (opts : list opt) (jar_alg ciba_alg : option sigalg) : option (list bool) :=
  option_map (fun cfg => map (fun xs => obs_obtains (fst xs))
                (run_gj (mkWorld cfg [xb_c5]) (xb_jx jar_alg ciba_alg) [] [GBc xb_req None; GBc xb_req (Some xb_obj)]))
    (build POpenID opts).

(* [plain request; signed request] for the four registrations, CIBA JAR enabled but not required *)
Example ciba_jar_enabled_four_clients :
  map (fun ab => xb_run [WithCIBAGrant; WithCIBAJAR] (fst ab) (snd ab))
      [(None, None); (Some AES256, None); (None, Some AES256); (Some AES256, Some AES256)]
  = [Some [true; true]; Some [true; true]; Some [false; true]; Some [false; true]].
Proof. vm_compute. reflexivity. Qed.

(* CIBA JAR off: the registration alone requires nothing (and an object is ignored);
   required by the server: every client must sign *)
Example ciba_jar_off_and_required :
  (xb_run [WithCIBAGrant] None (Some AES256), xb_run [WithCIBAGrant; WithCIBAJARRequired] None None)
  = (Some [true; true], Some [false; true]).
Proof. vm_compute. reflexivity. Qed.
