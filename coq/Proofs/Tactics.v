(* Tactics.v — symbolic execution of handler programs by case analysis on their guards. *)
From Verif Require Import Base Scope Types Prog Pop Token Authorize System Config.

(* destruct the scrutinee of the outermost if / match in the goal, one guard at a time *)
Ltac break_goal :=
  match goal with
  | |- context [if ?b then _ else _] => let E := fresh "E" in destruct b eqn:E
  | |- context [match ?x with _ => _ end] =>
      first [ is_var x; destruct x
            | let E := fresh "E" in destruct x eqn:E ]
  end.

Ltac break_hyp H :=
  match type of H with
  | context [if ?b then _ else _] => let E := fresh "E" in destruct b eqn:E
  | context [match ?x with _ => _ end] =>
      first [ is_var x; destruct x
            | let E := fresh "E" in destruct x eqn:E ]
  end.
