(* C05 — only live, server-issued access tokens are accepted as access tokens. *)
From Verif Require Import Base Scope Types Prog Pop Token Authorize System Config Run Monitors Hoare Tactics Fresh FreshHandlers OneShot C17Proofs.
Local Open Scope N_scope.

(* "h is the access-token string whose grant is g" *)
Definition access_token_of (g : gsession) (h : id) : Prop :=
  (is_kind KAtJwt h = true /\ g_token g = jti_of h) \/ (is_kind KAtOpaque h = true /\ g_token g = h).

(* "p is exactly the access-token string h of the first stored grant g that the token index finds for
   it, and g's current token has not expired" *)
Definition live_access (now : Z) (p : ptok) (st : store) : Prop :=
  exists h g i, p = PExact h /\ classify p = LByToken i /\
    find (fun g => ideq (g_token g) i) (st_gsess st) = Some g /\
    access_token_of g h /\ geb now (g_last_exp g) = false.

(* token ids in the store: non-empty, and minted (opaque token or jti) by one of the first n operations *)
Definition tokens_minted (n : nat) (st : store) : Prop :=
  forall g, In g (st_gsess st) -> g_token g <> 0 /\
    exists j, (j < n)%nat /\ (g_token g = mint j KAtOpaque \/ g_token g = mint j KJti).

Local Transparent mint.
Lemma mint_lt n k : (N.of_nat n < 2 ^ 34) -> mint n k < 2 ^ 40.
Proof.
  unfold mint. intros H. assert (kind_ix k < 32) by (destruct k; cbn; lia).
  change (2 ^ 40) with (2 ^ 34 * 64). lia.
Qed.
Lemma mint_ge n k : 32 <= mint n k.
Proof. unfold mint. lia. Qed.
Lemma mint_kind n k : kind_of (mint n k) = kind_ix k.
Proof.
  unfold kind_of, mint. assert (kind_ix k < 32) by (destruct k; cbn; lia).
  rewrite N.add_comm, N.mod_add by lia. apply N.mod_small; auto.
Qed.
Lemma is_kind_mint n k k' : N.of_nat n < 2 ^ 34 -> is_kind k' (mint n k) = N.eqb (kind_ix k) (kind_ix k').
Proof.
  intros H. unfold is_kind. rewrite mint_kind.
  assert (A : N.leb 32 (mint n k) = true) by (apply N.leb_le, mint_ge).
  assert (B : N.ltb (mint n k) (2 ^ 40) = true) by (apply N.ltb_lt, mint_lt; auto).
  rewrite A, B. cbn. rewrite andb_true_r. reflexivity.
Qed.

Local Opaque mint.
(* the classification finds a grant only for the exact string *)
Lemma classify_hit n (now : Z) p st g i :
  N.of_nat n < 2 ^ 34 -> tokens_minted n st ->
  classify p = LByToken i -> find (fun g => ideq (g_token g) i) (st_gsess st) = Some g ->
  exists h, p = PExact h /\ access_token_of g h.
Proof.
  intros B TM EC EF. apply find_some in EF as [Hg Ei]. apply N.eqb_eq in Ei.
  destruct (TM g Hg) as [NZ [j [Hj Hm]]].
  assert (Bj : N.of_nat j < 2 ^ 34) by lia.
  assert (L1 := mint_lt j KAtOpaque Bj). assert (L2 := mint_lt j KJti Bj).
  assert (K1 := is_kind_mint j KAtOpaque). assert (K2 := is_kind_mint j KJti).
  destruct p as [|h|h|h f]; unfold classify in EC.
  - inversion EC as [Hi]. rewrite <- Hi in Ei. congruence.
  - exists h; split; auto.
    destruct (is_kind KAtJwt h) eqn:E1; [injection EC as Hi; rewrite <- Hi in Ei; left; auto|].
    destruct (is_kind KRefresh h) eqn:E2; [discriminate|].
    destruct (is_uuid_kind h) eqn:E3; [discriminate|].
    injection EC as Hi. rewrite <- Hi in Ei. right; split; auto.
    destruct Hm as [Hm|Hm]; rewrite Ei in Hm; rewrite Hm.
    + rewrite K1 by auto. reflexivity.
    + exfalso. unfold is_uuid_kind in E3. rewrite Hm in E3. rewrite !K2 in E3 by auto. cbn [kind_ix N.eqb orb] in E3. discriminate.
  - discriminate.
  - exfalso.
    assert (U : forall x, i = unknown x -> False).
    { intros x ->. unfold unknown in Ei. destruct Hm as [Hm|Hm]; rewrite Ei in Hm; rewrite <- Hm in *; lia. }
    destruct (is_kind KAtJwt h); [destruct f; try discriminate; inversion EC; eapply U; eauto|].
    destruct (is_kind KRefresh h); inversion EC; eapply U; eauto.
Qed.

Lemma introspection_info_run now p st :
  fst (run_seq (introspection_info now p) st) = st.
Proof.
  unfold introspection_info. destruct (classify p); cbn; auto;
    destruct (find _ _); cbn; auto; destruct (geb _ _); cbn; auto.
Qed.

Theorem live_access_iff_l n now p st :
  N.of_nat n < 2 ^ 34 -> tokens_minted n st ->
  let i := snd (run_seq (introspection_info now p) st) in
  (in_active i = true /\ in_refresh i = false) <-> live_access now p st.
Proof.
  intros B TM. cbn zeta. unfold introspection_info, live_access. split.
  - destruct (classify p) as [|i|i] eqn:EC; cbn.
    + intros [H _]; discriminate.
    + destruct (find _ (st_gsess st)) as [g|] eqn:EF; cbn; [|intros [H _]; discriminate].
      destruct (geb now (g_last_exp g)) eqn:EX; cbn; [intros [H _]; discriminate|]. intros _.
      destruct (classify_hit n now p st g i B TM EC EF) as [h [EP AT]].
      exists h, g, i. auto.
    + destruct (find _ (st_gsess st)) as [g|]; cbn; [|intros [H _]; discriminate].
      destruct (geb now (g_expires g)); cbn; intros [H1 H2]; congruence.
  - intros [h [g [i [EP [EC [EF [AT EX]]]]]]]. rewrite EC. cbn. rewrite EF. cbn. rewrite EX. cbn. auto.
Qed.

(* reachable states have minted token ids *)
Lemma tokens_minted_reachable w dyn (ops : list op) :
  tokens_minted (List.length ops) (s_store (fst (run_from w (init_state dyn) 0 ops))).
Proof.
  intros g Hg. split.
  - exact (proj1 (one_index_all_histories w dyn ops) g Hg).
  - destruct (fresh_all_histories w dyn ops) as [_ [GO _]].
    destruct (GO g FToken Hg) as [Z|[j [Hj Hm]]].
    + exfalso. exact (proj1 (one_index_all_histories w dyn ops) g Hg Z).
    + exists j; auto.
Qed.

(* ---- corollaries: what is never a live access token ---- *)
Lemma forged_never_refresh now h f st : in_refresh (snd (run_seq (introspection_info now (PForged h f)) st)) = false.
Proof.
  unfold introspection_info.
  assert (C : classify (PForged h f) = LNone \/ exists i, classify (PForged h f) = LByToken i).
  { unfold classify. destruct (is_kind KAtJwt h); [destruct f; eauto|]. destruct (is_kind KRefresh h); eauto. }
  destruct C as [->|[i ->]]; [reflexivity|].
  cbn [run_seq exec]. destruct (find _ _); cbn [reply_g]; [|reflexivity].
  destruct (geb _ _); reflexivity.
Qed.
Lemma not_live_forged now h f st n : N.of_nat n < 2 ^ 34 -> tokens_minted n st ->
  in_active (snd (run_seq (introspection_info now (PForged h f)) st)) = false.
Proof.
  intros B TM. destruct (in_active _) eqn:E; auto. exfalso.
  destruct (proj1 (live_access_iff_l n now (PForged h f) st B TM) (conj E (forged_never_refresh now h f st))) as [h' [g [i [EQ _]]]]. discriminate.
Qed.
Lemma not_live_jti now h st : snd (run_seq (introspection_info now (PJti h)) st) = inactive.
Proof. reflexivity. Qed.
Lemma refresh_is_not_access now h st : is_kind KAtJwt h = false -> is_kind KRefresh h = true ->
  let i := snd (run_seq (introspection_info now (PExact h)) st) in in_active i = true -> in_refresh i = true.
Proof.
  intros E1 E2. unfold introspection_info. cbn. rewrite E1, E2. cbn.
  destruct (find _ _); cbn; [|discriminate]. destruct (geb _ _); cbn; auto.
Qed.

(* ---- revocation ---- *)
Local Opaque introspection_info.
Lemma revoke_post w now r st :
  snd (run_seq (revoke w now r) st) = OOk ->
  let i := snd (run_seq (introspection_info now (q_tok r)) st) in
  (in_active i = false /\ fst (run_seq (revoke w now r) st) = st) \/
  (in_active i = true /\ exists c, snd (run_seq (authenticated w (q_cred r)) st) = Some c /\ c_id c = in_client i /\
     st_gsess (fst (run_seq (revoke w now r) st)) = del_gsess (in_grant i) (st_gsess st)).
Proof.
  unfold revoke. destruct (negb _); [cbn; discriminate|].
  rewrite run_authenticated.
  destruct (snd (run_seq (authenticated w (q_cred r)) st)) as [c|] eqn:EA; [|cbn; discriminate].
  destruct (negb (q_allowed r)); [cbn; discriminate|].
  rewrite run_seq_bind. pose proof (introspection_info_run now (q_tok r) st) as ES.
  destruct (run_seq (introspection_info now (q_tok r)) st) as [st1 i] eqn:ER. cbn in ES. subst st1. cbn.
  destruct (in_active i) eqn:EI; cbn; [|intros _; left; auto].
  destruct (negb (ideq (c_id c) (in_client i))) eqn:EC; cbn; [discriminate|].
  intros _. right. split; auto. exists c. repeat split; auto.
  apply negb_false_iff in EC. apply N.eqb_eq in EC. exact EC.
Qed.
Lemma revoke_other_client w now r st c :
  cf_revocation (w_cfg w) = true -> q_allowed r = true ->
  snd (run_seq (authenticated w (q_cred r)) st) = Some c ->
  let i := snd (run_seq (introspection_info now (q_tok r)) st) in
  in_active i = true -> c_id c <> in_client i ->
  run_seq (revoke w now r) st = (st, OErr EAccessDenied).
Proof.
  intros ER EQ EA. cbn zeta. intros EI NE. unfold revoke. rewrite ER, EQ. cbn [negb].
  rewrite run_authenticated, EA. rewrite run_seq_bind.
  pose proof (introspection_info_run now (q_tok r) st) as ES.
  destruct (run_seq (introspection_info now (q_tok r)) st) as [st1 i] eqn:ERR. cbn in *. subst st1.
  rewrite EI. cbn. assert (ideq (c_id c) (in_client i) = false) as -> by (apply N.eqb_neq; auto). reflexivity.
Qed.
Local Transparent introspection_info.

(* the grant named by an active answer is the one found *)
Lemma introspection_grant now p st :
  let i := snd (run_seq (introspection_info now p) st) in
  in_active i = true -> exists g, In g (st_gsess st) /\ g_id g = in_grant i /\ g_client g = in_client i.
Proof.
  unfold introspection_info. destruct (classify p); cbn; try discriminate;
    destruct (find _ (st_gsess st)) as [g|] eqn:EF; cbn; try discriminate;
    destruct (geb _ _); cbn; try discriminate; intros _; exists g; apply find_some in EF; tauto.
Qed.

(* ---- userinfo ---- *)
Local Opaque validate_pop contains_openid.
Lemma userinfo_post w now r st sub :
  snd (run_seq (userinfo w now r) st) = OUserInfo sub ->
  exists tid g, u_has_header r = true /\ extract_id (u_tok r) = Some tid /\
    find (fun g => ideq (g_token g) tid) (st_gsess st) = Some g /\
    geb now (g_last_exp g) = false /\ contains_openid (g_active g) = true /\
    validate_pop (u_bind r) (ptok_id (u_tok r)) (g_jkt g) (g_x5t g) = None.
Proof.
  unfold userinfo. destruct (u_has_header r); [|cbn; discriminate]. cbn [negb].
  destruct (extract_id (u_tok r)) as [tid|]; [|cbn; discriminate].
  cbn. destruct (find _ (st_gsess st)) as [g|] eqn:EF; cbn; [|discriminate].
  destruct (geb now (g_last_exp g)) eqn:EX; cbn; [discriminate|].
  destruct (contains_openid (g_active g)) eqn:EO; cbn; [|discriminate].
  destruct (validate_pop _ _ _ _) eqn:EP; cbn; [discriminate|].
  intros _. exists tid, g. repeat split; auto.
Qed.
(* extract_id accepts exactly what classify sends to the token index *)
Lemma extract_id_classify p tid : extract_id p = Some tid -> p <> PEmpty -> classify p = LByToken tid \/ (exists h, p = PExact h /\ is_kind KRefresh h = true /\ tid = h).
Proof.
  destruct p as [|h|h|h f]; unfold extract_id, classify; intros H NE; try congruence.
  - destruct (is_kind KAtJwt h); [left; congruence|].
    destruct (is_uuid_kind h) eqn:EU; [discriminate|]. injection H as <-.
    destruct (is_kind KRefresh h) eqn:ER; [right; exists h; auto|left; auto].
  - destruct (is_kind KAtJwt h); [destruct f; try discriminate; left; congruence|].
    left. destruct (is_kind KRefresh h); congruence.
Qed.
