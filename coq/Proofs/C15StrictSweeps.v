(* C15StrictSweeps.v — the sweeps (vm_compute over EVERY interleaving) for Model/RaceStrict.v:
   1. on a STRICT storage (Delete of something absent is an error) exactly one of the racing requests wins
      wherever the consume is a delete; where it is an overwriting save the strict storage changes nothing;
   2. END TO END: whatever the schedule, the storage semantics and the order of the follow-ups, the codes /
      callback ids handed out by the racing /authorize requests presenting one request_uri end in exactly ONE
      token response (none when the response type has no code), and exactly one of them still indexes a session. *)
From Verif Require Import Base Scope Types Prog Pop Token Authorize System Config Run Monitors Race RaceUri RaceStrict Tactics C15Sweeps C15UriDefs.
Require Import Lia.
Local Open Scope nat_scope.
Local Open Scope string_scope.

(* ---- reflection ---- *)
Definition strict_one (su : racesetup) (k : nat) : bool :=
  forallb (fun sc => Nat.eqb (successes_x exec_strict su k sc) 1) (race_schedules su k).
Definition strict_same (su : racesetup) (k : nat) : bool :=
  forallb (fun sc => Nat.eqb (successes_x exec_strict su k sc) (race_window_count su k sc)) (race_schedules su k).
Lemma strict_one_spec su k : strict_one su k = true ->
  forall sc, In sc (race_schedules su k) -> successes_x exec_strict su k sc = 1.
Proof. unfold strict_one. intros H sc Hin. rewrite forallb_forall in H. apply Nat.eqb_eq. auto. Qed.
Lemma strict_same_spec su k : strict_same su k = true ->
  forall sc, In sc (race_schedules su k) -> successes_x exec_strict su k sc = race_window_count su k sc.
Proof. unfold strict_same. intros H sc Hin. rewrite forallb_forall in H. apply Nat.eqb_eq. auto. Qed.

Definition e2e_sched_ok (expect : nat) (su : racesetup) (k : nat) (sc : list nat) : bool :=
  forallb (fun strict => let ex := sem_of strict in
     andb (Nat.eqb (e2e_tokens ex false su k sc) expect)
    (andb (Nat.eqb (e2e_tokens ex true su k sc) expect)
          (Nat.eqb (live_artifacts ex su k sc) expect))) [false; true].
Definition e2e_ok (expect : nat) (su : racesetup) (k : nat) : bool :=
  forallb (e2e_sched_ok expect su k) (race_schedules su k).
Lemma e2e_ok_spec expect su k : e2e_ok expect su k = true ->
  forall sc, In sc (race_schedules su k) -> forall strict rev_order,
    e2e_tokens (sem_of strict) rev_order su k sc = expect /\ live_artifacts (sem_of strict) su k sc = expect.
Proof.
  unfold e2e_ok. intros H sc Hin strict rev_order. rewrite forallb_forall in H. specialize (H sc Hin).
  unfold e2e_sched_ok in H. cbn [forallb] in H. cbv beta zeta in H.
  apply andb_true_iff in H as [Hf Ht]. apply andb_true_iff in Ht as [Ht _].
  apply andb_true_iff in Hf as [Hf1 Hf]. apply andb_true_iff in Hf as [Hf2 Hf3].
  apply andb_true_iff in Ht as [Ht1 Ht]. apply andb_true_iff in Ht as [Ht2 Ht3].
  destruct strict, rev_order; split; apply Nat.eqb_eq; assumption.
Qed.

(* ---- 1. strict storage ---- *)
Lemma sweep_strict_code : forall rot, strict_one (setup_of (scn_code rot)) 2 = true /\ strict_one (setup_of (scn_code rot)) 3 = true.
Proof. intros []; split; vm_cast_no_check (eq_refl true). Qed.
Lemma sweep_strict_ciba : forall rot, strict_one (setup_of (scn_ciba rot)) 2 = true /\ strict_one (setup_of (scn_ciba rot)) 3 = true.
Proof. intros []; split; vm_cast_no_check (eq_refl true). Qed.
Lemma sweep_strict_par : forall rot, strict_same (setup_of (scn_par rot)) 2 = true /\ strict_same (setup_of (scn_par_page rot)) 2 = true.
Proof. intros []; split; vm_cast_no_check (eq_refl true). Qed.
Lemma sweep_strict_refresh : strict_same (setup_of (scn_refresh true)) 2 = true.
Proof. vm_cast_no_check (eq_refl true). Qed.
(* request_uri x response type, two requests: one winner when no code is issued (the consume is the Delete),
   as on the lenient storage when one is (the consume is the Save that clears the index) *)
Definition strict_uri (rt : string) (rot : bool) : bool :=
  let su := setup_of (scn_uri rt rot) in
  if rt_contains rt "code" then strict_same su 2 else strict_one su 2.
Lemma sweep_strict_uri : forall rot, forallb (fun rt => strict_uri rt rot) ru_resp_types = true.
Proof. intros []; vm_cast_no_check (eq_refl true). Qed.

(* ---- 2. end to end ---- *)
Lemma sweep_e2e_par : forall rot,
  e2e_ok 1 (setup_of (scn_par rot)) 2 = true /\ e2e_ok 1 (setup_of (scn_par_page rot)) 2 = true.
Proof. intros []; split; vm_cast_no_check (eq_refl true). Qed.
Lemma sweep_e2e_par_3 : e2e_ok 1 (setup_of (scn_par true)) 3 = true /\ e2e_ok 1 (setup_of (scn_par_page true)) 3 = true.
Proof. split; vm_cast_no_check (eq_refl true). Qed.
Definition e2e_expect (rt : string) : nat := if rt_contains rt "code" then 1 else 0.
Lemma sweep_e2e_uri : forall rot, forallb (fun rt => e2e_ok (e2e_expect rt) (setup_of (scn_uri rt rot)) 2) ru_resp_types = true.
Proof. intros []; vm_cast_no_check (eq_refl true). Qed.
