(* C04Artifacts.v — what the authorization endpoint hands out follows the response type of the session,
   and the response type was validated against the client's grant types: a code only to a client
   registered for authorization_code, an access token or ID token (the `token` / `id_token` halves of the
   implicit and HYBRID response types) only to a client registered for implicit.  For GET/POST /authorize
   by symbolic execution of the handler for every store; for /authorize/{callback} through an invariant
   over all histories: the response type recorded in a stored session is aligned with the grant types of
   the session's client (Proofs/SessInv.v, rgC). *)
From Verif Require Import Base Scope Types Prog Pop Token Authorize System Config Run Monitors Hoare Tactics OneShot
  C02Proofs C02Handlers C04More C17Proofs C19Proofs SessInv.
From Verif Require Import ParStored.
Local Open Scope N_scope.

Definition nav_follows (rt : string) (code0 : id) (nv : nav) : Prop :=
  (is_nil (n_code nv) = false -> rt_contains rt "code" = true \/ n_code nv = code0) /\
  (is_nil (n_at nv) = false -> rt_contains rt "token" = true) /\
  (n_idt nv = true -> rt_contains rt "id_token" = true).
Definition ares_follows (s : asession) (a : ares) : Prop :=
  match a with
  | ADone (ONav _ _ nv) => nav_follows (p_resp_type (a_params s)) (a_code s) nv
  | _ => True
  end.
Definition out_follows (rt : string) (code0 : id) (o : out) : Prop :=
  match o with ONav _ _ nv => nav_follows rt code0 nv | _ => True end.

Section A.
  Variable w : world.
  Local Opaque validate_params validate_optionals validate_in_out merge_params mint make_token contains_openid rt_contains nav_mode.

  Lemma authenticate_follows n now s pol st :
    ares_follows s (snd (run_seq (authenticate w n now s pol) st)).
  Proof.
    unfold authenticate, save_a. destruct pol; cbn [run_seq].
    all: try rewrite run_get_client.
    all: repeat (cbn; try exact I; break_inner).
    all: cbn; try exact I.
    all: unfold nav_follows; cbn; repeat split; intros; auto; try discriminate; try congruence;
         try (match goal with H : is_nil 0 = false |- _ => cbn in H; discriminate end);
         try (match goal with H : (_ && _)%bool = true |- _ => apply andb_true_iff in H as [_ H]; exact H end);
         try (match goal with H : negb ?b = false |- _ => apply negb_false_iff in H; auto end).
  Qed.

  Lemma start_session_follows n now c s r st :
    ares_follows s (snd (run_seq (start_session w n now c s r) st)).
  Proof.
    unfold start_session.
    repeat match goal with |- context [if ?b then Ret _ else _] => destruct b; [cbn; exact I|] end.
    cbn [run_seq].
    match goal with |- context [authenticate w n now ?s' ?pol] => pose proof (authenticate_follows n now s' pol st) as T end.
    exact T.
  Qed.

  Local Transparent rt_contains.
  Lemma rt_contains_nonempty rt x : is_empty x = false -> rt_contains rt x = true -> is_empty rt = false.
  Proof. destruct rt; cbn; auto. unfold rt_contains. cbn. destruct x; cbn; [discriminate|]. intros _ H. discriminate. Qed.
  Local Opaque rt_contains.

  Local Transparent merge_params.
  Lemma merge_rt_inner i o x : is_empty x = false -> rt_contains (p_resp_type i) x = true ->
    p_resp_type (merge_params i o) = p_resp_type i.
  Proof. intros Hx H. apply (rt_contains_nonempty _ _ Hx) in H. unfold merge_params, nz. cbn. rewrite H. reflexivity. Qed.
  Local Opaque merge_params.

  Local Transparent validate_in_out.
  Lemma vio_types cfg i o c : validate_in_out cfg i o c = None ->
    (rt_contains (p_resp_type (merge_params i o)) "code" = true -> has_grant GAuthorizationCode (c_grants c) = true) /\
    (rt_is_implicit (p_resp_type (merge_params i o)) = true -> has_grant GImplicit (c_grants c) = true).
  Proof.
    unfold validate_in_out. destruct (andb _ _); [discriminate|].
    destruct (validate_params cfg (merge_params i o) c) eqn:E; [discriminate|]. intros _.
    destruct (validate_params_types _ _ _ E) as [_ [A [B _]]]. auto.
  Qed.
  Local Opaque validate_in_out.
  Lemma client_for_par_grants cfg c u : c_grants (client_for_par cfg c u) = c_grants c.
  Proof. unfold client_for_par. destruct (andb _ _); reflexivity. Qed.

  Lemma implicit_of_token rt : rt_contains rt "token" = true -> rt_is_implicit rt = true.
  Proof. intros H. unfold rt_is_implicit. rewrite H. apply orb_true_r. Qed.
  Lemma implicit_of_idt rt : rt_contains rt "id_token" = true -> rt_is_implicit rt = true.
  Proof. intros H. unfold rt_is_implicit. rewrite H. reflexivity. Qed.

  (* GET/POST /authorize, every store and request *)
  Theorem init_auth_artifacts n now r st m u nv :
    snd (run_seq (init_auth w n now r) st) = ONav m u nv ->
    exists c, snd (run_seq (get_client w (ar_client r)) st) = Some c /\
      (is_nil (n_code nv) = false ->
         has_grant GAuthorizationCode (c_grants c) = true \/
         exists s, find (fun s => ideq (a_par s) (p_request_uri (ar_params r))) (st_asess st) = Some s /\
                   is_nil (p_request_uri (ar_params r)) = false /\ n_code nv = a_code s) /\
      (is_nil (n_at nv) = false \/ n_idt nv = true -> has_grant GImplicit (c_grants c) = true).
  Proof.
    unfold init_auth. destruct (is_nil (ar_client r)); [cbn; discriminate|].
    rewrite run_get_client.
    destruct (snd (run_seq (get_client w (ar_client r)) st)) as [c|] eqn:EC; [|cbn; discriminate].
    destruct (negb _); [cbn; discriminate|].
    assert (ERR : forall e, match render_aerr (w_cfg w) c e with ONav _ _ nv' => is_nil (n_code nv') = true /\ is_nil (n_at nv') = true /\ n_idt nv' = false | _ => True end).
    { intros [x|x p]; cbn; auto. }
    assert (FIN : forall e mm uu nn, render_aerr (w_cfg w) c e = ONav mm uu nn ->
              exists c0, Some c = Some c0 /\
                (is_nil (n_code nn) = false -> has_grant GAuthorizationCode (c_grants c0) = true \/
                   exists s, find (fun s => ideq (a_par s) (p_request_uri (ar_params r))) (st_asess st) = Some s /\
                             is_nil (p_request_uri (ar_params r)) = false /\ n_code nn = a_code s) /\
                (is_nil (n_at nn) = false \/ n_idt nn = true -> has_grant GImplicit (c_grants c0) = true)).
    { intros e mm uu nn H. specialize (ERR e). rewrite H in ERR. destruct ERR as [A [B C]]. exists c. split; auto.
      split; [intros X; congruence|intros [X|X]; congruence]. }
    destruct (should_use_par _ _ _).
    - destruct (is_nil (p_request_uri (ar_params r))) eqn:ENil; [cbn; discriminate|].
      cbn. destruct (find _ (st_asess st)) as [s|] eqn:EF; cbn; [|discriminate].
      destruct (negb (ideq (a_client s) (ar_client r))); [cbn; discriminate|].
      destruct (geb now (a_expires s)); [cbn; discriminate|].
      destruct (validate_in_out _ _ _ _) as [e|] eqn:EV.
      + cbn. intros H. eapply FIN; eauto.
      + rewrite run_seq_bind.
        match goal with |- context [start_session w n now c ?s' r] => pose proof (start_session_follows n now c s' r st) as T; remember s' as s1 eqn:Es1 end.
        destruct (run_seq (start_session w n now c s1 r) st) as [st1 a]. cbn in T. cbn.
        apply vio_types in EV as [VC VI]. rewrite client_for_par_grants in VC, VI.
        (* the response type of the session: the pushed one (FAPI) or the merged one *)
        assert (RT : forall x, is_empty x = false -> rt_contains (p_resp_type (a_params s1)) x = true ->
                     rt_contains (p_resp_type (merge_params (a_params s) (ar_params r))) x = true).
        { intros x Hx H. subst s1. destruct (is_fapi _); [|exact H]. rewrite (merge_rt_inner _ _ _ Hx H). exact H. }
        assert (CODE0 : a_code s1 = a_code s) by (subst s1; destruct (is_fapi _); reflexivity).
        destruct a as [o|e]; cbn.
        * destruct o; cbn; try discriminate. cbn in T. intros H; injection H as -> -> ->. exists c; split; auto.
          destruct T as [T1 [T2 T3]]. split.
          -- intros NC. destruct (T1 NC) as [K|K]; [left; apply VC; apply RT; auto|right; exists s; rewrite <- CODE0; auto].
          -- intros [K|K]; apply VI; [apply implicit_of_token, RT; auto|apply implicit_of_idt, RT; auto].
        * intros H. eapply FIN; eauto.
    - destruct (validate_params _ _ _) as [e|] eqn:EV.
      + cbn. intros H. eapply FIN; eauto.
      + rewrite run_seq_bind.
        match goal with |- context [start_session w n now c ?s' r] => pose proof (start_session_follows n now c s' r st) as T end.
        destruct (run_seq (start_session w n now c _ r) st) as [st1 a]. cbn in T. cbn.
        destruct (validate_params_types _ _ _ EV) as [_ [VC [VI _]]].
        destruct a as [o|e]; cbn.
        * destruct o; cbn; try discriminate. cbn in T. intros H; injection H as -> -> ->. exists c; split; auto.
          destruct T as [T1 [T2 T3]]. split.
          -- intros NC. destruct (T1 NC) as [K|K]; [left; auto|rewrite K in NC; cbn in NC; discriminate].
          -- intros [K|K]; apply VI; [apply implicit_of_token; auto|apply implicit_of_idt; auto].
        * intros H. eapply FIN; eauto.
  Qed.

  (* /authorize/{callback}: what is handed out follows the response type of the stored session *)
  Theorem continue_auth_artifacts n now r st m u nv :
    snd (run_seq (continue_auth w n now r) st) = ONav m u nv ->
    exists s, find (fun s => ideq (a_cb s) (cb_id r)) (st_asess st) = Some s /\ is_nil (cb_id r) = false /\
      nav_follows (p_resp_type (a_params s)) (a_code s) nv.
  Proof.
    unfold continue_auth. destruct (is_nil (cb_id r)) eqn:EN; [cbn; discriminate|].
    cbn. destruct (find _ (st_asess st)) as [s|] eqn:EF; cbn; [|discriminate].
    destruct (geb now (a_expires s)); [cbn; discriminate|].
    rewrite run_seq_bind. pose proof (authenticate_follows n now s (cb_pol r) st) as T.
    destruct (run_seq (authenticate w n now s (cb_pol r)) st) as [st1 a]. cbn in T.
    destruct a as [o|e].
    - cbn. destruct o; cbn; try discriminate. intros H; injection H as -> -> ->. exists s; auto.
    - rewrite run_get_client. destruct (snd (run_seq (get_client w (a_client s)) st1)) as [c|]; cbn; [|discriminate].
      destruct e as [x|x p]; cbn; [discriminate|]. intros H; injection H as <- <- <-. exists s. repeat split; auto; cbn; intros; discriminate.
  Qed.
End A.

(* in every reachable state a session reachable through a request_uri carries no code (exactly one index
   is set, C17Proofs), so: in every reachable state of every history, a code leaves the authorization
   endpoint only for a client registered for authorization_code, an access token or ID token only for a
   client registered for implicit - whatever the response type (code, implicit, hybrid) and however the
   request arrived (direct or pushed) *)
Lemma one_index_par_no_code s : n_indexes s = 1%nat -> is_nil (a_par s) = false -> a_code s = 0.
Proof.
  unfold n_indexes. intros H E. rewrite E in H.
  destruct (is_nil (a_code s)) eqn:EC; [apply N.eqb_eq in EC; exact EC|].
  destruct (is_nil (a_cb s)), (is_nil (a_ciba s)); cbn in H; discriminate.
Qed.

Theorem authorize_artifacts_registered_all w dyn ops n now r m u nv :
  let st := s_store (fst (run_from w (init_state dyn) 0 ops)) in
  snd (run_seq (init_auth w n now r) st) = ONav m u nv ->
  exists c, snd (run_seq (get_client w (ar_client r)) st) = Some c /\
    (is_nil (n_code nv) = false -> has_grant GAuthorizationCode (c_grants c) = true) /\
    (is_nil (n_at nv) = false \/ n_idt nv = true -> has_grant GImplicit (c_grants c) = true).
Proof.
  intros st H. destruct (init_auth_artifacts w n now r st m u nv H) as [c [EC [A B]]].
  exists c. split; [exact EC|]. split; [|exact B].
  intros NC. destruct (A NC) as [K|[s [EF [NU K]]]]; [exact K|]. exfalso.
  apply find_some in EF as [IN EP]. apply N.eqb_eq in EP.
  pose proof (proj2 (one_index_all_histories w dyn ops) s IN) as OI.
  assert (is_nil (a_par s) = false) as NP by (rewrite EP; exact NU).
  rewrite (one_index_par_no_code s OI NP) in K. rewrite K in NC. cbn in NC. discriminate.
Qed.

Local Transparent validate_optionals.
Lemma vo_types cfg p c : validate_optionals cfg p c = None ->
  (rt_contains (p_resp_type p) "code" = true -> has_grant GAuthorizationCode (c_grants c) = true) /\
  (rt_is_implicit (p_resp_type p) = true -> has_grant GImplicit (c_grants c) = true).
Proof.
  intros EO. destruct (is_empty (p_resp_type p)) eqn:ERT.
  - assert (p_resp_type p = "") as -> by (destruct (p_resp_type p); [reflexivity|discriminate]).
    split; intros H; vm_compute in H; discriminate.
  - unfold validate_optionals in EO.
    repeat match type of EO with
           | (if ?b then Some _ else _) = None => let E := fresh "E" in destruct b eqn:E; [discriminate|]
           end.
    rewrite ERT in *. cbn [negb andb] in *.
    split; intros H; rewrite H in *; cbn in *;
      match goal with E : negb (has_grant _ _) = false |- has_grant _ _ = true => apply negb_false_iff in E; exact E end.
Qed.
Local Opaque validate_optionals.

Section Types.
  Variable w : world.
  Variable dyn : list client.
  Notation client_of := (client_of w dyn).

  Definition types_ok (s : asession) : Prop :=
    forall c, client_of (a_client s) = Some c ->
      (rt_contains (p_resp_type (a_params s)) "code" = true -> has_grant GAuthorizationCode (c_grants c) = true) /\
      (rt_is_implicit (p_resp_type (a_params s)) = true -> has_grant GImplicit (c_grants c) = true).
  Notation rgt := (rgC dyn types_ok).

  Local Opaque contains_all_scopes are_scopes_allowed validate_binding validate_pkce refresh_binding
       validate_params validate_optionals validate_in_out merge_params mint make_token
       validate_jwt set_pop_jkt set_pop_x5t rt_contains rt_is_implicit.

  Lemma types_ok_same s s' : a_client s' = a_client s -> p_resp_type (a_params s') = p_resp_type (a_params s) ->
    types_ok s -> types_ok s'.
  Proof. unfold types_ok. intros E1 E2 H c. rewrite E1, E2. apply H. Qed.

  Ltac tcrunch K :=
    repeat (cbn; try match goal with
                | |- True => exact I
                | |- _ /\ _ => split
                | |- forall _, _ => intro
                | |- types_ok _ => apply K; reflexivity
                end; try break_goal).

  Lemma authenticate_rgt n now s pol : types_ok s -> rgt (authenticate w n now s pol).
  Proof.
    intros OK. unfold authenticate, save_a.
    assert (K : forall s', a_client s' = a_client s -> p_resp_type (a_params s') = p_resp_type (a_params s) -> types_ok s').
    { intros s' E1 E2. eapply types_ok_same; eauto. }
    destruct pol; cbn.
    - apply rgC_bind; [apply quiet_rgC, get_client_quiet|]. intros [c|]; [|exact I]. tcrunch K.
    - tcrunch K.
    - tcrunch K.
    - tcrunch K.
  Qed.
  Lemma start_session_rgt n now c s r : types_ok s -> rgt (start_session w n now c s r).
  Proof.
    intros OK. unfold start_session. repeat (break_goal; [exact I|]). cbn.
    apply authenticate_rgt. eapply types_ok_same; [| |exact OK]; reflexivity.
  Qed.

  Lemma same_client c c' i : client_of i = Some c -> client_of i = Some c' -> c' = c.
  Proof. congruence. Qed.

  Lemma init_auth_rgt n now r : rgt (init_auth w n now r).
  Proof.
    unfold init_auth. destruct (is_nil (ar_client r)); [exact I|].
    eapply rgC_bindq; [apply get_client_rgCq|]. intros [c|] Hc; [|exact I]. cbn in Hc.
    break_goal; [exact I|]. break_goal.
    - break_goal; [exact I|]. cbn. split; [exact I|]. intros rp Hr. destruct rp; try exact I. cbn in Hr.
      destruct (negb (ideq (a_client s) (ar_client r))) eqn:ECl; [cbn; split; [exact I|]; intros rd _; destruct rd; exact I|].
      destruct (geb now (a_expires s)); [cbn; split; [exact I|]; intros rd _; destruct rd; exact I|].
      destruct (validate_in_out _ _ _ _) eqn:EV; [cbn; split; [exact I|]; intros rd _; destruct rd; exact I|].
      apply rgC_bind; [|intros; exact I]. apply start_session_rgt.
      apply negb_false_iff in ECl. apply N.eqb_eq in ECl.
      destruct (is_fapi (cf_profile (w_cfg w))); [exact Hr|].
      apply vio_types in EV as [VC VI]. rewrite client_for_par_grants in VC, VI.
      unfold types_ok. cbn. intros c0 H0. rewrite ECl in H0. rewrite (same_client _ _ _ Hc H0). auto.
    - destruct (validate_params _ _ _) eqn:EV; [exact I|].
      apply rgC_bind; [|intros; exact I]. apply start_session_rgt.
      destruct (validate_params_types _ _ _ EV) as [_ [VC [VI _]]].
      unfold types_ok. cbn. intros c0 H0. rewrite (client_of_id _ _ _ _ Hc) in H0. rewrite (same_client _ _ _ Hc H0). auto.
  Qed.
  Lemma continue_auth_rgt n now r : rgt (continue_auth w n now r).
  Proof.
    unfold continue_auth. destruct (is_nil (cb_id r)); [exact I|].
    cbn. split; [exact I|]. intros rp Hr. destruct rp; try exact I. cbn in Hr.
    destruct (geb now (a_expires s)); [exact I|].
    apply rgC_bind; [apply authenticate_rgt; exact Hr|].
    intros [o|e]; [exact I|]. apply quiet_rgC. apply quiet_bind; [apply get_client_quiet|]. intros [c|]; cbn; auto.
  Qed.
  Lemma push_auth_rgt n now r : rgt (push_auth w n now r).
  Proof.
    unfold push_auth, save_a. destruct (par_stored_eq (pr_params r)) as [sd SE]; rewrite SE; clear SE. destruct (negb _); [exact I|].
    eapply rgC_bindq; [apply authenticated_rgCq|]. intros [c|] Hc; [|exact I]. cbn in Hc.
    destruct (negb (is_nil (p_request_uri (pr_params r)))); [exact I|].
    assert (K : match (if is_fapi (cf_profile (w_cfg w)) then validate_params (w_cfg w) (pr_params r) (client_for_par (w_cfg w) c (p_redirect (pr_params r)))
                       else validate_optionals (w_cfg w) (pr_params r) (client_for_par (w_cfg w) c (p_redirect (pr_params r)))) with
                None => forall s', a_client s' = c_id c -> p_resp_type (a_params s') = p_resp_type (pr_params r) -> types_ok s'
                | _ => True end).
    { assert (G : (rt_contains (p_resp_type (pr_params r)) "code" = true -> has_grant GAuthorizationCode (c_grants c) = true) /\
                  (rt_is_implicit (p_resp_type (pr_params r)) = true -> has_grant GImplicit (c_grants c) = true) ->
                  forall s', a_client s' = c_id c -> p_resp_type (a_params s') = p_resp_type (pr_params r) -> types_ok s').
      { intros G s' E1 E2 c0 H0. rewrite E1 in H0. rewrite E2. rewrite (client_of_id _ _ _ _ Hc) in H0. rewrite (same_client _ _ _ Hc H0). exact G. }
      destruct (is_fapi _).
      - destruct (validate_params _ _ _) eqn:E; [exact I|]. apply G.
        destruct (validate_params_types _ _ _ E) as [_ [VC [VI _]]]. rewrite client_for_par_grants in VC, VI. auto.
      - destruct (validate_optionals _ _ _) eqn:E; [exact I|]. apply G.
        apply vo_types in E. rewrite client_for_par_grants in E. exact E. }
    destruct (if is_fapi (cf_profile (w_cfg w)) then _ else _) as [[e|e p]|]; try exact I.
    tcrunch K.
  Qed.
  Lemma init_back_auth_rgt n now r : rgt (init_back_auth w n now r).
  Proof.
    unfold init_back_auth, save_a. destruct (negb _); [exact I|].
    eapply rgC_bindq; [apply authenticated_rgCq|]. intros [c|] Hc; [|exact I]. cbn in Hc.
    repeat (break_goal; [exact I|]).
    destruct (validate_optionals _ _ _) as [[e|e p]|] eqn:EV; try exact I.
    apply vo_types in EV.
    assert (K : forall s', a_client s' = c_id c -> p_resp_type (a_params s') = p_resp_type (br_params r) -> types_ok s').
    { intros s' Ha Hb c0 H0. rewrite Ha in H0. rewrite Hb. rewrite (client_of_id _ _ _ _ Hc) in H0. rewrite (same_client _ _ _ Hc H0). exact EV. }
    tcrunch K.
  Qed.

  Theorem handler_rgt n now o : rgt (handler w n now o).
  Proof.
    unfold handler. destruct o; try (apply rgC_bind; [|intros; exact I]).
    - apply init_auth_rgt. - apply continue_auth_rgt. - apply push_auth_rgt.
    - destruct g; try exact I; (apply rgC_bind; [|intros; exact I]); apply quiet_rgC.
      + apply cc_grant_quiet. + apply code_grant_quiet. + apply refresh_grant_quiet. + apply jwt_bearer_grant_quiet. + apply ciba_grant_quiet.
    - apply quiet_rgC, introspect_quiet. - apply quiet_rgC, revoke_quiet. - apply quiet_rgC, userinfo_quiet.
    - apply quiet_rgC, token_info_quiet. - apply quiet_rgC, token_info_req_quiet.
    - apply init_back_auth_rgt. - apply quiet_rgC, notify_success_quiet. - apply quiet_rgC, notify_failure_quiet.
    - exact I.
  Qed.

  Definition tinv (st : state) : Prop := invC dyn types_ok (s_store st).
  Lemma step_tinv st n o : tinv st -> tinv (fst (step w st n o)).
  Proof.
    intros H. unfold step, step_with, tinv in *.
    assert (G : forall p : prog obs, rgt p ->
                invC dyn types_ok (s_store (fst (let '(sto, x) := run_seq p (s_store st) in (mkState sto (s_now st), x))))).
    { intros p Hp. pose proof (run_seq_invC dyn types_ok p (s_store st) Hp H) as R.
      destruct (run_seq p (s_store st)) as [sto x]. exact R. }
    destruct o; try (apply G; exact (handler_rgt _ _ _)).
    cbn. exact H.
  Qed.
  Theorem tinv_all_histories ops : tinv (fst (run_from w (init_state dyn) 0 ops)).
  Proof. apply run_from_inv; [intros; apply step_tinv; auto|]. split; [reflexivity|intros s []]. Qed.
End Types.

Lemma one_index_cb_no_code s : n_indexes s = 1%nat -> is_nil (a_cb s) = false -> a_code s = 0.
Proof.
  unfold n_indexes. intros H E. rewrite E in H.
  destruct (is_nil (a_code s)) eqn:EC; [apply N.eqb_eq in EC; exact EC|].
  destruct (is_nil (a_par s)), (is_nil (a_ciba s)); cbn in H; discriminate.
Qed.

(* in every reachable state of every history: what /authorize/{callback} hands out at the end of an
   interaction - a code, an access token, an ID token - is served only to a client (the one the session
   belongs to) registered for the grant type behind it *)
Theorem callback_artifacts_registered_all w dyn ops n now r m u nv :
  let st := s_store (fst (run_from w (init_state dyn) 0 ops)) in
  snd (run_seq (continue_auth w n now r) st) = ONav m u nv ->
  exists s, find (fun s => ideq (a_cb s) (cb_id r)) (st_asess st) = Some s /\
    forall c, client_of w dyn (a_client s) = Some c ->
      (is_nil (n_code nv) = false -> has_grant GAuthorizationCode (c_grants c) = true) /\
      (is_nil (n_at nv) = false \/ n_idt nv = true -> has_grant GImplicit (c_grants c) = true).
Proof.
  intros st H. destruct (continue_auth_artifacts w n now r st m u nv H) as [s [EF [NN [F1 [F2 F3]]]]].
  exists s. split; [exact EF|]. intros c HC.
  pose proof EF as EF'. apply find_some in EF' as [IN EP]. apply N.eqb_eq in EP.
  pose proof (proj2 (one_index_all_histories w dyn ops) s IN) as OI.
  assert (is_nil (a_cb s) = false) as NP by (rewrite EP; exact NN).
  pose proof (one_index_cb_no_code s OI NP) as C0.
  destruct (proj2 (tinv_all_histories w dyn ops) s IN c HC) as [TC TI].
  split.
  - intros NC. destruct (F1 NC) as [K|K]; [auto|]. rewrite C0 in K. rewrite K in NC. cbn in NC. discriminate.
  - intros [K|K]; apply TI; [apply implicit_of_token; auto|apply implicit_of_idt; auto].
Qed.
