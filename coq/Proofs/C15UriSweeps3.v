(* C15UriSweeps3.v — the pushed request_uri, THREE racing requests (rotation off; the authorization endpoint never
   reads the rotation flag).  The sweeps are re-checked by coqchk in the thorough tier, which is an order of
   magnitude slower than the VM: two representative response types only -
     code id_token  (hybrid, four-call flow, consumed by the overwriting Save): EVERY interleaving (34650);
     code token     (five-call flow: the grant save follows the consume): the 34650 interleavings that follow the three
                    read-only client lookups (756756 in all).
   The other response types with three requests are covered by the correspondence only (thorough tier: every
   interleaving of the four-call flows, 5000 sampled ones of the five-call flows, each compared with run_il). *)
From Verif Require Import Base Scope Types Prog Pop Token Authorize System Config Run Monitors Race RaceUri Tactics C15Sweeps C15UriDefs.
Local Open Scope nat_scope.
Local Open Scope string_scope.

Lemma sweep_uri_3_hybrid : uri_ok "code id_token" (setup_of (scn_uri "code id_token" false)) 3 = true.
Proof. vm_cast_no_check (eq_refl true). Qed.

Lemma sweep_uri_3_code_token :
  uri_ok_on "code token" (setup_of (scn_uri "code token" false)) 3 (schedules_after_first_call (setup_of (scn_uri "code token" false)) 3) = true.
Proof. vm_cast_no_check (eq_refl true). Qed.
