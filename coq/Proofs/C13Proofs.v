(* C13Proofs.v — proofs for Props/C13.v. *)
From Verif Require Import Base Scope Types Prog Pop Token Authorize System Config Partial Tactics.
Local Open Scope N_scope.

(* ========================================================================================== *)
(* Part 1: the panic sites                                                                     *)
(* ========================================================================================== *)

Lemma url_fixed_total u n : panics (url_with_query_params u n) = false.
Proof.
  unfold url_with_query_params, url_with_query_params_unguarded.
  destruct (Nat.eqb n 0); [reflexivity|]. destruct (ru_parses u); reflexivity.
Qed.

Lemma url_guarded allowed u n :
  ru_str u <> "" -> validate_redirect_uri_as_optional allowed u = None ->
  panics (url_with_query_params_unguarded u n) = false.
Proof.
  unfold validate_redirect_uri_as_optional, url_with_query_params_unguarded. intros Hne.
  destruct (is_empty (ru_str u)) eqn:E; [apply is_empty_spec in E; contradiction|].
  destruct (mem _ _); cbn; [|discriminate]. destruct (ru_parses u); cbn; [|discriminate].
  destruct (Nat.eqb n 0); reflexivity.
Qed.

Lemma url_prefix_refuted :
  exists allowed u n, ru_str u <> "" /\ validate_redirect_uri_as_optional_prefix allowed u = None /\
                      panics (url_with_query_params_unguarded u n) = true.
Proof. exists ["%"], (mkRuri "%" false), 1%nat. split; [discriminate|]. split; reflexivity. Qed.

Lemma validate_jwt_accepts l lw p t j :
  validate_jwt l lw p t j = None -> dp_parses p = true /\ exists k, dp_jwk p = JwkPublic k.
Proof.
  unfold validate_jwt. destruct (dp_parses p); cbn; [|discriminate].
  destruct (dp_typ_ok p); cbn; [|discriminate].
  destruct (dp_jwk p); try discriminate. intros _. split; [reflexivity|eauto].
Qed.

Lemma jwk_thumbprint_validated l lw p t j :
  validate_jwt l lw p t j = None -> jwk_thumbprint p = Val (jwk_thumb (dp_jwk p)).
Proof.
  intros H. apply validate_jwt_accepts in H as [Hp [k Hk]].
  unfold jwk_thumbprint. rewrite Hp, Hk. reflexivity.
Qed.

(* ValidateJWT's own call of JWKThumbprint never panics, and the explicit version computes
   exactly what Pop.validate_jwt computes *)
Lemma validate_jwt_p_total l lw p t j : validate_jwt_p l lw p t j = Val (validate_jwt l lw p t j).
Proof.
  unfold validate_jwt_p, validate_jwt, jwk_thumbprint.
  destruct (dp_parses p) eqn:Ep; cbn; [|reflexivity].
  destruct (dp_typ_ok p); cbn; [|reflexivity].
  destruct (dp_jwk p) eqn:Ej; try reflexivity.
  destruct (negb (ideq (dp_signer p) k)); [reflexivity|].
  destruct (dp_iat_age p); [|reflexivity].
  destruct (Z.ltb l z); [reflexivity|].
  destruct (negb (dp_jti p)); [reflexivity|].
  destruct (negb (dp_htm_ok p)); [reflexivity|].
  destruct (negb (htu_ok (dp_htu p))); [reflexivity|].
  destruct (andb _ _); [reflexivity|].
  destruct (is_nil j); cbn; [destruct (Z.ltb z (- lw)); reflexivity|].
  destruct (ideq k j); cbn; [destruct (Z.ltb z (- lw)); reflexivity|reflexivity].
Qed.

Lemma validate_binding_dpop_of cfg c b o :
  validate_binding cfg c b o = None -> validate_binding_dpop cfg c b o = None.
Proof. unfold validate_binding. destruct (validate_binding_dpop cfg c b o); [discriminate|reflexivity]. Qed.

Lemma set_pop_guarded cfg c b o :
  validate_binding cfg c b o = None -> set_pop_jkt_p cfg b = Val (set_pop_jkt cfg b).
Proof.
  intros H. apply validate_binding_dpop_of in H. unfold validate_binding_dpop in H.
  unfold set_pop_jkt_p, set_pop_jkt. destruct (b_dpop b) as [p|]; [|reflexivity].
  destruct (cf_dpop_enabled cfg); cbn in *; [|reflexivity].
  eapply jwk_thumbprint_validated; eauto.
Qed.

Lemma set_pop_par_guarded cfg b jkt :
  validate_code_binding_dpop cfg b jkt = None -> panics (set_pop_par_p cfg b jkt) = false.
Proof.
  unfold validate_code_binding_dpop, set_pop_par_p.
  destruct (cf_dpop_enabled cfg); cbn; [|reflexivity].
  destruct (b_dpop b) as [p|]; [|reflexivity]. intros H.
  erewrite jwk_thumbprint_validated; eauto.
Qed.

Lemma update_pop_refresh_guarded cfg c b g :
  cf_dpop_enabled cfg = true \/ c_public c = true ->
  refresh_binding cfg c b g = None -> panics (update_pop_refresh_p b g) = false.
Proof.
  intros Hen. unfold refresh_binding, update_pop_refresh_p, validate_pop, validate_binding_dpop.
  destruct (b_dpop b) as [p|]; [|reflexivity].
  destruct (is_nil (g_jkt g)); [reflexivity|].
  destruct (c_public c).
  - destruct (validate_jwt _ _ p 0 (g_jkt g)) eqn:E; [discriminate|]. intros _.
    erewrite jwk_thumbprint_validated; eauto.
  - destruct Hen as [Hen|Hen]; [|discriminate]. rewrite Hen. cbn.
    destruct (validate_jwt _ _ p 0 0) eqn:E; [discriminate|]. intros _.
    erewrite jwk_thumbprint_validated; eauto.
Qed.

(* the residual: the refresh path consults the grant, not the configuration; a grant that
   carries a jkt under a configuration WITHOUT DPoP (possible only after a reconfiguration of
   the provider over an old store) lets a junk DPoP header reach JWKThumbprint unvalidated *)
Definition junk_proof : dpop_proof := mkProof false false JwkAbsent 0 None false false HtuUnparsable 0.
Lemma update_pop_refresh_needs_dpop_enabled :
  exists cfg c b g, cf_dpop_enabled cfg = false /\ c_public c = false /\
    refresh_binding cfg c b g = None /\ panics (update_pop_refresh_p b g) = true.
Proof.
  pose (cfg := mkConfig POpenID [] [] [] [] false 0 0 false false 0 false false "" [] false false 0 false
                 false false false false false 0 false false false false false false false false false
                 false false false false false false false "").
  pose (c := mkClient 1 false [] [] [] "" CibaNone false false false false false false false 0 false).
  pose (g := mkGSession 1 1 1 0 0 0 GRefreshToken "" 1 "" "" 7 0).
  exists cfg, c, (mkBind (Some junk_proof) 0), g. repeat split; reflexivity.
Qed.

(* no stored grant carries a jkt under a configuration without DPoP: every constructor of a
   grant in the model takes its jkt from set_pop_jkt / the cf_dpop_enabled-guarded expressions *)
Lemma set_pop_jkt_disabled cfg b : cf_dpop_enabled cfg = false -> set_pop_jkt cfg b = 0.
Proof. unfold set_pop_jkt. intros ->. destruct (b_dpop b); reflexivity. Qed.

Lemma extract_jti_total uuid add :
  add <> JtiOther -> panics (extract_jti (make_jwt_jti uuid add)) = false.
Proof. destruct add; cbn; congruence. Qed.

Lemma validate_binding_tls_p_total cfg c b o :
  caller_opts_ok o = true -> validate_binding_tls_p cfg c b o = Val (validate_binding_tls cfg c b o).
Proof.
  unfold caller_opts_ok, validate_binding_tls_p, validate_binding_tls. intros H.
  destruct (cf_tls_binding_enabled cfg); cbn; [|reflexivity].
  destruct (is_nil (b_cert b)) eqn:Ec; cbn.
  - destruct (is_nil (bo_tls_thumb o)) eqn:Et; cbn in *.
    + destruct (orb _ _); reflexivity.
    + rewrite H. rewrite !orb_true_r. reflexivity.
  - destruct (is_nil (bo_tls_thumb o)); cbn; [reflexivity|].
    destruct (ideq (bo_tls_thumb o) (b_cert b)); reflexivity.
Qed.
Lemma caller_opts_code s : caller_opts_ok (code_bind_opts s) = true.
Proof. unfold caller_opts_ok, code_bind_opts; cbn. destruct (is_nil (a_x5t s)); reflexivity. Qed.
Lemma caller_opts_refresh g : caller_opts_ok (refresh_tls_opts g) = true.
Proof. unfold caller_opts_ok; cbn. apply orb_true_r. Qed.
Lemma caller_opts_none : caller_opts_ok no_opts = true.
Proof. reflexivity. Qed.

Lemma send_client_notification_guarded e :
  dcr_validate_url e = None -> panics (send_client_notification e) = false.
Proof. unfold dcr_validate_url, send_client_notification. destruct (ep_parses e); cbn; [reflexivity|discriminate]. Qed.

Lemma id_token_hint_guarded h :
  validate_id_token_hint_as_optional h = None -> panics (id_token_hint_claims h) = false.
Proof.
  unfold validate_id_token_hint_as_optional, id_token_hint_claims.
  destruct (h_present h); cbn; [|reflexivity]. destruct (h_parses h); cbn; [reflexivity|discriminate].
Qed.

Lemma policy_authenticate_guarded ps f p :
  available_policy ps f = Some p -> panics (policy_authenticate ps p) = false.
Proof.
  unfold available_policy, policy_authenticate. intros H. apply find_some in H as [H _].
  apply memN_In in H. rewrite H. reflexivity.
Qed.

(* ========================================================================================== *)
(* Part 2: status codes                                                                        *)
(* ========================================================================================== *)

Lemma error_status_4xx e : e <> EInternalError -> (400 <= error_status e /\ error_status e <= 499).
Proof. destruct e; cbn; intros H; try lia; congruence. Qed.
Lemma error_status_5xx_iff e : (500 <= error_status e) <-> e = EInternalError.
Proof. destruct e; cbn; split; intros H; try lia; try congruence; try reflexivity. Qed.
Lemma write_error_shape h :
  ae_json_with_error_member (write_error h) = true /\
  (match h with HGoidc e => e <> EInternalError | HForeign => False end ->
   400 <= ae_status (write_error h) <= 499).
Proof.
  split; [reflexivity|]. destruct h; [|tauto]. cbn. apply error_status_4xx.
Qed.
Lemma api_status_5xx_iff o : is_panic o = false ->
  (500 <= api_status o <-> o = OErr EInternalError).
Proof.
  destruct o; cbn; intros Hp; try discriminate; try (split; [lia|discriminate]).
  rewrite error_status_5xx_iff. split; congruence.
Qed.

(* ========================================================================================== *)
(* Part 3: the handlers                                                                        *)
(* ========================================================================================== *)

Local Opaque contains_all_scopes are_scopes_allowed validate_binding validate_pkce refresh_binding
       validate_params validate_optionals validate_in_out merge_params validate_jwt validate_pop
       validate_binding_dpop validate_binding_tls set_pop_jkt set_pop_x5t tokens_out
       contains_openid nav_mode rt_contains make_token classify has_grant mint.

Ltac crunch := repeat (cbn in *; intros; try break_goal).
Ltac done := cbn in *; intros; try discriminate; try congruence; auto.

(* ---- the sequential run and the faulty run with a fault-free plan coincide ---- *)
Definition no_faults : nat -> fault := fun _ => FNone.
Lemma run_fault_none {A} (p : prog A) : forall st n,
  fst (run_fault no_faults n p st) = run_seq p st.
Proof.
  induction p as [a|c k IH|o p IH]; intros st n; cbn; auto.
  destruct (exec c st) as [st' r]. apply IH.
Qed.

(* ---- no handler of the model returns OPanic ---- *)
Fixpoint leaves {A} (P : A -> Prop) (p : prog A) : Prop :=
  match p with
  | Ret a => P a
  | Do _ k => forall r, leaves P (k r)
  | Touch _ p' => leaves P p'
  end.
Lemma leaves_bind {A B} (P : A -> Prop) (Q : B -> Prop) (p : prog A) (f : A -> prog B) :
  leaves P p -> (forall a, P a -> leaves Q (f a)) -> leaves Q (bind p f).
Proof. induction p as [a|c k IH|o p IH]; cbn; intros Hp Hf; auto. Qed.
Lemma leaves_run_seq {A} (P : A -> Prop) (p : prog A) : forall st, leaves P p -> P (snd (run_seq p st)).
Proof.
  induction p as [a|c k IH|o p IH]; intros st H; cbn in *; auto.
  destruct (exec c st) as [st' r]. apply IH, H.
Qed.
Lemma leaves_run_alias {A} (P : A -> Prop) (p : prog A) : forall st, leaves P p -> P (snd (run_alias p st)).
Proof.
  induction p as [a|c k IH|o p IH]; intros st H; cbn in *; auto.
  destruct (exec c st) as [st' r]. apply IH, H.
Qed.
Lemma leaves_run_fault {A} (P : A -> Prop) (p : prog A) plan : forall st n,
  leaves P p -> P (snd (fst (run_fault plan n p st))).
Proof.
  induction p as [a|c k IH|o p IH]; intros st n H; cbn in *; auto.
  destruct (exec_fault (plan n) c st) as [st' r]. apply IH, H.
Qed.
Lemma leaves_true {A} (p : prog A) : leaves (fun _ => True) p.
Proof. induction p; cbn; auto. Qed.

Ltac rr := cbn; first [reflexivity | exact I].
Definition np (o : out) : Prop := is_panic o = false.
Definition np_ares (a : ares) : Prop := match a with ADone o => np o | AFail _ => True end.

Lemma np_render cfg c e : np (render_aerr cfg c e).
Proof. destruct e; reflexivity. Qed.

Lemma code_grant_np w n now r : leaves np (code_grant w n now r).
Proof.
  unfold code_grant, np. repeat (break_goal; [rr|]).
  eapply leaves_bind; [apply leaves_true|]. intros oc _. crunch; rr.
Qed.
Lemma refresh_grant_np w n now r : leaves np (refresh_grant w n now r).
Proof.
  unfold refresh_grant, np. repeat (break_goal; [rr|]).
  eapply leaves_bind; [apply leaves_true|]. intros oc _. crunch; rr.
Qed.
Lemma cc_grant_np w n now r : leaves np (cc_grant w n now r).
Proof.
  unfold cc_grant, np. repeat (break_goal; [rr|]).
  eapply leaves_bind; [apply leaves_true|]. intros oc _. crunch; rr.
Qed.
Lemma ciba_grant_np w n now r : leaves np (ciba_grant w n now r).
Proof.
  unfold ciba_grant, np. repeat (break_goal; [rr|]).
  eapply leaves_bind; [apply leaves_true|]. intros oc _. crunch; rr.
Qed.
Lemma introspection_info_any now p : leaves (fun _ => True) (introspection_info now p).
Proof. apply leaves_true. Qed.
Lemma introspect_np w now r : leaves np (introspect w now r).
Proof.
  unfold introspect, np. repeat (break_goal; [rr|]).
  eapply leaves_bind; [apply leaves_true|]. intros oc _.
  destruct oc; [|rr]. destruct (negb (q_allowed r)); [rr|].
  destruct (q_tok r); try rr; (eapply leaves_bind; [apply leaves_true|]; intros; reflexivity).
Qed.
Lemma revoke_np w now r : leaves np (revoke w now r).
Proof.
  unfold revoke, np. repeat (break_goal; [rr|]).
  eapply leaves_bind; [apply leaves_true|]. intros oc _.
  destruct oc; [|rr]. destruct (negb (q_allowed r)); [rr|].
  eapply leaves_bind; [apply leaves_true|]. intros i _. crunch; rr.
Qed.
Lemma userinfo_np w now r : leaves np (userinfo w now r).
Proof.
  unfold userinfo, np. repeat (break_goal; try rr). cbn. intros rp.
  repeat (break_goal; try rr).
  eapply leaves_bind; [apply leaves_true|]. intros oc _. destruct oc; rr.
Qed.
Lemma authenticate_np w n now s pol : leaves np_ares (authenticate w n now s pol).
Proof.
  unfold authenticate, save_a, np_ares, np. destruct pol.
  - cbn. eapply leaves_bind; [apply leaves_true|]. intros oc _. crunch; rr.
  - crunch; rr.
  - crunch; rr.
  - crunch; rr.
Qed.
Lemma start_session_np w n now c s r : leaves np_ares (start_session w n now c s r).
Proof.
  unfold start_session. repeat (break_goal; [rr|]). cbn. apply authenticate_np.
Qed.
Lemma finish_np cfg c a : np_ares a -> np (finish_ares cfg c a).
Proof. destruct a; cbn; auto. intros _. apply np_render. Qed.
Lemma init_auth_np w n now r : leaves np (init_auth w n now r).
Proof.
  unfold init_auth. break_goal; [rr|].
  eapply leaves_bind; [apply leaves_true|]. intros oc _.
  destruct oc as [c|]; [|rr].
  break_goal; [rr|]. break_goal.
  - break_goal; [rr|]. cbn. intros rp. destruct rp; try rr.
    match goal with |- leaves _ (match ?v with Some _ => _ | None => _ end) => destruct v end.
    + cbn. intros rd. destruct rd; try rr; apply np_render.
    + eapply leaves_bind; [apply start_session_np|]. intros a Ha. cbn. apply finish_np, Ha.
  - break_goal; [apply np_render|].
    eapply leaves_bind; [apply start_session_np|]. intros a Ha. cbn. apply finish_np, Ha.
Qed.
Lemma continue_auth_np w n now r : leaves np (continue_auth w n now r).
Proof.
  unfold continue_auth. cbn. intros rp. destruct rp; try rr.
  break_goal; [rr|].
  eapply leaves_bind; [apply authenticate_np|]. intros a Ha. destruct a; [exact Ha|].
  eapply leaves_bind; [apply leaves_true|]. intros oc _. destruct oc; [apply np_render|rr].
Qed.
Lemma push_auth_np w n now r : leaves np (push_auth w n now r).
Proof.
  unfold push_auth, save_a, np. break_goal; [rr|].
  eapply leaves_bind; [apply leaves_true|]. intros oc _. crunch; rr.
Qed.
Lemma init_back_auth_np w n now r : leaves np (init_back_auth w n now r).
Proof.
  unfold init_back_auth, save_a, np. break_goal; [rr|].
  eapply leaves_bind; [apply leaves_true|]. intros oc _. crunch; rr.
Qed.

Definition np_obs (x : obs) : Prop := match x with Out o => np o | Notified _ _ => True end.
Lemma lift_np (p : prog out) : leaves np p -> leaves np_obs (bind p (fun x => Ret (Out x))).
Proof. intros H. eapply leaves_bind; [exact H|]. intros a Ha. exact Ha. Qed.
Lemma handler_np w n now o : leaves np_obs (handler w n now o).
Proof.
  destruct o; try destruct g; cbv beta iota zeta delta [handler]; try (apply lift_np).
  - apply init_auth_np.
  - apply continue_auth_np.
  - apply push_auth_np.
  - apply cc_grant_np. - apply code_grant_np. - apply refresh_grant_np.
  - rr. - rr.
  - apply ciba_grant_np.
  - apply introspect_np.
  - apply revoke_np.
  - apply userinfo_np.
  - unfold token_info. eapply leaves_bind; [apply leaves_true|]. intros; rr.
  - unfold token_info_from_request. break_goal; [rr|].
    eapply leaves_bind; [apply leaves_true|]. intros i _. crunch; rr.
  - apply init_back_auth_np.
  - eapply leaves_bind; [apply leaves_true|]. intros; exact I.
  - eapply leaves_bind; [apply leaves_true|]. intros; exact I.
  - reflexivity.
Qed.

Lemma handlers_never_panic_seq w n now o st : np_obs (snd (run_seq (handler w n now o) st)).
Proof. apply leaves_run_seq, handler_np. Qed.
Lemma handlers_never_panic_alias w n now o st : np_obs (snd (run_alias (handler w n now o) st)).
Proof. apply leaves_run_alias, handler_np. Qed.
Lemma handlers_never_panic_fault w n now o plan st : np_obs (snd (fst (run_fault plan 0 (handler w n now o) st))).
Proof. apply leaves_run_fault, handler_np. Qed.
