(* C13Proofs.v — proofs for Props/C13.v. *)
From Verif Require Import Base Scope Types Prog Pop Token Authorize System Config Partial Tactics.
Local Open Scope N_scope.

(* ========================================================================================== *)
(* Part 1: the panic sites                                                                     *)
(* ========================================================================================== *)

Lemma url_fixed_total u n : panics (url_with_query_params u n) = false.
Proof.
  unfold url_with_query_params, url_with_query_params_unguarded.
  destruct (Nat.eqb n 0); [reflexivity|]. destruct (ru_parses u); reflexivity.
Qed.

Lemma url_guarded allowed u n :
  ru_str u <> "" -> validate_redirect_uri_as_optional allowed u = None ->
  panics (url_with_query_params_unguarded u n) = false.
Proof.
  unfold validate_redirect_uri_as_optional, url_with_query_params_unguarded. intros Hne.
  destruct (is_empty (ru_str u)) eqn:E; [apply is_empty_spec in E; contradiction|].
  destruct (mem _ _); cbn; [|discriminate]. destruct (ru_parses u); cbn; [|discriminate].
  destruct (Nat.eqb n 0); reflexivity.
Qed.

Lemma url_prefix_refuted :
  exists allowed u n, ru_str u <> "" /\ validate_redirect_uri_as_optional_prefix allowed u = None /\
                      panics (url_with_query_params_unguarded u n) = true.
Proof. exists ["%"], (mkRuri "%" false), 1%nat. split; [discriminate|]. split; reflexivity. Qed.

Lemma validate_jwt_accepts l lw p t j :
  validate_jwt l lw p t j = None -> dp_parses p = true /\ exists k, dp_jwk p = JwkPublic k.
Proof.
  unfold validate_jwt. destruct (dp_parses p); cbn; [|discriminate].
  destruct (dp_typ_ok p); cbn; [|discriminate].
  destruct (dp_jwk p); try discriminate. intros _. split; [reflexivity|eauto].
Qed.

Lemma jwk_thumbprint_validated l lw p t j :
  validate_jwt l lw p t j = None -> jwk_thumbprint p = Val (jwk_thumb (dp_jwk p)).
Proof.
  intros H. apply validate_jwt_accepts in H as [Hp [k Hk]].
  unfold jwk_thumbprint. rewrite Hp, Hk. reflexivity.
Qed.

(* ValidateJWT's own call of JWKThumbprint never panics, and the explicit version computes
   exactly what Pop.validate_jwt computes *)
Lemma validate_jwt_p_total l lw p t j : validate_jwt_p l lw p t j = Val (validate_jwt l lw p t j).
Proof.
  unfold validate_jwt_p, validate_jwt, jwk_thumbprint.
  destruct (dp_parses p) eqn:Ep; cbn; [|reflexivity].
  destruct (dp_typ_ok p); cbn; [|reflexivity].
  destruct (dp_jwk p) eqn:Ej; try reflexivity.
  destruct (negb (ideq (dp_signer p) k)); [reflexivity|].
  destruct (dp_iat_age p); [|reflexivity].
  destruct (Z.ltb l z); [reflexivity|].
  destruct (negb (dp_jti p)); [reflexivity|].
  destruct (negb (dp_htm_ok p)); [reflexivity|].
  destruct (negb (htu_ok (dp_htu p))); [reflexivity|].
  destruct (andb _ _); [reflexivity|].
  destruct (is_nil j); cbn; [destruct (Z.ltb z (- lw)); reflexivity|].
  destruct (ideq k j); cbn; [destruct (Z.ltb z (- lw)); reflexivity|reflexivity].
Qed.

Lemma validate_binding_dpop_of cfg c b o :
  validate_binding cfg c b o = None -> validate_binding_dpop cfg c b o = None.
Proof. unfold validate_binding. destruct (validate_binding_dpop cfg c b o); [discriminate|reflexivity]. Qed.

Lemma set_pop_guarded cfg c b o :
  validate_binding cfg c b o = None -> set_pop_jkt_p cfg b = Val (set_pop_jkt cfg b).
Proof.
  intros H. apply validate_binding_dpop_of in H. unfold validate_binding_dpop in H.
  unfold set_pop_jkt_p, set_pop_jkt. destruct (b_dpop b) as [p|]; [|reflexivity].
  destruct (cf_dpop_enabled cfg); cbn in *; [|reflexivity].
  eapply jwk_thumbprint_validated; eauto.
Qed.

Lemma set_pop_par_guarded cfg b jkt :
  validate_code_binding_dpop cfg b jkt = None -> panics (set_pop_par_p cfg b jkt) = false.
Proof.
  unfold validate_code_binding_dpop, set_pop_par_p.
  destruct (cf_dpop_enabled cfg); cbn; [|reflexivity].
  destruct (b_dpop b) as [p|]; [|reflexivity]. intros H.
  erewrite jwk_thumbprint_validated; eauto.
Qed.

Lemma update_pop_refresh_guarded cfg c b g :
  cf_dpop_enabled cfg = true \/ c_public c = true ->
  refresh_binding cfg c b g = None -> panics (update_pop_refresh_p b g) = false.
Proof.
  intros Hen. unfold refresh_binding, update_pop_refresh_p, validate_pop, validate_binding_dpop.
  destruct (b_dpop b) as [p|]; [|reflexivity].
  destruct (is_nil (g_jkt g)); [reflexivity|].
  destruct (c_public c).
  - destruct (validate_jwt _ _ p 0 (g_jkt g)) eqn:E; [discriminate|]. intros _.
    erewrite jwk_thumbprint_validated; eauto.
  - destruct Hen as [Hen|Hen]; [|discriminate]. rewrite Hen. cbn.
    destruct (validate_jwt _ _ p 0 0) eqn:E; [discriminate|]. intros _.
    erewrite jwk_thumbprint_validated; eauto.
Qed.

(* the residual: the refresh path consults the grant, not the configuration; a grant that
   carries a jkt under a configuration WITHOUT DPoP (possible only after a reconfiguration of
   the provider over an old store) lets a junk DPoP header reach JWKThumbprint unvalidated *)
Definition junk_proof : dpop_proof := mkProof false false JwkAbsent 0 None false false HtuUnparsable 0.
Lemma update_pop_refresh_needs_dpop_enabled :
  exists cfg c b g, cf_dpop_enabled cfg = false /\ c_public c = false /\
    refresh_binding cfg c b g = None /\ panics (update_pop_refresh_p b g) = true.
Proof.
  pose (cfg := mkConfig POpenID [] [] [] [] false 0 0 IssueNever false 0 false false "" [] false false 0 false
                 false false false false false 0 false false false false false false false false false
                 false false false false false false false "" false [] false [] CmpNone).
  pose (c := mkClient 1 false [] [] [] "" CibaNone false false false false false false false 0 false None).
  pose (g := mkGSession 1 1 1 0 0 0 GRefreshToken "" 1 "" "" 7 0 [] [] [] []).
  exists cfg, c, (mkBind (Some junk_proof) 0), g. repeat split; reflexivity.
Qed.

(* no stored grant carries a jkt under a configuration without DPoP: every constructor of a
   grant in the model takes its jkt from set_pop_jkt / the cf_dpop_enabled-guarded expressions *)
Lemma set_pop_jkt_disabled cfg b : cf_dpop_enabled cfg = false -> set_pop_jkt cfg b = 0.
Proof. unfold set_pop_jkt. intros ->. destruct (b_dpop b); reflexivity. Qed.

Lemma extract_jti_total uuid add :
  add <> JtiOther -> panics (extract_jti (make_jwt_jti uuid add)) = false.
Proof. destruct add; cbn; congruence. Qed.

Lemma validate_binding_tls_p_total cfg c b o :
  caller_opts_ok o = true -> validate_binding_tls_p cfg c b o = Val (validate_binding_tls cfg c b o).
Proof.
  unfold caller_opts_ok, validate_binding_tls_p, validate_binding_tls. intros H.
  destruct (cf_tls_binding_enabled cfg); cbn; [|reflexivity].
  destruct (is_nil (b_cert b)) eqn:Ec; cbn.
  - destruct (is_nil (bo_tls_thumb o)) eqn:Et; cbn in *.
    + destruct (orb _ _); reflexivity.
    + rewrite H. rewrite !orb_true_r. reflexivity.
  - destruct (is_nil (bo_tls_thumb o)); cbn; [reflexivity|].
    destruct (ideq (bo_tls_thumb o) (b_cert b)); reflexivity.
Qed.
Lemma caller_opts_code s : caller_opts_ok (code_bind_opts s) = true.
Proof. unfold caller_opts_ok, code_bind_opts; cbn. destruct (is_nil (a_x5t s)); reflexivity. Qed.
Lemma caller_opts_refresh g : caller_opts_ok (refresh_tls_opts g) = true.
Proof. unfold caller_opts_ok; cbn. apply orb_true_r. Qed.
Lemma caller_opts_none : caller_opts_ok no_opts = true.
Proof. reflexivity. Qed.

Lemma send_client_notification_guarded e :
  dcr_validate_url e = None -> panics (send_client_notification e) = false.
Proof. unfold dcr_validate_url, send_client_notification. destruct (ep_parses e); cbn; [reflexivity|discriminate]. Qed.

Lemma id_token_hint_guarded h :
  validate_id_token_hint_as_optional h = None -> panics (id_token_hint_claims h) = false.
Proof.
  unfold validate_id_token_hint_as_optional, id_token_hint_claims.
  destruct (h_present h); cbn; [|reflexivity]. destruct (h_parses h); cbn; [reflexivity|discriminate].
Qed.

Lemma policy_authenticate_guarded ps f p :
  available_policy ps f = Some p -> panics (policy_authenticate ps p) = false.
Proof.
  unfold available_policy, policy_authenticate. intros H. apply find_some in H as [H _].
  apply memN_In in H. rewrite H. reflexivity.
Qed.

(* ========================================================================================== *)
(* Part 2: status codes                                                                        *)
(* ========================================================================================== *)

Lemma error_status_4xx e : e <> EInternalError -> (400 <= error_status e /\ error_status e <= 499).
Proof. destruct e; cbn; intros H; try lia; congruence. Qed.
Lemma error_status_5xx_iff e : (500 <= error_status e) <-> e = EInternalError.
Proof. destruct e; cbn; split; intros H; try lia; try congruence; try reflexivity. Qed.
Lemma write_error_shape h :
  ae_json_with_error_member (write_error h) = true /\
  (match h with HGoidc e => e <> EInternalError | HForeign => False end ->
   400 <= ae_status (write_error h) <= 499).
Proof.
  split; [reflexivity|]. destruct h; [|tauto]. cbn. apply error_status_4xx.
Qed.
Lemma api_status_5xx_iff o : is_panic o = false ->
  (500 <= api_status o <-> o = OErr EInternalError).
Proof.
  destruct o; cbn; intros Hp; try discriminate; try (split; [lia|discriminate]).
  rewrite error_status_5xx_iff. split; congruence.
Qed.

(* ---- the decision functions of the handlers never answer internal_error ---- *)
Ltac ni := repeat break_goal; try congruence; try discriminate.
Lemma validate_jwt_ni l lw p t j : validate_jwt l lw p t j <> Some EInternalError.
Proof. unfold validate_jwt. ni. Qed.
Lemma validate_binding_dpop_ni cfg c b o : validate_binding_dpop cfg c b o <> Some EInternalError.
Proof. unfold validate_binding_dpop. ni; apply validate_jwt_ni. Qed.
Lemma validate_binding_tls_ni cfg c b o : validate_binding_tls cfg c b o <> Some EInternalError.
Proof. unfold validate_binding_tls. ni. Qed.
Lemma validate_binding_ni cfg c b o : validate_binding cfg c b o <> Some EInternalError.
Proof.
  unfold validate_binding, validate_binding_required.
  pose proof (validate_binding_dpop_ni cfg c b o). pose proof (validate_binding_tls_ni cfg c b o). ni.
Qed.
Lemma validate_pkce_ni cfg v s : validate_pkce cfg v s <> Some EInternalError.
Proof. unfold validate_pkce. ni. Qed.
Lemma validate_pop_ni b t j x : validate_pop b t j x <> Some EInternalError.
Proof.
  unfold validate_pop. destruct (b_dpop b) as [p|]; [pose proof (validate_jwt_ni jwt_lifetime jwt_leeway p t j)|]; ni.
Qed.
Lemma refresh_binding_ni cfg c b g : refresh_binding cfg c b g <> Some EInternalError.
Proof.
  unfold refresh_binding.
  pose proof (validate_pop_ni b 0 (g_jkt g) (g_x5t g)).
  pose proof (validate_binding_dpop_ni cfg c b (mkBindOpts false 0 true 0)).
  pose proof (validate_binding_tls_ni cfg c b (mkBindOpts true (g_x5t g) false 0)). ni.
Qed.
Definition aerr_code (a : aerr) : ecode := match a with ALocal e | ARedirect e _ => e end.
Lemma validate_optionals_ni cfg p c a : validate_optionals cfg p c = Some a -> aerr_code a <> EInternalError.
Proof. unfold validate_optionals. repeat break_goal; intros H; inversion H; cbn; discriminate. Qed.
Lemma validate_params_ni cfg p c a : validate_params cfg p c = Some a -> aerr_code a <> EInternalError.
Proof.
  unfold validate_params. pose proof (validate_optionals_ni cfg p c) as HO.
  destruct (validate_optionals cfg p c) as [x|]; repeat break_goal; intros H; inversion H; subst; cbn; try discriminate; auto.
Qed.
Lemma validate_in_out_ni cfg i o c a : validate_in_out cfg i o c = Some a -> aerr_code a <> EInternalError.
Proof.
  unfold validate_in_out. pose proof (validate_optionals_ni cfg o c) as HO.
  pose proof (validate_params_ni cfg (merge_params i o) c) as HP.
  destruct (validate_optionals cfg o c) as [[e|e p]|]; destruct (validate_params cfg (merge_params i o) c) as [y|];
    repeat break_goal; intros H; inversion H; subst; cbn; try discriminate; auto;
    try (specialize (HO _ eq_refl); cbn in HO; exact HO).
Qed.

(* ========================================================================================== *)
(* Part 3: the handlers                                                                        *)
(* ========================================================================================== *)

Local Opaque contains_all_scopes are_scopes_allowed validate_binding validate_pkce refresh_binding
       validate_params validate_optionals validate_in_out merge_params validate_jwt validate_pop
       validate_binding_dpop validate_binding_tls set_pop_jkt set_pop_x5t
       contains_openid nav_mode rt_contains make_token classify has_grant mint.

Ltac crunch := repeat (cbn in *; intros; try break_goal).
(* destruct the innermost scrutinee first (so that a match producing the pair consumed by
   run_seq's let is never destructed as a whole) *)
Ltac innermost x :=
  match x with
  | context [match ?y with _ => _ end] => innermost y
  | context [if ?y then _ else _] => innermost y
  | _ => first [is_var x; destruct x | let E := fresh "E" in destruct x eqn:E]
  end.
Ltac break_inner :=
  match goal with
  | |- context [match ?x with _ => _ end] => innermost x
  | |- context [if ?x then _ else _] => innermost x
  end.
Ltac crunch0 := repeat (cbn; unfold reply_a, reply_g; try break_inner).
Ltac done := cbn in *; intros; try discriminate; try congruence; auto;
  try solve [exfalso;
    first [ eapply validate_binding_ni; eassumption | eapply validate_pkce_ni; eassumption
          | eapply refresh_binding_ni; eassumption | eapply validate_pop_ni; eassumption ]].

(* ---- the sequential run and the faulty run with a fault-free plan coincide ---- *)
Lemma run_fault_none {A} plan (p : prog A) : (forall k, plan k = FNone) -> forall st n,
  fst (run_fault plan n p st) = run_seq p st.
Proof.
  intros HP. induction p as [a|c k IH|o p IH]; intros st n; cbn; auto.
  rewrite HP. cbn. destruct (exec c st) as [st' r]. apply IH.
Qed.

(* ---- no handler of the model returns OPanic ---- *)
Fixpoint leaves {A} (P : A -> Prop) (p : prog A) : Prop :=
  match p with
  | Ret a => P a
  | Do _ k => forall r, leaves P (k r)
  | Touch _ p' => leaves P p'
  end.
Lemma leaves_bind {A B} (P : A -> Prop) (Q : B -> Prop) (p : prog A) (f : A -> prog B) :
  leaves P p -> (forall a, P a -> leaves Q (f a)) -> leaves Q (bind p f).
Proof. induction p as [a|c k IH|o p IH]; cbn; intros Hp Hf; auto. Qed.
Lemma leaves_run_seq {A} (P : A -> Prop) (p : prog A) : forall st, leaves P p -> P (snd (run_seq p st)).
Proof.
  induction p as [a|c k IH|o p IH]; intros st H; cbn in *; auto.
  destruct (exec c st) as [st' r]. apply IH, H.
Qed.
Lemma leaves_run_alias {A} (P : A -> Prop) (p : prog A) : forall st, leaves P p -> P (snd (run_alias p st)).
Proof.
  induction p as [a|c k IH|o p IH]; intros st H; cbn in *; auto.
  destruct (exec c st) as [st' r]. apply IH, H.
Qed.
Lemma leaves_run_fault {A} (P : A -> Prop) (p : prog A) plan : forall st n,
  leaves P p -> P (snd (fst (run_fault plan n p st))).
Proof.
  induction p as [a|c k IH|o p IH]; intros st n H; cbn in *; auto.
  destruct (exec_fault (plan n) c st) as [st' r]. apply IH, H.
Qed.
Lemma leaves_true {A} (p : prog A) : leaves (fun _ => True) p.
Proof. induction p; cbn; auto. Qed.

Ltac rr := cbn; first [reflexivity | exact I].
Definition np (o : out) : Prop := is_panic o = false.
Definition np_ares (a : ares) : Prop := match a with ADone o => np o | AFail _ => True end.

Lemma np_render cfg c e : np (render_aerr cfg c e).
Proof. destruct e; reflexivity. Qed.

Lemma code_grant_np w n now r : leaves np (code_grant w n now r).
Proof.
  unfold code_grant, np. repeat (break_goal; [rr|]).
  eapply leaves_bind; [apply leaves_true|]. intros oc _. crunch; rr.
Qed.
Lemma refresh_grant_np w n now r : leaves np (refresh_grant w n now r).
Proof.
  unfold refresh_grant, np. repeat (break_goal; [rr|]).
  eapply leaves_bind; [apply leaves_true|]. intros oc _. crunch; rr.
Qed.
Lemma cc_grant_np w n now r : leaves np (cc_grant w n now r).
Proof.
  unfold cc_grant, np. repeat (break_goal; [rr|]).
  eapply leaves_bind; [apply leaves_true|]. intros oc _. crunch; rr.
Qed.
Lemma jwt_bearer_grant_np w n now r : leaves np (jwt_bearer_grant w n now r).
Proof.
  unfold jwt_bearer_grant, np. repeat (break_goal; [rr|]).
  eapply leaves_bind; [apply leaves_true|]. intros oc _. crunch; rr.
Qed.
Lemma ciba_grant_np w n now r : leaves np (ciba_grant w n now r).
Proof.
  unfold ciba_grant, np. repeat (break_goal; [rr|]).
  eapply leaves_bind; [apply leaves_true|]. intros oc _. crunch; rr.
Qed.
Lemma introspection_info_any now p : leaves (fun _ => True) (introspection_info now p).
Proof. apply leaves_true. Qed.
Lemma introspect_np w now r : leaves np (introspect w now r).
Proof.
  unfold introspect, np. repeat (break_goal; [rr|]).
  eapply leaves_bind; [apply leaves_true|]. intros oc _.
  destruct oc; [|rr]. destruct (negb (q_allowed r)); [rr|].
  destruct (q_tok r); try rr; (eapply leaves_bind; [apply leaves_true|]; intros; reflexivity).
Qed.
Lemma revoke_np w now r : leaves np (revoke w now r).
Proof.
  unfold revoke, np. repeat (break_goal; [rr|]).
  eapply leaves_bind; [apply leaves_true|]. intros oc _.
  destruct oc; [|rr]. destruct (negb (q_allowed r)); [rr|].
  eapply leaves_bind; [apply leaves_true|]. intros i _. crunch; rr.
Qed.
Lemma userinfo_np w now r : leaves np (userinfo w now r).
Proof.
  unfold userinfo, np. repeat (break_goal; try rr). cbn. intros rp.
  repeat (break_goal; try rr).
  eapply leaves_bind; [apply leaves_true|]. intros oc _. destruct oc; rr.
Qed.
Lemma authenticate_np w n now s pol : leaves np_ares (authenticate w n now s pol).
Proof.
  unfold authenticate, save_a, np_ares, np. destruct pol.
  - cbn. eapply leaves_bind; [apply leaves_true|]. intros oc _. crunch; rr.
  - crunch; rr.
  - crunch; rr.
  - crunch; rr.
Qed.
Lemma start_session_np w n now c s r : leaves np_ares (start_session w n now c s r).
Proof.
  unfold start_session. repeat (break_goal; [rr|]). cbn. apply authenticate_np.
Qed.
Lemma finish_np cfg c a : np_ares a -> np (finish_ares cfg c a).
Proof. destruct a; cbn; auto. intros _. apply np_render. Qed.
Lemma init_auth_np w n now r : leaves np (init_auth w n now r).
Proof.
  unfold init_auth. break_goal; [rr|].
  eapply leaves_bind; [apply leaves_true|]. intros oc _.
  destruct oc as [c|]; [|rr].
  break_goal; [rr|]. break_goal.
  - break_goal; [rr|]. cbn. intros rp. destruct rp; try rr.
    match goal with |- leaves _ (match ?v with Some _ => _ | None => _ end) => destruct v end.
    + cbn. intros rd. destruct rd; try rr; apply np_render.
    + eapply leaves_bind; [apply start_session_np|]. intros a Ha. cbn. apply finish_np, Ha.
  - break_goal; [apply np_render|].
    eapply leaves_bind; [apply start_session_np|]. intros a Ha. cbn. apply finish_np, Ha.
Qed.
Lemma continue_auth_np w n now r : leaves np (continue_auth w n now r).
Proof.
  unfold continue_auth. destruct (is_nil (cb_id r)); [rr|]. cbn. intros rp. destruct rp; try rr.
  break_goal; [rr|].
  eapply leaves_bind; [apply authenticate_np|]. intros a Ha. destruct a; [exact Ha|].
  eapply leaves_bind; [apply leaves_true|]. intros oc _. destruct oc; [apply np_render|cbn; intros; rr].
Qed.
Lemma push_auth_np w n now r : leaves np (push_auth w n now r).
Proof.
  unfold push_auth, save_a, np. break_goal; [rr|].
  eapply leaves_bind; [apply leaves_true|]. intros oc _. crunch; rr.
Qed.
Lemma init_back_auth_np w n now r : leaves np (init_back_auth w n now r).
Proof.
  unfold init_back_auth, save_a, np. break_goal; [rr|].
  eapply leaves_bind; [apply leaves_true|]. intros oc _. crunch; rr.
Qed.

Definition np_obs (x : obs) : Prop := match x with Out o => np o | Notified _ _ => True end.
Lemma lift_np (p : prog out) : leaves np p -> leaves np_obs (bind p (fun x => Ret (Out x))).
Proof. intros H. eapply leaves_bind; [exact H|]. intros a Ha. exact Ha. Qed.
Lemma handler_np w n now o : leaves np_obs (handler w n now o).
Proof.
  destruct o; try destruct g; cbv beta iota zeta delta [handler]; try (apply lift_np).
  - apply init_auth_np.
  - apply continue_auth_np.
  - apply push_auth_np.
  - apply cc_grant_np. - apply code_grant_np. - apply refresh_grant_np.
  - rr. - apply jwt_bearer_grant_np.
  - apply ciba_grant_np.
  - apply introspect_np.
  - apply revoke_np.
  - apply userinfo_np.
  - unfold token_info. eapply leaves_bind; [apply leaves_true|]. intros; rr.
  - unfold token_info_from_request. break_goal; [rr|].
    eapply leaves_bind; [apply leaves_true|]. intros i _. crunch; rr.
  - apply init_back_auth_np.
  - eapply leaves_bind; [apply leaves_true|]. intros; exact I.
  - eapply leaves_bind; [apply leaves_true|]. intros; exact I.
  - reflexivity.
Qed.

Lemma handlers_never_panic_seq w n now o st : np_obs (snd (run_seq (handler w n now o) st)).
Proof. apply leaves_run_seq, handler_np. Qed.
Lemma handlers_never_panic_alias w n now o st : np_obs (snd (run_alias (handler w n now o) st)).
Proof. apply leaves_run_alias, handler_np. Qed.
Lemma handlers_never_panic_fault w n now o plan st : np_obs (snd (fst (run_fault plan 0 (handler w n now o) st))).
Proof. apply leaves_run_fault, handler_np. Qed.

(* ========================================================================================== *)
(* Part 4: 5xx only when the embedder failed; refused requests leave the store alone           *)
(* ========================================================================================== *)

Lemma run_seq_bind {A B} (p : prog A) (f : A -> prog B) : forall st,
  run_seq (bind p f) st = run_seq (f (snd (run_seq p st))) (fst (run_seq p st)).
Proof.
  induction p as [a|c k IH|o p IH]; intros st; cbn; auto.
  destruct (exec c st) as [st' r]. apply IH.
Qed.
Lemma get_client_frame w i st : fst (run_seq (get_client w i) st) = st.
Proof. unfold get_client. destruct (find_client i (w_static w)); cbn; [reflexivity|]. destruct (find_client i (st_clients st)); reflexivity. Qed.
Lemma authenticated_frame w cr st : fst (run_seq (authenticated w cr) st) = st.
Proof.
  unfold authenticated. destruct (is_nil (cr_id cr)); [reflexivity|].
  rewrite run_seq_bind, get_client_frame. destruct (snd (run_seq (get_client w (cr_id cr)) st)); [|reflexivity].
  destruct (orb _ _); reflexivity.
Qed.
Lemma jwt_bearer_client_frame w cr st : fst (run_seq (jwt_bearer_client w cr) st) = st.
Proof.
  unfold jwt_bearer_client. rewrite run_seq_bind, authenticated_frame.
  destruct (snd (run_seq (authenticated w cr) st)); [reflexivity|]. destruct (andb _ _); reflexivity.
Qed.
Lemma introspection_info_frame now p st : fst (run_seq (introspection_info now p) st) = st.
Proof.
  unfold introspection_info. destruct (classify p); cbn; [reflexivity| |].
  - destruct (find _ _); cbn; [|reflexivity]. destruct (geb _ _); reflexivity.
  - destruct (find _ _); cbn; [|reflexivity]. destruct (geb _ _); reflexivity.
Qed.

(* enter a handler past client authentication: the store is unchanged, the client is oc *)
Ltac past_auth_k tac :=
  rewrite !run_seq_bind, !authenticated_frame;
  match goal with |- context [snd (run_seq (authenticated ?w ?cr) ?st)] =>
    let oc := fresh "oc" in generalize (snd (run_seq (authenticated w cr) st)); intros oc;
    destruct oc as [c|]; [|tac] end.
Ltac past_auth := past_auth_k ltac:(solve [done]).
Ltac past_jb_auth :=
  rewrite !run_seq_bind, !jwt_bearer_client_frame;
  match goal with |- context [snd (run_seq (jwt_bearer_client ?w ?cr) ?st)] =>
    let oc := fresh "oc" in generalize (snd (run_seq (jwt_bearer_client w cr) st)); intros oc;
    destruct oc as [c|]; [|solve [done]] end.

(* ---- the token endpoint and introspection: an internal_error answer means the scripted
        embedder reply failed (the storage never fails under run_seq) ---- *)
Lemma code_grant_5xx w n now r st :
  is_internal (snd (run_seq (code_grant w n now r) st)) = true -> t_hg r = HgFail.
Proof.
  unfold code_grant. repeat (break_goal; [solve [done]|]). past_auth. destruct (t_hg r); [| |reflexivity]; crunch0; done.
Qed.
Lemma refresh_grant_5xx w n now r st :
  is_internal (snd (run_seq (refresh_grant w n now r) st)) = true -> t_hg r = HgFail.
Proof.
  unfold refresh_grant. repeat (break_goal; [solve [done]|]). past_auth. destruct (t_hg r); [| |reflexivity]; crunch0; done.
Qed.
Lemma cc_grant_5xx w n now r st :
  is_internal (snd (run_seq (cc_grant w n now r) st)) = true -> t_hg r = HgFail.
Proof.
  unfold cc_grant. repeat (break_goal; [solve [done]|]). past_auth. destruct (t_hg r); [| |reflexivity]; crunch0; done.
Qed.
Lemma jwt_bearer_grant_5xx w n now r st :
  is_internal (snd (run_seq (jwt_bearer_grant w n now r) st)) = true -> t_hg r = HgFail.
Proof.
  unfold jwt_bearer_grant. repeat (break_goal; [solve [done]|]). past_jb_auth. destruct (t_hg r); [| |reflexivity]; crunch0; done.
Qed.
Lemma ciba_grant_5xx w n now r st :
  is_internal (snd (run_seq (ciba_grant w n now r) st)) = true -> t_hg r = HgFail \/ t_ba r = BaFail.
Proof.
  unfold ciba_grant. repeat (break_goal; [solve [done]|]). past_auth.
  destruct (t_hg r); [| |left; reflexivity]; (destruct (t_ba r); [| | | |right; reflexivity|]); crunch0; done.
Qed.
Lemma introspect_5xx w now r st : is_internal (snd (run_seq (introspect w now r) st)) = false.
Proof.
  unfold introspect. repeat (break_goal; [solve [done]|]).
  rewrite run_seq_bind, authenticated_frame.
  destruct (snd (run_seq (authenticated w (q_cred r)) st)); [|solve [done]].
  destruct (negb (q_allowed r)); [solve [done]|]. destruct (q_tok r); try done; rewrite run_seq_bind; reflexivity.
Qed.
Lemma revoke_5xx w now r st : is_internal (snd (run_seq (revoke w now r) st)) = false.
Proof.
  unfold revoke. repeat (break_goal; [solve [done]|]).
  rewrite run_seq_bind, authenticated_frame.
  destruct (snd (run_seq (authenticated w (q_cred r)) st)); [|solve [done]].
  destruct (negb (q_allowed r)); [solve [done]|]. rewrite run_seq_bind.
  destruct (negb (in_active _)); [solve [done]|]. destruct (negb (ideq _ _)); done.
Qed.
Lemma userinfo_5xx w now r st : is_internal (snd (run_seq (userinfo w now r) st)) = false.
Proof.
  unfold userinfo. destruct (negb (u_has_header r)); [reflexivity|].
  destruct (extract_id (u_tok r)); [|destruct (u_tok r); reflexivity].
  cbn. destruct (find _ _) as [g|]; cbn; [|reflexivity].
  destruct (geb _ _); [reflexivity|]. destruct (negb _); [reflexivity|].
  destruct (validate_pop _ _ _ _) eqn:EP.
  { cbn. destruct e; try reflexivity. exfalso. eapply validate_pop_ni; eauto. }
  rewrite run_seq_bind. destruct (snd (run_seq (get_client w (g_client g)) _)); reflexivity.
Qed.

(* ---- frames ---- *)
Definition code_frame (code : id) (st st' : store) : Prop :=
  st' = st
  \/ (exists g, find (fun g => ideq (g_code g) code) (st_gsess st) = Some g /\
                st' = st <| st_gsess := del_gsess (g_id g) (st_gsess st) |>)
  \/ (exists s, find (fun s => ideq (a_code s) code) (st_asess st) = Some s /\
                st' = st <| st_asess := del_asess (a_id s) (st_asess st) |>).
Definition refresh_frame (tok : id) (st st' : store) : Prop :=
  st' = st
  \/ (exists g, find (fun g => ideq (g_refresh g) tok) (st_gsess st) = Some g /\
                st' = st <| st_gsess := del_gsess (g_id g) (st_gsess st) |>).
Definition ciba_frame (a : id) (st st' : store) : Prop :=
  st' = st
  \/ (exists s, find (fun s => ideq (a_ciba s) a) (st_asess st) = Some s /\
                st' = st <| st_asess := del_asess (a_id s) (st_asess st) |>).

Ltac frame_leaf :=
  cbn in *; intros; try discriminate;
  first [ left; reflexivity
        | right; left; eexists; split; [first [eassumption|reflexivity]|reflexivity]
        | right; right; eexists; split; [first [eassumption|reflexivity]|reflexivity]
        | right; eexists; split; [first [eassumption|reflexivity]|reflexivity] ].

Lemma code_grant_frame w n now r st e :
  snd (run_seq (code_grant w n now r) st) = OErr e ->
  code_frame (t_code r) st (fst (run_seq (code_grant w n now r) st)).
Proof.
  unfold code_grant, code_frame. repeat (break_goal; [frame_leaf|]). past_auth_k ltac:(idtac; frame_leaf).
  destruct st as [cl ass gs]. crunch0; frame_leaf.
Qed.
Lemma refresh_grant_frame w n now r st e :
  snd (run_seq (refresh_grant w n now r) st) = OErr e ->
  refresh_frame (t_refresh r) st (fst (run_seq (refresh_grant w n now r) st)).
Proof.
  unfold refresh_grant, refresh_frame. repeat (break_goal; [frame_leaf|]). past_auth_k ltac:(idtac; frame_leaf).
  destruct st as [cl ass gs]. crunch0; frame_leaf.
Qed.
Lemma cc_grant_frame w n now r st e :
  snd (run_seq (cc_grant w n now r) st) = OErr e -> fst (run_seq (cc_grant w n now r) st) = st.
Proof.
  unfold cc_grant. repeat (break_goal; [solve [done]|]). past_auth.
  destruct st as [cl ass gs]. crunch0; done.
Qed.
Lemma jwt_bearer_grant_frame w n now r st e :
  snd (run_seq (jwt_bearer_grant w n now r) st) = OErr e -> fst (run_seq (jwt_bearer_grant w n now r) st) = st.
Proof.
  unfold jwt_bearer_grant. repeat (break_goal; [solve [done]|]). past_jb_auth.
  destruct st as [cl ass gs]. crunch0; done.
Qed.
Lemma ciba_grant_frame w n now r st e :
  snd (run_seq (ciba_grant w n now r) st) = OErr e ->
  ciba_frame (t_auth_req r) st (fst (run_seq (ciba_grant w n now r) st)).
Proof.
  unfold ciba_grant, ciba_frame. repeat (break_goal; [frame_leaf|]). past_auth_k ltac:(idtac; frame_leaf).
  destruct st as [cl ass gs]. crunch0; frame_leaf.
Qed.
Lemma introspect_frame w now r st : fst (run_seq (introspect w now r) st) = st.
Proof.
  unfold introspect. repeat (break_goal; [solve [done]|]).
  rewrite run_seq_bind, authenticated_frame.
  destruct (snd (run_seq (authenticated w (q_cred r)) st)); [|solve [done]].
  destruct (negb (q_allowed r)); [solve [done]|].
  destruct (q_tok r); try done; rewrite run_seq_bind; cbn; apply introspection_info_frame.
Qed.

(* ---- the authorization endpoint, /par, /bc-authorize ---- *)
Local Transparent mint.
Lemma is_nil_mint n k : is_nil (mint n k) = false.
Proof.
  unfold is_nil, mint. apply N.eqb_neq. destruct k; cbn; lia.
Qed.
Local Opaque mint.

(* ctx.SaveAuthnSession refuses a session without exactly one index: the discipline the stored
   sessions obey (an invariant of every history: every ASave goes through save_a) *)
Definition one_index (st : store) : Prop := forall s, In s (st_asess st) -> n_indexes s = 1%nat.

Lemma one_index_cb s : n_indexes s = 1%nat -> is_nil (a_cb s) = false ->
  is_nil (a_par s) = true /\ is_nil (a_code s) = true /\ is_nil (a_ciba s) = true.
Proof.
  unfold n_indexes. destruct (is_nil (a_cb s)), (is_nil (a_par s)), (is_nil (a_code s)), (is_nil (a_ciba s));
    cbn; intros; try discriminate; auto.
Qed.
Lemma one_index_par s : n_indexes s = 1%nat -> is_nil (a_par s) = false ->
  is_nil (a_cb s) = true /\ is_nil (a_code s) = true /\ is_nil (a_ciba s) = true.
Proof.
  unfold n_indexes. destruct (is_nil (a_cb s)), (is_nil (a_par s)), (is_nil (a_code s)), (is_nil (a_ciba s));
    cbn; intros; try discriminate; auto.
Qed.

Lemma get_client_clients w i st1 st2 : st_clients st1 = st_clients st2 ->
  snd (run_seq (get_client w i) st1) = snd (run_seq (get_client w i) st2).
Proof. unfold get_client. intros H. destruct (find_client i (w_static w)); cbn; [reflexivity|]. rewrite H. destruct (find_client i (st_clients st2)); reflexivity. Qed.
Lemma find_client_id i l c : find_client i l = Some c -> c_id c = i.
Proof. unfold find_client. intros H. apply find_some in H as [_ H]. apply N.eqb_eq in H. exact H. Qed.
Lemma get_client_id w i st c : snd (run_seq (get_client w i) st) = Some c -> c_id c = i.
Proof.
  unfold get_client. destruct (find_client i (w_static w)) eqn:E; cbn.
  - intros H; inversion H; subst. eapply find_client_id; eauto.
  - destruct (find_client i (st_clients st)) eqn:E2; cbn; intros H; inversion H; subst. eapply find_client_id; eauto.
Qed.

Lemma authenticate_clients w n now s pol st :
  st_clients (fst (run_seq (authenticate w n now s pol) st)) = st_clients st.
Proof.
  unfold authenticate, save_a. destruct pol.
  - cbn. rewrite run_seq_bind, get_client_frame.
    destruct (snd (run_seq (get_client w (a_client s)) st)); [|reflexivity].
    destruct st as [cl ass gs]. crunch0; reflexivity.
  - destruct st as [cl ass gs]. crunch0; reflexivity.
  - destruct st as [cl ass gs]. crunch0; reflexivity.
  - destruct st as [cl ass gs]. crunch0; reflexivity.
Qed.

Definition ares_ok (w : world) (s : asession) (pol : pol_reply) (st : store) (a : ares) : Prop :=
  match a with
  | ADone o => is_internal o = false
  | AFail e => aerr_code e = EInternalError ->
               pol = PolFailWith EInternalError \/ snd (run_seq (get_client w (a_client s)) st) = None
  end.

Lemma authenticate_5xx w n now s pol st :
  n_indexes s = 1%nat -> is_nil (a_cb s) = false ->
  ares_ok w s pol st (snd (run_seq (authenticate w n now s pol) st)).
Proof.
  intros H1 Hcb. destruct (one_index_cb s H1 Hcb) as [Hp [Hc Hi]].
  unfold authenticate, save_a, ares_ok. destruct pol.
  - cbn. rewrite run_seq_bind, get_client_frame.
    destruct (snd (run_seq (get_client w (a_client s)) st)) as [c|]; [|cbn; auto].
    unfold n_indexes. cbn. rewrite Hp, Hi, is_nil_mint. cbn.
    destruct st as [cl ass gs]. crunch0; done.
  - cbn. unfold n_indexes in *. cbn. rewrite H1. cbn. reflexivity.
  - destruct st as [cl ass gs]. cbn. discriminate.
  - destruct st as [cl ass gs]. cbn. intros ->. left; reflexivity.
Qed.

Lemma start_session_5xx w n now c s r st :
  is_nil (a_code s) = true -> is_nil (a_ciba s) = true ->
  ares_ok w s (ar_pol r) st (snd (run_seq (start_session w n now c s r) st)).
Proof.
  intros Hc Hi. unfold start_session.
  break_goal; [cbn; discriminate|]. break_goal; [cbn; discriminate|]. cbn.
  match goal with |- ares_ok _ _ _ _ (snd (run_seq (authenticate _ _ _ ?s' _) _)) =>
    pose proof (authenticate_5xx w n now s' (ar_pol r) st) as H end.
  cbn in H. unfold n_indexes in H. cbn in H. rewrite Hc, Hi, is_nil_mint in H. cbn in H.
  specialize (H eq_refl eq_refl). exact H.
Qed.

Lemma render_internal cfg c e : is_internal (render_aerr cfg c e) = true -> aerr_code e = EInternalError.
Proof. destruct e as [x|x p]; cbn; destruct x; cbn; congruence. Qed.

Lemma find_In {A} f (l : list A) x : find f l = Some x -> In x l /\ f x = true.
Proof. apply find_some. Qed.

Lemma init_auth_5xx w n now r st : one_index st ->
  is_internal (snd (run_seq (init_auth w n now r) st)) = true -> ar_pol r = PolFailWith EInternalError.
Proof.
  intros HI. unfold init_auth. break_goal; [solve [done]|].
  rewrite run_seq_bind, get_client_frame.
  destruct (snd (run_seq (get_client w (ar_client r)) st)) as [c|] eqn:EC; [|solve [done]].
  pose proof (get_client_id _ _ _ _ EC) as Hid.
  break_goal; [solve [done]|]. break_goal.
  - break_goal; [solve [done]|]. cbn. unfold reply_a.
    destruct (find _ _) as [s|] eqn:EF; [|solve [done]].
    apply find_In in EF as [Hin Hpar]. apply N.eqb_eq in Hpar.
    assert (Hnp : is_nil (a_par s) = false) by (rewrite Hpar; assumption).
    destruct (one_index_par s (HI s Hin) Hnp) as [_ [Hc Hi]].
    destruct (negb (ideq (a_client s) (ar_client r))) eqn:Eid; [cbn; discriminate|].
    apply negb_false_iff, N.eqb_eq in Eid.
    match goal with |- context [match ?v with Some _ => _ | None => _ end] => destruct v as [e|] eqn:EV end.
    + cbn. intros H. apply render_internal in H. exfalso.
      revert EV. repeat break_goal; intros EV; inversion EV; subst; cbn in H; try discriminate.
      eapply validate_in_out_ni; eauto.
    + rewrite run_seq_bind. cbn.
      match goal with |- context [run_seq (start_session w n now c ?s' r) st] =>
        pose proof (start_session_5xx w n now c s' r st) as HS;
        destruct (snd (run_seq (start_session w n now c s' r) st)) as [o|e] end.
      * cbn in *. destruct (is_fapi _); cbn in HS; rewrite (HS Hc Hi); discriminate.
      * cbn. intros H. apply render_internal in H.
        destruct (is_fapi _); cbn in HS; destruct (HS Hc Hi H) as [HH|HH]; auto; exfalso;
          rewrite Eid, EC in HH; discriminate.
  - destruct (validate_params _ _ _) as [e|] eqn:EV.
    + cbn. intros H. apply render_internal in H. exfalso. eapply validate_params_ni; eauto.
    + rewrite run_seq_bind.
      match goal with |- context [run_seq (start_session w n now c ?s' r) st] =>
        pose proof (start_session_5xx w n now c s' r st eq_refl eq_refl) as HS;
        destruct (snd (run_seq (start_session w n now c s' r) st)) as [o|e] end.
      * cbn in *. rewrite HS. discriminate.
      * cbn. intros H. apply render_internal in H. destruct (HS H) as [HH|HH]; auto.
        exfalso. cbn in HH. rewrite Hid, EC in HH. discriminate.
Qed.

Lemma continue_auth_5xx w n now r st : one_index st ->
  is_internal (snd (run_seq (continue_auth w n now r) st)) = true -> cb_pol r = PolFailWith EInternalError.
Proof.
  intros HI. unfold continue_auth. destruct (is_nil (cb_id r)) eqn:Hcb; [cbn; discriminate|]. cbn. unfold reply_a.
  destruct (find _ _) as [s|] eqn:EF; [|solve [done]].
  apply find_In in EF as [Hin Hc]. apply N.eqb_eq in Hc.
  assert (Hnc : is_nil (a_cb s) = false) by (rewrite Hc; assumption).
  destruct (geb _ _); [solve [done]|].
  rewrite run_seq_bind.
  pose proof (authenticate_5xx w n now s (cb_pol r) st (HI s Hin) Hnc) as HA.
  pose proof (authenticate_clients w n now s (cb_pol r) st) as HC.
  destruct (run_seq (authenticate w n now s (cb_pol r)) st) as [st1 a]. cbn in *.
  destruct a as [o|e]; cbn in *.
  - rewrite HA. discriminate.
  - rewrite run_seq_bind. rewrite (get_client_clients w (a_client s) st1 st HC).
    destruct (snd (run_seq (get_client w (a_client s)) st)) as [c|] eqn:EC; cbn; [|discriminate].
    intros H. apply render_internal in H. destruct (HA H) as [HH|HH]; [assumption|discriminate].
Qed.

Lemma push_auth_5xx w n now r st : is_internal (snd (run_seq (push_auth w n now r) st)) = false.
Proof.
  unfold push_auth. break_goal; [reflexivity|].
  rewrite run_seq_bind, authenticated_frame.
  destruct (snd (run_seq (authenticated w (pr_cred r)) st)) as [c|]; [|reflexivity].
  break_goal; [reflexivity|].
  match goal with |- context [match ?v with Some _ => _ | None => _ end] => destruct v as [e|] eqn:EV end.
  - assert (aerr_code e <> EInternalError).
    { revert EV. break_goal; intros EV; [eapply validate_params_ni|eapply validate_optionals_ni]; eauto. }
    destruct e as [x|x p]; cbn in *; destruct x; cbn; congruence.
  - break_goal; [reflexivity|].
    match goal with |- context [match ?v with Some _ => _ | None => _ end] => destruct v as [e|] eqn:EJ end.
    + cbn. destruct e; try reflexivity. exfalso. revert EJ. repeat break_goal; try discriminate. apply validate_jwt_ni.
    + unfold save_a, n_indexes. cbn. rewrite is_nil_mint. cbn. reflexivity.
Qed.

Lemma init_back_auth_5xx w n now r st : is_internal (snd (run_seq (init_back_auth w n now r) st)) = false.
Proof.
  unfold init_back_auth. break_goal; [reflexivity|].
  rewrite run_seq_bind, authenticated_frame.
  destruct (snd (run_seq (authenticated w (br_cred r)) st)) as [c|]; [|reflexivity].
  repeat (break_goal; [reflexivity|]).
  destruct (validate_optionals _ _ _) as [e|] eqn:EV.
  - pose proof (validate_optionals_ni _ _ _ _ EV). destruct e as [x|x p]; cbn in *; destruct x; cbn; congruence.
  - match goal with |- context [match ?v with Some _ => _ | None => _ end] => destruct v as [e|] eqn:EJ end.
    + cbn. destruct e; try reflexivity. exfalso. revert EJ. repeat break_goal; try discriminate. apply validate_binding_ni.
    + break_goal; [reflexivity|]. unfold save_a, n_indexes. cbn. rewrite is_nil_mint. cbn. reflexivity.
Qed.

(* ---- the one-index discipline holds in every reachable state ---- *)
From Verif Require Import Hoare.
Definition QA1 (s : asession) : Prop := n_indexes s = 1%nat.
Definition QG1 (g : gsession) : Prop := True.
Notation sok := (saves_ok QG1 QA1).

Lemma save_a_ok {A} s (k : reply -> prog A) : (forall r, sok (k r)) -> sok (save_a s k).
Proof.
  intros H. unfold save_a. destruct (Nat.eqb (n_indexes s) 1) eqn:E; [|apply H].
  cbn. split; [apply Nat.eqb_eq, E|apply H].
Qed.
Lemma sok_ro {A} (p : prog A) : leaves (fun _ => True) p -> (forall B (f : A -> prog B), (forall a, sok (f a)) -> sok (bind p f)) -> True.
Proof. auto. Qed.
Lemma get_client_sok w i : sok (get_client w i).
Proof. unfold get_client. destruct (find_client i (w_static w)); cbn; auto. split; auto. intros r; destruct r; exact I. Qed.
Lemma authenticated_sok w cr : sok (authenticated w cr).
Proof.
  unfold authenticated. destruct (is_nil _); [exact I|].
  apply saves_ok_bind; [apply get_client_sok|]. intros [c|]; [|exact I]. destruct (orb _ _); exact I.
Qed.
Lemma introspection_info_sok now p : sok (introspection_info now p).
Proof. unfold introspection_info. destruct (classify p); cbn; auto; (split; [exact I|]); intros r; destruct r; try exact I; destruct (geb _ _); exact I. Qed.

Local Opaque save_a.
Ltac sv :=
  repeat (cbn in *; intros;
          try match goal with
              | |- True => exact I
              | |- _ /\ _ => split
              | |- QG1 _ => exact I
              | |- saves_ok _ _ (save_a _ _) => apply save_a_ok
              end;
          try break_goal).
Ltac sv_auth := apply saves_ok_bind; [apply authenticated_sok|]; intros oc; destruct oc as [c|]; [|exact I].

Lemma code_grant_sok w n now r : sok (code_grant w n now r).
Proof. unfold code_grant. repeat (break_goal; [exact I|]). sv_auth. sv. Qed.
Lemma refresh_grant_sok w n now r : sok (refresh_grant w n now r).
Proof. unfold refresh_grant. repeat (break_goal; [exact I|]). sv_auth. sv. Qed.
Lemma cc_grant_sok w n now r : sok (cc_grant w n now r).
Proof. unfold cc_grant. repeat (break_goal; [exact I|]). sv_auth. sv. Qed.
Lemma jwt_bearer_client_sok w cr : sok (jwt_bearer_client w cr).
Proof.
  unfold jwt_bearer_client. apply saves_ok_bind; [apply authenticated_sok|]. intros [c|]; [exact I|]. destruct (andb _ _); exact I.
Qed.
Lemma jwt_bearer_grant_sok w n now r : sok (jwt_bearer_grant w n now r).
Proof.
  unfold jwt_bearer_grant. repeat (break_goal; [exact I|]).
  apply saves_ok_bind; [apply jwt_bearer_client_sok|]; intros oc; destruct oc as [c|]; [|exact I]. sv.
Qed.
Lemma ciba_grant_sok w n now r : sok (ciba_grant w n now r).
Proof. unfold ciba_grant. repeat (break_goal; [exact I|]). sv_auth. sv. Qed.
Lemma authenticate_sok w n now s pol : sok (authenticate w n now s pol).
Proof.
  unfold authenticate. destruct pol.
  - cbn. apply saves_ok_bind; [apply get_client_sok|]. intros [c|]; [|exact I]. sv.
  - sv.
  - sv.
  - sv.
Qed.
Lemma start_session_sok w n now c s r : sok (start_session w n now c s r).
Proof. unfold start_session. repeat (break_goal; [exact I|]). cbn. apply authenticate_sok. Qed.
Lemma init_auth_sok w n now r : sok (init_auth w n now r).
Proof.
  unfold init_auth. break_goal; [exact I|].
  apply saves_ok_bind; [apply get_client_sok|]. intros [c|]; [|exact I].
  break_goal; [exact I|]. break_goal.
  - break_goal; [exact I|]. cbn. split; [exact I|]. intros rp. destruct rp; try exact I.
    match goal with |- saves_ok _ _ (match ?v with Some _ => _ | None => _ end) => destruct v end.
    + cbn. split; [exact I|]. intros rd; destruct rd; exact I.
    + apply saves_ok_bind; [apply start_session_sok|]. intros; exact I.
  - break_goal; [exact I|]. apply saves_ok_bind; [apply start_session_sok|]. intros; exact I.
Qed.
Lemma continue_auth_sok w n now r : sok (continue_auth w n now r).
Proof.
  unfold continue_auth. destruct (is_nil (cb_id r)); [exact I|]. cbn. split; [exact I|]. intros rp. destruct rp; try exact I.
  break_goal; [exact I|]. apply saves_ok_bind; [apply authenticate_sok|]. intros [o|e]; [exact I|].
  apply saves_ok_bind; [apply get_client_sok|]. intros [c|]; [exact I|]. cbn. split; [exact I|]. intros; exact I.
Qed.
Lemma push_auth_sok w n now r : sok (push_auth w n now r).
Proof. unfold push_auth. break_goal; [exact I|]. sv_auth. sv. Qed.
Lemma init_back_auth_sok w n now r : sok (init_back_auth w n now r).
Proof. unfold init_back_auth. break_goal; [exact I|]. sv_auth. sv. Qed.
Lemma introspect_sok w now r : sok (introspect w now r).
Proof.
  unfold introspect. destruct (negb (cf_introspection _)); [exact I|]. sv_auth. destruct (negb (q_allowed r)); [exact I|].
  destruct (q_tok r); try exact I; (apply saves_ok_bind; [apply introspection_info_sok|]; intros; exact I).
Qed.
Lemma revoke_sok w now r : sok (revoke w now r).
Proof.
  unfold revoke. destruct (negb (cf_revocation _)); [exact I|]. sv_auth. destruct (negb (q_allowed r)); [exact I|].
  apply saves_ok_bind; [apply introspection_info_sok|]. intros i. sv.
Qed.
Lemma userinfo_sok w now r : sok (userinfo w now r).
Proof.
  unfold userinfo. repeat (break_goal; try exact I). cbn. split; [exact I|]. intros rp.
  repeat (break_goal; try exact I). apply saves_ok_bind; [apply get_client_sok|]. intros [c|]; exact I.
Qed.
Lemma notify_success_sok w n now a hg : sok (notify_success w n now a hg).
Proof.
  unfold notify_success. cbn. split; [exact I|]. intros rp. destruct rp; try exact I.
  apply saves_ok_bind; [apply get_client_sok|]. intros [c|]; [|exact I]. sv.
Qed.
Lemma notify_failure_sok w a : sok (notify_failure w a).
Proof.
  unfold notify_failure. cbn. split; [exact I|]. intros rp. destruct rp; try exact I.
  apply saves_ok_bind; [apply get_client_sok|]. intros [c|]; [|exact I]. sv.
Qed.
Lemma lift_sok {A B} (p : prog A) (f : A -> B) : sok p -> sok (bind p (fun x => Ret (f x))).
Proof. intros H. apply saves_ok_bind; [exact H|]. intros; exact I. Qed.
Lemma handler_sok w n now o : sok (handler w n now o).
Proof.
  destruct o; try destruct g; cbv beta iota zeta delta [handler]; try (apply lift_sok with (f := Out)).
  - apply init_auth_sok.
  - apply continue_auth_sok.
  - apply push_auth_sok.
  - apply cc_grant_sok. - apply code_grant_sok. - apply refresh_grant_sok.
  - exact I. - apply jwt_bearer_grant_sok.
  - apply ciba_grant_sok.
  - apply introspect_sok.
  - apply revoke_sok.
  - apply userinfo_sok.
  - unfold token_info. apply saves_ok_bind; [apply introspection_info_sok|]. intros; exact I.
  - unfold token_info_from_request. break_goal; [exact I|].
    apply saves_ok_bind; [apply introspection_info_sok|]. intros i. sv.
  - apply init_back_auth_sok.
  - apply saves_ok_bind; [apply notify_success_sok|]. intros; exact I.
  - apply saves_ok_bind; [apply notify_failure_sok|]. intros; exact I.
  - exact I.
Qed.

Lemma one_index_run {A} (p : prog A) st : sok p -> one_index st -> one_index (fst (run_seq p st)).
Proof. intros Hp H. exact (proj2 (run_seq_ok QG1 QA1 p st Hp (conj (fun _ _ => I) H))). Qed.
Lemma one_index_step w st n o : one_index (s_store st) -> one_index (s_store (fst (step w st n o))).
Proof.
  intros H. unfold step, step_with.
  assert (G : forall p : prog obs, sok p ->
     one_index (s_store (fst (let '(sto, x) := run_seq p (s_store st) in (mkState sto (s_now st), x))))).
  { intros p Hp. pose proof (one_index_run p (s_store st) Hp H) as H0. destruct (run_seq p (s_store st)); exact H0. }
  destruct o; try exact (G _ (handler_sok w n (s_now st) _)). exact H.
Qed.
Lemma one_index_reachable w dyn ops :
  one_index (s_store (fst (run_from w (init_state dyn) 0 ops))).
Proof.
  apply (run_from_inv (fun st => one_index (s_store st))).
  - intros st n o. apply one_index_step.
  - intros s Hs. destruct Hs.
Qed.
