(* C17 (one_index) — every stored authentication session is reachable through exactly one of
   callback id / request_uri / authorization code / auth_req_id, in every reachable state:
   ctx.SaveAuthnSession's guard (save_a) is the only way any handler writes a session. *)
From Verif Require Import Base Scope Types Prog Pop Token Authorize System Config Hoare Tactics.
Local Open Scope N_scope.

(* (also, for C05: the token id of a stored grant is never the empty string) *)
Definition anyG (g : gsession) : Prop := g_token g <> 0.
Lemma make_token_nz n c gt : snd (make_token n c gt) <> 0.
Proof. unfold make_token, mint. destruct (token_is_jwt c gt); cbn; lia. Qed.
Definition one_idx (s : asession) : Prop := n_indexes s = 1%nat.

Local Opaque contains_all_scopes are_scopes_allowed validate_binding validate_pkce refresh_binding
       validate_params validate_optionals validate_in_out merge_params mint make_token n_indexes
       validate_jwt set_pop_jkt set_pop_x5t.

Ltac crunch1 :=
  repeat (cbn in *;
          try match goal with
              | |- True => exact I
              | |- _ /\ _ => split
              | |- forall _, _ => intro
              | H : (n_indexes ?s =? 1)%nat = true |- one_idx ?s => apply Nat.eqb_eq; exact H
              | E : make_token ?n ?c ?g = (_, ?t) |- anyG _ => unfold anyG, with_refresh, new_grant; cbn; pose proof (make_token_nz n c g) as HT; rewrite E in HT; try match goal with |- context [if ?b then _ else _] => destruct b end; cbn; exact HT
              | E : make_token ?n ?c ?g = (_, ?t) |- ?t <> 0 => pose proof (make_token_nz n c g) as HT; rewrite E in HT; exact HT
              end;
          try break_goal).

Lemma sv_bind {A B} (p : prog A) (f : A -> prog B) :
  saves_ok anyG one_idx p -> (forall a, saves_ok anyG one_idx (f a)) -> saves_ok anyG one_idx (bind p f).
Proof. apply saves_ok_bind. Qed.

Lemma get_client_sv w i : saves_ok anyG one_idx (get_client w i).
Proof. unfold get_client. crunch1. Qed.
Lemma authenticated_sv w cr : saves_ok anyG one_idx (authenticated w cr).
Proof.
  unfold authenticated. destruct (is_nil (cr_id cr)); [exact I|].
  apply sv_bind; [apply get_client_sv|]. intros [c|]; crunch1.
Qed.
Ltac auth_sv := apply sv_bind; [apply authenticated_sv|]; intros [?c|]; [|exact I].

Lemma code_grant_sv w n now r : saves_ok anyG one_idx (code_grant w n now r).
Proof. unfold code_grant. do 2 (break_goal; [exact I|]). auth_sv. crunch1. Qed.
Lemma refresh_grant_sv w n now r : saves_ok anyG one_idx (refresh_grant w n now r).
Proof. unfold refresh_grant. do 2 (break_goal; [exact I|]). auth_sv. crunch1. Qed.
Lemma cc_grant_sv w n now r : saves_ok anyG one_idx (cc_grant w n now r).
Proof. unfold cc_grant. break_goal; [exact I|]. auth_sv. crunch1. Qed.
Lemma jwt_bearer_client_sv w cr : saves_ok anyG one_idx (jwt_bearer_client w cr).
Proof.
  unfold jwt_bearer_client. apply sv_bind; [apply authenticated_sv|]. intros [c|]; [exact I|].
  destruct (_ && _)%bool; exact I.
Qed.
Lemma jwt_bearer_grant_sv w n now r : saves_ok anyG one_idx (jwt_bearer_grant w n now r).
Proof.
  unfold jwt_bearer_grant. break_goal; [exact I|].
  apply sv_bind; [apply jwt_bearer_client_sv|]; intros [c|]; [|exact I]. crunch1.
Qed.
Lemma ciba_grant_sv w n now r : saves_ok anyG one_idx (ciba_grant w n now r).
Proof. unfold ciba_grant. break_goal; [exact I|]. auth_sv. crunch1. Qed.

Lemma authenticate_sv w n now s pol : saves_ok anyG one_idx (authenticate w n now s pol).
Proof.
  unfold authenticate, save_a. destruct pol; cbn.
  - apply sv_bind; [apply get_client_sv|]. intros [c|]; [|exact I]. crunch1.
  - crunch1.
  - crunch1.
  - crunch1.
Qed.
Lemma start_session_sv w n now c s r : saves_ok anyG one_idx (start_session w n now c s r).
Proof. unfold start_session. repeat (break_goal; [exact I|]). cbn. apply authenticate_sv. Qed.
Lemma init_auth_sv w n now r : saves_ok anyG one_idx (init_auth w n now r).
Proof.
  unfold init_auth. destruct (is_nil (ar_client r)); [exact I|].
  apply sv_bind; [apply get_client_sv|]. intros [c|]; [|exact I].
  break_goal; [exact I|]. break_goal.
  - break_goal; [exact I|]. cbn. split; [exact I|]. intros rp. destruct rp; try exact I.
    match goal with |- saves_ok _ _ (match ?v with _ => _ end) => destruct v end.
    + crunch1.
    + apply sv_bind; [apply start_session_sv|]. intros; exact I.
  - match goal with |- saves_ok _ _ (match ?v with _ => _ end) => destruct v end; [exact I|].
    apply sv_bind; [apply start_session_sv|]. intros; exact I.
Qed.
Lemma continue_auth_sv w n now r : saves_ok anyG one_idx (continue_auth w n now r).
Proof.
  unfold continue_auth. break_goal; [exact I|]. cbn. split; [exact I|]. intros rp; destruct rp; try exact I.
  break_goal; [exact I|]. apply sv_bind; [apply authenticate_sv|].
  intros [o|e]; [exact I|]. apply sv_bind; [apply get_client_sv|]. intros [c|]; cbn; auto.
Qed.
Lemma push_auth_sv w n now r : saves_ok anyG one_idx (push_auth w n now r).
Proof. unfold push_auth, save_a. break_goal; [exact I|]. auth_sv. crunch1. Qed.
Lemma init_back_auth_sv w n now r : saves_ok anyG one_idx (init_back_auth w n now r).
Proof. unfold init_back_auth, save_a. break_goal; [exact I|]. auth_sv. crunch1. Qed.
Lemma notify_success_sv w n now a hg : saves_ok anyG one_idx (notify_success w n now a hg).
Proof.
  unfold notify_success. cbn. split; [exact I|]. intros rp; destruct rp; try exact I.
  apply sv_bind; [apply get_client_sv|]. intros [c|]; [|exact I]. crunch1.
Qed.
Lemma notify_failure_sv w a : saves_ok anyG one_idx (notify_failure w a).
Proof.
  unfold notify_failure. cbn. split; [exact I|]. intros rp; destruct rp; try exact I.
  apply sv_bind; [apply get_client_sv|]. intros [c|]; [|exact I]. crunch1.
Qed.
Lemma introspection_info_sv now p : saves_ok anyG one_idx (introspection_info now p).
Proof. unfold introspection_info. crunch1. Qed.
Lemma introspect_sv w now r : saves_ok anyG one_idx (introspect w now r).
Proof.
  unfold introspect. break_goal; [exact I|]. auth_sv.
  break_goal; [exact I|]. break_goal; try exact I; (apply sv_bind; [apply introspection_info_sv|]; intros; exact I).
Qed.
Lemma revoke_sv w now r : saves_ok anyG one_idx (revoke w now r).
Proof.
  unfold revoke. break_goal; [exact I|]. auth_sv.
  break_goal; [exact I|]. apply sv_bind; [apply introspection_info_sv|]. intros i. crunch1.
Qed.
Lemma userinfo_sv w now r : saves_ok anyG one_idx (userinfo w now r).
Proof.
  unfold userinfo. break_goal; [exact I|]. break_goal; [|exact I].
  cbn. split; [exact I|]. intros rp; destruct rp; try exact I.
  repeat (break_goal; try exact I).
  apply sv_bind; [apply get_client_sv|]. intros [c|]; exact I.
Qed.
Lemma token_info_sv now p : saves_ok anyG one_idx (token_info now p).
Proof. unfold token_info. apply sv_bind; [apply introspection_info_sv|]. intros; exact I. Qed.
Lemma token_info_req_sv now r : saves_ok anyG one_idx (token_info_from_request now r).
Proof.
  unfold token_info_from_request. break_goal; [exact I|].
  apply sv_bind; [apply introspection_info_sv|]. intros i. crunch1.
Qed.

Lemma handler_sv w n now o : saves_ok anyG one_idx (handler w n now o).
Proof.
  unfold handler. destruct o; try (apply sv_bind; [|intros; exact I]).
  - apply init_auth_sv. - apply continue_auth_sv. - apply push_auth_sv.
  - destruct g; try exact I; (apply sv_bind; [|intros; exact I]).
    + apply cc_grant_sv. + apply code_grant_sv. + apply refresh_grant_sv. + apply jwt_bearer_grant_sv. + apply ciba_grant_sv.
  - apply introspect_sv. - apply revoke_sv. - apply userinfo_sv. - apply token_info_sv.
  - apply token_info_req_sv. - apply init_back_auth_sv. - apply notify_success_sv. - apply notify_failure_sv.
  - exact I.
Qed.

Definition all_one_index (st : state) : Prop := store_ok anyG one_idx (s_store st).

Lemma step_one_index w st n o : all_one_index st -> all_one_index (fst (step w st n o)).
Proof.
  intros H. unfold step, step_with.
  assert (G : forall p : prog obs, saves_ok anyG one_idx p ->
              all_one_index (fst (let '(sto, x) := run_seq p (s_store st) in (mkState sto (s_now st), x)))).
  { intros p Hp. pose proof (run_seq_ok anyG one_idx p (s_store st) Hp) as R.
    destruct (run_seq p (s_store st)) as [sto x]. simpl in *. apply R; auto. }
  destruct o; try (apply G; exact (handler_sv _ _ _ _)).
  simpl. exact H.
Qed.

Theorem one_index_all_histories w dyn ops :
  all_one_index (fst (run_from w (init_state dyn) 0 ops)).
Proof. apply run_from_inv; [apply step_one_index|]. split; intros ? []. Qed.
