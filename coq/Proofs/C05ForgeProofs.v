(* C05 - what Model/AtClaims.v valid_claims (token.go validClaims + the jti extraction of its callers)
   demands of a JWT access token, and that every forgery kind of the suite c05forge is refused. *)
From Coq Require Import NArith ZArith List Bool Lia.
Import ListNotations.
From Verif Require Import AtClaims.
From Verif.Corr Require Import C05Forge.
Local Open Scope N_scope.

Lemma key_by_kid_in : forall c kid k, key_by_kid c kid = Some k -> In k (ac_keys c) /\ k_kid k = kid.
Proof.
  unfold key_by_kid. intros c kid k H. apply find_some in H. destruct H as [I E].
  split; [exact I|]. apply N.eqb_eq; exact E.
Qed.

Lemma issuer_ok_inv : forall host i, host <> 0 -> issuer_ok host i = true -> i = IssOne host.
Proof.
  unfold issuer_ok. intros host i NZ H.
  destruct (N.eqb_spec host 0) as [E|_]; [contradiction|].
  destruct i as [|v|vs|]; try discriminate.
  - apply N.eqb_eq in H. congruence.
  - apply N.eqb_eq in H. subst. reflexivity.
Qed.

(* the guards of valid_claims, read off an acceptance *)
Lemma valid_claims_inv : forall c j t,
  ac_host c <> 0 ->
  valid_claims c j = Some t ->
  j_wf j = true /\ In (j_alg j) (sig_algs c) /\ j_sig_canon j = true /\
  signed_by_server_key c j /\
  j_iss j = IssOne (ac_host c) /\
  time_in_window (ac_leeway c) j /\
  j_typed j = true /\
  j_jti j = Some t.
Proof.
  intros c j t NZ H. unfold valid_claims in H.
  destruct (j_wf j && existsb (N.eqb (j_alg j)) (sig_algs c)) eqn:P; [|discriminate]. cbn [negb] in H.
  apply andb_true_iff in P. destruct P as [WF AL].
  destruct (j_sig_canon j) eqn:CA; [|discriminate]. cbn [negb] in H.
  destruct (j_kid j) as [kid|] eqn:KID; [|discriminate].
  destruct (key_by_kid c kid) as [k|] eqn:KEY; [|discriminate].
  destruct (is_sig k) eqn:US; [|discriminate]. cbn [negb] in H.
  destruct (j_signer j) as [s|] eqn:SG; [|discriminate].
  destruct (N.eqb_spec s (k_ident k)) as [ES|]; [|discriminate]. cbn [negb] in H.
  destruct (claims_decode j) eqn:CD; [|discriminate]. cbn [negb] in H.
  destruct (issuer_ok (ac_host c) (j_iss j)) eqn:IS; [|discriminate]. cbn [negb] in H.
  destruct (nbf_ok (ac_leeway c) (j_nbf j)) eqn:NB; [|discriminate]. cbn [negb] in H.
  destruct (exp_ok (ac_leeway c) (j_exp j)) eqn:EX; [|discriminate]. cbn [negb] in H.
  destruct (iat_ok (ac_leeway c) (j_iat j)) eqn:IA; [|discriminate]. cbn [negb] in H.
  destruct (key_by_kid_in _ _ _ KEY) as [KIN KK].
  apply issuer_ok_inv in IS; [|exact NZ].
  split; [exact WF|]. split.
  { apply existsb_exists in AL. destruct AL as [a [IA' EA]]. apply N.eqb_eq in EA. subst a. exact IA'. }
  split; [reflexivity|]. split.
  { exists k. split; [exact KIN|]. split.
    { unfold is_sig in US. destruct (k_use k); [reflexivity|discriminate]. }
    split; [congruence|]. split; [rewrite KK; exact KEY|]. congruence. }
  split; [exact IS|]. split.
  { unfold time_in_window. repeat split; intros d E.
    - rewrite E in NB. cbn in NB. apply Z.leb_le in NB. exact NB.
    - rewrite E in EX. cbn in EX. apply Z.leb_le in EX. exact EX.
    - rewrite E in IA. cbn in IA. apply Z.leb_le in IA. exact IA. }
  split; [|exact H].
  unfold claims_decode in CD. rewrite IS in CD. exact CD.
Qed.

(* the other direction: whoever can produce a signature of a server key over claims with the configured
   issuer, time claims inside the window and a jti obtains that jti - the holder of the signing key is
   the server as far as validClaims can tell *)
Lemma valid_claims_complete : forall c j k t,
  j_wf j = true -> In (j_alg j) (sig_algs c) -> j_sig_canon j = true ->
  j_kid j = Some (k_kid k) -> key_by_kid c (k_kid k) = Some k -> k_use k = UseSig ->
  j_signer j = Some (k_ident k) ->
  j_iss j = IssOne (ac_host c) -> j_typed j = true ->
  time_in_window (ac_leeway c) j ->
  j_jti j = Some t ->
  valid_claims c j = Some t.
Proof.
  intros c j k t WF AL CA KID KEY US SG IS TY [TN [TE TI]] JT. unfold valid_claims.
  rewrite WF, CA, KID, KEY, SG. cbn [andb negb].
  assert (EA : existsb (N.eqb (j_alg j)) (sig_algs c) = true).
  { apply existsb_exists. exists (j_alg j). split; [exact AL|apply N.eqb_refl]. }
  rewrite EA. cbn [negb]. unfold is_sig. rewrite US. cbn [negb]. rewrite N.eqb_refl. cbn [negb].
  unfold claims_decode. rewrite IS, TY. cbn [negb].
  unfold issuer_ok. rewrite N.eqb_refl. destruct (N.eqb (ac_host c) 0); cbn [negb].
  all: assert (NB : nbf_ok (ac_leeway c) (j_nbf j) = true)
         by (unfold nbf_ok; destruct (j_nbf j) as [d|]; [apply Z.leb_le, TN; reflexivity|reflexivity]);
       assert (EX : exp_ok (ac_leeway c) (j_exp j) = true)
         by (unfold exp_ok; destruct (j_exp j) as [d|]; [apply Z.leb_le, TE; reflexivity|reflexivity]);
       assert (IA : iat_ok (ac_leeway c) (j_iat j) = true)
         by (unfold iat_ok; destruct (j_iat j) as [d|]; [apply Z.leb_le, TI; reflexivity|reflexivity]);
       rewrite NB, EX, IA; cbn [negb]; exact JT.
Qed.

Lemma not_some_none : forall (o : option N), (forall t, o <> Some t) -> o = None.
Proof. intros [t|] H; [exfalso; apply (H t); reflexivity|reflexivity]. Qed.

(* every forgery kind is refused by valid_claims, whatever the record it is applied to *)
Lemma forgery_refused : forall c f j,
  ac_host c <> 0 -> forgery_side c f j -> valid_claims c (apply_forgery f j) = None.
Proof.
  intros c f j NZ S. apply not_some_none. intros t H.
  apply valid_claims_inv in H; [|exact NZ].
  destruct H as [WF [AL [CA [[k [KIN [KU [KID [KEY SG]]]]] [IS [[TN [TE TI]] [TY JT]]]]]]].
  destruct f; cbn in *.
  - injection IS as E. contradiction.
  - discriminate.
  - discriminate.
  - discriminate.
  - specialize (TE d eq_refl). lia.
  - specialize (TN d eq_refl). lia.
  - specialize (TI d eq_refl). lia.
  - discriminate.
  - injection KID as E. subst kid. rewrite KEY in S. discriminate.
  - injection KID as E. subst kid. exact (S k KEY SG).
  - injection KID as E. subst kid. rewrite (S k KEY) in KU. discriminate.
  - discriminate.
  - discriminate.
  - discriminate.
Qed.

(* ... and therefore by every acceptor; a jti that is not live is refused as well (lifetime elapsed with
   exp pushed into the future or removed, unknown jti, the ID token) *)
Lemma forgery_not_accepted : forall c live f j,
  ac_host c <> 0 -> forgery_side c f j -> at_accepts c live (apply_forgery f j) = false.
Proof. intros c live f j NZ S. unfold at_accepts. rewrite (forgery_refused c f j NZ S). reflexivity. Qed.

Lemma dead_jti_not_accepted : forall c live j,
  (forall t, j_jti j = Some t -> live t = false) -> at_accepts c live j = false.
Proof.
  intros c live j D. unfold at_accepts. destruct (valid_claims c j) as [t|] eqn:V; [|reflexivity].
  apply D. unfold valid_claims in V.
  repeat match type of V with
  | (if ?b then None else _) = Some _ => destruct b; [discriminate|]
  | match ?o with Some _ => _ | None => None end = Some _ => destruct o; [|discriminate]
  end. exact V.
Qed.

(* the model never trips the monitor of the suite: what valid_claims accepts satisfies the clauses the
   monitor decides on the record *)
Lemma accepted_passes_clauses : forall c j t,
  ac_host c <> 0 -> valid_claims c j = Some t ->
  sig_okb c j = true /\ iss_okb c j = true /\ time_okb c j = true.
Proof.
  intros c j t NZ H. apply valid_claims_inv in H; [|exact NZ].
  destruct H as [_ [_ [_ [[k [_ [KU [KID [KEY SG]]]]] [IS [[TN [TE TI]] _]]]]]].
  split; [|split].
  - unfold sig_okb. rewrite KID, KEY, SG. unfold is_sig. rewrite KU. rewrite N.eqb_refl. reflexivity.
  - unfold iss_okb. rewrite IS. apply N.eqb_refl.
  - unfold time_okb, nbf_ok, exp_ok, iat_ok.
    destruct (j_nbf j) as [a|]; [rewrite (proj2 (Z.leb_le _ _) (TN a eq_refl))|];
    (destruct (j_exp j) as [b|]; [rewrite (proj2 (Z.leb_le _ _) (TE b eq_refl))|]);
    (destruct (j_iat j) as [d|]; [rewrite (proj2 (Z.leb_le _ _) (TI d eq_refl))|]); reflexivity.
Qed.

(* the statements of Props/C05.v *)
Lemma at_claims_issuer_bound_l : forall (c : at_cfg) (j : jwt) (t : N),
  ac_host c <> 0 ->
  valid_claims c j = Some t ->
  (exists k, In k (ac_keys c) /\ k_use k = UseSig /\ j_kid j = Some (k_kid k) /\
             key_by_kid c (k_kid k) = Some k /\ j_signer j = Some (k_ident k)) /\
  j_iss j = IssOne (ac_host c) /\
  ((forall d, j_nbf j = Some d -> (d <= ac_leeway c)%Z) /\
   (forall d, j_exp j = Some d -> (- ac_leeway c <= d)%Z) /\
   (forall d, j_iat j = Some d -> (d <= ac_leeway c)%Z)) /\
  j_jti j = Some t.
Proof.
  intros c j t NZ H. destruct (valid_claims_inv c j t NZ H) as [_ [_ [_ [S [I [T [_ J]]]]]]].
  exact (conj S (conj I (conj T J))).
Qed.

Lemma forged_issuer_refused_l : forall (c : at_cfg) (live : N -> bool) (f : forgery) (j : jwt),
  ac_host c <> 0 -> forgery_side c f j ->
  valid_claims c (apply_forgery f j) = None /\ at_accepts c live (apply_forgery f j) = false.
Proof. intros c live f j NZ S. split; [exact (forgery_refused c f j NZ S)|exact (forgery_not_accepted c live f j NZ S)]. Qed.
