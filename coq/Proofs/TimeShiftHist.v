(* TimeShiftHist.v - translation of time: one step, whole histories, and the harness's clock. *)
From Coq Require Import List ZArith String NArith Lia Bool.
Import ListNotations.
From RecordUpdate Require Import RecordSet. Import RecordSetNotations.
From Verif Require Import Base Scope Types Prog Pop Token Authorize System TimeShift.
Local Open Scope Z_scope.

(* ---- every operation, one step, whole histories ---- *)
Lemma prel_lift d (p p' : prog out) : prel d (sh_out d) p p' ->
  prel d (sh_obs d) (bind p (fun x => Ret (Out x))) (bind p' (fun x => Ret (Out x))).
Proof. intros H. eapply prel_bind; [exact H|]. intros a. apply PR_ret. reflexivity. Qed.
Lemma prel_notif d (p p' : prog (bool * list notif)) : prel d (fun x => x) p p' ->
  prel d (sh_obs d) (bind p (fun x => Ret (Notified (fst x) (snd x)))) (bind p' (fun x => Ret (Notified (fst x) (snd x)))).
Proof. intros H. eapply prel_bind; [exact H|]. intros a. apply PR_ret. reflexivity. Qed.

Lemma handler_shift d w n now o : prel d (sh_obs d) (handler w n now o) (handler w n (now + d) o).
Proof.
  destruct o as [r|r|r|g r|r|r|r|p|r|r|a hg|a|t]; cbn [handler];
    try (apply prel_lift; first [apply prel_init_auth | apply prel_continue_auth | apply prel_push_auth
                                | apply prel_introspect | apply prel_revoke | apply prel_userinfo | apply prel_token_info
                                | apply prel_token_info_from_request | apply prel_init_back_auth]).
  - destruct g; try (apply PR_ret; reflexivity); apply prel_lift;
      first [apply prel_code_grant | apply prel_refresh_grant | apply prel_cc_grant | apply prel_ciba_grant | apply prel_jwt_bearer_grant].
  - apply prel_notif, prel_notify_success.
  - apply prel_notif, prel_notify_failure.
  - apply PR_ret; reflexivity.
Qed.

Definition sh_state (d : Z) (s : state) : state := mkState (sh_store d (s_store s)) (s_now s + d).

(* one operation: shifting the clock and every stored timestamp by d shifts the resulting state by d and
   changes nothing in the answer except the absolute expiry an introspection reports *)
Theorem step_shift d w s n o :
  step w (sh_state d s) n o = (sh_state d (fst (step w s n o)), sh_obs d (snd (step w s n o))).
Proof.
  destruct s as [st now]. unfold step, step_with, sh_state. cbn [s_store s_now].
  destruct o as [r|r|r|g r|r|r|r|p|r|r|a hg|a|t];
    try (rewrite (run_seq_prel d (sh_obs d) _ _ (handler_shift d w n now _) st);
         match goal with |- context [run_seq ?p st] => destruct (run_seq p st) end; reflexivity).
  cbn. f_equal. f_equal. lia.
Qed.

Lemma sh_a_add d e s : sh_a d (sh_a e s) = sh_a (e + d) s.
Proof. destruct s; unfold sh_a; cbn; f_equal; lia. Qed.
Lemma sh_g_add d e g : sh_g d (sh_g e g) = sh_g (e + d) g.
Proof. destruct g; unfold sh_g; cbn; f_equal; lia. Qed.
Lemma sh_store_add d e st : sh_store d (sh_store e st) = sh_store (e + d) st.
Proof.
  unfold sh_store; cbn. rewrite !map_map. f_equal; apply map_ext; intros; [apply sh_a_add|apply sh_g_add].
Qed.

(* ---- the harness's clock ----
   The Go code reads the real clock, which the harness cannot move.  "d seconds pass" is implemented by
   rewriting every stored timestamp d seconds into the past (harness/stores.go).  step_harness is that
   semantics on the model's state; the model itself advances s_now (System.step). *)
Definition step_harness (w : world) (s : state) (n : nat) (o : op) : state * obs :=
  match o with
  | OpTick t => (mkState (sh_store (- t) (s_store s)) (s_now s), Out OOk)
  | _ => step w s n o
  end.
Fixpoint run_from_harness (w : world) (s : state) (n : nat) (ops : list op) : state * list obs :=
  match ops with
  | [] => (s, [])
  | o :: rest =>
      let '(s', x) := step_harness w s n o in
      let '(s'', tr) := run_from_harness w s' (S n) rest in
      (s'', x :: tr)
  end.
(* what the harness observes, given what the model answers: the model's clock reads `now` where the real
   clock still reads T, so absolute times differ by T - now *)
Fixpoint harness_view (T now : Z) (ops : list op) (xs : list obs) : list obs :=
  match ops, xs with
  | o :: ops', x :: xs' =>
      sh_obs (T - now) x :: harness_view T (match o with OpTick t => now + t | _ => now end) ops' xs'
  | _, _ => []
  end.

Definition tick_of (o : op) : option Z := match o with OpTick t => Some t | _ => None end.
Lemma tick_of_some o t : tick_of o = Some t -> o = OpTick t.
Proof. destruct o; try discriminate. intros H; inversion H; reflexivity. Qed.
Lemma step_harness_other w s n o : tick_of o = None -> step_harness w s n o = step w s n o.
Proof. destruct o; try reflexivity; discriminate. Qed.
Lemma step_other_now w s n o : tick_of o = None -> s_now (fst (step w s n o)) = s_now s.
Proof.
  destruct s as [st now]; destruct o; try discriminate; intros _; unfold step, step_with; cbn [s_store s_now];
    match goal with |- context [run_seq ?p ?st] => destruct (run_seq p st) end; reflexivity.
Qed.
Lemma run_from_cons w s n o ops :
  run_from w s n (o :: ops) =
  (let '(s', x) := step w s n o in let '(s'', tr) := run_from w s' (S n) ops in (s'', x :: tr)).
Proof. reflexivity. Qed.

Theorem harness_clock_equivalent : forall ops w st now T n,
  snd (run_from_harness w (mkState (sh_store (T - now) st) T) n ops)
  = harness_view T now ops (snd (run_from w (mkState st now) n ops)).
Proof.
  induction ops as [|o ops IH]; intros w st now T n; [reflexivity|].
  cbn [run_from_harness]. rewrite run_from_cons.
  destruct (tick_of o) as [t|] eqn:Ht.
  - apply tick_of_some in Ht. subst o. cbn [step_harness s_store s_now].
    change (step w (mkState st now) n (OpTick t)) with (mkState st (now + t), Out OOk).
    rewrite sh_store_add. replace (T - now + - t) with (T - (now + t)) by lia.
    specialize (IH w st (now + t) T (S n)).
    destruct (run_from_harness w (mkState (sh_store (T - (now + t)) st) T) (S n) ops) as [sh trh].
    destruct (run_from w (mkState st (now + t)) (S n) ops) as [sm trm].
    cbn [snd harness_view] in *. f_equal. exact IH.
  - rewrite step_harness_other by exact Ht.
    replace (mkState (sh_store (T - now) st) T) with (sh_state (T - now) (mkState st now))
      by (unfold sh_state; cbn; f_equal; lia).
    rewrite step_shift.
    pose proof (step_other_now w (mkState st now) n o Ht) as Hn.
    destruct (step w (mkState st now) n o) as [[st1 now1] x]. cbn [fst snd s_now] in *. subst now1.
    unfold sh_state; cbn [s_store s_now]. replace (now + (T - now)) with T by lia.
    specialize (IH w st1 now T (S n)).
    destruct (run_from_harness w (mkState (sh_store (T - now) st1) T) (S n) ops) as [sh trh].
    destruct (run_from w (mkState st1 now) (S n) ops) as [sm trm].
    cbn [snd harness_view] in *.
    replace (match o with OpTick t => now + t | _ => now end) with now by (destruct o; try reflexivity; discriminate).
    f_equal. exact IH.
Qed.
