(* C12UseProofs.v — the secret a registration or update returns is the one credential that works, at
   every enabled endpoint, with every secret-based authentication method in force there; and the
   capability lists cover authorization-detail types and the per-endpoint methods.
   Over Model/Dcr.v + Model/DcrUse.v, for every server feature set and every history. *)
From Verif Require Import Base Types Dcr DcrUse C12Proofs.
Local Open Scope N_scope.

(* ------------------------------------------------------------------ histories with uses *)
Lemma xstep_state cfg s n o : fst (xstep cfg s n o) = fst (dstep cfg s n (erase o)).
Proof. destruct o; reflexivity. Qed.

Lemma xrun_from_state cfg ops : forall s n,
  fst (xrun_from cfg s n ops) = fst (drun_from cfg s n (map erase ops)).
Proof.
  induction ops as [|o r IH]; intros s n; [reflexivity|].
  cbn [map]. rewrite drun_from_cons. cbn [fst].
  cbn [xrun_from]. destruct (xstep cfg s n o) as [s1 x] eqn:E.
  destruct (xrun_from cfg s1 (S n) r) as [s2 xs] eqn:E2. cbn [fst].
  rewrite <- xstep_state, E. cbn [fst]. rewrite <- IH, E2. reflexivity.
Qed.

Lemma xrun_state cfg ops : fst (xrun cfg ops) = fst (drun cfg (map erase ops)).
Proof. apply xrun_from_state. Qed.

(* ------------------------------------------------------------------ what modifyAndSaveClient stores *)
Definition issued (cfg : dcfg) (m : meta) (h : id) : id :=
  if orb (needs_hashed_secret cfg m) (needs_plain_secret cfg m) then h else 0.

(* the stored secrets of c are the hash and / or the plaintext of ONE string h, each kept exactly
   when a method in force at an enabled endpoint needs it *)
Definition sec_ok (cfg : dcfg) (c : dclient) (h : id) : Prop :=
  h <> 0 /\
  dc_hsecret c = (if needs_hashed_secret cfg (dc_meta c) then h else 0) /\
  dc_secret c = (if needs_plain_secret cfg (dc_meta c) then h else 0).

Lemma mas_secrets cfg s n created c :
  let cid := if is_nil (dc_id c) then mint n KClientId else dc_id c in
  let keep := andb (negb (is_nil (dc_htoken c))) (negb (d_rotation cfg)) in
  exists c',
    modify_and_save cfg s n created c
      = (dsave c' s, DDoc created (response_doc cid (issued cfg (dc_meta c) (mint n KSecret))
                                                (if keep then nil_id else mint n KRegToken) (dc_meta c))) /\
    dc_id c' = cid /\ dc_meta c' = dc_meta c /\ sec_ok cfg c' (mint n KSecret).
Proof.
  intros cid keep. unfold modify_and_save, issued, sec_ok. fold cid. fold keep.
  eexists. split; [reflexivity|]. cbn [dc_id dc_meta dc_hsecret dc_secret].
  split; [reflexivity|]. split; [reflexivity|]. split; [apply mint_nonzero|].
  destruct (needs_hashed_secret cfg (dc_meta c)), (needs_plain_secret cfg (dc_meta c)); split; reflexivity.
Qed.

Definition all_sec_ok (cfg : dcfg) (s : dstate) : Prop := forall c, In c s -> exists h, sec_ok cfg c h.

Lemma sec_step cfg s n o : all_sec_ok cfg s -> all_sec_ok cfg (fst (dstep cfg s n o)).
Proof.
  intros A. destruct o; unfold dstep.
  - destruct (parse_body b) as [m|]; [|exact A]. unfold create.
    destruct (vetted cfg hk m) as [m'|e]; [|exact A].
    destruct (mas_secrets cfg s n true (mkDClient nil_id nil_id nil_id nil_id m')) as [c' [Em [_ [_ S]]]].
    rewrite Em. cbn [fst]. intros c H. apply In_dsave in H. destruct H as [->|[H _]]; [eexists; exact S | auto].
  - destruct (bearer t); exact A.
  - destruct (parse_body b) as [m|]; [|exact A]. destruct (bearer t) as [tok|]; [|exact A].
    unfold update. destruct (protected s cid tok) as [c0|e]; [|exact A].
    destruct (vetted cfg hk m) as [m'|e]; [|exact A].
    destruct (mas_secrets cfg s n false (mkDClient (dc_id c0) (dc_secret c0) (dc_hsecret c0) (dc_htoken c0) m')) as [c' [Em [_ [_ S]]]].
    rewrite Em. cbn [fst]. intros c H. apply In_dsave in H. destruct H as [->|[H _]]; [eexists; exact S | auto].
  - destruct (bearer t) as [tok|]; [|exact A]. unfold remove.
    destruct (protected s cid tok); [|exact A]. cbn [fst]. intros c H. apply In_ddel in H. apply A; tauto.
  - exact A.
Qed.

Lemma sec_run_from cfg ops : forall s n, all_sec_ok cfg s -> all_sec_ok cfg (fst (drun_from cfg s n ops)).
Proof.
  induction ops as [|o r IH]; intros s n A; [exact A|].
  rewrite drun_from_cons. cbn [fst]. apply IH. apply sec_step; auto.
Qed.

Lemma sec_reachable cfg ops : all_sec_ok cfg (fst (drun cfg ops)).
Proof. apply sec_run_from. intros c []. Qed.

(* ------------------------------------------------------------------ methods in force *)
Lemma v_is_inj v a b : v_is v a = true -> v_is v b = true -> a = b.
Proof.
  destruct v; simpl; try discriminate. intros A B. apply seqb_eq in A. apply seqb_eq in B. congruence.
Qed.

Lemma v_is_not_empty v a : a <> "" -> v_is v a = true -> v_empty v = false.
Proof.
  destruct v; simpl; try discriminate. intros N A. apply seqb_eq in A. subst.
  destruct a; [congruence|reflexivity].
Qed.

(* the method in force at an enabled endpoint is one of the methods setSecret looks at *)
Lemma eff_uses cfg ep m name :
  ep_enabled cfg ep = true -> v_is (effective_method ep m) name = true -> uses_method cfg m name = true.
Proof.
  unfold uses_method, authn_methods. intros En V. destruct ep; simpl in En, V.
  - simpl. rewrite V. reflexivity.
  - rewrite En. destruct (negb (v_empty (gstr "introspection_endpoint_auth_method" m))).
    + simpl. rewrite V. apply orb_true_r.
    + simpl. rewrite V. reflexivity.
  - rewrite En. destruct (negb (v_empty (gstr "revocation_endpoint_auth_method" m))).
    + rewrite !existsb_app. simpl. rewrite V. rewrite !orb_true_r. reflexivity.
    + simpl. rewrite V. reflexivity.
Qed.

Lemma secret_method_spec v sm : secret_method v = Some sm -> v_is v (method_name sm) = true.
Proof.
  unfold secret_method.
  destruct (v_is v "client_secret_post") eqn:A; [intros H; inversion H; auto|].
  destruct (v_is v "client_secret_basic") eqn:B; [intros H; inversion H; auto|].
  destruct (v_is v "client_secret_jwt") eqn:C; [intros H; inversion H; auto|discriminate].
Qed.

Definition jwt_usable (cfg : dcfg) (ep : endpoint) (m : meta) (sm : smethod) : bool :=
  match sm with SmJwt => andb (identifies cfg sm) (hs256_allowed cfg ep m) | _ => true end.

(* the secret works wherever a secret-based method is in force *)
Lemma sec_ok_works cfg c h ep sm :
  sec_ok cfg c h -> ep_enabled cfg ep = true ->
  secret_method (effective_method ep (dc_meta c)) = Some sm ->
  jwt_usable cfg ep (dc_meta c) sm = true ->
  authenticates cfg c ep sm h = true.
Proof.
  intros [NZ [Hh Hp]] En SM U. apply secret_method_spec in SM.
  assert (Zh : is_nil h = false) by (apply is_nil_false; auto).
  unfold authenticates.
  assert (NN : v_is (effective_method ep (dc_meta c)) "none" = false).
  { destruct (v_is (effective_method ep (dc_meta c)) "none") eqn:E; auto.
    pose proof (v_is_inj _ _ _ E SM) as X. destruct sm; discriminate X. }
  rewrite NN.
  destruct sm; simpl in SM; unfold jwt_usable in U.
  - rewrite SM. cbn [identifies andb].
    assert (NH : needs_hashed_secret cfg (dc_meta c) = true).
    { unfold needs_hashed_secret. rewrite (eff_uses cfg ep _ _ En SM). apply orb_true_r. }
    rewrite NH in Hh. unfold hash_matches. rewrite Hh, Zh, ideq_refl. reflexivity.
  - destruct (v_is (effective_method ep (dc_meta c)) "client_secret_post") eqn:P.
    { pose proof (v_is_inj _ _ _ P SM). discriminate. }
    rewrite SM. cbn [identifies andb].
    assert (NH : needs_hashed_secret cfg (dc_meta c) = true).
    { unfold needs_hashed_secret. rewrite (eff_uses cfg ep _ _ En SM). reflexivity. }
    rewrite NH in Hh. unfold hash_matches. rewrite Hh, Zh, ideq_refl. reflexivity.
  - destruct (v_is (effective_method ep (dc_meta c)) "client_secret_post") eqn:P.
    { pose proof (v_is_inj _ _ _ P SM). discriminate. }
    destruct (v_is (effective_method ep (dc_meta c)) "client_secret_basic") eqn:B.
    { pose proof (v_is_inj _ _ _ B SM). discriminate. }
    rewrite SM. apply andb_true_iff in U. destruct U as [U1 U2]. rewrite U1, U2. cbn [andb].
    assert (NP : needs_plain_secret cfg (dc_meta c) = true).
    { unfold needs_plain_secret. apply (eff_uses cfg ep _ _ En SM). }
    rewrite NP in Hp. unfold key_matches. rewrite Hp, Zh, ideq_refl. reflexivity.
Qed.

(* and nothing else does *)
Lemma sec_ok_only cfg c h ep sm sm' h' :
  sec_ok cfg c h ->
  secret_method (effective_method ep (dc_meta c)) = Some sm ->
  authenticates cfg c ep sm' h' = true -> sm' = sm /\ h' = h.
Proof.
  intros [NZ [Hh Hp]] SM A. apply secret_method_spec in SM.
  unfold authenticates in A. apply andb_true_iff in A. destruct A as [_ A].
  assert (NN : v_is (effective_method ep (dc_meta c)) "none" = false).
  { destruct (v_is (effective_method ep (dc_meta c)) "none") eqn:E; auto.
    pose proof (v_is_inj _ _ _ E SM) as X. destruct sm; discriminate X. }
  rewrite NN in A.
  assert (HM : forall x, hash_matches (dc_hsecret c) x = true -> x = h).
  { intros x H. apply hash_matches_spec in H. destruct H as [E N]. rewrite <- E, Hh.
    destruct (needs_hashed_secret cfg (dc_meta c)); auto. rewrite Hh in N. congruence. }
  assert (KM : forall x, key_matches (dc_secret c) x = true -> x = h).
  { intros x H. unfold key_matches in H. apply andb_true_iff in H. destruct H as [N H].
    apply andb_true_iff in H. destruct H as [_ H]. apply ideq_eq in H. rewrite <- H, Hp.
    destruct (needs_plain_secret cfg (dc_meta c)); auto.
    rewrite Hp in N. simpl in N. discriminate. }
  destruct (v_is (effective_method ep (dc_meta c)) "client_secret_post") eqn:P.
  { pose proof (v_is_inj _ _ _ P SM) as X. destruct sm; try discriminate X.
    destruct sm'; try discriminate A. split; auto. }
  destruct (v_is (effective_method ep (dc_meta c)) "client_secret_basic") eqn:B.
  { pose proof (v_is_inj _ _ _ B SM) as X. destruct sm; try discriminate X.
    destruct sm'; try discriminate A. split; auto. }
  destruct (v_is (effective_method ep (dc_meta c)) "client_secret_jwt") eqn:J; [|discriminate].
  pose proof (v_is_inj _ _ _ J SM) as X. destruct sm; try discriminate X.
  destruct sm'; try discriminate A. apply andb_true_iff in A. destruct A as [_ A]. split; auto.
Qed.

(* a method that rests on the secret is in force somewhere <-> a secret is issued *)
Lemma issued_when_needed cfg m ep sm h :
  ep_enabled cfg ep = true -> secret_method (effective_method ep m) = Some sm -> issued cfg m h = h.
Proof.
  intros En SM. apply secret_method_spec in SM. pose proof (eff_uses cfg ep m _ En SM) as U.
  unfold issued, needs_hashed_secret, needs_plain_secret. destruct sm; simpl in U; rewrite U; simpl;
    rewrite ?orb_true_r; reflexivity.
Qed.

(* ------------------------------------------------------------------ the write and what follows *)
Lemma is_nil_mint n k : is_nil (mint n k) = false.
Proof. apply is_nil_false, mint_nonzero. Qed.

Lemma write_secret cfg s n o cid cr d :
  ids_nonzero s -> writes n o cid -> snd (dstep cfg s n o) = DDoc cr d ->
  exists c, dfind cid (fst (dstep cfg s n o)) = Some c /\ sec_ok cfg c (mint n KSecret) /\
            dget "client_secret" d = (if is_nil (issued cfg (dc_meta c) (mint n KSecret)) then None
                                      else Some (JCred (mint n KSecret))).
Proof.
  intros NZI W H. destruct o; simpl in W; try contradiction.
  - subst cid. unfold dstep in *. destruct (parse_body b) as [m|]; [|simpl in H; discriminate].
    unfold create in *. destruct (vetted cfg hk m) as [m'|e]; [|simpl in H; discriminate].
    destruct (mas_secrets cfg s n true (mkDClient nil_id nil_id nil_id nil_id m')) as [c' [Em [Eid [Emeta S]]]].
    rewrite Em in *. cbn [fst snd] in *. simpl in Eid. inversion H; subst cr d; clear H.
    exists c'. split; [rewrite <- Eid; apply dfind_dsave_same|]. split; [exact S|].
    rewrite resp_secret. rewrite Emeta. simpl. unfold issued.
    destruct (needs_hashed_secret cfg m' || needs_plain_secret cfg m'); simpl; [rewrite is_nil_mint|]; reflexivity.
  - subst cid0.
    assert (A : dcr_accepted (snd (dstep cfg s n (Update cid t b hk))) = true) by (rewrite H; reflexivity).
    destruct (update_accepted _ _ _ _ _ _ _ NZI A) as [c0 [h [m' [Eh [F [Et [NZ [V Est]]]]]]]].
    rewrite Est in H |- *.
    destruct (mas_secrets cfg s n false (mkDClient cid (dc_secret c0) (dc_hsecret c0) h m')) as [c' [Em [Eid [Emeta S]]]].
    rewrite Em in *. cbn [fst snd] in *. simpl in Eid, Emeta. inversion H; subst cr d; clear H.
    apply dfind_In in F. destruct F as [Fi Fid].
    assert (Zc : is_nil cid = false) by (apply is_nil_false; rewrite <- Fid; apply NZI; auto).
    rewrite Zc in Eid.
    exists c'. split; [rewrite <- Eid; apply dfind_dsave_same|]. split; [exact S|].
    rewrite resp_secret. rewrite Emeta. simpl. unfold issued.
    destruct (needs_hashed_secret cfg m' || needs_plain_secret cfg m'); simpl; [rewrite is_nil_mint|]; reflexivity.
Qed.

(* The secret returned by the registration or update at index |ops1| is, after any further history
   that does not update or delete that registration, accepted at every enabled endpoint by every
   secret-based method in force there - and it is the only secret that is. *)
Lemma secret_works_all_histories cfg ops1 o ops2 cid cr d :
  let s := fst (drun cfg ops1) in
  let n := List.length ops1 in
  writes n o cid ->
  snd (dstep cfg s n o) = DDoc cr d ->
  forallb (leaves_alone cid) ops2 = true ->
  let s2 := fst (drun cfg (ops1 ++ o :: ops2)) in
  exists c, dfind cid s2 = Some c /\
    forall ep sm, ep_enabled cfg ep = true ->
      secret_method (effective_method ep (dc_meta c)) = Some sm ->
      dget "client_secret" d = Some (JCred (mint n KSecret)) /\
      (jwt_usable cfg ep (dc_meta c) sm = true -> authenticates cfg c ep sm (mint n KSecret) = true) /\
      (forall sm' h', authenticates cfg c ep sm' h' = true -> sm' = sm /\ h' = mint n KSecret).
Proof.
  intros s n W H LA s2.
  pose proof (inv_reachable cfg ops1) as I. fold s in I. fold n in I.
  destruct (write_secret cfg s n o cid cr d (inv_nonzero _ _ _ I) W H) as [c [F1 [S D]]].
  destruct (write_spec cfg s n o cid cr d (inv_nonzero _ _ _ I) (inv_ids _ _ _ I) W H)
    as [c1 [sec [tok [i [F1' [Li [Ei _]]]]]]].
  assert (F2 : dfind cid s2 = Some c).
  { unfold s2, drun. rewrite drun_from_app. fold (drun cfg ops1). fold s. simpl (0 + _)%nat. fold n.
    rewrite drun_from_cons. cbn [fst]. eapply frame_run; eauto. }
  exists c. split; [exact F2|]. intros ep sm En SM. split; [|split].
  - rewrite D. rewrite (issued_when_needed cfg _ ep sm _ En SM). rewrite is_nil_mint. reflexivity.
  - intros U. eapply sec_ok_works; eauto.
  - intros sm' h' A. eapply sec_ok_only; eauto.
Qed.

(* no secret in the answer <-> no secret-based method in force at any enabled endpoint *)
Lemma no_secret_no_method cfg ops o cid cr d :
  let s := fst (drun cfg ops) in
  let n := List.length ops in
  writes n o cid ->
  snd (dstep cfg s n o) = DDoc cr d ->
  dget "client_secret" d = None ->
  exists c, dfind cid (fst (dstep cfg s n o)) = Some c /\ dc_hsecret c = 0 /\ dc_secret c = 0 /\
    forall ep, ep_enabled cfg ep = true -> secret_method (effective_method ep (dc_meta c)) = None.
Proof.
  intros s n W H N.
  pose proof (inv_reachable cfg ops) as I. fold s in I. fold n in I.
  destruct (write_secret cfg s n o cid cr d (inv_nonzero _ _ _ I) W H) as [c [F1 [[NZ [Hh Hp]] D]]].
  exists c. split; [exact F1|].
  rewrite D in N. unfold issued in N.
  destruct (needs_hashed_secret cfg (dc_meta c)) eqn:NH; simpl in N; [rewrite is_nil_mint in N; discriminate|].
  destruct (needs_plain_secret cfg (dc_meta c)) eqn:NP; simpl in N; [rewrite is_nil_mint in N; discriminate|].
  split; [exact Hh|]. split; [exact Hp|].
  intros ep En. destruct (secret_method (effective_method ep (dc_meta c))) as [sm|] eqn:SM; [|reflexivity].
  exfalso. apply secret_method_spec in SM. pose proof (eff_uses cfg ep _ _ En SM) as U.
  unfold needs_hashed_secret, needs_plain_secret in NH, NP. apply orb_false_iff in NH. destruct NH as [NB NPo].
  destruct sm; simpl in U; congruence.
Qed.

(* every reachable state: each stored client has one secret, kept hashed and / or in clear as its
   methods need, and it opens every enabled endpoint *)
Lemma one_secret_all_histories cfg ops c :
  In c (fst (drun cfg ops)) ->
  exists h, sec_ok cfg c h /\
    forall ep sm, ep_enabled cfg ep = true -> secret_method (effective_method ep (dc_meta c)) = Some sm ->
      (jwt_usable cfg ep (dc_meta c) sm = true -> authenticates cfg c ep sm h = true) /\
      (forall sm' h', authenticates cfg c ep sm' h' = true -> sm' = sm /\ h' = h).
Proof.
  intros H. destruct (sec_reachable cfg ops c H) as [h S]. exists h. split; [exact S|].
  intros ep sm En SM. split.
  - intros U. eapply sec_ok_works; eauto.
  - intros sm' h' A. eapply sec_ok_only; eauto.
Qed.

(* ------------------------------------------------------------------ capability lists, spelled out further *)
Lemma forallb_In {A} (f : A -> bool) l x : forallb f l = true -> In x l -> f x = true.
Proof. intros H I. rewrite forallb_forall in H. auto. Qed.

Lemma caps_detail_types cfg m :
  validate cfg m = true -> d_auth_details cfg = true ->
  forall t, In t (glist "authorization_data_types" m) -> In t (d_auth_detail_types cfg).
Proof.
  intros V En t I. pose proof (validate_all cfg m V validateAuthorizationDetailTypes) as H.
  assert (X : In validateAuthorizationDetailTypes validators) by (unfold validators; simpl; tauto).
  specialize (H X). unfold validateAuthorizationDetailTypes in H. rewrite En in H. simpl in H.
  apply mem_In. eapply (forallb_In (fun t => mem t (d_auth_detail_types cfg))); eauto.
Qed.

Lemma caps_endpoint_methods cfg m :
  validate cfg m = true ->
  (forall a, gstr "introspection_endpoint_auth_method" m = JStr a -> a <> "" -> In a (d_intro_methods cfg)) /\
  (forall a, gstr "revocation_endpoint_auth_method" m = JStr a -> a <> "" -> In a (d_revoc_methods cfg)).
Proof.
  intros V. split; intros a E N.
  - pose proof (validate_all cfg m V validateTokenIntrospection) as H.
    assert (X : In validateTokenIntrospection validators) by (unfold validators; simpl; tauto).
    specialize (H X). unfold validateTokenIntrospection in H. eapply opt_in_In; eauto.
  - pose proof (validate_all cfg m V validateTokenRevocation) as H.
    assert (X : In validateTokenRevocation validators) by (unfold validators; simpl; tauto).
    specialize (H X). unfold validateTokenRevocation in H. eapply opt_in_In; eauto.
Qed.

Lemma detail_types_all_histories cfg ops c :
  In c (fst (drun cfg ops)) -> d_auth_details cfg = true ->
  forall t, In t (glist "authorization_data_types" (dc_meta c)) -> In t (d_auth_detail_types cfg).
Proof.
  intros I. apply caps_detail_types. eapply (inv_valid _ _ _ (inv_reachable cfg ops)); eauto.
Qed.

(* a registration asking for a detail type that is not enabled is refused, wherever in the list it is *)
Lemma detail_type_refused cfg s n b hk m t :
  parse_body b = Some m -> hk = HkNone -> d_auth_details cfg = true ->
  In t (glist "authorization_data_types" m) -> ~ In t (d_auth_detail_types cfg) ->
  dstep cfg s n (Create b hk) = (s, DErr EInvalidClientMetadata).
Proof.
  intros P -> En I NI. unfold dstep. rewrite P. unfold create, vetted.
  destruct (validate cfg m) eqn:V; [|reflexivity].
  exfalso. apply NI. eapply caps_detail_types; eauto.
Qed.
