(* C19ListsProofs.v — the method / algorithm list members of the discovery document over config2
   (Model/Config2.v, Model/Discovery2.v): presence = guard and non-empty list, values from the option
   list, setDefaults makes every enabled list non-empty, an advertised JWT-based method has an
   accepted algorithm, advertised encryption is applied.  Statements in Props/C19.v. *)
From Verif Require Import Base Scope Types Config Discovery Config2 Discovery2 ConfigProofs C19Proofs.
Local Open Scope list_scope.

Definition is_nil {A} (l : list A) : bool := match l with [] => true | _ => false end.

(* ================================================================================================ *)
(* 1. the document, for every configuration record                                                  *)
(* ================================================================================================ *)
Lemma l_advertised_in_eq c2 m x : l_advertised_in c2 m x = andb (l_flag c2 m) (mem x (l_value c2 m)).
Proof.
  unfold l_advertised_in, lmember_value, l_raw.
  destruct (l_always m); destruct (l_flag c2 m); cbn; try reflexivity.
  destruct (l_value c2 m); reflexivity.
Qed.

Lemma l_advertised_eq c2 m :
  l_advertised c2 m = orb (l_always m) (andb (l_flag c2 m) (negb (is_nil (l_value c2 m)))).
Proof.
  unfold l_advertised, lmember_value, l_raw.
  destruct (l_always m); destruct (l_flag c2 m); cbn; try reflexivity.
  destruct (l_value c2 m); reflexivity.
Qed.

Lemma l_member_value_eq c2 m : l_always m = false ->
  lmember_value c2 m = if andb (l_flag c2 m) (negb (is_nil (l_value c2 m))) then Some (DSet (l_value c2 m)) else None.
Proof.
  intros H. unfold lmember_value, l_raw. rewrite H.
  destruct (l_flag c2 m); cbn; [|reflexivity]. destruct (l_value c2 m); reflexivity.
Qed.

(* the document has exactly the list members that have a value *)
Lemma document2_list_member c2 iss mtls m v :
  lmember_value c2 m = Some v -> In (lmember_name m, v) (document2 c2 iss mtls).
Proof.
  intros H. unfold document2. apply in_or_app. right. apply in_flat_map. exists m. split.
  - destruct m; cbn; tauto.
  - rewrite H. left. reflexivity.
Qed.

(* ================================================================================================ *)
(* 2. provider.New over the list side                                                               *)
(* ================================================================================================ *)
Lemma build2_inv p opts c2 : build2 p opts = Some c2 ->
  forallb opt2_ok opts = true /\ build p (flat_map base_of opts) = Some (c2_base c2) /\
  c2_lists c2 = set_defaults_lists (folded_lists opts).
Proof.
  unfold build2. destruct (forallb opt2_ok opts); [|discriminate].
  destruct (build p (flat_map base_of opts)) as [c|]; [|discriminate].
  intros H. injection H as <-. auto.
Qed.

(* an option of Config.v acts on the lists like the list option the harness passes for it *)
Definition norm (o : opt2) : opt2 :=
  match o with O o' => match harness_arg o' with Some o2 => o2 | None => o end | _ => o end.
Lemma apply_lists_norm o l : apply_lists o l = apply_lists1 (norm o) l.
Proof. destruct o; try reflexivity. cbn. destruct (harness_arg o); reflexivity. Qed.
Lemma norm_not_harness o : match norm o with O o' => harness_arg o' = None | _ => True end.
Proof. destruct o; cbn; auto. destruct (harness_arg o) eqn:E; [destruct o; cbn in E; try discriminate; injection E as <-; exact I | exact E]. Qed.

(* ---- the list fields and the options that write them ---- *)
Inductive field :=
  | FTokenMethods | FIntroMethods | FRevocMethods | FPkjwt | FSecretjwt
  | FIdtSig | FIdtKey | FIdtContent | FUiSig | FUiKey | FUiContent
  | FJarSig | FJarKey | FJarContent | FJarmSig | FJarmKey | FJarmContent | FDpopSig | FCibaJarSig.

Definition field_get (f : field) (l : lists) : list string :=
  match f with
  | FTokenMethods => l_token_methods l | FIntroMethods => l_intro_methods l | FRevocMethods => l_revoc_methods l
  | FPkjwt => l_pkjwt_algs l | FSecretjwt => l_secretjwt_algs l
  | FIdtSig => l_idt_sig_algs l | FIdtKey => l_idt_key_algs l | FIdtContent => l_idt_content_algs l
  | FUiSig => l_ui_sig_algs l | FUiKey => l_ui_key_algs l | FUiContent => l_ui_content_algs l
  | FJarSig => l_jar_sig_algs l | FJarKey => l_jar_key_algs l | FJarContent => l_jar_content_algs l
  | FJarmSig => l_jarm_sig_algs l | FJarmKey => l_jarm_key_algs l | FJarmContent => l_jarm_content_algs l
  | FDpopSig => l_dpop_sig_algs l | FCibaJarSig => l_ciba_jar_sig_algs l
  end.

(* appendIfNotIn(rest, first) of the option that writes field f *)
Definition setter1 (f : field) (o : opt2) : option (list string) :=
  match f, o with
  | FTokenMethods, WithTokenAuthnMethods a l | FIntroMethods, WithTokenIntrospectionM a l
  | FRevocMethods, WithTokenRevocationM a l | FPkjwt, WithPrivateKeyJWTSignatureAlgs a l
  | FSecretjwt, WithSecretJWTSignatureAlgs a l | FIdtSig, WithIDTokenSignatureAlgs a l
  | FIdtKey, WithIDTokenEncryption a l | FIdtContent, WithIDTokenContentEncryptionAlgs a l
  | FUiSig, WithUserInfoSignatureAlgs a l | FUiKey, WithUserInfoEncryption a l
  | FUiContent, WithUserInfoContentEncryptionAlgs a l
  | FJarSig, WithJARAlgs a l | FJarSig, WithJARRequiredAlgs a l | FJarKey, WithJAREncryption a l
  | FJarContent, WithJARContentEncryptionAlgs a l | FJarmSig, WithJARMAlgs a l | FJarmKey, WithJARMEncryption a l
  | FJarmContent, WithJARMContentEncryptionAlgs a l | FDpopSig, WithDPoPAlgs a l | FDpopSig, WithDPoPRequiredAlgs a l
  | FCibaJarSig, WithCIBAJARAlgs a l | FCibaJarSig, WithCIBAJARRequiredAlgs a l => Some (append_if_not_in l a)
  | _, _ => None
  end.
Definition setter (f : field) (o : opt2) : option (list string) := setter1 f (norm o).

Lemma apply_lists_field f o l :
  field_get f (apply_lists o l) = match setter f o with Some v => v | None => field_get f l end.
Proof.
  rewrite apply_lists_norm. unfold setter. destruct (norm o); destruct f; reflexivity.
Qed.

Lemma append_if_not_in_nonempty l a : append_if_not_in l a <> [].
Proof. unfold append_if_not_in. destruct (mem a l) eqn:E; [|discriminate]. destruct l; [discriminate|discriminate]. Qed.

Lemma setter_nonempty f o v : setter f o = Some v -> v <> [].
Proof.
  unfold setter. destruct (norm o); destruct f; cbn; intros H; try discriminate;
    injection H as <-; apply append_if_not_in_nonempty.
Qed.

(* the value a fold of options leaves in a field: the argument of the LAST option that writes it *)
Fixpoint last_some {A B} (f : A -> option B) (l : list A) : option B :=
  match l with
  | [] => None
  | x :: r => match last_some f r with Some b => Some b | None => f x end
  end.

Lemma fold_field f opts : forall l,
  field_get f (fold_left (fun l o => apply_lists o l) opts l) =
  match last_some (setter f) opts with Some v => v | None => field_get f l end.
Proof.
  induction opts as [|o r IH]; intros l; simpl; [reflexivity|].
  rewrite IH. destruct (last_some (setter f) r); [reflexivity|]. apply apply_lists_field.
Qed.

Lemma base_lists_field f : field_get f base_lists = [].
Proof. destruct f; reflexivity. Qed.

Lemma folded_field f opts :
  field_get f (folded_lists opts) = match last_some (setter f) opts with Some v => v | None => [] end.
Proof. unfold folded_lists. rewrite fold_field, base_lists_field. reflexivity. Qed.

Lemma last_some_none {A B} (f : A -> option B) l : last_some f l = None <-> forall x, In x l -> f x = None.
Proof.
  induction l as [|x r IH]; simpl; [split; [intros _ ? []|intros _; reflexivity]|].
  destruct (last_some f r) eqn:E.
  - split; [discriminate|]. intros H. destruct IH as [_ IH]. assert (X : Some b = None) by (apply IH; intros; apply H; auto). discriminate X.
  - split.
    + intros Hx y [<-|Hy]; auto. apply IH; auto.
    + intros H; apply H; auto.
Qed.

Lemma last_some_setter_nonempty f opts : forall v, last_some (setter f) opts = Some v -> v <> [].
Proof.
  induction opts as [|o r IH]; simpl; intros v E; [discriminate|].
  destruct (last_some (setter f) r) eqn:E2; [injection E as <-; auto|]. eapply setter_nonempty; eauto.
Qed.

Definition writes (f : field) (o : opt2) : bool := match setter f o with Some _ => true | None => false end.

Lemma last_some_existsb f opts : existsb (writes f) opts = match last_some (setter f) opts with Some _ => true | None => false end.
Proof.
  induction opts as [|o r IH]; simpl; [reflexivity|]. rewrite IH. unfold writes.
  destruct (last_some (setter f) r); [apply orb_true_r|]. rewrite orb_false_r. reflexivity.
Qed.

(* a field is non-empty after the options iff one of them writes it *)
Lemma folded_nonempty f opts : negb (is_nil (field_get f (folded_lists opts))) = existsb (writes f) opts.
Proof.
  rewrite folded_field, last_some_existsb. induction opts as [|o r IH]; simpl; [reflexivity|].
  destruct (last_some (setter f) r) as [v|] eqn:E.
  - simpl in IH. exact IH.
  - destruct (setter f o) as [v|] eqn:E2; [|reflexivity]. apply setter_nonempty in E2. destruct v; [congruence|reflexivity].
Qed.

(* ---- the boolean Enc flags of the list side ---- *)
Inductive eflag := EIdt | EUi | EJar | EJarm.
Definition eflag_get (e : eflag) (l : lists) : bool :=
  match e with EIdt => l_idt_enc l | EUi => l_ui_enc l | EJar => l_jar_enc l | EJarm => l_jarm_enc l end.
Definition sets_enc (e : eflag) (o : opt2) : bool :=
  match e, o with
  | EIdt, WithIDTokenEncryption _ _ | EUi, WithUserInfoEncryption _ _
  | EJar, WithJAREncryption _ _ | EJarm, WithJARMEncryption _ _ => true
  | _, _ => false
  end.
Lemma norm_sets_enc e o : sets_enc e (norm o) = sets_enc e o.
Proof. destruct o; try reflexivity. cbn. destruct o; destruct e; reflexivity. Qed.

Lemma apply_lists_eflag e o l : eflag_get e (apply_lists o l) = orb (sets_enc e o) (eflag_get e l).
Proof.
  rewrite apply_lists_norm, <- norm_sets_enc. destruct (norm o); destruct e; reflexivity.
Qed.

Lemma fold_eflag e opts : forall l,
  eflag_get e (fold_left (fun l o => apply_lists o l) opts l) = orb (eflag_get e l) (existsb (sets_enc e) opts).
Proof.
  induction opts as [|o r IH]; intros l; simpl; [rewrite orb_false_r; reflexivity|].
  rewrite IH, apply_lists_eflag. destruct (sets_enc e o), (eflag_get e l); reflexivity.
Qed.
Lemma folded_eflag e opts : eflag_get e (folded_lists opts) = existsb (sets_enc e) opts.
Proof. unfold folded_lists. rewrite fold_eflag. destruct e; reflexivity. Qed.

(* the option that sets an Enc flag writes the key-algorithm field too *)
Definition key_field (e : eflag) : field := match e with EIdt => FIdtKey | EUi => FUiKey | EJar => FJarKey | EJarm => FJarmKey end.
Definition content_field (e : eflag) : field :=
  match e with EIdt => FIdtContent | EUi => FUiContent | EJar => FJarContent | EJarm => FJarmContent end.
Lemma sets_enc_writes_key e o : writes (key_field e) o = sets_enc e o.
Proof. unfold writes, setter. rewrite <- norm_sets_enc. destruct (norm o); destruct e; reflexivity. Qed.
Lemma existsb_ext {A} (f g : A -> bool) l : (forall x, f x = g x) -> existsb f l = existsb g l.
Proof. intros H. induction l; simpl; [reflexivity|]. rewrite H, IHl. reflexivity. Qed.

(* ================================================================================================ *)
(* 3. setDefaults on the list side, step by step                                                    *)
(* ================================================================================================ *)
Notation d1 := sd_idt_sig.
Notation d2 := sd_pkjwt.
Notation d3 := sd_secretjwt.
Notation d4 := sd_jar_enc.
Notation d5 := sd_jarm_enc.
Notation d6 := sd_idt_enc.
Notation d7 := sd_ui_enc.

Lemma sd_steps l : set_defaults_lists l =
  let l1 := d1 l in let a := all_authn_methods l1 in d7 (d6 (d5 (d4 (d3 a (d2 a l1))))).
Proof. reflexivity. Qed.

(* which fields a step may change *)
Ltac step_tac d := intros; unfold d; repeat match goal with |- context [if ?b then _ else _] => destruct b end; reflexivity.

Lemma field_proj f l : field_get f l =
  match f with
  | FTokenMethods => l_token_methods l | FIntroMethods => l_intro_methods l | FRevocMethods => l_revoc_methods l
  | FPkjwt => l_pkjwt_algs l | FSecretjwt => l_secretjwt_algs l
  | FIdtSig => l_idt_sig_algs l | FIdtKey => l_idt_key_algs l | FIdtContent => l_idt_content_algs l
  | FUiSig => l_ui_sig_algs l | FUiKey => l_ui_key_algs l | FUiContent => l_ui_content_algs l
  | FJarSig => l_jar_sig_algs l | FJarKey => l_jar_key_algs l | FJarContent => l_jar_content_algs l
  | FJarmSig => l_jarm_sig_algs l | FJarmKey => l_jarm_key_algs l | FJarmContent => l_jarm_content_algs l
  | FDpopSig => l_dpop_sig_algs l | FCibaJarSig => l_ciba_jar_sig_algs l
  end.
Proof. reflexivity. Qed.

Lemma d1_field f l : f <> FIdtSig -> field_get f (d1 l) = field_get f l.
Proof. intros H; destruct f; try reflexivity; congruence. Qed.
Lemma d2_field a f l : f <> FPkjwt -> field_get f (d2 a l) = field_get f l.
Proof. intros H; unfold d2; destruct (mem _ a); destruct f; try reflexivity; congruence. Qed.
Lemma d3_field a f l : f <> FSecretjwt -> field_get f (d3 a l) = field_get f l.
Proof. intros H; unfold d3; destruct (mem _ a); destruct f; try reflexivity; congruence. Qed.
Lemma d4_field f l : f <> FJarContent -> field_get f (d4 l) = field_get f l.
Proof. intros H; unfold d4; destruct (l_jar_enc l); destruct f; try reflexivity; congruence. Qed.
Lemma d5_field f l : f <> FJarmContent -> field_get f (d5 l) = field_get f l.
Proof. intros H; unfold d5; destruct (l_jarm_enc l); destruct f; try reflexivity; congruence. Qed.
Lemma d6_field f l : f <> FIdtContent -> field_get f (d6 l) = field_get f l.
Proof. intros H; unfold d6; destruct (l_idt_enc l); destruct f; try reflexivity; congruence. Qed.
Lemma d7_field f l : f <> FUiContent -> field_get f (d7 l) = field_get f l.
Proof. intros H; unfold d7; destruct (l_ui_enc l); destruct f; try reflexivity; congruence. Qed.

Lemma d1_eflag e l : eflag_get e (d1 l) = eflag_get e l. Proof. destruct e; reflexivity. Qed.
Lemma d2_eflag a e l : eflag_get e (d2 a l) = eflag_get e l. Proof. unfold d2; destruct (mem _ a); destruct e; reflexivity. Qed.
Lemma d3_eflag a e l : eflag_get e (d3 a l) = eflag_get e l. Proof. unfold d3; destruct (mem _ a); destruct e; reflexivity. Qed.
Lemma d4_eflag e l : eflag_get e (d4 l) = eflag_get e l. Proof. unfold d4; destruct (l_jar_enc l); destruct e; reflexivity. Qed.
Lemma d5_eflag e l : eflag_get e (d5 l) = eflag_get e l. Proof. unfold d5; destruct (l_jarm_enc l); destruct e; reflexivity. Qed.
Lemma d6_eflag e l : eflag_get e (d6 l) = eflag_get e l. Proof. unfold d6; destruct (l_idt_enc l); destruct e; reflexivity. Qed.
Lemma d7_eflag e l : eflag_get e (d7 l) = eflag_get e l. Proof. unfold d7; destruct (l_ui_enc l); destruct e; reflexivity. Qed.

Lemma sd_eflag e l : eflag_get e (set_defaults_lists l) = eflag_get e l.
Proof. rewrite sd_steps. cbv zeta. rewrite d7_eflag, d6_eflag, d5_eflag, d4_eflag, d3_eflag, d2_eflag, d1_eflag. reflexivity. Qed.

(* the fields setDefaults never touches *)
Definition stable (f : field) : bool :=
  match f with FIdtSig | FPkjwt | FSecretjwt | FJarContent | FJarmContent | FIdtContent | FUiContent => false | _ => true end.
Lemma sd_stable f l : stable f = true -> field_get f (set_defaults_lists l) = field_get f l.
Proof.
  intros H. rewrite sd_steps. cbv zeta.
  rewrite d7_field, d6_field, d5_field, d4_field, d3_field, d2_field, d1_field; try reflexivity;
    intros ->; discriminate.
Qed.

Lemma non_zero_or_nonempty l d : d <> [] -> non_zero_or l d <> [].
Proof. destruct l; cbn; auto. discriminate. Qed.
Lemma non_zero_or_keeps l d : l <> [] -> non_zero_or l d = l.
Proof. destruct l; cbn; congruence. Qed.

Lemma sd_idt_sig l : l_idt_sig_algs (set_defaults_lists l) = non_zero_or (l_idt_sig_algs l) ["RS256"].
Proof.
  rewrite <- (field_proj FIdtSig (set_defaults_lists l)).
  rewrite sd_steps. cbv zeta.
  rewrite d7_field, d6_field, d5_field, d4_field, d3_field, d2_field by discriminate. reflexivity.
Qed.

Lemma sd_methods l : all_authn_methods (set_defaults_lists l) = all_authn_methods l.
Proof.
  unfold all_authn_methods.
  rewrite <- (field_proj FTokenMethods (set_defaults_lists l)), <- (field_proj FIntroMethods (set_defaults_lists l)),
    <- (field_proj FRevocMethods (set_defaults_lists l)).
  rewrite !sd_stable by reflexivity. reflexivity.
Qed.

Lemma d1_methods l : all_authn_methods (d1 l) = all_authn_methods l. Proof. reflexivity. Qed.

Lemma sd_pkjwt l : l_pkjwt_algs (set_defaults_lists l) =
  if mem "private_key_jwt" (all_authn_methods l) then non_zero_or (l_pkjwt_algs l) ["RS256"] else l_pkjwt_algs l.
Proof.
  rewrite <- (field_proj FPkjwt (set_defaults_lists l)).
  rewrite sd_steps. cbv zeta.
  rewrite d7_field, d6_field, d5_field, d4_field, d3_field by discriminate. rewrite d1_methods.
  unfold d2. destruct (mem "private_key_jwt" (all_authn_methods l)); reflexivity.
Qed.
Lemma sd_secretjwt l : l_secretjwt_algs (set_defaults_lists l) =
  if mem "client_secret_jwt" (all_authn_methods l) then non_zero_or (l_secretjwt_algs l) ["HS256"] else l_secretjwt_algs l.
Proof.
  rewrite <- (field_proj FSecretjwt (set_defaults_lists l)).
  rewrite sd_steps. cbv zeta.
  rewrite d7_field, d6_field, d5_field, d4_field by discriminate. rewrite d1_methods.
  unfold d3. destruct (mem "client_secret_jwt" (all_authn_methods l)).
  - cbn. unfold d2. destruct (mem "private_key_jwt" (all_authn_methods l)); reflexivity.
  - unfold d2. destruct (mem "private_key_jwt" (all_authn_methods l)); reflexivity.
Qed.

(* the content-encryption lists behind their Enc flags *)
Lemma sd_content e l : field_get (content_field e) (set_defaults_lists l) =
  if eflag_get e l then non_zero_or (field_get (content_field e) l) ["A128CBC-HS256"] else field_get (content_field e) l.
Proof.
  rewrite sd_steps. cbv zeta. destruct e; cbn [content_field eflag_get].
  - (* id token: d6 *)
    rewrite d7_field by discriminate.
    set (x := d5 _). assert (Hx : l_idt_enc x = l_idt_enc l /\ l_idt_content_algs x = l_idt_content_algs l).
    { subst x. split.
      - change (eflag_get EIdt (d5 (d4 (d3 (all_authn_methods (d1 l)) (d2 (all_authn_methods (d1 l)) (d1 l))))) = eflag_get EIdt l).
        rewrite d5_eflag, d4_eflag, d3_eflag, d2_eflag, d1_eflag. reflexivity.
      - change (field_get FIdtContent (d5 (d4 (d3 (all_authn_methods (d1 l)) (d2 (all_authn_methods (d1 l)) (d1 l))))) = field_get FIdtContent l).
        rewrite d5_field, d4_field, d3_field, d2_field, d1_field by discriminate. reflexivity. }
    destruct Hx as [H1 H2]. unfold d6. rewrite H1. destruct (l_idt_enc l); cbn; rewrite H2; reflexivity.
  - (* userinfo: d7 *)
    set (x := d6 _). assert (Hx : l_ui_enc x = l_ui_enc l /\ l_ui_content_algs x = l_ui_content_algs l).
    { subst x. split.
      - change (eflag_get EUi (d6 (d5 (d4 (d3 (all_authn_methods (d1 l)) (d2 (all_authn_methods (d1 l)) (d1 l)))))) = eflag_get EUi l).
        rewrite d6_eflag, d5_eflag, d4_eflag, d3_eflag, d2_eflag, d1_eflag. reflexivity.
      - change (field_get FUiContent (d6 (d5 (d4 (d3 (all_authn_methods (d1 l)) (d2 (all_authn_methods (d1 l)) (d1 l)))))) = field_get FUiContent l).
        rewrite d6_field, d5_field, d4_field, d3_field, d2_field, d1_field by discriminate. reflexivity. }
    destruct Hx as [H1 H2]. unfold d7. rewrite H1. destruct (l_ui_enc l); cbn; rewrite H2; reflexivity.
  - (* JAR: d4 *)
    rewrite d7_field, d6_field, d5_field by discriminate.
    set (x := d3 _ _). assert (Hx : l_jar_enc x = l_jar_enc l /\ l_jar_content_algs x = l_jar_content_algs l).
    { subst x. split.
      - change (eflag_get EJar (d3 (all_authn_methods (d1 l)) (d2 (all_authn_methods (d1 l)) (d1 l))) = eflag_get EJar l).
        rewrite d3_eflag, d2_eflag, d1_eflag. reflexivity.
      - change (field_get FJarContent (d3 (all_authn_methods (d1 l)) (d2 (all_authn_methods (d1 l)) (d1 l))) = field_get FJarContent l).
        rewrite d3_field, d2_field, d1_field by discriminate. reflexivity. }
    destruct Hx as [H1 H2]. unfold d4. rewrite H1. destruct (l_jar_enc l); cbn; rewrite H2; reflexivity.
  - (* JARM: d5 *)
    rewrite d7_field, d6_field by discriminate.
    set (x := d4 _). assert (Hx : l_jarm_enc x = l_jarm_enc l /\ l_jarm_content_algs x = l_jarm_content_algs l).
    { subst x. split.
      - change (eflag_get EJarm (d4 (d3 (all_authn_methods (d1 l)) (d2 (all_authn_methods (d1 l)) (d1 l)))) = eflag_get EJarm l).
        rewrite d4_eflag, d3_eflag, d2_eflag, d1_eflag. reflexivity.
      - change (field_get FJarmContent (d4 (d3 (all_authn_methods (d1 l)) (d2 (all_authn_methods (d1 l)) (d1 l)))) = field_get FJarmContent l).
        rewrite d4_field, d3_field, d2_field, d1_field by discriminate. reflexivity. }
    destruct Hx as [H1 H2]. unfold d5. rewrite H1. destruct (l_jarm_enc l); cbn; rewrite H2; reflexivity.
Qed.

(* ================================================================================================ *)
(* 4. for all option lists                                                                          *)
(* ================================================================================================ *)
Definition sets_jar (o : opt) := match o with WithJAR | WithJARRequired => true | _ => false end.
Definition sets_ciba_jar (o : opt) := match o with WithCIBAJAR | WithCIBAJARRequired => true | _ => false end.
Lemma jar_enabled_eq p opts cfg : build p opts = Some cfg -> cf_jar_enabled cfg = existsb sets_jar opts.
Proof. revert p opts cfg. feq dflt_jar_enabled. Qed.
Lemma ciba_jar_enabled_eq p opts cfg : build p opts = Some cfg -> cf_ciba_jar_enabled cfg = existsb sets_ciba_jar opts.
Proof. revert p opts cfg. feq dflt_ciba_jar_enabled. Qed.

Lemma existsb_flat_map {A B} (g : B -> bool) (h : A -> list B) l :
  existsb g (flat_map h l) = existsb (fun x => existsb g (h x)) l.
Proof. induction l; simpl; [reflexivity|]. rewrite existsb_app, IHl. reflexivity. Qed.

(* the flag side of an opt2 *)
Definition enables (s : opt -> bool) (o : opt2) : bool := existsb s (base_of o).

(* the options that set a base flag write the list that goes with it *)
Lemma enables_writes s f :
  (forall o, enables s o = writes f o) ->
  forall opts, existsb s (flat_map base_of opts) = existsb (writes f) opts.
Proof. intros H opts. rewrite existsb_flat_map. apply existsb_ext. exact H. Qed.

Ltac ew_tac := intros o; unfold enables, writes, setter; destruct o; try reflexivity;
  match goal with o' : opt |- _ => destruct o' end; reflexivity.
Lemma ew_intro o : enables sets_introspection o = writes FIntroMethods o. Proof. revert o. ew_tac. Qed.
Lemma ew_revoc o : enables sets_revocation o = writes FRevocMethods o. Proof. revert o. ew_tac. Qed.
Lemma ew_jar o : enables sets_jar o = writes FJarSig o. Proof. revert o. ew_tac. Qed.
Lemma ew_jarm o : enables sets_jarm o = writes FJarmSig o. Proof. revert o. ew_tac. Qed.
Lemma ew_dpop o : enables sets_dpop o = writes FDpopSig o. Proof. revert o. ew_tac. Qed.
Lemma ew_ciba_jar o : enables sets_ciba_jar o = writes FCibaJarSig o. Proof. revert o. ew_tac. Qed.

Section Built.
  Variables (p : profile) (opts : list opt2) (c2 : config2).
  Hypothesis Hb : build2 p opts = Some c2.

  Let Hbase : build p (flat_map base_of opts) = Some (c2_base c2) := proj1 (proj2 (build2_inv _ _ _ Hb)).
  Let Hlists : c2_lists c2 = set_defaults_lists (folded_lists opts) := proj2 (proj2 (build2_inv _ _ _ Hb)).

  (* ---- flags ---- *)
  Lemma enc_flag_eq e : eflag_get e (c2_lists c2) = existsb (sets_enc e) opts.
  Proof. rewrite Hlists, sd_eflag. apply folded_eflag. Qed.

  Lemma introspection2_eq : cf_introspection (c2_base c2) = existsb (enables sets_introspection) opts.
  Proof. rewrite (introspection_eq _ _ _ Hbase). apply existsb_flat_map. Qed.
  Lemma revocation2_eq : cf_revocation (c2_base c2) = existsb (enables sets_revocation) opts.
  Proof. rewrite (revocation_eq _ _ _ Hbase). apply existsb_flat_map. Qed.
  Lemma jar2_eq : cf_jar_enabled (c2_base c2) = existsb (enables sets_jar) opts.
  Proof. rewrite (jar_enabled_eq _ _ _ Hbase). apply existsb_flat_map. Qed.
  Lemma jarm2_eq : cf_jarm_enabled (c2_base c2) = existsb (enables sets_jarm) opts.
  Proof. rewrite (jarm_enabled_eq _ _ _ Hbase). apply existsb_flat_map. Qed.
  Lemma dpop2_eq : cf_dpop_enabled (c2_base c2) = existsb (enables sets_dpop) opts.
  Proof. rewrite (dpop_enabled_eq _ _ _ Hbase). apply existsb_flat_map. Qed.
  Lemma ciba2_eq : cf_ciba_enabled (c2_base c2) = existsb (enables sets_ciba) opts.
  Proof. rewrite (ciba_enabled_eq _ _ _ Hbase). apply existsb_flat_map. Qed.
  Lemma ciba_jar2_eq : cf_ciba_jar_enabled (c2_base c2) = existsb (enables sets_ciba_jar) opts.
  Proof. rewrite (ciba_jar_enabled_eq _ _ _ Hbase). apply existsb_flat_map. Qed.

  (* ---- values: the last option that writes the field, or the default of setDefaults ---- *)
  Lemma stable_field_value f : stable f = true ->
    field_get f (c2_lists c2) = match last_some (setter f) opts with Some v => v | None => [] end.
  Proof. intros H. rewrite Hlists, sd_stable by exact H. apply folded_field. Qed.

  Lemma stable_field_nonempty f : stable f = true ->
    negb (is_nil (field_get f (c2_lists c2))) = existsb (writes f) opts.
  Proof. intros H. rewrite Hlists, sd_stable by exact H. apply folded_nonempty. Qed.

  Lemma idt_sig_value : l_idt_sig_algs (c2_lists c2) =
    match last_some (setter FIdtSig) opts with Some v => v | None => ["RS256"] end.
  Proof.
    rewrite Hlists, sd_idt_sig. rewrite <- (field_proj FIdtSig (folded_lists opts)).
    rewrite folded_field. destruct (last_some (setter FIdtSig) opts) as [v|] eqn:E; [|reflexivity].
    apply non_zero_or_keeps. eapply last_some_setter_nonempty; eauto.
  Qed.

  Lemma content_value e : field_get (content_field e) (c2_lists c2) =
    match last_some (setter (content_field e)) opts with
    | Some v => v
    | None => if existsb (sets_enc e) opts then ["A128CBC-HS256"] else [] end.
  Proof.
    rewrite Hlists, sd_content, folded_eflag, folded_field.
    destruct (last_some (setter (content_field e)) opts) as [v|] eqn:E.
    - destruct (existsb (sets_enc e) opts); [|reflexivity]. apply non_zero_or_keeps.
      assert (Hn : negb (is_nil (field_get (content_field e) (folded_lists opts))) = true).
      { rewrite folded_nonempty, last_some_existsb, E. reflexivity. }
      rewrite folded_field, E in Hn. destruct v; [discriminate|discriminate].
    - destruct (existsb (sets_enc e) opts); reflexivity.
  Qed.

  (* ---- an enabled list is never empty: presence in the document = the guard of oidcConfig ---- *)
  (* the members whose list is written by the enabling option itself or completed by setDefaults;
     the others are token_endpoint_auth_methods_supported and userinfo_signing_alg_values_supported
     (present iff WithTokenAuthnMethods / WithUserInfoSignatureAlgs was given, see `unguarded_present`),
     and the three <endpoint>_auth_signing_alg_values_supported (see `jwt_method_has_algs`) *)
  Definition guarded (m : lmember) : bool :=
    match m with
    | LTokenMethods | LUiSig | LTokenSigAlgs | LIntroSigAlgs | LRevocSigAlgs => false
    | _ => true
    end.

  Lemma key_nonempty e : eflag_get e (c2_lists c2) = true -> field_get (key_field e) (c2_lists c2) <> [].
  Proof.
    intros H. rewrite enc_flag_eq in H.
    assert (Hs : stable (key_field e) = true) by (destruct e; reflexivity).
    pose proof (stable_field_nonempty _ Hs) as Hn.
    rewrite (existsb_ext _ _ opts (sets_enc_writes_key e)), H in Hn.
    destruct (field_get (key_field e) (c2_lists c2)); [discriminate|discriminate].
  Qed.

  Lemma content_nonempty e : eflag_get e (c2_lists c2) = true -> field_get (content_field e) (c2_lists c2) <> [].
  Proof.
    intros H. rewrite enc_flag_eq in H. rewrite content_value, H.
    destruct (last_some (setter (content_field e)) opts) as [v|] eqn:E; [|discriminate].
    assert (Hn : negb (is_nil (field_get (content_field e) (folded_lists opts))) = true).
    { rewrite folded_nonempty, last_some_existsb, E. reflexivity. }
    rewrite folded_field, E in Hn. destruct v; [discriminate|discriminate].
  Qed.

  Lemma base_flag_nonempty (s : opt -> bool) f (flag : bool) :
    stable f = true -> flag = existsb (enables s) opts -> (forall o, enables s o = writes f o) ->
    flag = true -> field_get f (c2_lists c2) <> [].
  Proof.
    intros Hs Hf Hw Ht. pose proof (stable_field_nonempty _ Hs) as Hn.
    rewrite <- (existsb_ext _ _ opts Hw), <- Hf, Ht in Hn.
    destruct (field_get f (c2_lists c2)); [discriminate|discriminate].
  Qed.

  Lemma guarded_nonempty m : guarded m = true -> l_flag c2 m = true -> l_value c2 m <> [].
  Proof.
    intros Hg Hf. destruct m; try discriminate Hg; cbn [l_flag l_value] in *.
    - (* introspection methods *) exact (base_flag_nonempty _ FIntroMethods _ eq_refl introspection2_eq ew_intro Hf).
    - exact (base_flag_nonempty _ FRevocMethods _ eq_refl revocation2_eq ew_revoc Hf).
    - (* id token signing algorithms *) rewrite idt_sig_value.
      destruct (last_some (setter FIdtSig) opts) as [v|] eqn:E; [|discriminate].
      assert (Hn : negb (is_nil (field_get FIdtSig (folded_lists opts))) = true).
      { rewrite folded_nonempty, last_some_existsb, E. reflexivity. }
      rewrite folded_field, E in Hn. destruct v; [discriminate|discriminate].
    - exact (key_nonempty EIdt Hf).
    - exact (content_nonempty EIdt Hf).
    - exact (key_nonempty EUi Hf).
    - exact (content_nonempty EUi Hf).
    - exact (base_flag_nonempty _ FJarSig _ eq_refl jar2_eq ew_jar Hf).
    - apply andb_prop in Hf as [_ Hf]. exact (key_nonempty EJar Hf).
    - apply andb_prop in Hf as [_ Hf]. exact (content_nonempty EJar Hf).
    - exact (base_flag_nonempty _ FJarmSig _ eq_refl jarm2_eq ew_jarm Hf).
    - apply andb_prop in Hf as [_ Hf]. exact (key_nonempty EJarm Hf).
    - apply andb_prop in Hf as [_ Hf]. exact (content_nonempty EJarm Hf).
    - exact (base_flag_nonempty _ FDpopSig _ eq_refl dpop2_eq ew_dpop Hf).
    - apply andb_prop in Hf as [_ Hf]. exact (base_flag_nonempty _ FCibaJarSig _ eq_refl ciba_jar2_eq ew_ciba_jar Hf).
  Qed.

  Lemma guarded_present_iff_flag m : guarded m = true -> l_advertised c2 m = l_flag c2 m.
  Proof.
    intros Hg. rewrite l_advertised_eq. destruct (l_flag c2 m) eqn:Hf.
    - pose proof (guarded_nonempty m Hg Hf) as Hn. destruct (l_value c2 m); [congruence|]. cbn. apply orb_true_r.
    - destruct m; try discriminate Hg; try reflexivity. cbn in Hf. discriminate.
  Qed.

  Lemma unguarded_present :
    l_advertised c2 LTokenMethods = existsb (writes FTokenMethods) opts /\
    l_advertised c2 LUiSig = existsb (writes FUiSig) opts.
  Proof.
    split; rewrite l_advertised_eq; cbn [l_always l_flag l_value orb andb].
    - exact (stable_field_nonempty FTokenMethods eq_refl).
    - exact (stable_field_nonempty FUiSig eq_refl).
  Qed.

  (* ---- client authentication: an advertised JWT-based method has algorithms ---- *)
  Lemma methods_in_all e m : l_advertised_in c2 (aep_methods e) m = true ->
    mem m (all_authn_methods (folded_lists opts)) = true.
  Proof.
    rewrite l_advertised_in_eq. intros H. apply andb_prop in H as [_ H].
    rewrite <- sd_methods, <- Hlists. apply mem_In. apply mem_In in H. unfold all_authn_methods.
    destruct e; cbn [aep_methods l_value] in H; rewrite !in_app_iff; auto.
  Qed.

  Lemma jwt_method_algs_nonempty e m : is_jwt_method m = true ->
    l_advertised_in c2 (aep_methods e) m = true -> jwt_method_algs c2 m <> [].
  Proof.
    intros Hj Ha. pose proof (methods_in_all e m Ha) as Hm. unfold jwt_method_algs, is_jwt_method in *.
    destruct (seqb m "private_key_jwt") eqn:E1.
    - apply seqb_eq in E1. subst m. rewrite Hlists, sd_pkjwt, Hm. apply non_zero_or_nonempty. discriminate.
    - destruct (seqb m "client_secret_jwt") eqn:E2; [|discriminate].
      apply seqb_eq in E2. subst m. rewrite Hlists, sd_secretjwt, Hm. apply non_zero_or_nonempty. discriminate.
  Qed.
End Built.

(* the algorithms advertised for an endpoint are those of its advertised JWT-based methods (every config2) *)
Lemma mem_app_b x a b : mem x (a ++ b) = orb (mem x a) (mem x b).
Proof. induction a as [|y r IH]; simpl; [reflexivity|]. destruct (seqb x y); auto. Qed.

Lemma flag_methods_sig c2 e : l_flag c2 (aep_sig_algs e) = l_flag c2 (aep_methods e).
Proof. destruct e; reflexivity. Qed.
Lemma flag_is_enabled c2 e : l_flag c2 (aep_methods e) = aep_enabled c2 e.
Proof. destruct e; reflexivity. Qed.
Lemma sig_value c2 e : l_value c2 (aep_sig_algs e) = client_authn_sig_algs (c2_lists c2) (l_value c2 (aep_methods e)).
Proof. destruct e; reflexivity. Qed.

Lemma advertised_alg_accepted c2 e a : l_advertised_in c2 (aep_sig_algs e) a = true ->
  exists m, is_jwt_method m = true /\ l_advertised_in c2 (aep_methods e) m = true /\
            assertion_accepted c2 e m "" a = true.
Proof.
  rewrite l_advertised_in_eq, flag_methods_sig, sig_value. intros H. apply andb_prop in H as [Hf H].
  unfold client_authn_sig_algs in H. rewrite mem_app_b in H. apply orb_prop in H as [H|H].
  - exists "private_key_jwt". destruct (mem "private_key_jwt" (l_value c2 (aep_methods e))) eqn:Hm; [|discriminate].
    split; [reflexivity|]. split; [rewrite l_advertised_in_eq, Hf, Hm; reflexivity|].
    unfold assertion_accepted, all_authn_sig_algs, authn_sig_algs, jwt_method_algs. cbn.
    rewrite <- flag_is_enabled, Hf, mem_app_b, H. reflexivity.
  - exists "client_secret_jwt". destruct (mem "client_secret_jwt" (l_value c2 (aep_methods e))) eqn:Hm; [|discriminate].
    split; [reflexivity|]. split; [rewrite l_advertised_in_eq, Hf, Hm; reflexivity|].
    unfold assertion_accepted, all_authn_sig_algs, authn_sig_algs, jwt_method_algs. cbn.
    rewrite <- flag_is_enabled, Hf, mem_app_b, H, orb_true_r. reflexivity.
Qed.

Lemma accepted_alg_advertised c2 e m a : l_advertised_in c2 (aep_methods e) m = true ->
  assertion_accepted c2 e m "" a = true -> l_advertised_in c2 (aep_sig_algs e) a = true.
Proof.
  rewrite !l_advertised_in_eq, flag_methods_sig, sig_value. intros H Ha. apply andb_prop in H as [Hf Hm]. rewrite Hf. cbn.
  unfold assertion_accepted in Ha. apply andb_prop in Ha as [_ Ha]. apply andb_prop in Ha as [Hj Ha].
  apply andb_prop in Ha as [_ Ha]. unfold authn_sig_algs, jwt_method_algs in Ha. cbn in Ha.
  unfold client_authn_sig_algs. rewrite mem_app_b. unfold is_jwt_method in Hj.
  destruct (seqb m "private_key_jwt") eqn:E1.
  - apply seqb_eq in E1. subst m. rewrite Hm, Ha. reflexivity.
  - destruct (seqb m "client_secret_jwt") eqn:E2; [|discriminate].
    apply seqb_eq in E2. subst m. rewrite Hm, Ha. apply orb_true_r.
Qed.

(* statement (A): an advertised JWT-based method at an endpoint has a non-empty allowed-algorithm list,
   an algorithm is advertised for that endpoint, and an assertion signed with it authenticates *)
Lemma jwt_method_has_algs p opts c2 e m : build2 p opts = Some c2 -> is_jwt_method m = true ->
  l_advertised_in c2 (aep_methods e) m = true ->
  authn_sig_algs c2 "" m <> [] /\
  exists a, l_advertised_in c2 (aep_sig_algs e) a = true /\ assertion_accepted c2 e m "" a = true.
Proof.
  intros Hb Hj Ha. pose proof (jwt_method_algs_nonempty p opts c2 Hb e m Hj Ha) as Hn.
  split; [exact Hn|]. unfold authn_sig_algs in *. cbn in *.
  destruct (jwt_method_algs c2 m) as [|a r] eqn:E; [congruence|]. exists a.
  assert (Hacc : assertion_accepted c2 e m "" a = true).
  { unfold assertion_accepted, authn_sig_algs. cbn. rewrite E, Hj.
    pose proof Ha as Ha'. rewrite l_advertised_in_eq in Ha'. apply andb_prop in Ha' as [Hf _].
    rewrite <- flag_is_enabled, Hf. cbn. rewrite seqb_refl.
    unfold all_authn_sig_algs, jwt_method_algs, is_jwt_method in *. rewrite mem_app_b.
    destruct (seqb m "private_key_jwt").
    - rewrite E. cbn. rewrite seqb_refl. reflexivity.
    - destruct (seqb m "client_secret_jwt"); [|discriminate]. rewrite E. cbn. rewrite seqb_refl. rewrite orb_true_r. reflexivity. }
  split; [|exact Hacc]. eapply accepted_alg_advertised; eauto.
Qed.

(* ---- encryption ---- *)
Lemma key_flag_enc c2 a : l_flag c2 (art_key_member a) = true -> art_enc_enabled c2 a = true.
Proof. destruct a; cbn; auto. intros H. apply andb_prop in H as [_ H]. exact H. Qed.

(* a client that asks for an advertised key algorithm and an advertised (or no) content algorithm gets
   its artifact encrypted with them (every config2) *)
Lemma advertised_encryption_applied c2 a k c : is_empty k = false ->
  l_advertised_in c2 (art_key_member a) k = true ->
  artifact_encryption c2 a k c = Some (k, if is_empty c then art_default_cenc c2 a else c).
Proof.
  intros Hk H. rewrite l_advertised_in_eq in H. apply andb_prop in H as [Hf _].
  unfold artifact_encryption. rewrite (key_flag_enc _ _ Hf), Hk. reflexivity.
Qed.

(* nothing advertised for the key algorithms of the ID token / userinfo -> never encrypted;
   for the JWT-secured authorization response -> not encrypted or not issued *)
Lemma unadvertised_not_encrypted p opts c2 a : build2 p opts = Some c2 ->
  l_advertised c2 (art_key_member a) = false ->
  forall sig k c, match artifact_expected c2 a sig k c with Some (Some _, _) => False | _ => True end.
Proof.
  intros Hb H sig k c. rewrite (guarded_present_iff_flag p opts c2 Hb) in H by (destruct a; reflexivity).
  unfold artifact_expected, artifact_encryption. destruct a; cbn in H |- *.
  - rewrite H. cbn. exact I.
  - rewrite H. destruct (is_empty sig); exact I.
  - destruct (cf_jarm_enabled (c2_base c2)); [|exact I]. cbn in H. rewrite H. cbn. exact I.
Qed.

(* ---- refused arguments ---- *)
Lemma refused_option p opts o : In o opts -> opt2_ok o = false -> build2 p opts = None.
Proof.
  intros Hin Ho. unfold build2. destruct (forallb opt2_ok opts) eqn:E; [|reflexivity].
  rewrite forallb_forall in E. rewrite (E _ Hin) in Ho. discriminate.
Qed.
Lemma secret_jwt_algs_always_refused p opts a l : In (WithSecretJWTSignatureAlgs a l) opts -> is_empty a = false ->
  build2 p opts = None.
Proof. intros Hin Ha. apply (refused_option p opts _ Hin). cbn. rewrite Ha. apply andb_false_r. Qed.

(* ---- the hypotheses are satisfiable: the two configurations behind the seeded regressions ---- *)
Definition ex_revocation_only : list opt2 :=
  [WithIDTokenSignatureAlgs "ES256" []; WithTokenAuthnMethods "client_secret_post" ["none"];
   O WithClientCredentialsGrant; WithTokenRevocationM "private_key_jwt" []].
Example ex_revocation_only_builds :
  match build2 POpenID ex_revocation_only with
  | Some c2 => l_advertised_in c2 (aep_methods ARevoke) "private_key_jwt" = true /\
               lmember_value c2 LRevocSigAlgs = Some (DSet ["RS256"]) /\
               lmember_value c2 LTokenSigAlgs = None /\
               assertion_accepted c2 ARevoke "private_key_jwt" "" "RS256" = true /\
               assertion_accepted c2 ARevoke "private_key_jwt" "" "ES256" = false
  | None => False end.
Proof. vm_compute. repeat split. Qed.

Definition ex_content_algs_without_encryption : list opt2 :=
  [WithIDTokenSignatureAlgs "ES256" []; WithTokenAuthnMethods "client_secret_post" ["none"];
   WithIDTokenContentEncryptionAlgs "A128GCM" ["A256GCM"]; WithUserInfoEncryption "RSA-OAEP" []].
Example ex_content_algs_without_encryption_builds :
  match build2 POpenID ex_content_algs_without_encryption with
  | Some c2 => lmember_value c2 LIdtContentEnc = None /\ lmember_value c2 LIdtKeyEnc = None /\
               artifact_encryption c2 AIdToken "RSA-OAEP-256" "A128GCM" = None /\
               lmember_value c2 LUiKeyEnc = Some (DSet ["RSA-OAEP"]) /\
               lmember_value c2 LUiContentEnc = Some (DSet ["A128CBC-HS256"]) /\
               artifact_encryption c2 AUserInfo "RSA-OAEP" "" = Some ("RSA-OAEP", "A128CBC-HS256")
  | None => False end.
Proof. vm_compute. repeat split. Qed.
