(* C18ReadOnlyProofs.v — the read-only handlers perform lookups only, hence leave the storage as it
   was under the copying interpreter (run_seq) and under the aliasing interpreter (run_alias). *)
From Verif Require Import Base Scope Types Prog Pop Token Authorize System Config Run Tactics Alias ReadOnly.
Local Open Scope N_scope.

(* ---- generic ---- *)
Lemma exec_read c st : is_read c = true -> fst (exec c st) = st.
Proof. destruct c; cbn; intros H; try discriminate H; reflexivity. Qed.

Lemma reads_only_seq {A} (p : prog A) : forall st, reads_only p -> fst (run_seq p st) = st.
Proof.
  induction p as [a|c k IH|o p IH]; intros st H; cbn in *.
  - reflexivity.
  - destruct H as [Hc Hk]. pose proof (exec_read c st Hc) as E.
    destruct (exec c st) as [st' r]. cbn in E. subst st'. apply IH, Hk.
  - destruct H.
Qed.

Lemma reads_only_alias {A} (p : prog A) : forall st, reads_only p -> fst (run_alias p st) = st.
Proof.
  induction p as [a|c k IH|o p IH]; intros st H; cbn in *.
  - reflexivity.
  - destruct H as [Hc Hk]. pose proof (exec_read c st Hc) as E.
    destruct (exec c st) as [st' r]. cbn in E. subst st'. apply IH, Hk.
  - destruct H.
Qed.

Lemma reads_only_no_touch {A} (p : prog A) : reads_only p -> no_touch p.
Proof. induction p as [a|c k IH|o p IH]; cbn; intros H; [exact I| |exact H]. intros r. apply IH, H. Qed.

Lemma reads_only_bind {A B} (p : prog A) (f : A -> prog B) :
  reads_only p -> (forall a, reads_only (f a)) -> reads_only (bind p f).
Proof.
  induction p as [a|c k IH|o p IH]; cbn; intros H Hf.
  - apply Hf.
  - destruct H as [Hc Hk]. split; [exact Hc|]. intros r. apply IH; [apply Hk|exact Hf].
  - destruct H.
Qed.

(* ---- the handlers ---- *)
Local Opaque classify extract_id validate_jwt validate_pop contains_openid.

Ltac ro :=
  repeat (cbn;
          try match goal with
              | |- True => exact I
              | |- _ /\ _ => split; [reflexivity|]
              | |- forall _, _ => intro
              end;
          try break_goal).

Lemma get_client_ro w i : reads_only (get_client w i).
Proof. unfold get_client. ro. Qed.
Lemma authenticated_ro w cr : reads_only (authenticated w cr).
Proof.
  unfold authenticated. destruct (is_nil (cr_id cr)); [exact I|].
  apply reads_only_bind; [apply get_client_ro|]. intros [c|]; ro.
Qed.
Ltac auth_ro := apply reads_only_bind; [apply authenticated_ro|]; intros [?c|]; [|exact I].

Lemma introspection_info_ro now p : reads_only (introspection_info now p).
Proof. unfold introspection_info. ro. Qed.
Lemma introspect_ro w now r : reads_only (introspect w now r).
Proof.
  unfold introspect. break_goal; [exact I|]. auth_ro.
  break_goal; [exact I|]. break_goal; try exact I; (apply reads_only_bind; [apply introspection_info_ro|]; intros; exact I).
Qed.
Lemma userinfo_ro w now r : reads_only (userinfo w now r).
Proof.
  unfold userinfo. break_goal; [exact I|]. break_goal; [|exact I].
  cbn. split; [reflexivity|]. intros rp; destruct rp; try exact I.
  repeat (break_goal; try exact I).
  apply reads_only_bind; [apply get_client_ro|]. intros [c|]; exact I.
Qed.
Lemma token_info_ro now p : reads_only (token_info now p).
Proof. unfold token_info. apply reads_only_bind; [apply introspection_info_ro|]. intros; exact I. Qed.
Lemma token_info_req_ro now r : reads_only (token_info_from_request now r).
Proof.
  unfold token_info_from_request. break_goal; [exact I|].
  apply reads_only_bind; [apply introspection_info_ro|]. intros i. ro.
Qed.

Theorem read_only_handler_reads_only w n now o : read_only_op o = true -> reads_only (handler w n now o).
Proof.
  destruct o; cbn [read_only_op]; intros H; try discriminate H; unfold handler;
    (apply reads_only_bind; [|intros; exact I]).
  - apply introspect_ro.
  - apply userinfo_ro.
  - apply token_info_ro.
  - apply token_info_req_ro.
Qed.

Theorem read_only_handler_keeps_store w n now o st : read_only_op o = true ->
  fst (run_seq (handler w n now o) st) = st /\ fst (run_alias (handler w n now o) st) = st.
Proof.
  intros H. pose proof (read_only_handler_reads_only w n now o H) as R.
  split; [apply reads_only_seq|apply reads_only_alias]; exact R.
Qed.

Lemma step_with_read_only interp w st n o :
  read_only_op o = true ->
  fst (interp (handler w n (s_now st) o) (s_store st)) = s_store st ->
  fst (step_with interp w st n o) = st.
Proof.
  intros H E. destruct st as [sto now]. cbn in *.
  destruct o; try discriminate H; cbn in E |- *;
    match goal with |- context [interp ?p ?s] => destruct (interp p s) as [sto' x] end;
    cbn in E; subst sto'; reflexivity.
Qed.

Theorem read_only_step_keeps_state w st n o : read_only_op o = true ->
  fst (step w st n o) = st /\ fst (step_alias w st n o) = st.
Proof.
  intros H. destruct (read_only_handler_keeps_store w n (s_now st) o (s_store st) H) as [S A].
  split; [unfold step|unfold step_alias]; apply step_with_read_only; assumption.
Qed.
