(* C04 — what the model's handlers write into grant sessions: the scopes of the
   current token are within what was granted, in every reachable state. *)
From Verif Require Import Base Scope Types Prog Pop Token Authorize System Config ScopeProofs Hoare Tactics.
Local Open Scope N_scope.

Definition within (g : gsession) : Prop := contains_all_scopes (g_granted g) (g_active g) = true.
Definition anyA (s : asession) : Prop := True.

Lemma get_client_nosave w i : saves_ok within anyA (get_client w i).
Proof. unfold get_client. destruct (find_client i (w_static w)); simpl; auto. split; auto. intros r; destruct r; simpl; auto. Qed.
Lemma authenticated_nosave w cr : saves_ok within anyA (authenticated w cr).
Proof.
  unfold authenticated. destruct (is_nil (cr_id cr)); simpl; auto.
  apply saves_ok_bind; [apply get_client_nosave|]. intros [c|]; simpl; auto.
  destruct (c_public c || cr_ok cr)%bool; simpl; auto.
Qed.

Lemma with_refresh_active n now cfg c g : g_active (with_refresh n now cfg c g) = g_active g.
Proof. unfold with_refresh. destruct (should_issue_refresh cfg c (g_type g) (g_active g)); reflexivity. Qed.
Lemma with_refresh_granted n now cfg c g : g_granted (with_refresh n now cfg c g) = g_granted g.
Proof. unfold with_refresh. destruct (should_issue_refresh cfg c (g_type g) (g_active g)); reflexivity. Qed.

Lemma within_choice granted req :
  negb (contains_all_scopes granted req) = false ->
  contains_all_scopes granted (if is_empty req then granted else req) = true.
Proof.
  intros H. apply negb_false_iff in H. destruct (is_empty req); auto. apply contains_all_scopes_refl.
Qed.

Local Opaque contains_all_scopes are_scopes_allowed validate_binding validate_pkce refresh_binding
       validate_params validate_optionals validate_in_out merge_params mint make_token.

Ltac crunch :=
  repeat (cbn in *;
          try match goal with
              | |- _ /\ _ => split
              | |- forall _, _ => intro
              | |- True => exact I
              end;
          try break_goal).

Ltac close_within :=
  unfold within; rewrite ?with_refresh_active, ?with_refresh_granted; cbn;
  first [ apply contains_all_scopes_refl
        | match goal with H : negb (contains_all_scopes _ _) = false |- _ => apply negb_false_iff in H; exact H end
        | match goal with H : negb (contains_all_scopes _ _) = false |- _ => apply within_choice in H; cbn in H; rewrite ?H; auto end ].

Lemma code_grant_saves w n now r : saves_ok within anyA (code_grant w n now r).
Proof.
  unfold code_grant.
  destruct (negb (has_grant GAuthorizationCode (cf_grants (w_cfg w)))); [exact I|].
  destruct (is_nil (t_code r)); [exact I|].
  apply saves_ok_bind; [apply authenticated_nosave|]. intros [c|]; [|exact I].
  crunch; try exact I; close_within.
Qed.

Lemma refresh_grant_saves w n now r : saves_ok within anyA (refresh_grant w n now r).
Proof.
  unfold refresh_grant.
  destruct (negb (has_grant GRefreshToken (cf_grants (w_cfg w)))); [exact I|].
  destruct (is_nil (t_refresh r)); [exact I|].
  apply saves_ok_bind; [apply authenticated_nosave|]. intros [c|]; [|exact I].
  crunch; try exact I; close_within.
Qed.

Lemma cc_grant_saves w n now r : saves_ok within anyA (cc_grant w n now r).
Proof.
  unfold cc_grant.
  destruct (negb (has_grant GClientCredentials (cf_grants (w_cfg w)))); [exact I|].
  apply saves_ok_bind; [apply authenticated_nosave|]. intros [c|]; [|exact I].
  crunch; try exact I; close_within.
Qed.

Lemma jwt_bearer_client_nosave w cr : saves_ok within anyA (jwt_bearer_client w cr).
Proof.
  unfold jwt_bearer_client. apply saves_ok_bind; [apply authenticated_nosave|]. intros [c|]; [exact I|].
  destruct (_ && _)%bool; exact I.
Qed.

(* jwt-bearer: granted = active = requested *)
Lemma jwt_bearer_grant_saves w n now r : saves_ok within anyA (jwt_bearer_grant w n now r).
Proof.
  unfold jwt_bearer_grant.
  destruct (negb (has_grant GJwtBearer (cf_grants (w_cfg w)))); [exact I|].
  apply saves_ok_bind; [apply jwt_bearer_client_nosave|]. intros [c|]; [|exact I].
  crunch; try exact I; close_within.
Qed.

Lemma ciba_grant_saves w n now r : saves_ok within anyA (ciba_grant w n now r).
Proof.
  unfold ciba_grant.
  destruct (negb (has_grant GCiba (cf_grants (w_cfg w)))); [exact I|].
  apply saves_ok_bind; [apply authenticated_nosave|]. intros [c|]; [|exact I].
  crunch; try exact I; close_within.
Qed.

Lemma authenticate_saves w n now s pol : saves_ok within anyA (authenticate w n now s pol).
Proof.
  unfold authenticate. destruct pol; cbn.
  - apply saves_ok_bind; [apply get_client_nosave|]. intros [c|]; [|exact I].
    unfold save_a. crunch; try exact I; try (unfold within; cbn; apply contains_all_scopes_refl).
  - unfold save_a. crunch; exact I.
  - crunch; exact I.
  - crunch; exact I.
Qed.

Lemma start_session_saves w n now c s r : saves_ok within anyA (start_session w n now c s r).
Proof.
  unfold start_session. repeat (break_goal; [exact I|]). cbn. apply authenticate_saves.
Qed.

Lemma init_auth_saves w n now r : saves_ok within anyA (init_auth w n now r).
Proof.
  unfold init_auth. destruct (is_nil (ar_client r)); [exact I|].
  apply saves_ok_bind; [apply get_client_nosave|]. intros [c|]; [|exact I].
  break_goal; [exact I|]. break_goal.
  - break_goal; [exact I|]. cbn. split; [exact I|]. intros rp. destruct rp; try exact I.
    match goal with |- saves_ok _ _ (match ?v with _ => _ end) => destruct v end.
    + cbn. split; [exact I|]. intros rd; destruct rd; exact I.
    + apply saves_ok_bind; [apply start_session_saves|]. intros; exact I.
  - match goal with |- saves_ok _ _ (match ?v with _ => _ end) => destruct v end; [exact I|].
    apply saves_ok_bind; [apply start_session_saves|]. intros; exact I.
Qed.

Lemma continue_auth_saves w n now r : saves_ok within anyA (continue_auth w n now r).
Proof.
  unfold continue_auth. break_goal; [exact I|]. cbn. split; [exact I|]. intros rp; destruct rp; try exact I.
  break_goal; [exact I|]. apply saves_ok_bind; [apply authenticate_saves|].
  intros [o|e]; [exact I|]. apply saves_ok_bind; [apply get_client_nosave|]. intros [c|]; cbn; auto.
Qed.

Lemma push_auth_saves w n now r : saves_ok within anyA (push_auth w n now r).
Proof.
  unfold push_auth. break_goal; [exact I|].
  apply saves_ok_bind; [apply authenticated_nosave|]. intros [c|]; [|exact I].
  unfold save_a. crunch; exact I.
Qed.

Lemma init_back_auth_saves w n now r : saves_ok within anyA (init_back_auth w n now r).
Proof.
  unfold init_back_auth. break_goal; [exact I|].
  apply saves_ok_bind; [apply authenticated_nosave|]. intros [c|]; [|exact I].
  unfold save_a. crunch; exact I.
Qed.

Lemma notify_success_saves w n now a hg : saves_ok within anyA (notify_success w n now a hg).
Proof.
  unfold notify_success. cbn. split; [exact I|]. intros rp; destruct rp; try exact I.
  apply saves_ok_bind; [apply get_client_nosave|]. intros [c|]; [|exact I].
  crunch; try exact I; unfold within; rewrite ?with_refresh_active, ?with_refresh_granted; cbn; apply contains_all_scopes_refl.
Qed.

Lemma notify_failure_saves w a : saves_ok within anyA (notify_failure w a).
Proof.
  unfold notify_failure. cbn. split; [exact I|]. intros rp; destruct rp; try exact I.
  apply saves_ok_bind; [apply get_client_nosave|]. intros [c|]; [|exact I].
  crunch; exact I.
Qed.

Lemma introspection_info_saves now p : saves_ok within anyA (introspection_info now p).
Proof. unfold introspection_info. crunch; exact I. Qed.

Lemma introspect_saves w now r : saves_ok within anyA (introspect w now r).
Proof.
  unfold introspect. break_goal; [exact I|].
  apply saves_ok_bind; [apply authenticated_nosave|]. intros [c|]; [|exact I].
  break_goal; [exact I|]. break_goal; try exact I;
    (apply saves_ok_bind; [apply introspection_info_saves|]; intros; exact I).
Qed.

Lemma revoke_saves w now r : saves_ok within anyA (revoke w now r).
Proof.
  unfold revoke. break_goal; [exact I|].
  apply saves_ok_bind; [apply authenticated_nosave|]. intros [c|]; [|exact I].
  break_goal; [exact I|]. apply saves_ok_bind; [apply introspection_info_saves|].
  intros i. crunch; exact I.
Qed.

Lemma userinfo_saves w now r : saves_ok within anyA (userinfo w now r).
Proof.
  unfold userinfo. break_goal; [exact I|]. break_goal; [|exact I].
  cbn. split; [exact I|]. intros rp; destruct rp; try exact I.
  repeat (break_goal; try exact I).
  apply saves_ok_bind; [apply get_client_nosave|]. intros [c|]; exact I.
Qed.

Lemma token_info_saves now p : saves_ok within anyA (token_info now p).
Proof. unfold token_info. apply saves_ok_bind; [apply introspection_info_saves|]. intros; exact I. Qed.
Lemma token_info_req_saves now r : saves_ok within anyA (token_info_from_request now r).
Proof.
  unfold token_info_from_request. break_goal; [exact I|].
  apply saves_ok_bind; [apply introspection_info_saves|]. intros i. crunch; exact I.
Qed.

Lemma handler_saves w n now o : saves_ok within anyA (handler w n now o).
Proof.
  unfold handler. destruct o; try (apply saves_ok_bind; [|intros; exact I]).
  - apply init_auth_saves.
  - apply continue_auth_saves.
  - apply push_auth_saves.
  - destruct g; try exact I; (apply saves_ok_bind; [|intros; exact I]).
    + apply cc_grant_saves. + apply code_grant_saves. + apply refresh_grant_saves. + apply jwt_bearer_grant_saves. + apply ciba_grant_saves.
  - apply introspect_saves.
  - apply revoke_saves.
  - apply userinfo_saves.
  - apply token_info_saves.
  - apply token_info_req_saves.
  - apply init_back_auth_saves.
  - apply notify_success_saves.
  - apply notify_failure_saves.
  - exact I.
Qed.

Definition all_within (st : state) : Prop := forall g, In g (st_gsess (s_store st)) -> within g.

Lemma step_within w st n o : all_within st -> all_within (fst (step w st n o)).
Proof.
  intros H. unfold step, step_with.
  assert (G : forall p : prog obs, saves_ok within anyA p ->
              all_within (fst (let '(sto, x) := run_seq p (s_store st) in (mkState sto (s_now st), x)))).
  { intros p Hp. pose proof (run_seq_ok within anyA p (s_store st) Hp) as R.
    destruct (run_seq p (s_store st)) as [sto x]. simpl in *. intros g Hg.
    apply R; auto. split; [exact H | intros; exact I]. }
  destruct o; try (apply G; exact (handler_saves _ _ _ _)).
  simpl. exact H.
Qed.

Theorem active_within_granted_all_histories w dyn ops :
  all_within (fst (run_from w (init_state dyn) 0 ops)).
Proof.
  apply run_from_inv; [apply step_within|]. intros g [].
Qed.
