(* C08/C09, widened inputs (Model/ArtifactsX.v): mounting under a path prefix, delegated signing and
   decryption, pairwise subjects of every origin. *)
From Verif Require Import Base Scope Types Prog Pop Token Authorize Artifacts ArtifactsX Tactics C08Proofs C09Proofs.
Local Open Scope N_scope.

(* ---- the published set does not depend on how keys are handled ---- *)
Lemma public_jwks_x_is_public_jwks cfg kh : public_jwks_x cfg kh = public_jwks cfg.
Proof. reflexivity. Qed.

Lemma public_jwks_x_public_only cfg kh k :
  In k (public_jwks_x cfg kh) -> k_priv k = false /\ (k_kty k = KtyOct -> k_pair k = 0).
Proof. rewrite public_jwks_x_is_public_jwks. apply public_jwks_public_only. Qed.

(* every private key of the set — signing or encryption, whether used by the provider itself or
   shadowed by a SignerFunc / DecrypterFunc — is published as its public projection and nothing else *)
Lemma public_jwks_x_projection cfg kh k :
  In k (public_jwks_x cfg kh) -> exists k0, In k0 (ac_keys cfg) /\ k = jwk_public k0.
Proof. unfold public_jwks_x. intros H. apply in_map_iff in H as [k0 [E I]]. eauto. Qed.

Lemma public_jwks_x_spec cfg kh k :
  In k (public_jwks_x cfg kh) ->
  (exists k0, In k0 (ac_keys cfg) /\ k = jwk_public k0) /\ k_priv k = false /\ (k_kty k = KtyOct -> k_pair k = 0).
Proof. intros H. split; [exact (public_jwks_x_projection cfg kh k H) | exact (public_jwks_x_public_only cfg kh k H)]. Qed.

(* ---- delegated signing ---- *)
Lemma sign_x_no_signer {C} cfg kh (cl : C) a typ :
  kh_signer kh = None -> sign_x cfg kh cl a typ = sign cfg cl a typ.
Proof. unfold sign_x. intros ->. reflexivity. Qed.

Lemma sign_x_published {C} cfg kh (cl : C) a typ j :
  is_asym a = true -> signer_consistent cfg kh -> sign_x cfg kh cl a typ = Some j ->
  published cfg a j /\ j_claims j = cl.
Proof.
  unfold sign_x, signer_consistent. intros A SC H.
  destruct (kh_signer kh) as [l|]; [|eapply sign_published; eauto].
  destruct (signer_lookup a l) as [[kid pair]|] eqn:L; [|discriminate].
  inversion H; subst; clear H. cbn. split; [|reflexivity]. split; [reflexivity|].
  destruct (SC _ _ _ L) as (k & Hin & Hkid & Hpair & Halg & Hfit).
  assert (NO : k_kty k <> KtyOct) by (eapply fits_asym_not_oct; eauto).
  exists (jwk_public k). split; [unfold public_jwks; apply in_map; exact Hin|].
  unfold jwk_public. destruct (k_kty k) eqn:T; try congruence; cbn;
    rewrite ?T; repeat split; auto; unfold verifies_under; cbn; rewrite T, Hpair, N.eqb_refl; exact Hfit.
Qed.

(* ---- the issuer every artifact names is discovery's issuer, whatever the prefix ---- *)
Lemma issuer_independent_of_mount cfg kh :
  (forall c o a now, ic_iss (id_token_claims cfg c o a now) = discovery_issuer cfg kh) /\
  (forall n now g o t j, make_jwt_token cfg n now g o = Some t -> tk_value t = TokJwt j ->
                         tc_iss (j_claims j) = discovery_issuer cfg kh) /\
  (forall c p now art, jarm_response cfg c p now = Some art ->
                       jc_iss (body_claims (art_body art)) = discovery_issuer cfg kh) /\
  (forall c sub a, userinfo_response cfg c sub = Some (UiJwt a) ->
                   uc_iss (body_claims (art_body a)) = discovery_issuer cfg kh) /\
  (forall c prm p now r, ac_issuer_param cfg = true -> redirect_response cfg c prm p now = Some r ->
                         rp_iss (params_of r) = discovery_issuer cfg kh).
Proof.
  unfold discovery_issuer. repeat split.
  - intros n now g o t j H V. unfold make_jwt_token in H.
    destruct (sign _ _ _ _) as [j'|] eqn:S; [|discriminate]. inversion H; subst; clear H. cbn in V.
    inversion V; subst. apply sign_claims in S as [S _]. rewrite S. reflexivity.
  - intros c p now art H. unfold jarm_response in H.
    destruct (sign _ _ _ _) as [j|] eqn:S; [|discriminate]. inversion H; subst; clear H. cbn.
    apply sign_claims in S as [S _]. rewrite S. reflexivity.
  - intros c sub a H. apply userinfo_truthful in H as [_ [H _]]. exact H.
  - intros c prm p now r I H. apply redirect_response_params in H as (_ & _ & _ & _ & H). rewrite H, I. reflexivity.
Qed.

(* the keys are fetched from the mounted location: jwks_uri = issuer ++ prefix ++ "/jwks" *)
Lemma append_assoc3 (a b c : string) : ((a ++ b) ++ c)%string = (a ++ (b ++ c))%string.
Proof. induction a; cbn; [reflexivity|]. rewrite IHa. reflexivity. Qed.
Lemma jwks_uri_under_prefix cfg kh :
  discovery_jwks_uri cfg kh = (discovery_issuer cfg kh ++ (kh_prefix kh ++ "/jwks"))%string.
Proof. unfold discovery_jwks_uri, base_url, discovery_issuer. apply append_assoc3. Qed.

(* ---- pairwise subjects of every origin ---- *)
Lemma pairwise_origin cfg c : should_generate_pairwise cfg c = true <-> pw_origin_of cfg c <> PwNot.
Proof.
  unfold should_generate_pairwise, pw_origin_of. destruct (acl_sub_type c) as [[|]|]; [| |destruct (ac_default_pairwise cfg)];
    split; intros H; try congruence; try reflexivity; exfalso; apply H; reflexivity.
Qed.

Lemma token_options_pairwise cfg c gt fo :
  should_generate_pairwise cfg c = true -> gt <> GClientCredentials -> to_jwt (token_options cfg gt c fo) = false.
Proof.
  intros P G. unfold token_options, should_switch_to_opaque. rewrite P.
  assert (NG : gt_eqb gt GClientCredentials = false).
  { destruct (gt_eqb gt GClientCredentials) eqn:E; auto. apply gt_eqb_eq in E. contradiction. }
  rewrite NG. destruct (to_jwt fo) eqn:J; cbn; auto.
Qed.

Lemma pairwise_any_origin_opaque cfg c fo n now g :
  pw_origin_of cfg c <> PwNot -> gi_type g <> GClientCredentials ->
  to_jwt (token_options cfg (gi_type g) c fo) = false /\
  forall t, make cfg n now g c fo = Some t -> exists h, tk_value t = TokOpaque h.
Proof.
  intros O G. apply pairwise_origin in O. split; [apply token_options_pairwise; auto|].
  intros t M. eapply make_pairwise_opaque; eauto.
Qed.

Lemma pairwise_by_default_opaque cfg c fo n now g :
  acl_sub_type c = None -> ac_default_pairwise cfg = true -> gi_type g <> GClientCredentials ->
  to_jwt (token_options cfg (gi_type g) c fo) = false /\
  forall t, make cfg n now g c fo = Some t -> exists h, tk_value t = TokOpaque h.
Proof.
  intros S D G. apply pairwise_any_origin_opaque; auto. unfold pw_origin_of. rewrite S, D. discriminate.
Qed.

(* the flow model's switch (Token.v token_is_jwt over the EFFECTIVE c_pairwise) is the artifact model's
   shouldSwitchToOpaque for a registration of any subject_type *)
Lemma token_is_jwt_agrees_reg acf cfg c st gt :
  c_pairwise c = should_generate_pairwise acf (aclient_of_reg c st) ->
  token_is_jwt c gt = to_jwt (token_options acf gt (aclient_of_reg c st) (harness_tokopts cfg c)).
Proof.
  intros E. unfold token_is_jwt, token_options, should_switch_to_opaque, harness_tokopts. rewrite <- E. cbn.
  destruct (c_jwt_tokens c), (c_pairwise c), (gt_eqb gt GClientCredentials); reflexivity.
Qed.

(* satisfiability: a provider mounted under /auth whose signing is delegated and whose key set keeps a
   private RSA-OAEP key; a client without subject_type under a pairwise default *)
Definition ex_kh : keyhandling := mkKeyHandling "/auth" (Some [(PS256, ("rsa", 1)); (ES384, ("ec384", 2))]) false.
Definition ex_cfg_x : acfg :=
  mkACfg "https://as.example"
    [mkJwk "rsa" (ASig PS256) UseSig KtyRSA 1 false; mkJwk "ec384" (ASig ES384) UseSig (KtyEC 384) 2 false;
     mkJwk "enc" (AEnc 1) UseEnc KtyRSA 3 true]
    PS256 false 600 false PS256 false false true PS256 600 false true true true.
Definition ex_client_x : aclient := mkAClient "c1" (Some ES384) None (Some PS256) None None None None.
Example ex_signer_consistent : signer_consistent ex_cfg_x ex_kh.
Proof.
  unfold signer_consistent, ex_kh. cbn -[sigalg_eqb]. intros a kid pair H.
  destruct (sigalg_eqb a PS256) eqn:E1.
  - apply sigalg_eqb_eq in E1. subst. inversion H; subst.
    exists (mkJwk "rsa" (ASig PS256) UseSig KtyRSA 1 false). cbn. auto 10.
  - destruct (sigalg_eqb a ES384) eqn:E2; [|discriminate].
    apply sigalg_eqb_eq in E2. subst. inversion H; subst.
    exists (mkJwk "ec384" (ASig ES384) UseSig (KtyEC 384) 2 false). cbn. auto 10.
Qed.
Example ex_x :
  (match sign_x ex_cfg_x ex_kh tt ES384 "" with Some j => andb (N.eqb (j_signer j) 2) (seqb (j_kid j) "ec384") | None => false end) = true /\
  existsb k_priv (public_jwks_x ex_cfg_x ex_kh) = false /\
  decrypt_with ex_cfg_x ex_kh "enc" = DkSet 3 /\
  pw_origin_of ex_cfg_x ex_client_x = PwByDefault /\
  discovery_jwks_uri ex_cfg_x ex_kh = "https://as.example/auth/jwks" /\
  discovery_issuer ex_cfg_x ex_kh = "https://as.example".
Proof. vm_compute. repeat split; reflexivity. Qed.
