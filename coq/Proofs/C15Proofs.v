(* C15Proofs.v — one-time credentials under interleaved requests: the statements of Props/C15.v,
   assembled from the sweeps of C15Sweeps.v (every interleaving of 2 and 3 requests, by vm_compute),
   plus: run_il_tr is run_il with a trace; parametric serial lemmas over arbitrary stores. *)
From Verif Require Import Base Scope Types Prog Pop Token Authorize System Config Run Monitors Race Tactics Fresh FreshHandlers OneShot C15Sweeps.
Require Import Lia.
Local Open Scope nat_scope.

Lemma k23 (P : nat -> Prop) : P 2 -> P 3 -> forall k, k = 2 \/ k = 3 -> P k.
Proof. intros H2 H3 k [->| ->]; auto. Qed.

Section Kind.
  Variable scn : bool -> racescn.
  Hypothesis sweep : forall rot, count_ok (setup_of (scn rot)) 2 = true /\ count_ok (setup_of (scn rot)) 3 = true.

  Lemma kind_count rot k sc : k = 2 \/ k = 3 ->
    In sc (race_schedules (setup_of (scn rot)) k) ->
    successes (setup_of (scn rot)) k sc = race_window_count (setup_of (scn rot)) k sc.
  Proof.
    intros [->| ->]; apply count_ok_spec; apply sweep.
  Qed.
  Lemma kind_classification rot k sc : k = 2 \/ k = 3 ->
    In sc (race_schedules (setup_of (scn rot)) k) ->
    (2 <= successes (setup_of (scn rot)) k sc <-> race_overlaps (setup_of (scn rot)) k sc = true).
  Proof. intros Hk Hin. apply classification_of_count. apply kind_count; auto. Qed.
  Lemma kind_serial rot k sc : k = 2 \/ k = 3 ->
    In sc (race_schedules (setup_of (scn rot)) k) ->
    race_overlaps (setup_of (scn rot)) k sc = false -> successes (setup_of (scn rot)) k sc <= 1.
  Proof. intros Hk Hin. apply at_most_one_of_count. apply kind_count; auto. Qed.
End Kind.

Definition refresh_rot_only (rot : bool) : racescn := scn_refresh true.
Lemma sweep_refresh_rot' : forall rot, count_ok (setup_of (refresh_rot_only rot)) 2 = true /\ count_ok (setup_of (refresh_rot_only rot)) 3 = true.
Proof. intros rot. exact sweep_refresh_rot. Qed.

(* ================================================================================== *)
(* 4. run_il_tr is run_il with a trace *)
Lemma run_il_tr_run_il {A} : forall sched (ps : list (prog A)) st tr,
  fst (run_il_tr sched ps st tr) = run_il sched ps st.
Proof.
  induction sched as [|i rest IH]; intros ps st tr; cbn [run_il_tr run_il fst]; auto.
  destruct (nth_error ps i) as [p|]; auto.
  destruct (skip_touch 64 p) as [a|c k|o p']; auto.
  destruct (exec c st) as [st' r]. apply IH.
Qed.

(* ================================================================================== *)
(* 5. parametric: served one after the other, at most one presentation succeeds — any world, any
      store in which a non-empty index value identifies at most one stored object, any two requests
      presenting the same credential (other parameters, operation indexes and clock arbitrary) *)
Definition a_unique (st : store) : Prop :=
  forall x y f, In x (st_asess st) -> In y (st_asess st) -> aget f x = aget f y -> aget f x <> 0%N -> a_id x = a_id y.
Lemma fresh_a_unique n st : fresh n st -> a_unique st.
Proof. intros [[_ U] _]. exact U. Qed.

Lemma serial_code_once_lemma w n1 n2 now1 now2 r1 r2 st :
  a_unique st -> t_code r1 = t_code r2 ->
  is_tokens (snd (run_seq (code_grant w n1 now1 r1) st)) = true ->
  is_tokens (snd (run_seq (code_grant w n2 now2 r2) (fst (run_seq (code_grant w n1 now1 r1) st)))) = true ->
  False.
Proof.
  intros U E H1 H2.
  apply code_grant_post in H1 as [s [c [NN [EF [ED _]]]]].
  apply code_grant_post in H2 as [s' [c' [_ [EF' _]]]].
  apply find_code_in in EF as [Hs Ec]. apply find_code_in in EF' as [Hs' Ec'].
  rewrite ED in Hs'. apply (in_del _ a_id) in Hs' as [Hs'1 Hs'2].
  apply Hs'2. apply (U s' s FCode); auto; cbn; [congruence|].
  rewrite Ec', <- E. intros Z. rewrite Z in NN. discriminate.
Qed.

Lemma serial_ciba_once_lemma w n1 n2 now1 now2 r1 r2 st :
  a_unique st -> t_auth_req r1 = t_auth_req r2 ->
  is_tokens (snd (run_seq (ciba_grant w n1 now1 r1) st)) = true ->
  is_tokens (snd (run_seq (ciba_grant w n2 now2 r2) (fst (run_seq (ciba_grant w n1 now1 r1) st)))) = true ->
  False.
Proof.
  intros U E H1 H2.
  apply ciba_grant_post in H1 as [s [c [NN [EF [ED _]]]]].
  apply ciba_grant_post in H2 as [s' [c' [_ [EF' _]]]].
  apply find_ciba_in in EF as [Hs Ec]. apply find_ciba_in in EF' as [Hs' Ec'].
  rewrite ED in Hs'. apply (in_del _ a_id) in Hs' as [Hs'1 Hs'2].
  apply Hs'2. apply (U s' s FCiba); auto; cbn; [congruence|].
  rewrite Ec', <- E. intros Z. rewrite Z in NN. discriminate.
Qed.

Lemma serial_par_once_lemma w n1 n2 now1 now2 r1 r2 st :
  a_unique st -> cf_par_enabled (w_cfg w) = true ->
  is_nil (p_request_uri (ar_params r1)) = false ->
  p_request_uri (ar_params r1) = p_request_uri (ar_params r2) ->
  started (snd (run_seq (init_auth w n1 now1 r1) st)) = true ->
  started (snd (run_seq (init_auth w n2 now2 r2) (fst (run_seq (init_auth w n1 now1 r1) st)))) = true ->
  False.
Proof.
  intros U EP NN E H1 H2.
  apply init_auth_par_post in H1 as [s [EF [_ [_ R]]]]; auto.
  apply init_auth_par_post in H2 as [s' [EF' _]]; auto; [|congruence].
  apply find_par_in in EF as [Hs Ec]. apply find_par_in in EF' as [Hs' Ec'].
  assert (NZ : p_request_uri (ar_params r1) <> 0%N) by (intros Z; rewrite Z in NN; discriminate).
  destruct (R s' Hs') as [[Hin Hne]|[_ Z]].
  - apply Hne. apply (U s' s FPar); auto; cbn; congruence.
  - cbn in Z. congruence.
Qed.

(* refresh tokens, rotation on: the presented token is older than the first request (as every value
   in a store reached by a history is, Fresh.fresh), so it differs from the one the first request mints *)
Lemma serial_refresh_once_lemma w n1 n2 now1 now2 r1 r2 st t1 t2 :
  fresh n1 st -> cf_refresh_rotation (w_cfg w) = true -> t_refresh r1 = t_refresh r2 ->
  snd (run_seq (refresh_grant w n1 now1 r1) st) = OTokens t1 ->
  snd (run_seq (refresh_grant w n2 now2 r2) (fst (run_seq (refresh_grant w n1 now1 r1) st))) = OTokens t2 ->
  False.
Proof.
  intros [_ [GO GU]] Rot E H1 H2.
  apply refresh_grant_post in H1 as (g & c & g' & NN & EF & _ & _ & _ & _ & ES & _ & EI & _ & _ & _ & _ & ER & _).
  apply refresh_grant_post in H2 as (g2 & c2 & g2' & _ & EF2 & _).
  apply find_rt_in in EF as [Hg Eg]. apply find_rt_in in EF2 as [Hg2 Eg2].
  rewrite Rot in ER.
  assert (NZ : t_refresh r1 <> 0%N) by (intros Z; rewrite Z in NN; discriminate).
  rewrite ES in Hg2. apply (in_put _ g_id) in Hg2 as [->|[Hin Hne]].
  - (* the re-saved grant carries the token minted by request n1 *)
    destruct (GO g FRefresh Hg) as [Z|O]; [cbn in Z; congruence|cbn in O].
    eapply (gold_not_now n1 FRefresh (t_refresh r1)); [rewrite <- Eg; exact O|].
    cbn. congruence.
  - apply Hne. rewrite EI. apply (GU g2 g FRefresh); auto; cbn; congruence.
Qed.

(* ================================================================================== *)
(* the serial schedule, per scenario *)
Lemma serial_pick (a b c d e : racesetup) k su :
  serial_five a b c d e k = true -> In su [a; b; c; d; e] -> serial_one su k = true.
Proof.
  unfold serial_five. intros H Hin.
  do 4 (apply andb_true_iff in H; destruct H as [H ?]).
  repeat (destruct Hin as [<-|Hin]; [assumption|]). destruct Hin.
Qed.
Lemma serial_exactly_one_lemma : forall rotation k, k = 2 \/ k = 3 ->
  forall su, In su [setup_of (scn_code rotation); setup_of (scn_refresh true); setup_of (scn_par rotation);
                    setup_of (scn_par_page rotation); setup_of (scn_ciba rotation)] ->
  In (serial k (solo_calls su)) (race_schedules su k) /\
  race_overlaps su k (serial k (solo_calls su)) = false /\ successes su k (serial k (solo_calls su)) = 1.
Proof.
  intros rot k Hk su Hin. apply serial_one_spec.
  exact (serial_pick _ _ _ _ _ k su (serial_all rot k Hk) Hin).
Qed.

(* the store of a scenario is reached by a history, hence fresh *)
Lemma setup_fresh s su : setup s = Some su -> fresh (su_base su) (su_store su).
Proof.
  unfold setup. destruct (build _ _) as [cfg|]; [|discriminate].
  pose proof (fresh_all_histories (mkWorld cfg (rs_static s)) (rs_dyn s) (rs_prefix s)) as F.
  destruct (run_from _ _ _ _) as [st tr]. intros E; inversion E; subst; cbn [su_base su_store]. exact F.
Qed.
Lemma setup_of_spec s : setup s <> None -> setup s = Some (setup_of s).
Proof. unfold setup_of. destruct (setup s); congruence. Qed.

Lemma serial_code_once_applies_lemma :
  let su := setup_of (scn_code true) in
  fresh (su_base su) (su_store su) /\
  match su_op su with
  | OpToken GAuthorizationCode r =>
      is_tokens (snd (run_seq (code_grant (su_world su) 1 (su_now su) r) (su_store su))) = true /\
      is_tokens (snd (run_seq (code_grant (su_world su) 2 (su_now su) r)
                   (fst (run_seq (code_grant (su_world su) 1 (su_now su) r) (su_store su))))) = false
  | _ => False
  end.
Proof.
  intros su; subst su. split.
  - apply (setup_fresh (scn_code true)). apply setup_of_spec. vm_compute. discriminate.
  - vm_compute. split; reflexivity.
Qed.
