(* Hoare.v — generic reasoning about programs over the storage:
   - what a program may write (saves_ok), independent of what the storage answers;
   - invariants of the sequential run. *)
From Verif Require Import Base Scope Types Prog Pop Token Authorize System Config.

Section Writes.
  Variable QG : gsession -> Prop.
  Variable QA : asession -> Prop.

  (* every GSave / ASave argument, on every path and whatever the storage replies, satisfies Q *)
  Fixpoint saves_ok {A} (p : prog A) : Prop :=
    match p with
    | Ret _ => True
    | Do c k => match c with GSave g => QG g | ASave s => QA s | _ => True end /\ forall r, saves_ok (k r)
    | Touch _ p' => saves_ok p'
    end.

  Definition store_ok (st : store) : Prop :=
    (forall g, In g (st_gsess st) -> QG g) /\ (forall s, In s (st_asess st) -> QA s).

  Lemma filter_forall {X} (P : X -> Prop) f (l : list X) :
    (forall x, In x l -> P x) -> forall x, In x (filter f l) -> P x.
  Proof. intros H x Hx. apply filter_In in Hx as [Hx _]. auto. Qed.

  Lemma exec_ok c st :
    match c with GSave g => QG g | ASave s => QA s | _ => True end ->
    store_ok st -> store_ok (fst (exec c st)).
  Proof.
    intros Hc [HG HA]. destruct c; simpl; try (split; assumption).
    - (* ASave *) split; simpl; auto. intros s' [<-|Hs]; auto. eapply filter_forall; eauto.
    - (* ADel *) split; simpl; auto. eapply filter_forall; eauto.
    - (* GSave *) split; simpl; auto. intros g' [<-|Hg]; auto. eapply filter_forall; eauto.
    - (* GDel *) split; simpl; auto. eapply filter_forall; eauto.
    - (* GDelByCode *) destruct (find _ _); simpl; split; auto. eapply filter_forall; eauto.
  Qed.

  Lemma run_seq_ok {A} (p : prog A) : forall st, saves_ok p -> store_ok st -> store_ok (fst (run_seq p st)).
  Proof.
    induction p as [a|c k IH|o p IH]; intros st Hs Hst; simpl in *; auto.
    destruct Hs as [Hc Hk]. destruct (exec c st) as [st' r] eqn:E.
    apply IH; auto. replace st' with (fst (exec c st)) by (rewrite E; reflexivity). apply exec_ok; auto.
  Qed.

  Lemma saves_ok_bind {A B} (p : prog A) (f : A -> prog B) :
    saves_ok p -> (forall a, saves_ok (f a)) -> saves_ok (bind p f).
  Proof.
    induction p as [a|c k IH|o p IH]; simpl; intros Hp Hf; auto.
    destruct Hp as [Hc Hk]. split; auto.
  Qed.
End Writes.

(* an invariant of every step is an invariant of every history *)
Lemma run_from_inv (I : state -> Prop) (w : world) :
  (forall st n o, I st -> I (fst (step w st n o))) ->
  forall ops st n, I st -> I (fst (run_from w st n ops)).
Proof.
  intros Hstep. induction ops as [|o ops IH]; intros st n Hst; simpl; auto.
  unfold run_from in *. simpl.
  pose proof (Hstep st n o Hst) as H1. unfold step in H1.
  destruct (step_with (@run_seq obs) w st n o) as [st' x] eqn:E. simpl in H1.
  specialize (IH st' (S n) H1).
  destruct (run_from_with (@run_seq obs) w st' (S n) ops) as [st'' tr] eqn:E2. simpl in *. exact IH.
Qed.

(* every observation of a history is the observation of one step from a state satisfying the invariant *)
Lemma run_from_trace (I : state -> Prop) (P : op -> obs -> Prop) (w : world) :
  (forall st n o, I st -> I (fst (step w st n o))) ->
  (forall st n o, I st -> P o (snd (step w st n o))) ->
  forall ops st n, I st -> Forall2 P ops (snd (run_from w st n ops)).
Proof.
  intros Hstep HP. induction ops as [|o ops IH]; intros st n Hst; simpl; [constructor|].
  unfold run_from in *. simpl.
  pose proof (Hstep st n o Hst) as H1. pose proof (HP st n o Hst) as H2. unfold step in H1, H2.
  destruct (step_with (@run_seq obs) w st n o) as [st' x] eqn:E. simpl in H1, H2.
  specialize (IH st' (S n) H1).
  destruct (run_from_with (@run_seq obs) w st' (S n) ops) as [st'' tr] eqn:E2. simpl in *.
  constructor; auto.
Qed.
