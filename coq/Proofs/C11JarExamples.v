(* C11JarExamples.v — the hypotheses of the request-object theorems of C11 are satisfiable, and the
   four placements of a required mechanism (inside the object only / outside only / both / neither)
   on concrete configurations built by Config.build, evaluated by vm_compute on step_gj. *)
From Verif Require Import Base Scope Types Prog Pop Token Authorize System Config Required Jar RequiredJar.
Local Open Scope N_scope.

Definition xj_c1 : client :=
  mkClient 1 false [GAuthorizationCode; GRefreshToken; GImplicit] ["code"; "code id_token"]
    ["https://c1.example/cb"] "openid email" CibaNone false false false false false false false 0 false None.
Definition xj_jx : jworld :=
  mkJWorld (mkJCfg [AES256] false [] 0) [(1, mkJClient [mkJwk 611 AES256 511] None None)].
Definition xj_params (rt : string) (ch : pk) (m nonce : string) : params :=
  mkParams 0 "https://c1.example/cb" "" rt "openid" "st" nonce ch m 0 "" 0 "" [] None.
Definition xj_obj (p : params) : req_object :=
  mkRO EncNone (SigBy 511) AES256 611 1 true (Some 300%Z) (Some (-10)%Z) (Some (-10)%Z) true 1 false false p.
Definition xj_ch : pk := PkHash (PkRaw 1 true).
Definition xj_auth (outer inner : params) : gop :=
  GAuthorize (mkJAReq (mkAReq 1 outer true (PolSuccess "alice" "openid" [] [])) (JValue (xj_obj inner))).
Definition xj_par (outer inner : params) : gop :=
  GPar (mkPReq (mkCred 1 true) outer no_bind) (Some (xj_obj inner)).
Definition xj_run (p : profile) (opts : list opt) (ops : list gop) : option (list bool) :=
  option_map (fun cfg => map (fun xs => obs_obtains (fst xs)) (run_gj (mkWorld cfg [xj_c1]) xj_jx [] ops)) (build p opts).

Definition xj_with := xj_params "code" xj_ch "S256" "n-1".
Definition xj_without := xj_params "code" PkEmpty "" "n-1".

(* FAPI 2.0, PKCE required: [inside only; outside only; both; neither] at /authorize and at /par *)
Example fapi2_pkce_placements :
  xj_run PFapi2 [WithAuthorizationCodeGrant; WithJAR; WithPAR 60; WithPKCERequired "S256" []]
    [xj_auth xj_without xj_with; xj_auth xj_with xj_without; xj_auth xj_with xj_with; xj_auth xj_without xj_without;
     xj_par xj_without xj_with; xj_par xj_with xj_without; xj_par xj_with xj_with; xj_par xj_without xj_without]
  = Some [true; false; true; false; true; false; true; false].
Proof. vm_compute. reflexivity. Qed.

(* OpenID profile: the merge counts at /authorize *)
Example openid_pkce_placements :
  xj_run POpenID [WithAuthorizationCodeGrant; WithJAR; WithPKCERequired "S256" []]
    [xj_auth xj_without xj_with; xj_auth xj_with xj_without; xj_auth xj_with xj_with; xj_auth xj_without xj_without]
  = Some [true; true; true; false].
Proof. vm_compute. reflexivity. Qed.

(* FAPI 1.0: nonce (with the openid scope) and the response type must be inside the object *)
Example fapi1_nonce_placements :
  xj_run PFapi1 [WithAuthorizationCodeGrant; WithImplicitGrant; WithJAR; WithJARM]
    [xj_auth (xj_params "code id_token" PkEmpty "" "") (xj_params "code id_token" PkEmpty "" "n-1");
     xj_auth (xj_params "code id_token" PkEmpty "" "n-1") (xj_params "code id_token" PkEmpty "" "");
     xj_auth (xj_params "code id_token" PkEmpty "" "n-1") (xj_params "code id_token" PkEmpty "" "n-1");
     xj_auth (xj_params "code id_token" PkEmpty "" "") (xj_params "code id_token" PkEmpty "" "")]
  = Some [true; false; true; false].
Proof. vm_compute. reflexivity. Qed.
