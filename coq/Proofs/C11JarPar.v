(* C11JarPar.v — two switches of C11 in the presence of request objects (Model/RequiredJar.v step_gj,
   Model/Jar.v handlers):

   1. pushed authorization requests REQUIRED (server switch, or the client's where the server has PAR
      enabled): no authorization request obtains an artifact unless its request_uri resolves to a
      stored pushed session of that client that has not expired - whatever the request carries
      besides (a request object by value, an https request_uri referencing a signed request object
      with JAR by reference enabled, a urn nobody pushed) and whatever JAR options are on;
   2. the per-client switch for signed backchannel requests: a client that registered a CIBA
      request signing algorithm must sign where the server has CIBA JAR enabled. *)
From Verif Require Import Base Scope Types Prog Pop Token Authorize System Config Required Jar RequiredJar
     Rets ConfigProofs C11Proofs Tactics C11JarProofs.
From Verif Require C07Proofs.
Local Open Scope N_scope.

(* ---- 1. PAR required ---- *)
Definition resolves_pushed (st : store) (now : Z) (q : jareq) : Prop :=
  p_request_uri (ar_params (jq_req q)) <> 0 /\
  exists s, find (fun s => ideq (a_par s) (p_request_uri (ar_params (jq_req q)))) (st_asess st) = Some s /\
            a_client s = ar_client (jq_req q) /\ geb now (a_expires s) = false.

Lemma auth_jar_client_par w jx n now c q st st' x :
  should_use_par (w_cfg w) (ar_params (jq_req q)) c = true ->
  run_seq (auth_jar_client w jx n now c q) st = (st', x) -> obtains x = true ->
  resolves_pushed st now q.
Proof.
  intros SP. unfold auth_jar_client. cbn zeta. rewrite SP.
  destruct (is_nil (p_request_uri (ar_params (jq_req q)))) eqn:Z.
  { simpl. intros H; inversion H; subst. discriminate. }
  assert (NZ : p_request_uri (ar_params (jq_req q)) <> 0).
  { unfold is_nil in Z. apply N.eqb_neq in Z. exact Z. }
  cbn [run_seq exec].
  destruct (find (fun s => ideq (a_par s) (p_request_uri (ar_params (jq_req q)))) (st_asess st)) as [s|] eqn:EF;
    cbn [reply_a]; [|simpl; intros H; inversion H; subst; discriminate].
  unfold par_verdict.
  destruct (negb (ideq (a_client s) (ar_client (jq_req q)))) eqn:ECl.
  { cbn [run_seq exec]. intros H Hx; injection H as <- <-. first [discriminate Hx | rewrite obtains_render_aerr in Hx; discriminate Hx]. }
  apply Bool.negb_false_iff in ECl. apply N.eqb_eq in ECl.
  destruct (geb now (a_expires s)) eqn:EX.
  { cbn [run_seq exec]. intros H Hx; injection H as <- <-. first [discriminate Hx | rewrite obtains_render_aerr in Hx; discriminate Hx]. }
  destruct (validate_in_out_x _ _ _ _ _ _) as [e|].
  { cbn [run_seq exec]. intros H Hx; injection H as <- <-. first [discriminate Hx | rewrite obtains_render_aerr in Hx; discriminate Hx]. }
  intros _ _. split; [exact NZ|]. exists s. repeat split; auto.
Qed.

Lemma init_auth_jar_par w jx n now q st st' x :
  cf_par_enabled (w_cfg w) = true ->
  (cf_par_required (w_cfg w) = true \/
   forall c, In c (w_static w) \/ In c (st_clients st) -> c_id c = ar_client (jq_req q) -> c_par_required c = true) ->
  run_seq (init_auth_jar w jx n now q) st = (st', x) -> obtains x = true ->
  resolves_pushed st now q.
Proof.
  intros Hen Hreq. unfold init_auth_jar.
  destruct (is_nil (ar_client (jq_req q))).
  { simpl. intros H; inversion H; subst. discriminate. }
  rewrite C07Proofs.run_seq_bind. destruct (C07Proofs.get_client_spec w (ar_client (jq_req q)) st) as [oc [R Hoc]]. rewrite R.
  destruct oc as [c|]; [|simpl; intros H; inversion H; subst; discriminate].
  destruct (Hoc c eq_refl) as [Hid Hreg].
  destruct (negb (has_grant GAuthorizationCode (c_grants c) || has_grant GImplicit (c_grants c))).
  { simpl. intros H; inversion H; subst. discriminate. }
  apply auth_jar_client_par.
  unfold should_use_par. rewrite Hen. cbn [andb].
  destruct Hreq as [H|H]; [rewrite H; reflexivity|].
  rewrite (H c Hreg Hid). apply orb_true_r.
Qed.

(* step level, every state, every request (plain, object by value, object by reference, request_uri),
   every JAR configuration *)
Lemma par_required_step w jx st n q :
  cf_par_enabled (w_cfg w) = true ->
  (cf_par_required (w_cfg w) = true \/
   forall c, registered w st c -> c_id c = ar_client (jq_req q) -> c_par_required c = true) ->
  obs_obtains (snd (step_gj w jx st n (GAuthorize q))) = true ->
  resolves_pushed (s_store st) (s_now st) q.
Proof.
  intros Hen Hreq. rewrite step_gj_authorize. cbn [obs_obtains].
  destruct (run_seq (init_auth_jar w jx n (s_now st) q) (s_store st)) as [st' x] eqn:R. cbn [snd]. intros Hok.
  eapply init_auth_jar_par; eauto.
Qed.

(* hence: without a request_uri naming a stored pushed session - in particular with an https
   request_uri that references a request object (JRef), which the model keeps out of p_request_uri -
   the request is refused *)
Lemma par_required_blocks w jx st n q :
  cf_par_enabled (w_cfg w) = true ->
  (cf_par_required (w_cfg w) = true \/
   forall c, registered w st c -> c_id c = ar_client (jq_req q) -> c_par_required c = true) ->
  (p_request_uri (ar_params (jq_req q)) = 0 \/
   find (fun s => ideq (a_par s) (p_request_uri (ar_params (jq_req q)))) (st_asess (s_store st)) = None) ->
  xrefused (snd (step_gj w jx st n (GAuthorize q))).
Proof.
  intros Hen Hreq Hno. unfold xrefused.
  destruct (obs_obtains (snd (step_gj w jx st n (GAuthorize q)))) eqn:E; [|reflexivity].
  destruct (par_required_step _ _ _ _ _ Hen Hreq E) as [NZ [s [F _]]].
  destruct Hno as [H|H]; [contradiction|congruence].
Qed.

(* the option API *)
Lemma par_required_flag p opts cfg l :
  build p opts = Some cfg -> In (WithPARRequired l) opts -> cf_par_required cfg = true /\ cf_par_enabled cfg = true.
Proof. intros H Hi. destruct (all_required_flags p opts cfg H) as (K&_). exact (K l Hi). Qed.

Lemma par_required_option p opts cfg statics :
  build p opts = Some cfg -> forall jx st n l q, In (WithPARRequired l) opts ->
  obs_obtains (snd (step_gj (mkWorld cfg statics) jx st n (GAuthorize q))) = true ->
  resolves_pushed (s_store st) (s_now st) q.
Proof.
  intros Hb jx st n l q Hi. destruct (par_required_flag _ _ _ _ Hb Hi) as [Hr He].
  apply par_required_step; cbn [w_cfg]; auto.
Qed.

(* ---- 2. CIBA request objects required by the client's registration ---- *)
Lemma step_gj_bc w jx st n r ob :
  snd (step_gj w jx st n (GBc r ob)) = Out (snd (run_seq (init_back_auth_jar w jx n (s_now st) r ob) (s_store st))).
Proof.
  unfold step_gj, handler_gj. rewrite C07Proofs.run_seq_bind.
  destruct (run_seq (init_back_auth_jar w jx n (s_now st) r ob) (s_store st)). reflexivity.
Qed.

Lemma init_back_auth_jar_refuses w jx n now r st :
  cf_ciba_jar_enabled (w_cfg w) = true ->
  (cf_ciba_jar_required (w_cfg w) = true \/ jc_ciba_alg (jclient_of (jx_clients jx) (cr_id (br_cred r))) <> None) ->
  obtains (snd (run_seq (init_back_auth_jar w jx n now r None) st)) = false.
Proof.
  intros Hen Hreq. unfold init_back_auth_jar.
  destruct (negb (cf_ciba_enabled (w_cfg w))). { reflexivity. }
  rewrite C07Proofs.run_seq_bind. destruct (C07Proofs.authenticated_spec w (br_cred r) st) as [oc [R Hoc]]. rewrite R.
  destruct oc as [c|]; [|reflexivity].
  destruct (Hoc c eq_refl) as [Hid _].
  assert (S : should_use_jar_ciba (w_cfg w) (jclient_of (jx_clients jx) (c_id c)) false = true).
  { unfold should_use_jar_ciba. rewrite Hen. cbn [andb]. destruct Hreq as [H|H]; [rewrite H; reflexivity|].
    rewrite Hid. destruct (jc_ciba_alg (jclient_of (jx_clients jx) (cr_id (br_cred r)))); [apply orb_true_r|congruence]. }
  rewrite S. reflexivity.
Qed.

Lemma client_ciba_jar_required_step w jx st n r :
  cf_ciba_jar_enabled (w_cfg w) = true ->
  jc_ciba_alg (jclient_of (jx_clients jx) (cr_id (br_cred r))) <> None ->
  xrefused (snd (step_gj w jx st n (GBc r None))).
Proof.
  intros Hen Hc. unfold xrefused. rewrite step_gj_bc. cbn [obs_obtains].
  apply init_back_auth_jar_refuses; auto.
Qed.

Lemma ciba_jar_required_flag p opts cfg :
  build p opts = Some cfg -> In WithCIBAJARRequired opts -> cf_ciba_jar_required cfg = true /\ cf_ciba_jar_enabled cfg = true.
Proof. intros H Hi. destruct (all_required_flags p opts cfg H) as (_&_&K&_). exact (K Hi). Qed.

Lemma ciba_jar_required_option p opts cfg statics :
  build p opts = Some cfg -> forall jx st n r, In WithCIBAJARRequired opts ->
  xrefused (snd (step_gj (mkWorld cfg statics) jx st n (GBc r None))).
Proof.
  intros Hb jx st n r Hi. destruct (ciba_jar_required_flag _ _ _ Hb Hi) as [Hr He].
  unfold xrefused. rewrite step_gj_bc. cbn [obs_obtains].
  apply init_back_auth_jar_refuses; cbn [w_cfg]; auto.
Qed.

(* the registration of a FRONT-channel request object algorithm (request_object_signing_alg) is not
   that switch: the decision reads jc_ciba_alg only *)
Lemma ciba_decision_ignores_jar_alg cfg keys a1 a2 cb obj :
  should_use_jar_ciba cfg (mkJClient keys a1 cb) obj = should_use_jar_ciba cfg (mkJClient keys a2 cb) obj.
Proof. reflexivity. Qed.
