(* C02 — the authorization endpoint never redirects to an unvalidated URI. *)
From Verif Require Import Base Scope Types Prog Pop Token Authorize System Config Run Monitors Hoare Tactics Fresh FreshHandlers OneShot.
Local Open Scope N_scope.

(* ---- what the validators establish about the redirect URI ---- *)
Lemma validate_optionals_redirect cfg p c :
  validate_optionals cfg p c = None -> is_empty (p_redirect p) = true \/ redirect_allowed c (p_redirect p) = true.
Proof.
  unfold validate_optionals. destruct (is_empty (p_redirect p)); [left; auto|].
  destruct (redirect_allowed c (p_redirect p)); [right; auto|]. cbn. discriminate.
Qed.
Lemma validate_optionals_redirect_err cfg p c e p' :
  validate_optionals cfg p c = Some (ARedirect e p') -> p' = p /\ (is_empty (p_redirect p) = true \/ redirect_allowed c (p_redirect p) = true).
Proof.
  unfold validate_optionals.
  destruct (is_empty (p_redirect p)) eqn:E1; cbn [negb andb].
  - intros H. split; [|left; auto]. repeat (break_hyp H; try discriminate); inversion H; auto.
  - destruct (redirect_allowed c (p_redirect p)) eqn:E2; cbn [negb andb]; [|discriminate].
    intros H. split; [|right; auto]. repeat (break_hyp H; try discriminate); inversion H; auto.
Qed.
Lemma validate_params_redirect cfg p c :
  validate_params cfg p c = None -> is_empty (p_redirect p) = false /\ redirect_allowed c (p_redirect p) = true.
Proof.
  unfold validate_params. destruct (is_empty (p_redirect p)) eqn:E; [discriminate|].
  destruct (validate_optionals cfg p c) eqn:EO; [discriminate|]. intros _.
  destruct (validate_optionals_redirect _ _ _ EO); [congruence|auto].
Qed.
Lemma validate_params_redirect_err cfg p c e p' :
  validate_params cfg p c = Some (ARedirect e p') -> p' = p /\ is_empty (p_redirect p) = false /\ redirect_allowed c (p_redirect p) = true.
Proof.
  unfold validate_params. destruct (is_empty (p_redirect p)) eqn:E; [discriminate|].
  destruct (validate_optionals cfg p c) as [a|] eqn:EO.
  - intros H; inversion H; subst a. destruct (validate_optionals_redirect_err _ _ _ _ _ EO) as [-> [H1|H1]]; [congruence|auto].
  - assert (R : redirect_allowed c (p_redirect p) = true) by (destruct (validate_optionals_redirect _ _ _ EO); [congruence|auto]).
    intros H. repeat (break_hyp H; try discriminate); inversion H; subst; auto.
Qed.
Lemma validate_in_out_redirect cfg i o c :
  validate_in_out cfg i o c = None ->
  is_empty (p_redirect (merge_params i o)) = false /\ redirect_allowed c (p_redirect (merge_params i o)) = true.
Proof.
  unfold validate_in_out. destruct (_ && _)%bool; [discriminate|].
  destruct (validate_params cfg (merge_params i o) c) eqn:EP; [discriminate|]. intros _.
  apply validate_params_redirect in EP. exact EP.
Qed.
Lemma validate_in_out_redirect_err cfg i o c e p' :
  validate_in_out cfg i o c = Some (ARedirect e p') ->
  p' = merge_params i o /\ is_empty (p_redirect p') = false /\ redirect_allowed c (p_redirect p') = true.
Proof.
  unfold validate_in_out. destruct (_ && _)%bool; [discriminate|].
  destruct (validate_params cfg (merge_params i o) c) as [a|] eqn:EP.
  - intros H; inversion H; subst a. destruct (validate_params_redirect_err _ _ _ _ _ EP) as [-> R]. auto.
  - apply validate_params_redirect in EP. intros H.
    destruct (validate_optionals cfg o c) as [[x|x y]|]; [discriminate|inversion H; subst; auto|].
    repeat (break_hyp H; try discriminate); inversion H; subst; auto.
Qed.

Lemma merge_redirect i o : p_redirect (merge_params i o) = nz (p_redirect i) (p_redirect o).
Proof. reflexivity. Qed.

Lemma allowed_for_par cfg c pushed u :
  redirect_allowed (client_for_par cfg c pushed) u = true ->
  redirect_allowed c u = true \/ (cf_par_unregistered cfg = true /\ u = pushed /\ is_empty pushed = false).
Proof.
  unfold client_for_par, redirect_allowed.
  destruct (cf_par_unregistered cfg); cbn [andb]; [|auto].
  destruct (is_empty pushed) eqn:E; cbn [negb]; [auto|].
  cbn. intros H. apply mem_In in H. apply in_app_or in H as [H|[H|[]]].
  - left. apply mem_In. exact H.
  - right. auto.
Qed.

(* ---- the invariant on stored sessions ---- *)
Section Inv.
  Variable w : world.
  Variable dyn : list client.     (* the dynamically registered clients; no modelled handler changes them *)

  Definition client_of (i : id) : option client :=
    match find_client i (w_static w) with Some c => Some c | None => find_client i dyn end.

  (* the session's redirect URI is registered for the session's client, or was pushed where unregistered
     URIs are permitted for PAR; interactive sessions have one *)
  Definition needs_redirect (s : asession) : Prop :=
    (is_nil (a_par s) = false /\ is_fapi (cf_profile (w_cfg w)) = true) \/
    (is_nil (a_par s) = true /\ is_nil (a_ciba s) = true).
  Definition redirect_ok (s : asession) : Prop :=
    (is_empty (p_redirect (a_params s)) = true \/ cf_par_unregistered (w_cfg w) = true \/
     exists c, client_of (a_client s) = Some c /\ redirect_allowed c (p_redirect (a_params s)) = true) /\
    (needs_redirect s -> is_empty (p_redirect (a_params s)) = false).

  Definition rely (c : call) (r : reply) : Prop :=
    match r with
    | RClient cl => match c with CGet i => find_client i dyn = Some cl | _ => True end
    | RASess s => redirect_ok s /\ match c with AByPar i => a_par s = i | AByCb i => a_cb s = i | _ => True end
    | _ => True
    end.
  Definition guar2 (c : call) : Prop :=
    match c with ASave s => redirect_ok s | CSave _ | CDel _ => False | _ => True end.
  Fixpoint rg {A} (p : prog A) : Prop :=
    match p with
    | Ret _ => True
    | Do c k => guar2 c /\ forall r, rely c r -> rg (k r)
    | Touch _ p' => rg p'
    end.
  Lemma rg_bind {A B} (p : prog A) (f : A -> prog B) : rg p -> (forall a, rg (f a)) -> rg (bind p f).
  Proof. induction p as [a|c k IH|o p IH]; cbn; intros Hp Hf; auto. destruct Hp; split; auto. Qed.

  Definition inv (st : store) : Prop := st_clients st = dyn /\ forall s, In s (st_asess st) -> redirect_ok s.

  Lemma exec_inv c st : guar2 c -> inv st -> inv (fst (exec c st)) /\ rely c (snd (exec c st)).
  Proof.
    intros G [IC IA]. unfold inv.
    assert (FA : forall f, match find f (st_asess st) with Some s => redirect_ok s /\ f s = true | None => True end).
    { intros f. destruct (find f (st_asess st)) eqn:E; auto. apply find_some in E as [E E2]; auto. }
    destruct c; cbn in G; try contradiction; cbn [exec fst snd].
    - (* CGet *) split; [split; auto|]. rewrite IC. destruct (find_client i dyn) eqn:E; cbn; auto.
    - (* ASave *) split; [|exact I]. split; auto. cbn. intros s' [<-|H]; auto. apply filter_In in H as [H _]; auto.
    - split; [split; auto|]. specialize (FA (fun s => ideq (a_cb s) i)). destruct (find _ _); cbn; auto. destruct FA as [F1 F2]. apply N.eqb_eq in F2. auto.
    - split; [split; auto|]. specialize (FA (fun s => ideq (a_code s) i)). destruct (find _ _); cbn; auto. tauto.
    - split; [split; auto|]. specialize (FA (fun s => ideq (a_par s) i)). destruct (find _ _); cbn; auto. destruct FA as [F1 F2]. apply N.eqb_eq in F2. auto.
    - split; [split; auto|]. specialize (FA (fun s => ideq (a_ciba s) i)). destruct (find _ _); cbn; auto. tauto.
    - (* ADel *) split; [|exact I]. split; auto. cbn. intros s' H. apply filter_In in H as [H _]; auto.
    - (* GSave *) split; [|exact I]. split; auto.
    - split; [split; auto|]. destruct (find _ _); cbn; auto.
    - split; [split; auto|]. destruct (find _ _); cbn; auto.
    - (* GDel *) split; [|exact I]. split; auto.
    - (* GDelByCode *) destruct (find _ _); cbn; split; auto; split; auto.
  Qed.

  Lemma run_seq_inv {A} (p : prog A) : forall st, rg p -> inv st -> inv (fst (run_seq p st)).
  Proof.
    induction p as [a|c k IH|o p IH]; intros st R I; cbn in *; auto.
    destruct R as [G R]. destruct (exec_inv c st G I) as [I' Rl].
    destruct (exec c st) as [st' r]. cbn in *. apply IH; auto.
  Qed.

  (* client lookups *)
  Lemma client_of_id i c : client_of i = Some c -> c_id c = i.
  Proof. unfold client_of. destruct (find_client i (w_static w)) eqn:E; intros H; [inversion H; subst|]; eapply find_client_id; eauto. Qed.

  Lemma redirect_ok_same s s' :
    a_client s' = a_client s -> p_redirect (a_params s') = p_redirect (a_params s) ->
    (needs_redirect s' -> needs_redirect s \/ is_empty (p_redirect (a_params s)) = false) ->
    redirect_ok s -> redirect_ok s'.
  Proof.
    intros EC ER EP [H1 H2]. split.
    - rewrite EC, ER. exact H1.
    - rewrite ER. intros HN. destruct (EP HN); auto.
  Qed.
End Inv.
