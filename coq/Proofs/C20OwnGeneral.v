(* C20OwnGeneral.v — for EVERY world, request, store: the first request of an authorization (init_auth) writes no
   member of a stored / shared session outside a lock (Model/AccessOwn.v trace_own with the DEEP copy of the pushed
   session: the tree with fix e2b7ce4), provided the id it would give a new session is not yet in the store (ids are
   fresh: Fresh.v); with a shallow copy (the code before the fix) the same holds of the scalar members only. *)
From Verif Require Import Base Scope Types Prog Pop Token Authorize Access AccessOwn.
Require Import Lia.
Local Open Scope N_scope.
Local Open Scope string_scope.

(* flt selects the members of interest: every member, or the scalar ones *)
Definition qf (flt : string -> bool) (l : list access) : Prop := filter (fun x => flt (snd x)) (session_writes l) = [].
Definition scalar_member (f : string) : bool := negb (is_map_member f).
Definition any_member (f : string) : bool := true.

Lemma session_writes_app a b : session_writes (a ++ b) = (session_writes a ++ session_writes b)%list.
Proof. unfold session_writes. apply flat_map_app. Qed.

(* an access that is not an unsynchronised write to a session member contributes nothing *)
Definition nowrite (a : access) : bool :=
  match ac_loc a with
  | LField KSession _ _ => negb (unsync_write a)
  | _ => true
  end.
Lemma no_session_writes l : forallb nowrite l = true -> session_writes l = [].
Proof.
  unfold session_writes. induction l as [|a l IH]; cbn [forallb flat_map]; [reflexivity|].
  intros H. apply andb_true_iff in H as [Ha Hl]. rewrite (IH Hl), app_nil_r.
  unfold nowrite in Ha. destruct (ac_loc a) as [|k i f]; [reflexivity|]. destruct k; try reflexivity.
  destruct (unsync_write a); [discriminate|reflexivity].
Qed.
Lemma scanA_nowrite m f l : forallb nowrite (scanA m f l) = true.
Proof. unfold scanA. cbn. apply forallb_forall. intros a H. apply in_map_iff in H as [s [<- _]]. reflexivity. Qed.
Lemma scanG_nowrite m f l : forallb nowrite (scanG m f l) = true.
Proof. unfold scanG. cbn. apply forallb_forall. intros a H. apply in_map_iff in H as [s [<- _]]. reflexivity. Qed.
Lemma call_no_session_writes has c s : session_writes (call_accesses has c s) = [].
Proof.
  apply no_session_writes. destruct c; unfold call_accesses; try reflexivity; try apply scanA_nowrite; try apply scanG_nowrite.
  - cbn. destruct (find_client i (st_clients s)); [|reflexivity]. cbn. destruct (has i); reflexivity.
  - rewrite forallb_app, scanG_nowrite. reflexivity.
Qed.

(* ---- programs that touch only the session with id i, and not after having saved it ---- *)
Definition saves (i : id) (c : call) : bool := match c with ASave x => ideq (a_id x) i | _ => false end.
Inductive calm {A} (i : id) : bool -> prog A -> Prop :=
  | calm_ret b a : calm i b (Ret a)
  | calm_do b c k : par_copied c = false -> (forall r, calm i (andb b (negb (saves i c))) (k r)) -> calm i b (Do c k)
  | calm_touch x p : a_id x = i -> calm i true p -> calm i true (Touch (OA x) p).

Definition holds (i : id) (priv : list asession) : bool := existsb (fun y => ideq (a_id y) i) priv.
Definition stored (i : id) (st : store) : bool := existsb (fun y => ideq (a_id y) i) (st_asess st).
(* the request holds the session privately, or nobody has it (a new session) *)
Definition own (i : id) (priv : list asession) (st : store) : Prop :=
  holds i priv = true \/ (holds i priv = false /\ stored i st = false).

Lemma holds_find i priv : holds i priv = true -> exists y, find (fun y => ideq (a_id y) i) priv = Some y.
Proof.
  unfold holds. induction priv as [|y l IH]; cbn; [discriminate|].
  destruct (ideq (a_id y) i); [eexists; reflexivity|exact IH].
Qed.
Lemma not_holds_find i priv : holds i priv = false -> find (fun y => ideq (a_id y) i) priv = None.
Proof.
  unfold holds. induction priv as [|y l IH]; cbn; [reflexivity|].
  destruct (ideq (a_id y) i); [discriminate|exact IH].
Qed.
Lemma holds_drop_other i j priv : ideq j i = false -> holds i (drop_session j priv) = holds i priv.
Proof.
  unfold holds, drop_session, ideq. intros N. induction priv as [|y l IH]; cbn; [reflexivity|].
  destruct (N.eqb (a_id y) j) eqn:E; cbn.
  - apply N.eqb_eq in E. rewrite E, N, IH. reflexivity.
  - rewrite IH. reflexivity.
Qed.
Lemma holds_drop_same i priv : holds i (drop_session i priv) = false.
Proof.
  unfold holds, drop_session, ideq. induction priv as [|y l IH]; cbn; [reflexivity|].
  destruct (N.eqb (a_id y) i) eqn:E; cbn; [exact IH|rewrite E; exact IH].
Qed.

(* no call but a Save of i puts a session with id i into the store *)
Lemma stored_filter i f l : existsb (fun y => ideq (a_id y) i) l = false -> existsb (fun y : asession => ideq (a_id y) i) (filter f l) = false.
Proof.
  induction l as [|y l IH]; cbn; [reflexivity|]. intros H. apply orb_false_iff in H as [H1 H2].
  destruct (f y); cbn; [rewrite H1; apply IH; exact H2|apply IH; exact H2].
Qed.
Lemma exec_not_stored i c st : saves i c = false -> stored i st = false -> stored i (fst (exec c st)) = false.
Proof.
  unfold stored. intros S H. destruct c; cbn; try exact H.
  - (* ASave *) cbn in S. unfold put_asess. cbn. unfold ideq in *. rewrite S. cbn. apply stored_filter. exact H.
  - (* ADel *) unfold del_asess. apply stored_filter. exact H.
  - (* GDelByCode *) destruct (find _ _); cbn; exact H.
Qed.

Section Filter.
(* deep: the handler clones the maps of the session it copies; flt: the members looked at.  Either the copy is deep, or
   only scalar members are looked at *)
Variable deep : bool.
Variable flt : string -> bool.
Hypothesis deep_or_scalar : deep = true \/ (forall f, is_map_member f = true -> flt f = false).
Notation quiet := (qf flt).

Lemma quiet_app a b : quiet a -> quiet b -> quiet (a ++ b).
Proof. unfold qf. intros Ha Hb. rewrite session_writes_app, filter_app, Ha, Hb. reflexivity. Qed.
Lemma quiet_nil : quiet []. Proof. reflexivity. Qed.
Lemma call_quiet has c s : quiet (call_accesses has c s).
Proof. unfold qf. rewrite call_no_session_writes. reflexivity. Qed.
Lemma wr_maps_quiet i f site b : is_map_member f = true -> flt f = false -> quiet (wr KSession i f site b).
Proof. intros M F. unfold qf, wr. destruct b; [|reflexivity]. cbn. rewrite F. reflexivity. Qed.
Lemma touch_private_quiet x y : quiet (if deep then [] else touch_a_maps x y).
Proof.
  destruct deep_or_scalar as [->|H]; [apply quiet_nil|]. destruct deep; [apply quiet_nil|].
  unfold touch_a_maps. apply quiet_app; apply wr_maps_quiet; try reflexivity; apply H; reflexivity.
Qed.

Lemma calm_quiet has {A} i b (p : prog A) : calm i b p ->
  forall priv st, (b = true -> own i priv st) -> quiet (trace_own has deep par_copied priv p st).
Proof.
  induction 1 as [b a|b c k Hc Hk IH|x p Hx Hp IH]; intros priv st O.
  - apply quiet_nil.
  - cbn [trace_own]. destruct (exec c st) as [st' r] eqn:E. apply quiet_app; [apply call_quiet|].
    apply IH. intros B. apply andb_true_iff in B as [B S]. apply negb_true_iff in S. specialize (O B).
    assert (Est : st' = fst (exec c st)) by (rewrite E; reflexivity).
    destruct c; cbn in Hc; try discriminate;
      try (destruct r; (destruct O as [O|[O1 O2]]; [left; exact O|right; split; [exact O1|rewrite Est; apply exec_not_stored; assumption]])).
    (* ASave x, not of i *)
    cbn in S. destruct O as [O|[O1 O2]].
    + left. rewrite holds_drop_other; assumption.
    + right. split; [rewrite holds_drop_other; assumption|rewrite Est; apply exec_not_stored; assumption].
  - cbn [trace_own]. specialize (O eq_refl). subst i. destruct O as [O|[O1 O2]].
    + destruct (holds_find _ _ O) as [y Hy]. rewrite Hy. apply quiet_app; [apply touch_private_quiet|].
      apply IH. intros _. left. unfold holds. cbn. unfold ideq. rewrite N.eqb_refl. reflexivity.
    + rewrite (not_holds_find _ _ O1).
      assert (F : find (fun y => ideq (a_id y) (a_id x)) (st_asess st) = None).
      { unfold stored in O2. clear -O2. induction (st_asess st) as [|y l IHl]; cbn in *; [reflexivity|].
        apply orb_false_iff in O2 as [H1 H2]. rewrite H1. apply IHl. exact H2. }
      cbn [touch_accesses]. rewrite F. cbn [app].
      assert (T : touch (OA x) st = st).
      { unfold touch. unfold stored in O2. rewrite O2. reflexivity. }
      rewrite T. apply IH. intros _. right. split; assumption.
Qed.

(* ---- the handlers ---- *)
Lemma calm_weaken {A} i (p : prog A) : calm i true p -> forall b, b = true -> calm i b p.
Proof. intros H b ->. exact H. Qed.

(* a program without any Touch is calm whatever i and b *)
Inductive touchless {A} : prog A -> Prop :=
  | tl_ret a : touchless (Ret a)
  | tl_do c k : par_copied c = false -> (forall r, touchless (k r)) -> touchless (Do c k).
Lemma touchless_calm {A} i (p : prog A) : touchless p -> forall b, calm i b p.
Proof. induction 1 as [a|c k Hc Hk IH]; intros b; constructor; auto. Qed.

Lemma calm_bind_ret {A B} i b (p : prog A) (g : A -> B) : calm i b p -> calm i b (bind p (fun a => Ret (g a))).
Proof.
  induction 1 as [b a|b c k Hc Hk IH|x p Hx Hp IH]; cbn [bind].
  - constructor.
  - constructor; [exact Hc|]. intros r. apply IH.
  - constructor; [exact Hx|exact IH].
Qed.

Lemma calm_bind_get_client {A} i b w cid (k : option client -> prog A) :
  (forall oc, calm i b (k oc)) -> calm i b (bind (get_client w cid) k).
Proof.
  intros H. unfold get_client. destruct (find_client cid (w_static w)); cbn [bind]; [apply H|].
  constructor; [reflexivity|]. intros r. cbn [saves]. rewrite andb_true_r. destruct r; cbn [bind]; apply H.
Qed.

Lemma calm_save_a {A} i s (k : reply -> prog A) : a_id s = i -> (forall r, touchless (k r)) -> calm i true (save_a s k).
Proof.
  intros E H. unfold save_a. destruct (Nat.eqb (n_indexes s) 1).
  - constructor; [reflexivity|]. intros r. apply touchless_calm. apply H.
  - apply touchless_calm. apply H.
Qed.

Ltac tl := repeat first
  [ apply tl_ret
  | (apply tl_do; [reflexivity | intros ?r])
  | match goal with |- touchless (match ?x with _ => _ end) => destruct x end
  | match goal with |- touchless (if ?x then _ else _) => destruct x end ].

Lemma calm_authenticate w n now s pol : calm (a_id s) true (authenticate w n now s pol).
Proof.
  unfold authenticate. destruct pol as [sub granted res| | |e].
  - apply calm_touch; [reflexivity|]. apply calm_bind_get_client. intros [c|]; [|apply calm_ret].
    cbv zeta.
    match goal with |- calm _ _ (if ?x then _ else _) => destruct x end.
    + apply calm_do; [reflexivity|]. intros r. apply touchless_calm. tl.
    + apply calm_touch; [reflexivity|]. apply calm_save_a; [reflexivity|]. intros r. tl.
  - (* in progress *) apply calm_touch; [reflexivity|]. apply calm_save_a; [reflexivity|]. intros r. tl.
  - apply calm_do; [reflexivity|]. intros r. apply touchless_calm. tl.
  - apply calm_do; [reflexivity|]. intros r. apply touchless_calm. tl.
Qed.

Lemma calm_start_session w n now c s r : calm (a_id s) true (start_session w n now c s r).
Proof.
  unfold start_session.
  match goal with |- calm _ _ (if ?x then _ else _) => destruct x end; [apply calm_ret|].
  match goal with |- calm _ _ (if ?x then _ else _) => destruct x end; [apply calm_ret|].
  cbv zeta. apply calm_touch; [reflexivity|].
  match goal with |- calm _ _ (authenticate ?w ?n ?now ?s' ?pol) => exact (calm_authenticate w n now s' pol) end.
Qed.

Lemma quiet_get_client has priv w cid {A} (k : option client -> prog A) st :
  (forall oc, quiet (trace_own has deep par_copied priv (k oc) st)) ->
  quiet (trace_own has deep par_copied priv (bind (get_client w cid) k) st).
Proof.
  intros H. unfold get_client. destruct (find_client cid (w_static w)); cbn [bind]; [apply H|].
  cbn [trace_own exec]. apply quiet_app; [apply call_quiet|].
  destruct (find_client cid (st_clients st)); cbn [bind]; apply H.
Qed.

(* the first request of an authorization writes no scalar member of a stored session outside a lock *)
Lemma first_request_quiet has w n now r st :
  stored (mint n KSessId) st = false ->
  quiet (trace_own has deep par_copied [] (init_auth w n now r) st).
Proof.
  intros Fresh.
  unfold init_auth. cbv zeta.
  destruct (is_nil (ar_client r)); [apply quiet_nil|].
  apply quiet_get_client. intros [c|]; [|apply quiet_nil].
  match goal with |- quiet (trace_own _ _ _ _ (if ?x then _ else _) _) => destruct x end; [apply quiet_nil|].
  match goal with |- quiet (trace_own _ _ _ _ (if ?x then _ else _) _) => destruct x end.
  - (* through PAR *)
    match goal with |- quiet (trace_own _ _ _ _ (if ?x then _ else _) _) => destruct x end; [apply quiet_nil|].
    cbn [trace_own exec]. apply quiet_app; [apply call_quiet|].
    destruct (find (fun s => ideq (a_par s) (p_request_uri (ar_params r))) (st_asess st)) as [s|]; cbn [reply_a par_copied]; [|apply quiet_nil].
    match goal with |- context [match ?v with Some _ => _ | None => _ end] => destruct v end.
    + apply (calm_quiet has (a_id s) false); [apply touchless_calm; tl|discriminate].
    + apply (calm_quiet has (a_id s) true).
      * apply calm_bind_ret. destruct (is_fapi (cf_profile (w_cfg w)));
        match goal with |- calm _ _ (start_session ?w ?n ?now ?c ?s' ?r) => exact (calm_start_session w n now c s' r) end.
      * intros _. left. unfold holds. cbn. unfold ideq. rewrite N.eqb_refl. reflexivity.
  - (* a new session *)
    match goal with |- context [match ?v with Some _ => _ | None => _ end] => destruct v end; [apply quiet_nil|].
    apply (calm_quiet has (mint n KSessId) true).
    + apply calm_bind_ret.
      match goal with |- calm _ _ (start_session ?w ?n ?now ?c ?s' ?r) => exact (calm_start_session w n now c s' r) end.
    + intros _. right. split; [reflexivity|exact Fresh].
Qed.

End Filter.

(* the tree with fix e2b7ce4 (deep copy): no member at all *)
Theorem first_request_writes_nothing_lemma has w n now r st :
  stored (mint n KSessId) st = false ->
  session_writes (trace_own has true par_copied [] (init_auth w n now r) st) = [].
Proof.
  intros Fresh. pose proof (first_request_quiet true any_member (or_introl eq_refl) has w n now r st Fresh) as H.
  unfold qf in H. rewrite <- H. clear H.
  induction (session_writes _) as [|x l IH]; cbn; [reflexivity|]. f_equal. exact IH.
Qed.
(* whatever the copy does with the maps: no scalar member *)
Theorem first_request_scalars_private_lemma has deep w n now r st :
  stored (mint n KSessId) st = false ->
  scalar_session_writes (trace_own has deep par_copied [] (init_auth w n now r) st) = [].
Proof.
  intros Fresh. refine (first_request_quiet deep scalar_member _ has w n now r st Fresh).
  right. intros f M. unfold scalar_member. rewrite M. reflexivity.
Qed.

Lemma not_stored_of_fresh i st : (forall x, In x (st_asess st) -> a_id x <> i) -> stored i st = false.
Proof.
  unfold stored. intros H. induction (st_asess st) as [|y l IH]; cbn; [reflexivity|].
  apply orb_false_iff. split.
  - unfold ideq. apply N.eqb_neq. apply H. left. reflexivity.
  - apply IH. intros x Hx. apply H. right. exact Hx.
Qed.
