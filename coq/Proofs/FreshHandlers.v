(* FreshHandlers.v — every handler of the model is disciplined (Fresh.v), hence the index
   discipline holds in every reachable state. *)
From Verif Require Import Base Scope Types Prog Pop Token Authorize System Config Hoare Tactics Fresh.
Local Open Scope N_scope.

Local Opaque contains_all_scopes are_scopes_allowed validate_binding validate_pkce refresh_binding
       validate_params validate_optionals validate_in_out merge_params validate_jwt validate_pop
       validate_binding_dpop validate_binding_tls set_pop_jkt set_pop_x5t tokens_out hg_result
       contains_openid nav_mode render_aerr rt_contains.

Ltac tok_now :=
  match goal with
  | E : make_token ?n ?c ?g = (_, _) |- _ =>
      let HT := fresh "HT" in pose proof (make_token_now n c g) as HT; rewrite E in HT; cbn in HT; clear E
  end.

Ltac in_seen := solve [cbn; auto 8].

(* one index field of a Save argument *)
Ltac solve_afield :=
  unfold field_ok, anow; cbn;
  first [ left; reflexivity
        | right; left; reflexivity
        | match goal with s : asession |- _ => right; right; exists s; split; [in_seen | split; reflexivity] end
        | match goal with H : asess_ok _ _ ?s |- _ =>
            match goal with |- context [a_cb s] => destruct (H FCb) as [Zz|[Zz|[x [Hx [Hi He]]]]]
                          | |- context [a_par s] => destruct (H FPar) as [Zz|[Zz|[x [Hx [Hi He]]]]]
                          | |- context [a_code s] => destruct (H FCode) as [Zz|[Zz|[x [Hx [Hi He]]]]]
                          | |- context [a_ciba s] => destruct (H FCiba) as [Zz|[Zz|[x [Hx [Hi He]]]]] end;
            cbn in *; [left; assumption | right; left; assumption | right; right; match goal with HH : In ?y _ |- _ => exists y; split; [in_seen | split; assumption] end]
          end ].
Ltac solve_gfield :=
  unfold field_ok, anow; cbn;
  first [ left; reflexivity
        | right; left; first [reflexivity | assumption | left; reflexivity | right; reflexivity]
        | match goal with g : gsession |- _ => right; right; exists g; split; [in_seen | split; reflexivity] end ].

Arguments guar : simpl never.
Ltac solve_guar :=
  unfold guar;
  repeat match goal with NW : nowrites _ |- _ => let a := fresh "NWa" in let b := fresh "NWg" in destruct NW as [a b] end;
  cbn in *;
  split;
  [ let i := fresh "i" in let Hi := fresh "Hi" in
    intros i Hi; cbn in Hi;
    repeat match goal with E : sn_wa _ = [] |- _ => rewrite E in Hi | E : sn_wg _ = [] |- _ => rewrite E in Hi end;
    cbn in Hi; intuition
  | let f := fresh "f" in intros f; destruct f; first [solve_afield | solve_gfield] ].

Ltac crunchd :=
  repeat (cbn in *;
          try match goal with
              | |- True => exact I
              | |- forall _, _ => intro
              | |- guar _ _ _ /\ _ => split; [first [exact I | try tok_now; solve_guar]|]
              end;
          try break_goal).

Lemma code_grant_disc w n now r k : nowrites k -> disciplined n k (code_grant w n now r).
Proof.
  intros NW. unfold code_grant, with_refresh, new_grant.
  destruct (negb _); [exact I|]. destruct (is_nil (t_code r)); [exact I|].
  eapply (disc_bind_ro _ _ _ nowrites); [apply stable_nowrites|apply authenticated_nosave|exact NW|].
  intros [c|] k' NW'; [|exact I].
  crunchd.
Qed.

Ltac ro_auth NW :=
  eapply (disc_bind_ro _ _ _ nowrites); [apply stable_nowrites|apply authenticated_nosave|exact NW|].

Lemma refresh_grant_disc w n now r k : nowrites k -> disciplined n k (refresh_grant w n now r).
Proof.
  intros NW. unfold refresh_grant.
  destruct (negb _); [exact I|]. destruct (is_nil (t_refresh r)); [exact I|].
  ro_auth NW. intros [c|] k' NW'; [|exact I].
  crunchd.
Qed.

Lemma cc_grant_disc w n now r k : nowrites k -> disciplined n k (cc_grant w n now r).
Proof.
  intros NW. unfold cc_grant, new_grant.
  destruct (negb _); [exact I|].
  ro_auth NW. intros [c|] k' NW'; [|exact I].
  crunchd.
Qed.

Lemma jwt_bearer_grant_disc w n now r k : nowrites k -> disciplined n k (jwt_bearer_grant w n now r).
Proof.
  intros NW. unfold jwt_bearer_grant, with_refresh, new_grant.
  destruct (negb _); [exact I|].
  eapply (disc_bind_ro _ _ _ nowrites); [apply stable_nowrites|apply jwt_bearer_client_nosave|exact NW|].
  intros [c|] k' NW'; [|exact I].
  crunchd.
Qed.

Lemma ciba_grant_disc w n now r k : nowrites k -> disciplined n k (ciba_grant w n now r).
Proof.
  intros NW. unfold ciba_grant, with_refresh, new_grant.
  destruct (negb _); [exact I|].
  ro_auth NW. intros [c|] k' NW'; [|exact I].
  crunchd.
Qed.

Definition ctx_ok n s (k : seen) : Prop := nowrites k /\ asess_ok n k s.
Lemma stable_ctx_ok n s : stable (ctx_ok n s).
Proof. apply stable_and; [apply stable_nowrites|apply stable_asess_ok]. Qed.

Lemma authenticate_disc w n now s pol k : nowrites k -> asess_ok n k s -> disciplined n k (authenticate w n now s pol).
Proof.
  intros NW OK. unfold authenticate, save_a, new_grant. destruct pol.
  - cbn. eapply (disc_bind_ro _ _ _ (ctx_ok n s)); [apply stable_ctx_ok|apply get_client_nosave|split; auto|].
    intros [c|] k' [NW' OK']; [|exact I].
    crunchd.
  - crunchd.
  - crunchd.
  - crunchd.
Qed.

Lemma asess_ok_new n k c p : asess_ok n k (new_session n c p).
Proof. intros f; destruct f; left; reflexivity. Qed.

Lemma start_session_disc w n now c s r k : nowrites k -> asess_ok n k s -> disciplined n k (start_session w n now c s r).
Proof.
  intros NW OK. unfold start_session. repeat (break_goal; [exact I|]). cbn.
  apply authenticate_disc; auto.
  intros f. destruct (OK f) as [Zz|[Zz|[x [Hx [Hi He]]]]]; destruct f; unfold field_ok, anow in *; cbn in *;
    first [left; reflexivity | right; left; reflexivity | left; assumption | right; left; assumption
          | right; right; exists x; auto].
Qed.

Lemma asess_ok_set_params n k s p : asess_ok n k s -> asess_ok n k (s <| a_params := p |>).
Proof. intros H f. destruct (H f) as [Zz|[Zz|[x [Hx [Hi He]]]]]; destruct f; unfold field_ok in *; cbn in *; auto; right; right; exists x; auto. Qed.

Lemma init_auth_disc w n now r k : nowrites k -> disciplined n k (init_auth w n now r).
Proof.
  intros NW. unfold init_auth. destruct (is_nil (ar_client r)); [exact I|].
  eapply (disc_bind_ro _ _ _ nowrites); [apply stable_nowrites|apply get_client_nosave|exact NW|].
  intros [c|] k' NW'; [|exact I].
  break_goal; [exact I|]. break_goal.
  - break_goal; [exact I|]. cbn. split; [exact I|]. intros rp. destruct rp; try exact I.
    match goal with |- disciplined _ _ (match ?v with _ => _ end) => destruct v end.
    + crunchd.
    + assert (NW2 : nowrites (see (AByPar (p_request_uri (ar_params r))) (RASess s) k')) by (apply stable_nowrites; cbn; auto).
      assert (OK2 : asess_ok n (see (AByPar (p_request_uri (ar_params r))) (RASess s) k') s) by (apply asess_ok_seen; cbn; auto).
      apply disciplined_bind; [|intros; exact I].
      destruct (is_fapi _); apply start_session_disc; auto; try (apply asess_ok_set_params; auto).
  - match goal with |- disciplined _ _ (match ?v with _ => _ end) => destruct v end; [exact I|].
    apply disciplined_bind; [|intros; exact I].
    apply start_session_disc; auto. apply asess_ok_new.
Qed.

Lemma continue_auth_disc w n now r k : nowrites k -> disciplined n k (continue_auth w n now r).
Proof.
  intros NW. unfold continue_auth. break_goal; [exact I|]. cbn. split; [exact I|]. intros rp; destruct rp; try exact I.
  break_goal; [exact I|].
  apply disciplined_bind.
  - apply authenticate_disc; [apply stable_nowrites; cbn; auto|apply asess_ok_seen; cbn; auto].
  - intros k' [o|e]; [exact I|]. apply disc_nosave. apply nosave_bind; [apply get_client_nosave|]. intros [c|]; cbn; auto.
Qed.

Lemma push_auth_disc w n now r k : nowrites k -> disciplined n k (push_auth w n now r).
Proof.
  intros NW. unfold push_auth, save_a. break_goal; [exact I|].
  ro_auth NW. intros [c|] k' NW'; [|exact I].
  crunchd.
Qed.

Lemma init_back_auth_disc w n now r k : nowrites k -> disciplined n k (init_back_auth w n now r).
Proof.
  intros NW. unfold init_back_auth, save_a. break_goal; [exact I|].
  ro_auth NW. intros [c|] k' NW'; [|exact I].
  crunchd.
Qed.

Lemma notify_success_disc w n now a hg k : nowrites k -> disciplined n k (notify_success w n now a hg).
Proof.
  intros NW. unfold notify_success, with_refresh, new_grant. cbn. split; [exact I|]. intros rp; destruct rp; try exact I.
  eapply (disc_bind_ro _ _ _ nowrites); [apply stable_nowrites|apply get_client_nosave|apply stable_nowrites; cbn; auto|].
  intros [c|] k' NW'; [|exact I].
  crunchd.
Qed.

Lemma notify_failure_disc w n a k : disciplined n k (notify_failure w a).
Proof.
  apply disc_nosave. unfold notify_failure. cbn. split; [exact I|]. intros rp; destruct rp; try exact I.
  apply nosave_bind; [apply get_client_nosave|]. intros [c|]; [|exact I].
  destruct (c_ciba_mode c); cbn; auto. split; auto. intros rd; destruct rd; exact I.
Qed.

Lemma introspect_nosave w now r : nosave (introspect w now r).
Proof.
  unfold introspect. break_goal; [exact I|].
  apply nosave_bind; [apply authenticated_nosave|]. intros [c|]; [|exact I].
  break_goal; [exact I|]. break_goal; try exact I;
    (apply nosave_bind; [apply introspection_info_nosave|]; intros; exact I).
Qed.
Lemma revoke_nosave w now r : nosave (revoke w now r).
Proof.
  unfold revoke. break_goal; [exact I|].
  apply nosave_bind; [apply authenticated_nosave|]. intros [c|]; [|exact I].
  break_goal; [exact I|]. apply nosave_bind; [apply introspection_info_nosave|].
  intros i. repeat (break_goal; try exact I). cbn. split; auto. intros rd; destruct rd; exact I.
Qed.
Lemma userinfo_nosave w now r : nosave (userinfo w now r).
Proof.
  unfold userinfo. break_goal; [exact I|]. break_goal; [|exact I].
  cbn. split; [exact I|]. intros rp; destruct rp; try exact I.
  repeat (break_goal; try exact I).
  apply nosave_bind; [apply get_client_nosave|]. intros [c|]; exact I.
Qed.
Lemma token_info_nosave now p : nosave (token_info now p).
Proof. unfold token_info. apply nosave_bind; [apply introspection_info_nosave|]. intros; exact I. Qed.
Lemma token_info_req_nosave now r : nosave (token_info_from_request now r).
Proof.
  unfold token_info_from_request. break_goal; [exact I|].
  apply nosave_bind; [apply introspection_info_nosave|]. intros i. repeat (break_goal; try exact I).
Qed.

Lemma nowrites0 : nowrites seen0.
Proof. split; reflexivity. Qed.

Theorem handler_disciplined w n now o : disciplined n seen0 (handler w n now o).
Proof.
  pose proof nowrites0 as NW.
  unfold handler. destruct o; try (apply disciplined_bind; [|intros; exact I]).
  - apply init_auth_disc; auto.
  - apply continue_auth_disc; auto.
  - apply push_auth_disc; auto.
  - destruct g; try exact I; (apply disciplined_bind; [|intros; exact I]).
    + apply cc_grant_disc; auto. + apply code_grant_disc; auto. + apply refresh_grant_disc; auto. + apply jwt_bearer_grant_disc; auto. + apply ciba_grant_disc; auto.
  - apply disc_nosave, introspect_nosave.
  - apply disc_nosave, revoke_nosave.
  - apply disc_nosave, userinfo_nosave.
  - apply disc_nosave, token_info_nosave.
  - apply disc_nosave, token_info_req_nosave.
  - apply init_back_auth_disc; auto.
  - apply notify_success_disc; auto.
  - apply notify_failure_disc.
  - exact I.
Qed.

(* the index discipline holds in every reachable state *)
Definition sfresh (n : nat) (st : state) : Prop := fresh n (s_store st).

Lemma step_fresh w st n o : sfresh n st -> sfresh (S n) (fst (step w st n o)).
Proof.
  intros F. unfold step, step_with, sfresh in *.
  assert (G : forall p : prog obs, disciplined n seen0 p ->
              fresh (S n) (s_store (fst (let '(sto, x) := run_seq p (s_store st) in (mkState sto (s_now st), x))))).
  { intros p D. pose proof (disciplined_fresh n p (s_store st) D F) as R.
    destruct (run_seq p (s_store st)) as [sto x]. exact R. }
  destruct o; try (apply G; exact (handler_disciplined w n (s_now st) _)).
  cbn. destruct F as [FA FG]. split.
  - constructor; [intros x f Hx; destruct (if_old _ _ _ _ _ _ _ FA x f Hx); [left; auto|right; eapply aold_mono; [|eauto]; lia] | apply (if_uniq _ _ _ _ _ _ _ FA)].
  - constructor; [intros x f Hx; destruct (if_old _ _ _ _ _ _ _ FG x f Hx); [left; auto|right; eapply gold_mono; [|eauto]; lia] | apply (if_uniq _ _ _ _ _ _ _ FG)].
Qed.

Lemma fresh_init dyn : sfresh 0 (init_state dyn).
Proof. split; constructor; cbn; intros; contradiction. Qed.

Lemma run_from_fresh w : forall (ops : list op) st n, sfresh n st -> sfresh (n + List.length ops) (fst (run_from w st n ops)).
Proof.
  induction ops as [|o ops IH]; intros st n F; cbn.
  - replace (n + 0)%nat with n by lia. exact F.
  - unfold run_from in *. cbn.
    pose proof (step_fresh w st n o F) as F1. unfold step in F1.
    destruct (step_with (@run_seq obs) w st n o) as [st' x] eqn:E. cbn in F1.
    specialize (IH st' (S n) F1).
    destruct (run_from_with (@run_seq obs) w st' (S n) ops) as [st'' tr] eqn:E2. cbn in *.
    replace (n + S (List.length ops))%nat with (S n + List.length ops)%nat by lia. exact IH.
Qed.

Theorem fresh_all_histories w dyn (ops : list op) : sfresh (List.length ops) (fst (run_from w (init_state dyn) 0 ops)).
Proof. apply (run_from_fresh w ops (init_state dyn) 0%nat), fresh_init. Qed.
