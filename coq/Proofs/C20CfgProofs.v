(* C20CfgProofs.v — the configuration objects are only read (Model/AccessCfg.v). *)
From Verif Require Import Base Scope Types Prog Pop Token Authorize System Access AccessCfg C20Proofs.
Local Open Scope N_scope.

(* the two halves of a request's summary *)
Lemma summary_split has w n now e s a :
  In a (request_summary has w n now e s) ->
  (exists c, In c (cfg_reads e) /\ a = cfg_read (endpoint_site e) c) \/
  (exists o x, e = EpOp o /\ In x (trace has (handler w n now o) s) /\ a = of_store x).
Proof.
  unfold request_summary. intros H. apply in_app_or in H as [H|H].
  - left. apply in_map_iff in H as [c [E Hc]]. exists c. split; [exact Hc|symmetry; exact E].
  - right. destruct e as [o| | | | | |]; try contradiction.
    apply in_map_iff in H as [x [E Hx]]. exists o, x. split; [reflexivity|]. split; [exact Hx|symmetry; exact E].
Qed.

(* every access of a request's summary to a configuration object is a read, by the endpoint's handler, with no lock *)
Lemma cfg_access_is_read has w n now e s a :
  In a (request_summary has w n now e s) -> is_cfg (sa_loc a) = true ->
  sa_write a = false /\ sa_lock a = NoLock /\ exists c, In c (cfg_reads e) /\ sa_loc a = SCfg c.
Proof.
  intros H C. apply summary_split in H as [[c [Hc ->]]|[o [x [_ [_ ->]]]]].
  - cbn. split; [reflexivity|]. split; [reflexivity|]. exists c. split; [exact Hc|reflexivity].
  - cbn in C. discriminate.
Qed.

Lemma config_never_written_lemma has w n now e s :
  Forall (fun a => is_cfg (sa_loc a) = true -> sa_write a = false) (request_summary has w n now e s).
Proof. apply Forall_forall. intros a H C. exact (proj1 (cfg_access_is_read has w n now e s a H C)). Qed.

(* conversely the storage half is Access.trace, untouched: what Props/C20.v says of it carries over *)
Lemma store_accesses_are_trace has w n now o s a :
  In a (request_summary has w n now (EpOp o) s) -> is_cfg (sa_loc a) = false ->
  exists x, In x (trace has (handler w n now o) s) /\ a = of_store x.
Proof.
  intros H C. apply summary_split in H as [[c [_ ->]]|[o' [x [E [Hx ->]]]]].
  - cbn in C. discriminate.
  - injection E as <-. exists x. split; [exact Hx|reflexivity].
Qed.

(* no two requests - any endpoints, worlds, clocks, stores - race on a configuration object *)
Lemma config_race_free_lemma h1 h2 w1 w2 n1 n2 now1 now2 e1 e2 s1 s2 a b :
  In a (request_summary h1 w1 n1 now1 e1 s1) -> In b (request_summary h2 w2 n2 now2 e2 s2) ->
  is_cfg (sa_loc a) = true -> sraces a b = false.
Proof.
  intros Ha Hb C. unfold sraces.
  destruct (cfg_access_is_read _ _ _ _ _ _ _ Ha C) as [Wa _].
  destruct (sa_loc a) as [la|ca] eqn:La; [discriminate|].
  destruct (sa_loc b) as [lb|cb] eqn:Lb; [reflexivity|].
  assert (Cb : is_cfg (sa_loc b) = true) by (rewrite Lb; reflexivity).
  destruct (cfg_access_is_read _ _ _ _ _ _ _ Hb Cb) as [Wb _].
  rewrite Wa, Wb. cbn. apply andb_false_r.
Qed.

(* non-vacuity: a request to the token endpoint does read both client-assertion algorithm lists (and
   the discovery document reads them too) *)
Lemma token_reads_sig_algs has w n now g r s :
  In (cfg_read "internal/token.*" cfg_private_key_jwt_sig_algs) (request_summary has w n now (EpOp (OpToken g r)) s) /\
  In (cfg_read "internal/token.*" cfg_client_secret_jwt_sig_algs) (request_summary has w n now (EpOp (OpToken g r)) s).
Proof.
  unfold request_summary. split; apply in_or_app; left; apply in_map_iff.
  - exists cfg_private_key_jwt_sig_algs. split; [reflexivity|]. cbn. left. reflexivity.
  - exists cfg_client_secret_jwt_sig_algs. split; [reflexivity|]. cbn. right. left. reflexivity.
Qed.

(* the refresh request of C20_refuted as an operation of the system model *)
Definition c20_refresh_op : op := OpToken GRefreshToken (mkTReq (mkCred 1 true) no_bind "" 0 "" 35 PkEmpty 0 HgOk BaApprove [] AsNone None).

(* ---- signatures: an element qualified [config] (or [wide-burst]) is never predicted ---- *)
Lemma qualified_never_predicted a b :
  qualified_unpredicted a = true \/ qualified_unpredicted b = true -> predicted_signature_cfg a b = false.
Proof.
  unfold predicted_signature_cfg. intros [H|H]; rewrite H; [reflexivity|].
  rewrite orb_true_r. reflexivity.
Qed.
(* and nothing else changes: without such a qualifier the comparison is Access.predicted_signature *)
Lemma unqualified_as_before a b :
  qualified_unpredicted a = false -> qualified_unpredicted b = false -> predicted_signature_cfg a b = predicted_signature a b.
Proof. unfold predicted_signature_cfg. intros -> ->. reflexivity. Qed.
