(* C14Ack.v — no false acknowledgement: /revoke answers 200 and DELETE /register answers 204
   only if the delete they attempted did not fail; the DCR responses carry credentials only if
   the client was saved. *)
From Verif Require Import Base Scope Types Prog Pop Token Authorize System Config FaultLog DcrFault FaultSpec Hoare Tactics C14Base C14Fault.
Local Open Scope N_scope.
Local Open Scope list_scope.

Local Opaque classify has_grant mint.

(* the id of the LAST event, if that event is a GDel / CDel that did not fail *)
Fixpoint last_gdel (tr : list ev) : option id :=
  match tr with
  | [] => None
  | (c, r) :: t =>
      match t with
      | [] => match c with GDel i => if rok r then Some i else None | _ => None end
      | _ => last_gdel t
      end
  end.
Fixpoint last_cdel (tr : list ev) : option id :=
  match tr with
  | [] => None
  | (c, r) :: t =>
      match t with
      | [] => match c with CDel i => if rok r then Some i else None | _ => None end
      | _ => last_cdel t
      end
  end.
Definition no_cdel (tr : list ev) : bool := forallb (fun e => negb (is_cdel (fst e))) tr.

Lemma last_gdel_app tr1 tr2 i : last_gdel tr2 = Some i -> last_gdel (tr1 ++ tr2) = Some i.
Proof.
  intros H. induction tr1 as [|[c r] tr1 IH]; cbn; auto.
  destruct (tr1 ++ tr2) eqn:E; auto. destruct tr1; cbn in E; [subst; discriminate|discriminate].
Qed.
Lemma last_cdel_app tr1 tr2 i : last_cdel tr2 = Some i -> last_cdel (tr1 ++ tr2) = Some i.
Proof.
  intros H. induction tr1 as [|[c r] tr1 IH]; cbn; auto.
  destruct (tr1 ++ tr2) eqn:E; auto. destruct tr1; cbn in E; [subst; discriminate|discriminate].
Qed.

Lemma esteps_last_gdel st tr st' i : esteps st tr st' -> last_gdel tr = Some i ->
  forall g, In g (st_gsess st') -> g_id g <> i.
Proof.
  induction 1 as [|st f c st' r tr st'' E H IH]; cbn; [discriminate|].
  destruct tr as [|e tr].
  - destruct c; try discriminate. destruct (rok r) eqn:R; [|discriminate]. intros X; inversion X; subst.
    inversion H; subst.
    assert (E2 : exec_fault f (GDel i) st = exec (GDel i) st) by (apply exec_fault_rok; [rewrite E; exact R|reflexivity]).
    rewrite E2 in E. cbn in E. inversion E; subst. cbn. intros g Hg.
    unfold del_gsess in Hg. apply filter_In in Hg as [_ Hg]. intros EQ. unfold ideq in Hg. rewrite EQ, N.eqb_refl in Hg. discriminate.
  - intros X. apply IH. exact X.
Qed.
Lemma esteps_last_cdel st tr st' i : esteps st tr st' -> last_cdel tr = Some i ->
  forall c, In c (st_clients st') -> c_id c <> i.
Proof.
  induction 1 as [|st f c st' r tr st'' E H IH]; cbn; [discriminate|].
  destruct tr as [|e tr].
  - destruct c; try discriminate. destruct (rok r) eqn:R; [|discriminate]. intros X; inversion X; subst.
    inversion H; subst.
    assert (E2 : exec_fault f (CDel i) st = exec (CDel i) st) by (apply exec_fault_rok; [rewrite E; exact R|reflexivity]).
    rewrite E2 in E. cbn in E. inversion E; subst. cbn. intros x Hx.
    unfold del_client in Hx. apply filter_In in Hx as [_ Hx]. intros EQ. unfold ideq in Hx. rewrite EQ, N.eqb_refl in Hx. discriminate.
  - intros X. apply IH. exact X.
Qed.

(* /revoke: 200 only if no delete was attempted, or the delete was the last call and did not fail *)
Fixpoint ack_shape (tr : list ev) : bool :=
  match tr with
  | [] => true
  | (c, r) :: t =>
      match t with
      | [] => if is_gdel c then rok r else true
      | _ => andb (negb (is_gdel c)) (ack_shape t)
      end
  end.
Lemma ack_shape_app tr1 tr2 : no_gdel tr1 = true -> ack_shape tr2 = true -> ack_shape (tr1 ++ tr2) = true.
Proof.
  unfold no_gdel. induction tr1 as [|[c r] tr1 IH]; cbn; auto.
  intros H1 H2. apply andb_true_iff in H1 as [Hc H1]. specialize (IH H1 H2).
  destruct (tr1 ++ tr2) eqn:E.
  - destruct (is_gdel c); [discriminate|reflexivity].
  - rewrite Hc, IH. reflexivity.
Qed.
Lemma ack_shape_gdel tr i r : ack_shape tr = true -> In (GDel i, r) tr -> r <> RFail /\ last_gdel tr = Some i.
Proof.
  induction tr as [|[c r0] tr IH]; cbn; [tauto|]. destruct tr as [|e tr].
  - intros H [X|[]]. inversion X; subst. cbn in H. rewrite H. split; [intros ->; discriminate|reflexivity].
  - intros H [X|X].
    + inversion X; subst. discriminate.
    + apply andb_true_iff in H as [_ H]. apply IH; auto.
Qed.

Definition Qack_revoke (tr : list ev) (o : out) : Prop := o = OOk -> ack_shape tr = true.
Lemma revoke_ack w now r : wp anyR (revoke w now r) Qack_revoke.
Proof.
  unfold revoke. c14_break; [intros H; discriminate|].
  apply wp_bind. eapply wp_mono; [|apply authenticated_ro]. cbn. intros tr1 oc [R1 _].
  destruct oc as [c|]; [|intros H; discriminate].
  c14_break; [intros H; discriminate|].
  eapply wp_mono with (Q := Qack_revoke).
  { intros tr2 o H HO. apply ack_shape_app; [apply reads_no_gdel, R1|apply H, HO]. }
  unfold Qack_revoke, introspection_info.
  c14_go; try discriminate; reflexivity.
Qed.

(* DCR: 204 only after a successful CDel of the addressed client; a document with credentials
   only after a successful CSave of the client it names *)
Definition Qack_dcr (o : dfop) (tr : list ev) (x : dfout) : Prop :=
  match x with
  | DfDeleted => exists r, o = DfDelete r /\ last_cdel tr = Some (df_cid r)
  | DfDoc _ cid secret tok =>
      (exists r, o = DfRead r /\ secret = 0 /\ tok = 0) \/
      (exists c, find_csave tr = Some c /\ c_id c = cid)
  | DfErr => True
  end.
Lemma dcr_handler_ack w n o : wp anyR (dcr_handler w n o) (Qack_dcr o).
Proof.
  destruct o; unfold dcr_handler, dcr_create, dcr_update, dcr_read, dcr_delete, dcr_protected, get_client, Qack_dcr;
    c14_go; try exact I; try (eexists; split; reflexivity);
    first [left; eexists; repeat split; reflexivity | right; eexists; split; reflexivity].
Qed.
