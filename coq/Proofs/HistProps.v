(* HistProps.v — decision-rule lemmas about single requests, for every store (C03, C10, C16). *)
From Verif Require Import Base Scope Types Prog Pop Token Authorize System Config Run Monitors Hoare Tactics Fresh FreshHandlers OneShot.
Local Open Scope N_scope.

(* ---- PKCE: what validate_pkce = None means ---- *)
Lemma validate_pkce_sound cfg v s :
  validate_pkce cfg v s = None -> cf_pkce_enabled cfg = true -> pk_is_empty (p_challenge (a_params s)) = false ->
  pk_is_empty v = false /\ pk_len_ok v = true /\
  is_pkce_valid v (p_challenge (a_params s))
    (if is_empty (p_method (a_params s)) then cf_pkce_default cfg else p_method (a_params s)) = true.
Proof.
  unfold validate_pkce. intros H EN EC. rewrite EN, EC in H. cbn in H.
  destruct (pk_is_empty v) eqn:EV; cbn in H.
  - discriminate.
  - destruct (pk_len_ok v) eqn:EL; cbn in H; [|discriminate].
    destruct (is_pkce_valid _ _ _) eqn:EP; cbn in H; [auto|discriminate].
Qed.
(* a challenge is matched only by the verifier it was derived from (ideal hash: pk terms) *)
Lemma pk_eqb_eq a b : pk_eqb a b = true -> match a, b with PkRaw n _, PkRaw m _ => n = m | _, _ => True end.
Proof. destruct a, b; cbn; auto. intros H. apply N.eqb_eq in H. exact H. Qed.

(* ---- refresh: an expired refresh token is refused and its grant removed ---- *)
Local Opaque contains_all_scopes validate_binding refresh_binding hg_result.
Lemma refresh_expired_removed w n now r st g c :
  has_grant GRefreshToken (cf_grants (w_cfg w)) = true -> is_nil (t_refresh r) = false ->
  snd (run_seq (authenticated w (t_cred r)) st) = Some c ->
  find (fun g => ideq (g_refresh g) (t_refresh r)) (st_gsess st) = Some g ->
  has_grant GRefreshToken (c_grants c) = true -> c_id c = g_client g ->
  geb now (g_expires g) = true ->
  is_tokens (snd (run_seq (refresh_grant w n now r) st)) = false /\
  st_gsess (fst (run_seq (refresh_grant w n now r) st)) = del_gsess (g_id g) (st_gsess st).
Proof.
  intros HG NN EA EF HC EC EX. unfold refresh_grant. rewrite HG, NN. cbn [negb].
  rewrite run_authenticated, EA. cbn. rewrite EF. cbn. rewrite HC. cbn [negb].
  rewrite EC. unfold ideq. rewrite N.eqb_refl. cbn [negb]. rewrite EX. cbn. auto.
Qed.

(* ---- CIBA: pending / slow_down answers leave the request usable ---- *)
Lemma ciba_pending_keeps w n now r st :
  t_ba r = BaPending \/ t_ba r = BaSlowDown ->
  fst (run_seq (ciba_grant w n now r) st) = st /\ is_tokens (snd (run_seq (ciba_grant w n now r) st)) = false.
Proof.
  intros HB. unfold ciba_grant.
  destruct (negb _); [cbn; auto|].
  rewrite run_authenticated.
  destruct (snd (run_seq (authenticated w (t_cred r)) st)) as [c|]; [|cbn; auto].
  destruct (is_nil (t_auth_req r)); [cbn; auto|].
  cbn. destruct (find _ (st_asess st)) as [s|]; cbn; [|auto].
  repeat (cbn; try discriminate; try (split; reflexivity); break_inner).
  all: cbn; try (split; reflexivity).
  all: destruct HB; congruence.
Qed.

(* a denial or failure of the embedder's validation ends the request: the session is deleted *)
Lemma ciba_terminal_ends w n now r st s c :
  has_grant GCiba (cf_grants (w_cfg w)) = true -> is_nil (t_auth_req r) = false ->
  snd (run_seq (authenticated w (t_cred r)) st) = Some c ->
  find (fun s => ideq (a_ciba s) (t_auth_req r)) (st_asess st) = Some s ->
  has_grant GCiba (c_grants c) = true -> c_ciba_mode c <> CibaPush -> c_id c = a_client s ->
  geb now (a_expires s) = false -> validate_binding (w_cfg w) c (t_bind r) no_opts = None ->
  t_ba r = BaDeny \/ t_ba r = BaFail ->
  st_asess (fst (run_seq (ciba_grant w n now r) st)) = del_asess (a_id s) (st_asess st) /\
  is_tokens (snd (run_seq (ciba_grant w n now r) st)) = false.
Proof.
  intros HG NN EA EF HC NP EC EX EB HB. unfold ciba_grant. rewrite HG. cbn [negb].
  rewrite run_authenticated, EA, NN. cbn. rewrite EF. cbn. rewrite HC. cbn [negb].
  destruct (c_ciba_mode c) eqn:EM; try congruence;
    rewrite EC; unfold ideq; rewrite N.eqb_refl; cbn [negb]; rewrite EX, EB;
    destruct HB as [HB|HB]; rewrite HB; cbn; auto.
Qed.

(* ---- CIBA notifications are addressed to the session's client, with the session's token ---- *)
Definition notif_ok (w : world) (a : id) (st : store) (nf : notif) : Prop :=
  exists s c, find (fun s => ideq (a_ciba s) a) (st_asess st) = Some s /\
              snd (run_seq (get_client w (a_client s)) st) = Some c /\
              nf_ep nf = c_notif_ep c /\ nf_bearer nf = p_notif_token (a_params s) /\ nf_auth_req nf = a_ciba s.

Lemma notify_success_addressing w n now a hg st nf :
  In nf (snd (snd (run_seq (notify_success w n now a hg) st))) -> notif_ok w a st nf.
Proof.
  unfold notify_success. cbn. destruct (find _ (st_asess st)) as [s|] eqn:EF; cbn; [|tauto].
  rewrite run_get_client.
  destruct (snd (run_seq (get_client w (a_client s)) st)) as [c|] eqn:EA; [|cbn; tauto].
  repeat (cbn; try tauto; break_inner).
  all: cbn; try tauto.
  all: intros [<-|[]]; exists s, c; repeat split; auto.
Qed.
Lemma notify_failure_addressing w a st nf :
  In nf (snd (snd (run_seq (notify_failure w a) st))) -> notif_ok w a st nf.
Proof.
  unfold notify_failure. cbn. destruct (find _ (st_asess st)) as [s|] eqn:EF; cbn; [|tauto].
  rewrite run_get_client.
  destruct (snd (run_seq (get_client w (a_client s)) st)) as [c|] eqn:EA; [|cbn; tauto].
  repeat (cbn; try tauto; break_inner).
  all: cbn; try tauto.
  all: intros [<-|[]]; exists s, c; repeat split; auto.
Qed.
