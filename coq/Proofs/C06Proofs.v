(* C06 — sender-constrained tokens need proof of the bound key or certificate.
   Definitions used by the statements of Props/C06.v and their proofs.
   Everything is about the executable model functions the correspondence runs:
   Pop.validate_jwt / validate_binding / validate_pop / set_pop_*, and the handlers
   Token.userinfo, token_info_from_request, refresh_grant, code_grant, cc_grant, ciba_grant
   under the sequential interpreter run_seq, for every store. *)
From Verif Require Import Base Scope Types Prog Pop Token Authorize System Config Tactics.
Local Open Scope N_scope.

(* ------------------------------------------------------------------ *)
(* identifiers                                                         *)
Lemma is_nil_true x : is_nil x = true <-> x = 0.
Proof. unfold is_nil. apply N.eqb_eq. Qed.
Lemma is_nil_false x : is_nil x = false <-> x <> 0.
Proof. unfold is_nil. apply N.eqb_neq. Qed.
Lemma ideq_true a b : ideq a b = true <-> a = b.
Proof. unfold ideq. apply N.eqb_eq. Qed.
Lemma ideq_false a b : ideq a b = false <-> a <> b.
Proof. unfold ideq. apply N.eqb_neq. Qed.
Lemma nil_or x : x = 0 \/ x <> 0.
Proof. destruct (N.eq_dec x 0); auto. Qed.

(* ------------------------------------------------------------------ *)
(* 1. the decision rule of dpop.ValidateJWT                            *)

(* strutil.NormalizeURL identifies exactly these variants of the request URL *)
Lemma htu_ok_iff v :
  htu_ok v = true <->
  In v [HtuExact; HtuHostCase; HtuSchemeCase; HtuDefaultPort; HtuTrailingSlash; HtuWithQuery; HtuWithFragment].
Proof.
  split.
  - destruct v; cbn; intros H; try discriminate; tauto.
  - cbn. intros H. repeat (destruct H as [<-|H]; [reflexivity|]). destruct H.
Qed.

(* the seven conditions of the property statement, for a proof presented with access token tok
   (0: none) where the key with thumbprint jkt is expected (0: any key) *)
Definition proof_ok (lifetime leeway : Z) (p : dpop_proof) (tok jkt : id) : Prop :=
  (* 1 *) dp_parses p = true /\ dp_typ_ok p = true /\
  (* 2,3 *) (exists k, dp_jwk p = JwkPublic k /\ dp_signer p = k /\ (jkt = 0 \/ k = jkt)) /\
  (* 4 *) (exists age, dp_iat_age p = Some age /\ (age <= lifetime)%Z /\ (- leeway <= age)%Z) /\
  (* 5 *) dp_jti p = true /\
  (* 6 *) dp_htm_ok p = true /\ htu_ok (dp_htu p) = true /\
  (* 7 *) (tok = 0 \/ dp_ath p = tok).

Lemma validate_jwt_iff lifetime leeway p tok jkt :
  validate_jwt lifetime leeway p tok jkt = None <-> proof_ok lifetime leeway p tok jkt.
Proof.
  unfold validate_jwt, proof_ok.
  destruct p as [parses typ jwk signer iat jti htm htu ath]; cbn.
  destruct parses; cbn; [|split; [discriminate|intros (H & _); discriminate]].
  destruct typ; cbn; [|split; [discriminate|intros (_ & H & _); discriminate]].
  destruct jwk as [|k|k]; cbn;
    try (split; [discriminate|intros (_ & _ & (k' & H & _) & _); discriminate]).
  destruct (ideq signer k) eqn:Es; cbn.
  2:{ split; [discriminate|]. intros (_ & _ & (k' & H1 & H2 & _) & _). inversion H1; subst k'.
      apply ideq_false in Es. congruence. }
  apply ideq_true in Es. subst signer.
  destruct iat as [age|]; cbn.
  2:{ split; [discriminate|]. intros (_ & _ & _ & (a & H & _) & _). discriminate. }
  destruct (Z.ltb lifetime age) eqn:El; cbn.
  { split; [discriminate|]. intros (_ & _ & _ & (a & H & H1 & _) & _). inversion H; subst a.
    apply Z.ltb_lt in El. lia. }
  apply Z.ltb_ge in El.
  destruct jti; cbn; [|split; [discriminate|intros (_ & _ & _ & _ & H & _); discriminate]].
  destruct htm; cbn; [|split; [discriminate|intros (_ & _ & _ & _ & _ & H & _); discriminate]].
  destruct (htu_ok htu); cbn; [|split; [discriminate|intros (_ & _ & _ & _ & _ & _ & H & _); discriminate]].
  destruct (is_nil tok) eqn:Et; cbn.
  - apply is_nil_true in Et. subst tok.
    destruct (is_nil jkt) eqn:Ej; cbn.
    + apply is_nil_true in Ej. subst jkt.
      destruct (Z.ltb age (- leeway)) eqn:Ef.
      * split; [discriminate|]. intros (_ & _ & _ & (a & H & _ & H2) & _). inversion H; subst a.
        apply Z.ltb_lt in Ef. lia.
      * apply Z.ltb_ge in Ef. split; [intros _|reflexivity].
        repeat split; eauto; try (exists age; auto).
    + apply is_nil_false in Ej. destruct (ideq k jkt) eqn:Ek; cbn.
      * apply ideq_true in Ek. subst jkt.
        destruct (Z.ltb age (- leeway)) eqn:Ef.
        -- split; [discriminate|]. intros (_ & _ & _ & (a & H & _ & H2) & _). inversion H; subst a.
           apply Z.ltb_lt in Ef. lia.
        -- apply Z.ltb_ge in Ef. split; [intros _|reflexivity].
           repeat split; eauto; try (exists age; auto).
      * apply ideq_false in Ek. split; [discriminate|].
        intros (_ & _ & (k' & H1 & _ & [H|H]) & _); inversion H1; subst; congruence.
  - apply is_nil_false in Et. destruct (ideq ath tok) eqn:Ea; cbn.
    2:{ apply ideq_false in Ea. split; [discriminate|].
        intros (_ & _ & _ & _ & _ & _ & _ & [H|H]); congruence. }
    apply ideq_true in Ea. subst ath.
    destruct (is_nil jkt) eqn:Ej; cbn.
    + apply is_nil_true in Ej. subst jkt.
      destruct (Z.ltb age (- leeway)) eqn:Ef.
      * split; [discriminate|]. intros (_ & _ & _ & (a & H & _ & H2) & _). inversion H; subst a.
        apply Z.ltb_lt in Ef. lia.
      * apply Z.ltb_ge in Ef. split; [intros _|reflexivity].
        repeat split; eauto; try (exists age; auto).
    + apply is_nil_false in Ej. destruct (ideq k jkt) eqn:Ek; cbn.
      * apply ideq_true in Ek. subst jkt.
        destruct (Z.ltb age (- leeway)) eqn:Ef.
        -- split; [discriminate|]. intros (_ & _ & _ & (a & H & _ & H2) & _). inversion H; subst a.
           apply Z.ltb_lt in Ef. lia.
        -- apply Z.ltb_ge in Ef. split; [intros _|reflexivity].
           repeat split; eauto; try (exists age; auto).
      * apply ideq_false in Ek. split; [discriminate|].
        intros (_ & _ & (k' & H1 & _ & [H|H]) & _); inversion H1; subst; congruence.
Qed.

(* what an accepted proof says about the key: it embeds a public key, is signed by that very
   key, and that key is the expected one where one is expected *)
Lemma accepted_key lifetime leeway p tok jkt :
  validate_jwt lifetime leeway p tok jkt = None ->
  exists k, dp_jwk p = JwkPublic k /\ dp_signer p = k /\ jwk_thumb (dp_jwk p) = k /\ (jkt <> 0 -> k = jkt).
Proof.
  intros H. apply validate_jwt_iff in H. destruct H as (_ & _ & (k & H1 & H2 & H3) & _).
  exists k. rewrite H1. repeat split; auto. intros Hn. destruct H3; congruence.
Qed.

(* a proof accepted for an expected key / token is accepted when nothing is expected *)
Lemma accepted_weaken lifetime leeway p tok jkt :
  validate_jwt lifetime leeway p tok jkt = None -> validate_jwt lifetime leeway p 0 0 = None.
Proof.
  rewrite !validate_jwt_iff. unfold proof_ok.
  intros (H1 & H2 & (k & H3 & H4 & _) & H5 & H6 & H7 & H8 & _).
  repeat split; auto. exists k; auto.
Qed.

(* ------------------------------------------------------------------ *)
(* 2. proof of possession at use: token.ValidatePoP                    *)

(* the request proves possession of the key with thumbprint jkt and of certificate x5t *)
Definition proves (b : bind_in) (tok jkt x5t : id) : Prop :=
  (jkt <> 0 -> exists p, b_dpop b = Some p /\ validate_jwt jwt_lifetime jwt_leeway p tok jkt = None) /\
  (x5t <> 0 -> b_cert b = x5t).

Lemma validate_pop_iff b tok jkt x5t : validate_pop b tok jkt x5t = None <-> proves b tok jkt x5t.
Proof.
  unfold validate_pop, proves.
  destruct (is_nil jkt) eqn:Ej.
  - apply is_nil_true in Ej. subst jkt.
    destruct (is_nil x5t) eqn:Ex.
    + apply is_nil_true in Ex. subst x5t. split; [intros _; split; congruence|reflexivity].
    + apply is_nil_false in Ex. destruct (is_nil (b_cert b)) eqn:Ec.
      * apply is_nil_true in Ec. split; [discriminate|]. intros (_ & H). specialize (H Ex). congruence.
      * destruct (ideq x5t (b_cert b)) eqn:Ee; cbn.
        -- apply ideq_true in Ee. split; [intros _; split; [congruence|auto]|reflexivity].
        -- apply ideq_false in Ee. split; [discriminate|]. intros (_ & H). specialize (H Ex). congruence.
  - apply is_nil_false in Ej. destruct (b_dpop b) as [p|].
    + destruct (validate_jwt jwt_lifetime jwt_leeway p tok jkt) eqn:Ev.
      * split; [discriminate|]. intros (H & _). destruct (H Ej) as (p' & H1 & H2). inversion H1; subst. congruence.
      * destruct (is_nil x5t) eqn:Ex.
        -- apply is_nil_true in Ex. subst x5t. split; [intros _; split; [eauto|congruence]|reflexivity].
        -- apply is_nil_false in Ex. destruct (is_nil (b_cert b)) eqn:Ec.
           ++ apply is_nil_true in Ec. split; [discriminate|]. intros (_ & H). specialize (H Ex). congruence.
           ++ destruct (ideq x5t (b_cert b)) eqn:Ee; cbn.
              ** apply ideq_true in Ee. split; [intros _; split; eauto|reflexivity].
              ** apply ideq_false in Ee. split; [discriminate|]. intros (_ & H). specialize (H Ex). congruence.
    + split; [discriminate|]. intros (H & _). destruct (H Ej) as (p' & H1 & _). discriminate.
Qed.

(* ------------------------------------------------------------------ *)
(* 3. binding rules at issuance: token.ValidateBinding                 *)

Lemma vb_split cfg c b o :
  validate_binding cfg c b o = None ->
  validate_binding_dpop cfg c b o = None /\ validate_binding_tls cfg c b o = None /\
  validate_binding_required cfg b = None.
Proof.
  unfold validate_binding. destruct (validate_binding_dpop cfg c b o); [discriminate|].
  destruct (validate_binding_tls cfg c b o); [discriminate|]. auto.
Qed.

Lemma vb_dpop_some cfg c b o p :
  validate_binding_dpop cfg c b o = None -> cf_dpop_enabled cfg = true -> b_dpop b = Some p ->
  validate_jwt jwt_lifetime jwt_leeway p 0 (bo_dpop_jkt o) = None.
Proof. unfold validate_binding_dpop. intros H He Hp. rewrite He, Hp in H. exact H. Qed.

Lemma vb_dpop_required cfg c b o :
  validate_binding_dpop cfg c b o = None -> cf_dpop_enabled cfg = true ->
  (cf_dpop_required cfg = true \/ c_dpop_required c = true \/ bo_dpop_required o = true) ->
  exists p, b_dpop b = Some p.
Proof.
  unfold validate_binding_dpop. intros H He Hr. rewrite He in H. cbn in H.
  destruct (b_dpop b) as [p|]; [eauto|].
  destruct (cf_dpop_required cfg); [discriminate|]. destruct (c_dpop_required c); [discriminate|].
  destruct (bo_dpop_required o); [discriminate|]. cbn in H. destruct Hr as [Hr|[Hr|Hr]]; discriminate.
Qed.

Lemma vb_tls_required cfg c b o :
  validate_binding_tls cfg c b o = None -> cf_tls_binding_enabled cfg = true ->
  (cf_tls_binding_required cfg = true \/ c_tls_required c = true \/ bo_tls_required o = true) ->
  b_cert b <> 0.
Proof.
  unfold validate_binding_tls. intros H He Hr. rewrite He in H. cbn in H.
  intros Hc. apply is_nil_true in Hc. rewrite Hc in H. cbn in H.
  destruct (cf_tls_binding_required cfg); [discriminate|]. destruct (c_tls_required c); [discriminate|].
  destruct (bo_tls_required o); [discriminate|]. destruct Hr as [Hr|[Hr|Hr]]; discriminate.
Qed.

Lemma vb_tls_thumb cfg c b o :
  validate_binding_tls cfg c b o = None -> cf_tls_binding_enabled cfg = true ->
  bo_tls_thumb o <> 0 -> b_cert b = bo_tls_thumb o.
Proof.
  unfold validate_binding_tls. intros H He Hr. rewrite He in H. cbn in H.
  destruct (is_nil (b_cert b) && _)%bool; [discriminate|].
  apply is_nil_false in Hr. rewrite Hr in H. cbn in H.
  destruct (ideq (bo_tls_thumb o) (b_cert b)) eqn:E; [|discriminate].
  apply ideq_true in E. auto.
Qed.

Lemma vb_required cfg b :
  validate_binding_required cfg b = None -> cf_binding_required cfg = true ->
  (cf_dpop_enabled cfg = true /\ exists p, b_dpop b = Some p) \/
  (cf_tls_binding_enabled cfg = true /\ b_cert b <> 0).
Proof.
  unfold validate_binding_required. intros H Hr. rewrite Hr in H. cbn in H.
  destruct (cf_dpop_enabled cfg); cbn in H.
  - destruct (b_dpop b) as [p|]; cbn in H; [left; eauto|].
    destruct (cf_tls_binding_enabled cfg); cbn in H; [|discriminate].
    destruct (is_nil (b_cert b)) eqn:E; [discriminate|]. apply is_nil_false in E. right; auto.
  - destruct (cf_tls_binding_enabled cfg); cbn in H; [|discriminate].
    destruct (is_nil (b_cert b)) eqn:E; [discriminate|]. apply is_nil_false in E. right; auto.
Qed.

(* a request's accompaniment is well formed when the key a proof embeds has a non-empty
   thumbprint (0 is the empty string; a SHA-256 thumbprint is 43 characters) *)
Definition bind_wf (b : bind_in) : Prop :=
  forall p k, b_dpop b = Some p -> dp_jwk p = JwkPublic k -> k <> 0.

(* ------------------------------------------------------------------ *)
(* 4. running handlers on a store                                      *)

Lemma run_seq_bind {A B} (p : prog A) (f : A -> prog B) : forall st,
  run_seq (bind p f) st = let '(st1, a) := run_seq p st in run_seq (f a) st1.
Proof.
  induction p as [a|c k IH|o p IH]; intros st; cbn; auto.
  destruct (exec c st) as [st1 r]. apply IH.
Qed.

(* ctx.Client: static clients first, then the client store *)
Definition resolve (w : world) (st : store) (i : id) : option client :=
  match find_client i (w_static w) with
  | Some c => Some c
  | None => find_client i (st_clients st)
  end.

(* the client a request authenticates as *)
Definition authn (w : world) (st : store) (cr : cred) : option client :=
  if is_nil (cr_id cr) then None else
  match resolve w st (cr_id cr) with
  | Some c => if orb (c_public c) (cr_ok cr) then Some c else None
  | None => None
  end.

Lemma run_get_client w i st : run_seq (get_client w i) st = (st, resolve w st i).
Proof.
  unfold get_client, resolve. destruct (find_client i (w_static w)); cbn; auto.
  destruct (find_client i (st_clients st)); reflexivity.
Qed.

Lemma run_authenticated w cr st : run_seq (authenticated w cr) st = (st, authn w st cr).
Proof.
  unfold authenticated, authn. destruct (is_nil (cr_id cr)); cbn; auto.
  rewrite run_seq_bind, run_get_client. destruct (resolve w st (cr_id cr)) as [c|]; cbn; auto.
  destruct (c_public c || cr_ok cr)%bool; reflexivity.
Qed.

Lemma find_In {X} (f : X -> bool) l x : find f l = Some x -> In x l /\ f x = true.
Proof. intros H. apply find_some in H. exact H. Qed.

Lemma with_refresh_jkt n now cfg c g : g_jkt (with_refresh n now cfg c g) = g_jkt g.
Proof. unfold with_refresh. destruct (should_issue_refresh cfg c (g_type g) (g_active g)); reflexivity. Qed.
Lemma with_refresh_x5t n now cfg c g : g_x5t (with_refresh n now cfg c g) = g_x5t g.
Proof. unfold with_refresh. destruct (should_issue_refresh cfg c (g_type g) (g_active g)); reflexivity. Qed.
Lemma with_refresh_id n now cfg c g : g_id (with_refresh n now cfg c g) = g_id g.
Proof. unfold with_refresh. destruct (should_issue_refresh cfg c (g_type g) (g_active g)); reflexivity. Qed.

(* ------------------------------------------------------------------ *)
(* 5. use of a bound token                                             *)

Lemma userinfo_needs_proof w now r st st' sub :
  run_seq (userinfo w now r) st = (st', OUserInfo sub) ->
  exists tid g, extract_id (u_tok r) = Some tid /\
    find (fun g => ideq (g_token g) tid) (st_gsess st) = Some g /\
    proves (u_bind r) (ptok_id (u_tok r)) (g_jkt g) (g_x5t g).
Proof.
  unfold userinfo. intros H.
  destruct (negb (u_has_header r)); [discriminate|].
  destruct (extract_id (u_tok r)) as [tid|]; [|discriminate].
  cbn in H. destruct (find (fun g => ideq (g_token g) tid) (st_gsess st)) as [g|] eqn:Ef; cbn in H; [|discriminate].
  destruct (geb now (g_last_exp g)); [discriminate|].
  destruct (negb (contains_openid (g_active g))); [discriminate|].
  destruct (validate_pop (u_bind r) (ptok_id (u_tok r)) (g_jkt g) (g_x5t g)) eqn:Ev; [discriminate|].
  exists tid, g. repeat split; auto; apply validate_pop_iff in Ev; apply Ev.
Qed.

Lemma run_introspection_info now p st :
  exists i, run_seq (introspection_info now p) st = (st, i) /\
    (in_active i = true -> exists g, In g (st_gsess st) /\ in_grant i = g_id g /\ in_jkt i = g_jkt g /\ in_x5t i = g_x5t g).
Proof.
  unfold introspection_info. destruct (classify p) as [|i|i]; cbn.
  - eexists; split; [reflexivity|]. cbn. discriminate.
  - destruct (find (fun g => ideq (g_token g) i) (st_gsess st)) as [g|] eqn:Ef; cbn.
    + destruct (geb now (g_last_exp g)).
      * eexists; split; [reflexivity|]. cbn. discriminate.
      * eexists; split; [reflexivity|]. cbn. intros _. apply find_In in Ef. exists g. tauto.
    + eexists; split; [reflexivity|]. cbn. discriminate.
  - destruct (find (fun g => ideq (g_refresh g) i) (st_gsess st)) as [g|] eqn:Ef; cbn.
    + destruct (geb now (g_expires g)).
      * eexists; split; [reflexivity|]. cbn. discriminate.
      * eexists; split; [reflexivity|]. cbn. intros _. apply find_In in Ef. exists g. tauto.
    + eexists; split; [reflexivity|]. cbn. discriminate.
Qed.

Lemma token_info_req_needs_proof now r st st' i :
  run_seq (token_info_from_request now r) st = (st', OIntro i) -> in_active i = true ->
  exists g, In g (st_gsess st) /\ in_grant i = g_id g /\ in_jkt i = g_jkt g /\ in_x5t i = g_x5t g /\
    proves (u_bind r) (ptok_id (u_tok r)) (g_jkt g) (g_x5t g).
Proof.
  unfold token_info_from_request. intros H Ha.
  destruct (negb (u_has_header r)); [discriminate|].
  rewrite run_seq_bind in H.
  destruct (run_introspection_info now (u_tok r) st) as (i0 & Hr & Hg). rewrite Hr in H.
  destruct (negb (in_active i0)) eqn:Eact; cbn in H.
  - inversion H; subst i. discriminate.
  - apply negb_false_iff in Eact. destruct (Hg Eact) as (g & Hin & H1 & H2 & H3).
    destruct (is_nil (in_jkt i0) && is_nil (in_x5t i0))%bool eqn:En; cbn in H.
    + inversion H; subst i0. subst st'. exists g.
      apply andb_true_iff in En. destruct En as [En1 En2]. apply is_nil_true in En1, En2.
      split; [exact Hin|]. split; [exact H1|]. split; [exact H2|]. split; [exact H3|].
      unfold proves. split; intros Hn; exfalso; congruence.
    + destruct (validate_pop (u_bind r) (ptok_id (u_tok r)) (in_jkt i0) (in_x5t i0)) eqn:Ev; cbn in H; [discriminate|].
      inversion H; subst i0. subst st'. exists g.
      split; [exact Hin|]. split; [exact H1|]. split; [exact H2|]. split; [exact H3|].
      apply validate_pop_iff in Ev. rewrite <- H2, <- H3. exact Ev.
Qed.

(* what a confidential client must present when it refreshes a bound grant: a valid proof for
   some key (token.validateRefreshTokenBinding: "a DPoP JWT for a different key can be used") and
   the very certificate the grant is bound to *)
Definition rebinds (cfg : config) (b : bind_in) (g : gsession) : Prop :=
  (cf_dpop_enabled cfg = true -> g_jkt g <> 0 ->
     exists p, b_dpop b = Some p /\ validate_jwt jwt_lifetime jwt_leeway p 0 0 = None) /\
  (cf_tls_binding_enabled cfg = true -> g_x5t g <> 0 -> b_cert b = g_x5t g).

Lemma refresh_binding_spec cfg c b g :
  refresh_binding cfg c b g = None ->
  (c_public c = true -> proves b 0 (g_jkt g) (g_x5t g)) /\
  (c_public c = false -> rebinds cfg b g).
Proof.
  unfold refresh_binding. intros H. destruct (c_public c).
  - split; [intros _; apply validate_pop_iff; exact H|discriminate].
  - split; [discriminate|intros _]. unfold rebinds.
    destruct (is_nil (g_jkt g)) eqn:Ej.
    + apply is_nil_true in Ej. split; [congruence|].
      destruct (is_nil (g_x5t g)) eqn:Ex; [apply is_nil_true in Ex; congruence|].
      intros He Hx. eapply vb_tls_thumb in H; eauto.
    + destruct (validate_binding_dpop cfg c b (mkBindOpts false 0 true 0)) eqn:Ed; [discriminate|].
      split.
      * intros He _. destruct (vb_dpop_required _ _ _ _ Ed He) as (p & Hp); [cbn; auto|].
        exists p. split; auto. eapply vb_dpop_some in Ed; eauto.
      * destruct (is_nil (g_x5t g)) eqn:Ex; [apply is_nil_true in Ex; congruence|].
        intros He Hx. eapply vb_tls_thumb in H; eauto.
Qed.

Lemma refresh_needs_proof w n now r st st' t :
  run_seq (refresh_grant w n now r) st = (st', OTokens t) ->
  exists c g, authn w st (t_cred r) = Some c /\
    find (fun g => ideq (g_refresh g) (t_refresh r)) (st_gsess st) = Some g /\
    (c_public c = true -> proves (t_bind r) 0 (g_jkt g) (g_x5t g)) /\
    (c_public c = false -> rebinds (w_cfg w) (t_bind r) g).
Proof.
  unfold refresh_grant. intros H.
  destruct (negb (has_grant GRefreshToken (cf_grants (w_cfg w)))); [discriminate|].
  destruct (is_nil (t_refresh r)); [discriminate|].
  rewrite run_seq_bind, run_authenticated in H.
  destruct (authn w st (t_cred r)) as [c|] eqn:Ea; [|discriminate].
  cbn in H. destruct (find (fun g => ideq (g_refresh g) (t_refresh r)) (st_gsess st)) as [g|] eqn:Ef; cbn in H; [|discriminate].
  destruct (negb (has_grant GRefreshToken (c_grants c))); [discriminate|].
  destruct (negb (ideq (c_id c) (g_client g))); [discriminate|].
  destruct (geb now (g_expires g)); [discriminate|].
  destruct (refresh_binding (w_cfg w) c (t_bind r) g) eqn:Eb; [discriminate|].
  exists c, g. apply refresh_binding_spec in Eb. tauto.
Qed.

(* ------------------------------------------------------------------ *)
(* 6. issuance: what a successful token response of the three issuing grants implies *)

(* the confirmation in the response is what setPoP computes from the request, and it is the
   confirmation of the grant session the operation wrote *)
Definition issued (cfg : config) (b : bind_in) (n : nat) (st' : store) (t : tresp) : Prop :=
  tr_jkt t = set_pop_jkt cfg b /\ tr_x5t t = set_pop_x5t cfg b /\
  tr_dpop t = negb (is_nil (tr_jkt t)) /\
  exists g, In g (st_gsess st') /\ g_id g = mint n KGrantId /\ g_jkt g = tr_jkt t /\ g_x5t g = tr_x5t t.

Lemma cc_grant_success w n now r st st' t :
  run_seq (cc_grant w n now r) st = (st', OTokens t) ->
  exists c, authn w st (t_cred r) = Some c /\
    validate_binding (w_cfg w) c (t_bind r) no_opts = None /\
    issued (w_cfg w) (t_bind r) n st' t.
Proof.
  unfold cc_grant. intros H.
  destruct (negb (has_grant GClientCredentials (cf_grants (w_cfg w)))); [discriminate|].
  rewrite run_seq_bind, run_authenticated in H.
  destruct (authn w st (t_cred r)) as [c|] eqn:Ea; [|discriminate].
  destruct (negb (has_grant GClientCredentials (c_grants c))); [discriminate|].
  destruct (validate_binding (w_cfg w) c (t_bind r) no_opts) eqn:Ev; [discriminate|].
  destruct (negb (are_scopes_allowed (c_scopes c) (cf_scopes (w_cfg w)) (t_scope r))); [discriminate|].
  destruct (negb (validate_resources (w_cfg w) (cf_resources (w_cfg w)) (t_resources r))); [discriminate|].
  destruct (negb (validate_details_types (w_cfg w) (t_auth_details r))); [discriminate|].
  destruct (hg_result (t_hg r)); [discriminate|].
  destruct (make_token n c GClientCredentials) as [tv tid].
  cbn in H. inversion H; subst st' t; clear H.
  exists c. repeat split; auto. cbn. eexists; split; [left; reflexivity|]. cbn. auto.
Qed.

Definition code_opts (s : asession) : bind_opts :=
  let jkt := if is_nil (a_jkt s) then p_dpop_jkt (a_params s) else a_jkt s in
  mkBindOpts (negb (is_nil (a_x5t s))) (a_x5t s) (negb (is_nil jkt)) jkt.

Lemma code_grant_success w n now r st st' t :
  run_seq (code_grant w n now r) st = (st', OTokens t) ->
  exists c s, authn w st (t_cred r) = Some c /\
    find (fun s => ideq (a_code s) (t_code r)) (st_asess st) = Some s /\
    validate_binding (w_cfg w) c (t_bind r) (code_opts s) = None /\
    issued (w_cfg w) (t_bind r) n st' t.
Proof.
  unfold code_grant. intros H.
  destruct (negb (has_grant GAuthorizationCode (cf_grants (w_cfg w)))); [discriminate|].
  destruct (is_nil (t_code r)); [discriminate|].
  rewrite run_seq_bind, run_authenticated in H.
  destruct (authn w st (t_cred r)) as [c|] eqn:Ea; [|discriminate].
  cbn in H. destruct (find (fun s => ideq (a_code s) (t_code r)) (st_asess st)) as [s|] eqn:Ef; cbn in H.
  2:{ destruct (find (fun g => ideq (g_code g) (t_code r)) (st_gsess st)); cbn in H; discriminate. }
  destruct (negb (has_grant GAuthorizationCode (c_grants c))); [discriminate|].
  destruct (negb (ideq (c_id c) (a_client s))); [discriminate|].
  destruct (geb now (a_expires s)); [discriminate|].
  fold (code_opts s) in H.
  destruct (validate_binding (w_cfg w) c (t_bind r) (code_opts s)) eqn:Ev; [discriminate|].
  destruct (negb (seqb (p_redirect (a_params s)) (t_redirect r))); [discriminate|].
  destruct (validate_pkce (w_cfg w) (t_verifier r) s); [discriminate|].
  destruct (negb (validate_resources (w_cfg w) (a_granted_res s) (t_resources r))); [discriminate|].
  destruct (negb (validate_details (w_cfg w) (a_granted_details s) (t_auth_details r))); [discriminate|].
  destruct (negb (contains_all_scopes (a_granted s) (t_scope r))); [discriminate|].
  destruct (hg_result (t_hg r)); [discriminate|].
  destruct (make_token n c GAuthorizationCode) as [tv tid].
  cbn in H. inversion H; subst st' t; clear H.
  exists c, s. repeat split; auto; cbn; rewrite ?with_refresh_jkt, ?with_refresh_x5t; auto.
  eexists; split; [left; reflexivity|]. rewrite with_refresh_id, with_refresh_jkt, with_refresh_x5t. cbn. auto.
Qed.

Lemma ciba_grant_success w n now r st st' t :
  run_seq (ciba_grant w n now r) st = (st', OTokens t) ->
  exists c, authn w st (t_cred r) = Some c /\
    validate_binding (w_cfg w) c (t_bind r) no_opts = None /\
    issued (w_cfg w) (t_bind r) n st' t.
Proof.
  unfold ciba_grant. intros H.
  destruct (negb (has_grant GCiba (cf_grants (w_cfg w)))); [discriminate|].
  rewrite run_seq_bind, run_authenticated in H.
  destruct (authn w st (t_cred r)) as [c|] eqn:Ea; [|discriminate].
  destruct (is_nil (t_auth_req r)); [discriminate|].
  cbn in H. destruct (find (fun s => ideq (a_ciba s) (t_auth_req r)) (st_asess st)) as [s|] eqn:Ef; cbn in H; [|discriminate].
  destruct (negb (has_grant GCiba (c_grants c))); [discriminate|].
  destruct (c_ciba_mode c) eqn:Em; try discriminate;
  (destruct (negb (ideq (c_id c) (a_client s))); [discriminate|];
   destruct (geb now (a_expires s)); [discriminate|];
   destruct (validate_binding (w_cfg w) c (t_bind r) no_opts) eqn:Ev; [discriminate|];
   destruct (t_ba r); cbn in H; try discriminate;
   (   destruct (negb (validate_resources (w_cfg w) _ (t_resources r))); [discriminate|];
   destruct (negb (validate_details (w_cfg w) _ (t_auth_details r))); [discriminate|];
   destruct (negb (contains_all_scopes _ (t_scope r))); [discriminate|];
   destruct (hg_result (t_hg r)); [discriminate|];
   destruct (make_token n c GCiba) as [tv tid];
   cbn in H; inversion H; subst st' t; clear H;
   exists c; repeat split; auto; cbn; rewrite ?with_refresh_jkt, ?with_refresh_x5t; auto;
   eexists; split; [left; reflexivity|]; rewrite with_refresh_id, with_refresh_jkt, with_refresh_x5t; cbn; auto)).
Qed.

(* jwt-bearer: the client is the authenticated one or - nobody named, anonymous use allowed - the
   anonymous client; ValidateBinding is run for that client *)
Lemma run_jwt_bearer_client w cr st :
  run_seq (jwt_bearer_client w cr) st =
  (st, match authn w st cr with
       | Some c => Some c
       | None => if andb (is_nil (cr_id cr)) (negb (cf_jwt_bearer_authn_required (w_cfg w)))
                 then Some (anonymous_client (w_cfg w)) else None end).
Proof.
  unfold jwt_bearer_client. rewrite run_seq_bind, run_authenticated. destruct (authn w st cr); cbn; auto.
  destruct (_ && _)%bool; reflexivity.
Qed.
Lemma jwt_bearer_grant_success w n now r st st' t :
  run_seq (jwt_bearer_grant w n now r) st = (st', OTokens t) ->
  exists c, (authn w st (t_cred r) = Some c \/
             (authn w st (t_cred r) = None /\ c = anonymous_client (w_cfg w) /\
              cr_id (t_cred r) = 0 /\ cf_jwt_bearer_authn_required (w_cfg w) = false)) /\
    validate_binding (w_cfg w) c (t_bind r) no_opts = None /\
    issued (w_cfg w) (t_bind r) n st' t.
Proof.
  unfold jwt_bearer_grant. intros H.
  destruct (negb (has_grant GJwtBearer (cf_grants (w_cfg w)))); [discriminate|].
  rewrite run_seq_bind, run_jwt_bearer_client in H.
  assert (X : exists c, (match authn w st (t_cred r) with
       | Some c => Some c
       | None => if andb (is_nil (cr_id (t_cred r))) (negb (cf_jwt_bearer_authn_required (w_cfg w)))
                 then Some (anonymous_client (w_cfg w)) else None end) = Some c /\
       (authn w st (t_cred r) = Some c \/
        (authn w st (t_cred r) = None /\ c = anonymous_client (w_cfg w) /\
         cr_id (t_cred r) = 0 /\ cf_jwt_bearer_authn_required (w_cfg w) = false))).
  { destruct (authn w st (t_cred r)) as [c|] eqn:Ea.
    - exists c. auto.
    - destruct (is_nil (cr_id (t_cred r))) eqn:E1; cbn in *; [|discriminate].
      destruct (cf_jwt_bearer_authn_required (w_cfg w)) eqn:E2; cbn in *; [discriminate|].
      exists (anonymous_client (w_cfg w)). split; auto. right. repeat split; auto. apply N.eqb_eq in E1. exact E1. }
  destruct X as (c & Ec & Hc). rewrite Ec in H. clear Ec.
  destruct (negb (has_grant GJwtBearer (c_grants c))); [discriminate|].
  destruct (validate_binding (w_cfg w) c (t_bind r) no_opts) eqn:Ev; [discriminate|].
  destruct (t_assertion r) as [| |sub]; try discriminate;
  (destruct (negb (are_scopes_allowed (c_scopes c) (cf_scopes (w_cfg w)) (t_scope r))); [discriminate|];
   destruct (negb (validate_resources (w_cfg w) (cf_resources (w_cfg w)) (t_resources r))); [discriminate|];
   destruct (negb (validate_details_types (w_cfg w) (t_auth_details r))); [discriminate|]);
  try discriminate.
  destruct (hg_result (t_hg r)); [discriminate|].
  destruct (make_token n c GJwtBearer) as [tv tid].
  cbn in H. inversion H; subst st' t; clear H.
  exists c. split; [exact Hc|]. repeat split; auto; cbn; rewrite ?with_refresh_jkt, ?with_refresh_x5t; auto.
  eexists; split; [left; reflexivity|]. rewrite with_refresh_id, with_refresh_jkt, with_refresh_x5t. cbn. auto.
Qed.

(* the three issuing grants of the token endpoint, uniformly *)
Definition issuing (h : world -> nat -> Z -> treq -> prog out) : Prop :=
  h = cc_grant \/ h = code_grant \/ h = ciba_grant.

Lemma issuing_success h w n now r st st' t :
  issuing h -> run_seq (h w n now r) st = (st', OTokens t) ->
  exists c o, authn w st (t_cred r) = Some c /\
    validate_binding (w_cfg w) c (t_bind r) o = None /\ issued (w_cfg w) (t_bind r) n st' t.
Proof.
  intros Hi H. destruct Hi as [-> | [-> | ->]].
  - apply cc_grant_success in H. destruct H as (c & H). exists c, no_opts. exact H.
  - apply code_grant_success in H. destruct H as (c & s & H1 & _ & H2). exists c, (code_opts s). auto.
  - apply ciba_grant_success in H. destruct H as (c & H). exists c, no_opts. exact H.
Qed.

(* ------------------------------------------------------------------ *)
(* 7. the confirmation is truthful                                     *)

Lemma set_pop_jkt_nonzero cfg b :
  set_pop_jkt cfg b <> 0 -> cf_dpop_enabled cfg = true /\ exists p, b_dpop b = Some p /\ set_pop_jkt cfg b = jwk_thumb (dp_jwk p).
Proof.
  unfold set_pop_jkt. destruct (b_dpop b) as [p|]; [|congruence].
  destruct (cf_dpop_enabled cfg); [|congruence]. eauto.
Qed.
Lemma set_pop_x5t_nonzero cfg b :
  set_pop_x5t cfg b <> 0 -> cf_tls_binding_enabled cfg = true /\ set_pop_x5t cfg b = b_cert b.
Proof. unfold set_pop_x5t. destruct (cf_tls_binding_enabled cfg); [auto|congruence]. Qed.

Lemma cnf_truthful_core cfg c b o n st' t :
  validate_binding cfg c b o = None -> issued cfg b n st' t ->
  (tr_jkt t <> 0 ->
     exists p k, b_dpop b = Some p /\ dp_jwk p = JwkPublic k /\ dp_signer p = k /\
                 validate_jwt jwt_lifetime jwt_leeway p 0 0 = None /\ tr_jkt t = k) /\
  (tr_x5t t <> 0 -> tr_x5t t = b_cert b) /\
  tr_dpop t = negb (is_nil (tr_jkt t)) /\
  exists g, In g (st_gsess st') /\ g_id g = mint n KGrantId /\ g_jkt g = tr_jkt t /\ g_x5t g = tr_x5t t.
Proof.
  intros Hv (Hj & Hx & Hd & Hg).
  apply vb_split in Hv. destruct Hv as (Hvd & Hvt & Hvr).
  repeat split; auto.
  - intros Hn. rewrite Hj in Hn. destruct (set_pop_jkt_nonzero _ _ Hn) as (He & p & Hp & Hs).
    pose proof (vb_dpop_some _ _ _ _ _ Hvd He Hp) as Hv.
    destruct (accepted_key _ _ _ _ _ Hv) as (k & H1 & H2 & H3 & _).
    exists p, k. repeat split; auto.
    + eapply accepted_weaken; eauto.
    + rewrite Hj, Hs. exact H3.
  - intros Hn. rewrite Hx in Hn |- *. apply set_pop_x5t_nonzero in Hn. tauto.
Qed.

(* the four grants that write a new grant session: the three above and jwt-bearer *)
Definition issuing4 (h : world -> nat -> Z -> treq -> prog out) : Prop :=
  h = cc_grant \/ h = code_grant \/ h = ciba_grant \/ h = jwt_bearer_grant.

Lemma cnf_truthful_lemma h w n now r st st' t :
  issuing4 h -> run_seq (h w n now r) st = (st', OTokens t) ->
  (tr_jkt t <> 0 ->
     exists p k, b_dpop (t_bind r) = Some p /\ dp_jwk p = JwkPublic k /\ dp_signer p = k /\
                 validate_jwt jwt_lifetime jwt_leeway p 0 0 = None /\ tr_jkt t = k) /\
  (tr_x5t t <> 0 -> tr_x5t t = b_cert (t_bind r)) /\
  tr_dpop t = negb (is_nil (tr_jkt t)) /\
  exists g, In g (st_gsess st') /\ g_id g = mint n KGrantId /\ g_jkt g = tr_jkt t /\ g_x5t g = tr_x5t t.
Proof.
  intros Hi H. destruct Hi as [Hi|[Hi|[Hi|Hi]]].
  - destruct (issuing_success _ _ _ _ _ _ _ _ (or_introl Hi) H) as (c & o & _ & Hv & Hiss). eapply cnf_truthful_core; eauto.
  - destruct (issuing_success _ _ _ _ _ _ _ _ (or_intror (or_introl Hi)) H) as (c & o & _ & Hv & Hiss). eapply cnf_truthful_core; eauto.
  - destruct (issuing_success _ _ _ _ _ _ _ _ (or_intror (or_intror Hi)) H) as (c & o & _ & Hv & Hiss). eapply cnf_truthful_core; eauto.
  - subst h. destruct (jwt_bearer_grant_success _ _ _ _ _ _ _ H) as (c & _ & Hv & Hiss). eapply cnf_truthful_core; eauto.
Qed.

(* ------------------------------------------------------------------ *)
(* 8. a binding announced earlier in the flow is enforced at redemption *)

Lemma announced_binding_lemma w n now r st st' t :
  run_seq (code_grant w n now r) st = (st', OTokens t) ->
  exists s, find (fun s => ideq (a_code s) (t_code r)) (st_asess st) = Some s /\
    (cf_dpop_enabled (w_cfg w) = true ->
     forall jkt, jkt = (if is_nil (a_jkt s) then p_dpop_jkt (a_params s) else a_jkt s) -> jkt <> 0 ->
       exists p, b_dpop (t_bind r) = Some p /\ dp_jwk p = JwkPublic jkt /\ dp_signer p = jkt /\
                 validate_jwt jwt_lifetime jwt_leeway p 0 jkt = None /\ tr_jkt t = jkt) /\
    (cf_tls_binding_enabled (w_cfg w) = true -> a_x5t s <> 0 ->
       b_cert (t_bind r) = a_x5t s /\ tr_x5t t = a_x5t s).
Proof.
  intros H. apply code_grant_success in H. destruct H as (c & s & Ha & Hf & Hv & (Hj & Hx & _)).
  exists s. split; auto. apply vb_split in Hv. destruct Hv as (Hvd & Hvt & _). split.
  - intros He jkt -> Hn.
    destruct (vb_dpop_required _ _ _ _ Hvd He) as (p & Hp).
    { right; right. unfold code_opts; cbn. apply negb_true_iff. apply is_nil_false. exact Hn. }
    pose proof (vb_dpop_some _ _ _ _ _ Hvd He Hp) as Hv. unfold code_opts in Hv; cbn in Hv.
    destruct (accepted_key _ _ _ _ _ Hv) as (k & H1 & H2 & H3 & H4). specialize (H4 Hn). rewrite H4 in H1, H2, H3.
    exists p. split; [exact Hp|]. split; [exact H1|]. split; [exact H2|]. split; [exact Hv|].
    rewrite Hj. unfold set_pop_jkt. rewrite Hp, He. exact H3.
  - intros He Hn. pose proof (vb_tls_thumb _ _ _ _ Hvt He) as Hc. unfold code_opts in Hc; cbn in Hc.
    specialize (Hc Hn). split; auto. rewrite Hx. unfold set_pop_x5t. rewrite He. exact Hc.
Qed.

(* ------------------------------------------------------------------ *)
(* 9. required binding: no unbound token                               *)

(* every configuration the option API can build: "required" implies "enabled" *)
Definition req_en (c : config) : Prop :=
  (cf_dpop_required c = true -> cf_dpop_enabled c = true) /\
  (cf_tls_binding_required c = true -> cf_tls_binding_enabled c = true).

Lemma apply_opt_req_en o c : req_en c -> req_en (apply_opt o c).
Proof. unfold req_en. intros [H1 H2]. destruct o; cbn; auto. Qed.

Lemma fold_req_en opts : forall c, req_en c -> req_en (fold_left (fun c o => apply_opt o c) opts c).
Proof. induction opts as [|o opts IH]; cbn; auto. intros c H. apply IH. apply apply_opt_req_en. exact H. Qed.

Lemma build_req_en prof opts cfg : build prof opts = Some cfg -> req_en cfg.
Proof.
  unfold build. set (c0 := fold_left _ opts (base_config prof)).
  assert (H0 : req_en c0). { apply fold_req_en. unfold req_en, base_config; cbn. split; discriminate. }
  destruct (valid_config (set_defaults c0)); [|discriminate]. intros H; inversion H; subst cfg; clear H.
  unfold req_en in *. unfold set_defaults. destruct (cf_jarm_enabled _); cbn; exact H0.
Qed.

Lemma required_binding_core cfg c b o n st' t :
  req_en cfg -> bind_wf b -> validate_binding cfg c b o = None -> issued cfg b n st' t ->
    (cf_dpop_required cfg = true \/ (cf_dpop_enabled cfg = true /\ c_dpop_required c = true) ->
       tr_jkt t <> 0 /\ tr_dpop t = true) /\
    (cf_tls_binding_required cfg = true \/ (cf_tls_binding_enabled cfg = true /\ c_tls_required c = true) ->
       tr_x5t t <> 0) /\
    (cf_binding_required cfg = true -> tr_jkt t <> 0 \/ tr_x5t t <> 0).
Proof.
  intros [Hre1 Hre2] Hwf Hv (Hj & Hx & Hd & _).
  apply vb_split in Hv. destruct Hv as (Hvd & Hvt & Hvr).
  assert (Hbound : cf_dpop_enabled cfg = true -> forall p, b_dpop b = Some p -> tr_jkt t <> 0).
  { intros He p Hp. pose proof (vb_dpop_some _ _ _ _ _ Hvd He Hp) as Hv.
    destruct (accepted_key _ _ _ _ _ Hv) as (k & H1 & H2 & H3 & _).
    rewrite Hj. unfold set_pop_jkt. rewrite Hp, He, H3. eapply Hwf; eauto. }
  split; [|split].
  - intros Hr.
    assert (He : cf_dpop_enabled cfg = true) by (destruct Hr as [Hr|[Hr _]]; auto).
    destruct (vb_dpop_required _ _ _ _ Hvd He) as (p & Hp); [destruct Hr as [Hr|[_ Hr]]; auto|].
    pose proof (Hbound He p Hp) as Hn. split; auto. rewrite Hd. apply negb_true_iff. apply is_nil_false. exact Hn.
  - intros Hr.
    assert (He : cf_tls_binding_enabled cfg = true) by (destruct Hr as [Hr|[Hr _]]; auto).
    pose proof (vb_tls_required _ _ _ _ Hvt He) as Hc.
    rewrite Hx. unfold set_pop_x5t. rewrite He. apply Hc. destruct Hr as [Hr|[_ Hr]]; auto.
  - intros Hr. destruct (vb_required _ _ Hvr Hr) as [(He & p & Hp)|(He & Hc)].
    + left. eapply Hbound; eauto.
    + right. rewrite Hx. unfold set_pop_x5t. rewrite He. exact Hc.
Qed.

Lemma required_binding_lemma h w n now r st st' t :
  issuing h -> req_en (w_cfg w) -> bind_wf (t_bind r) ->
  run_seq (h w n now r) st = (st', OTokens t) ->
  exists c, authn w st (t_cred r) = Some c /\
    (cf_dpop_required (w_cfg w) = true \/ (cf_dpop_enabled (w_cfg w) = true /\ c_dpop_required c = true) ->
       tr_jkt t <> 0 /\ tr_dpop t = true) /\
    (cf_tls_binding_required (w_cfg w) = true \/ (cf_tls_binding_enabled (w_cfg w) = true /\ c_tls_required c = true) ->
       tr_x5t t <> 0) /\
    (cf_binding_required (w_cfg w) = true -> tr_jkt t <> 0 \/ tr_x5t t <> 0).
Proof.
  intros Hi Hre Hwf H.
  destruct (issuing_success _ _ _ _ _ _ _ _ Hi H) as (c & o & Ha & Hv & Hiss).
  exists c. split; [exact Ha|]. eapply required_binding_core; eauto.
Qed.

(* jwt-bearer: the client whose registration counts is the authenticated one; a request served for the
   anonymous client is bound by the server's requirements alone (the anonymous client requires nothing) *)
Lemma required_binding_jwt_bearer w n now r st st' t :
  req_en (w_cfg w) -> bind_wf (t_bind r) ->
  run_seq (jwt_bearer_grant w n now r) st = (st', OTokens t) ->
  exists c, (authn w st (t_cred r) = Some c \/
             (authn w st (t_cred r) = None /\ c = anonymous_client (w_cfg w) /\
              cr_id (t_cred r) = 0 /\ cf_jwt_bearer_authn_required (w_cfg w) = false)) /\
    (cf_dpop_required (w_cfg w) = true \/ (cf_dpop_enabled (w_cfg w) = true /\ c_dpop_required c = true) ->
       tr_jkt t <> 0 /\ tr_dpop t = true) /\
    (cf_tls_binding_required (w_cfg w) = true \/ (cf_tls_binding_enabled (w_cfg w) = true /\ c_tls_required c = true) ->
       tr_x5t t <> 0) /\
    (cf_binding_required (w_cfg w) = true -> tr_jkt t <> 0 \/ tr_x5t t <> 0).
Proof.
  intros Hre Hwf H.
  destruct (jwt_bearer_grant_success _ _ _ _ _ _ _ H) as (c & Ha & Hv & Hiss).
  exists c. split; [exact Ha|]. eapply required_binding_core; eauto.
Qed.

(* ------------------------------------------------------------------ *)
(* 9b. refresh keeps the binding and reports it truthfully *)
(* refresh: a bound grant stays bound, an unbound one stays unbound, and the confirmation of the
   refreshed token is the old one or the thumbprint of the key / certificate of this very request *)
Lemma refresh_cnf_lemma w n now r st st' t :
  (forall p k, b_dpop (t_bind r) = Some p -> dp_jwk p = JwkPublic k -> k <> 0) ->
  run_seq (refresh_grant w n now r) st = (st', OTokens t) ->
  exists g, find (fun g => ideq (g_refresh g) (t_refresh r)) (st_gsess st) = Some g /\
    ((g_jkt g <> 0 -> cf_dpop_enabled (w_cfg w) = true) ->
       (g_jkt g <> 0 <-> tr_jkt t <> 0) /\
       (tr_jkt t <> 0 -> tr_jkt t = g_jkt g \/
          exists p k, b_dpop (t_bind r) = Some p /\ dp_jwk p = JwkPublic k /\ dp_signer p = k /\
                      validate_jwt jwt_lifetime jwt_leeway p 0 0 = None /\ tr_jkt t = k)) /\
    (g_x5t g <> 0 <-> tr_x5t t <> 0) /\
    (tr_x5t t <> 0 -> tr_x5t t = g_x5t g \/ tr_x5t t = b_cert (t_bind r)) /\
    tr_dpop t = negb (is_nil (tr_jkt t)) /\
    exists g', In g' (st_gsess st') /\ g_id g' = g_id g /\ g_jkt g' = tr_jkt t /\ g_x5t g' = tr_x5t t.
Proof.
  intros Hwf H. unfold refresh_grant in H.
  destruct (negb (has_grant GRefreshToken (cf_grants (w_cfg w)))); [discriminate|].
  destruct (is_nil (t_refresh r)); [discriminate|].
  rewrite run_seq_bind, run_authenticated in H.
  destruct (authn w st (t_cred r)) as [c|] eqn:Ea; [|discriminate].
  cbn in H. destruct (find (fun g => ideq (g_refresh g) (t_refresh r)) (st_gsess st)) as [g|] eqn:Ef; cbn in H; [|discriminate].
  destruct (negb (has_grant GRefreshToken (c_grants c))); [discriminate|].
  destruct (negb (ideq (c_id c) (g_client g))); [discriminate|].
  destruct (geb now (g_expires g)); [discriminate|].
  destruct (refresh_binding (w_cfg w) c (t_bind r) g) eqn:Eb; [discriminate|].
  destruct (negb (contains_all_scopes (g_granted g) (t_scope r))); [discriminate|].
  destruct (negb (validate_resources (w_cfg w) (g_granted_res g) (t_resources r))); [discriminate|].
  destruct (negb (validate_details (w_cfg w) (g_granted_details g) (t_auth_details r))); [discriminate|].
  destruct (hg_result (t_hg r)); [discriminate|].
  destruct (make_token n c GRefreshToken) as [tv tid].
  cbn in H. inversion H; subst st' t; clear H. cbn.
  exists g. split; [reflexivity|].
  apply refresh_binding_spec in Eb. destruct Eb as [Hpub Hconf].
  split; [|split; [|split; [|split]]].
  - intros Hen. destruct (b_dpop (t_bind r)) as [p|] eqn:Ep.
    + destruct (is_nil (g_jkt g)) eqn:Ej.
      * apply is_nil_true in Ej. split; [split; intros Hn; congruence|intros Hn; congruence].
      * apply is_nil_false in Ej.
        assert (Hv : validate_jwt jwt_lifetime jwt_leeway p 0 0 = None).
        { destruct (c_public c) eqn:Epub.
          - destruct (Hpub eq_refl) as [Hj _]. destruct (Hj Ej) as (p' & Hp' & Hv'). rewrite Ep in Hp'; injection Hp' as <-.
            eapply accepted_weaken; eauto.
          - destruct (Hconf eq_refl) as [Hj _]. destruct (Hj (Hen Ej) Ej) as (p' & Hp' & Hv'). rewrite Ep in Hp'; injection Hp' as <-. exact Hv'. }
        destruct (accepted_key _ _ _ _ _ Hv) as (k & H1 & H2 & H3 & _).
        assert (Hk : k <> 0) by (eapply Hwf; eauto).
        split; [split; intros _; [rewrite H3; exact Hk|exact Ej]|].
        intros _. right. exists p, k. repeat split; auto.
    + split; [tauto|]. intros _. left; reflexivity.
  - destruct (is_nil (g_x5t g)) eqn:Ex; cbn.
    + tauto.
    + destruct (is_nil (b_cert (t_bind r))) eqn:Ec; cbn; [tauto|].
      apply is_nil_false in Ex, Ec. tauto.
  - destruct (negb (is_nil (g_x5t g)) && negb (is_nil (b_cert (t_bind r))))%bool; auto.
  - reflexivity.
  - eexists. split; [left; reflexivity|]. cbn. auto.
Qed.

(* ------------------------------------------------------------------ *)
(* 10. witnesses for the Examples of Props/C06.v                        *)
Definition ex_key : id := 7001.
Definition ex_key2 : id := 7002.
Definition ex_cert : id := 8001.
Definition ex_at : id := mint 0 KAtOpaque.
Definition ex_rt : id := mint 0 KRefresh.
Definition ex_code : id := mint 1 KCode.
Definition ex_proof (key ath : id) : dpop_proof :=
  mkProof true true (JwkPublic key) key (Some 3%Z) true true HtuTrailingSlash ath.
Definition ex_cfg : config :=
  match build POpenID [WithAuthorizationCodeGrant; WithClientCredentialsGrant; WithRefreshTokenGrant 1000%Z;
                       WithDPoPRequired; WithMTLS; WithTLSCertTokenBinding; WithTokenBindingRequired] with
  | Some c => c | None => base_config POpenID end.
Definition ex_public : client :=
  mkClient 3 true [GAuthorizationCode; GRefreshToken] ["code"] ["https://c3.example/cb"] "openid profile"
           CibaNone false false false false true true false 0 false None.
Definition ex_conf : client :=
  mkClient 1 false [GAuthorizationCode; GRefreshToken; GClientCredentials] ["code"] ["https://c1.example/cb"] "openid email"
           CibaNone false false false false false false false 0 false None.
Definition ex_world : world := mkWorld ex_cfg [ex_public; ex_conf].
(* a grant bound to ex_key and ex_cert, and a session whose code announces both *)
Definition ex_grant : gsession :=
  mkGSession (mint 0 KGrantId) ex_at ex_rt 300%Z 1000%Z 0 GAuthorizationCode "alice" 3 "openid profile" "openid profile" ex_key ex_cert [] [] [] [].
Definition ex_session : asession :=
  mkASession (mint 1 KSessId) 3 "alice" 0 0 0 ex_code "openid profile" 0 ex_cert 60%Z 0 ""
    (mkParams 0 "https://c3.example/cb" "" "code" "openid profile" "" "" PkEmpty "" ex_key "" 0 "" [] None) [] [].
Definition ex_store : store := mkStore [] [ex_session] [ex_grant].
Definition ex_treq (cr : cred) (b : bind_in) : treq :=
  mkTReq cr b "" ex_code "https://c3.example/cb" ex_rt PkEmpty 0 HgOk BaApprove [] AsNone None.
