(* C07Nav.v — where the JAR-aware authorization endpoint may navigate (property C02 for requests
   that carry a request object), and that an object which is not authentic is refused on the spot:
   the decision rules behind clause 8 and the "redirected error" half of clauses 1/2 of the
   monitor of Corr/C07.v.  They are about jar_session / jar_fetch / jar_decision of Model/Jar.v,
   the functions the correspondence runs. *)
From Verif Require Import Base Scope Types Prog Pop Token Authorize System Config Run Monitors Hoare Fresh FreshHandlers Jar JarSpec Tactics C07Proofs OneShot C02Proofs C02Handlers.
Local Open Scope N_scope.

(* the verdict of the request_uri validator is never a redirected error *)
Definition rc_local (rc : option aerr) : Prop := match rc with Some (ARedirect _ _) => False | _ => True end.
Lemma ref_check_local cfg present https : rc_local (ref_check cfg present https).
Proof. unfold ref_check. destruct (negb present), (negb (cf_jar_by_reference cfg)), (negb https); exact I. Qed.
Lemma ref_check_in_local cfg j : rc_local (ref_check_in cfg j).
Proof. destruct j; unfold ref_check_in; try exact I. apply ref_check_local. Qed.

Definition redirect_checked (c : client) (p : params) : Prop :=
  is_empty (p_redirect p) = true \/ redirect_allowed c (p_redirect p) = true.
Definition redirect_valid (c : client) (p : params) : Prop :=
  is_empty (p_redirect p) = false /\ redirect_allowed c (p_redirect p) = true.

Lemma validate_optionals_x_ok cfg p c rc both :
  validate_optionals_x cfg p c rc both = None -> redirect_checked c p.
Proof.
  unfold validate_optionals_x, redirect_checked. destruct (is_empty (p_redirect p)); [left; auto|].
  destruct (redirect_allowed c (p_redirect p)); [right; auto|]. cbn. discriminate.
Qed.
Lemma validate_optionals_x_err cfg p c rc both e p' : rc_local rc ->
  validate_optionals_x cfg p c rc both = Some (ARedirect e p') -> p' = p /\ redirect_checked c p.
Proof.
  unfold validate_optionals_x, redirect_checked. intros L.
  destruct (is_empty (p_redirect p)) eqn:E1; cbn [negb andb].
  - intros H. split; [|left; auto]. destruct rc as [[x|x y]|]; [discriminate|destruct L|].
    destruct (validate_optionals cfg p c) as [a|] eqn:EO.
    + inversion H; subst a. apply validate_optionals_redirect_err in EO. tauto.
    + destruct both; inversion H; auto.
  - destruct (redirect_allowed c (p_redirect p)) eqn:E2; cbn [negb andb]; [|discriminate].
    intros H. split; [|right; auto]. destruct rc as [[x|x y]|]; [discriminate|destruct L|].
    destruct (validate_optionals cfg p c) as [a|] eqn:EO.
    + inversion H; subst a. apply validate_optionals_redirect_err in EO. tauto.
    + destruct both; inversion H; auto.
Qed.

Lemma validate_params_x_ok cfg p c rc both :
  validate_params_x cfg p c rc both = None -> redirect_valid c p.
Proof.
  unfold validate_params_x, redirect_valid. destruct (is_empty (p_redirect p)) eqn:E; [discriminate|].
  destruct (validate_optionals_x cfg p c rc both) eqn:EO; [discriminate|]. intros _.
  destruct (validate_optionals_x_ok _ _ _ _ _ EO); [congruence|auto].
Qed.
Lemma validate_params_x_err cfg p c rc both e p' : rc_local rc ->
  validate_params_x cfg p c rc both = Some (ARedirect e p') -> p' = p /\ redirect_valid c p.
Proof.
  unfold validate_params_x, redirect_valid. intros L. destruct (is_empty (p_redirect p)) eqn:E; [discriminate|].
  destruct (validate_optionals_x cfg p c rc both) as [a|] eqn:EO.
  - intros H; inversion H; subst a. destruct (validate_optionals_x_err _ _ _ _ _ _ _ L EO) as [-> [H1|H1]]; [congruence|auto].
  - assert (R : redirect_allowed c (p_redirect p) = true) by (destruct (validate_optionals_x_ok _ _ _ _ _ EO); [congruence|auto]).
    intros H. apply validate_params_redirect_err in H. tauto.
Qed.

Lemma validate_in_out_x_ok cfg i o c rc both :
  validate_in_out_x cfg i o c rc both = None -> redirect_valid c (merge_params i o).
Proof.
  unfold validate_in_out_x. destruct (_ && _)%bool; [discriminate|].
  destruct (validate_params cfg (merge_params i o) c) eqn:EP; [discriminate|]. intros _.
  apply validate_params_redirect in EP. exact EP.
Qed.
Lemma validate_in_out_x_err cfg i o c rc both e p' : rc_local rc ->
  validate_in_out_x cfg i o c rc both = Some (ARedirect e p') -> p' = merge_params i o /\ redirect_valid c p'.
Proof.
  unfold validate_in_out_x, redirect_valid. intros L. destruct (_ && _)%bool; [discriminate|].
  destruct (validate_params cfg (merge_params i o) c) as [a|] eqn:EP.
  - intros H; inversion H; subst a. destruct (validate_params_redirect_err _ _ _ _ _ EP) as [-> R]. auto.
  - apply validate_params_redirect in EP. intros H.
    destruct (validate_optionals_x cfg o c rc both) as [[x|x y]|]; [discriminate|inversion H; subst; auto|].
    apply validate_in_out_redirect_err in H. tauto.
Qed.

(* validateRequestWithJAR + the choice of the session's parameters: whatever is redirected, and
   whatever the session will later navigate to, is a redirect_uri registered for the client *)
Lemma jar_session_err_valid cfg c outer jin j e p :
  jar_session cfg c outer jin j = inl (ARedirect e p) -> redirect_valid c p.
Proof.
  unfold jar_session. destruct (negb (ideq (jr_client j) (c_id c))); [discriminate|].
  destruct (is_fapi (cf_profile cfg)).
  - destruct (validate_params_x cfg (jr_params j) c _ _) as [a|] eqn:EF.
    + intros H; inversion H; subst a.
      destruct (validate_params_x_err _ _ _ _ _ _ _ (ref_check_local _ _ _) EF) as [-> R]. exact R.
    + destruct (validate_in_out_x cfg (jr_params j) outer c _ _) as [a|] eqn:EV.
      * intros H; inversion H; subst a.
        destruct (validate_in_out_x_err _ _ _ _ _ _ _ _ (ref_check_in_local _ _) EV) as [-> R]. exact R.
      * apply validate_in_out_x_ok in EV. intros H.
        destruct (jr_nested_uri j); [inversion H; subst; exact EV|].
        destruct (jr_nested_req j); [inversion H; subst; exact EV|discriminate].
  - destruct (validate_in_out_x cfg (jr_params j) outer c _ _) as [a|] eqn:EV.
    + intros H; inversion H; subst a.
      destruct (validate_in_out_x_err _ _ _ _ _ _ _ _ (ref_check_in_local _ _) EV) as [-> R]. exact R.
    + apply validate_in_out_x_ok in EV. intros H.
      destruct (jr_nested_uri j); [inversion H; subst; exact EV|].
      destruct (jr_nested_req j); [inversion H; subst; exact EV|discriminate].
Qed.

Lemma jar_session_ok_valid cfg c outer jin j p :
  jar_session cfg c outer jin j = inr p -> redirect_valid c p.
Proof.
  unfold jar_session. destruct (negb (ideq (jr_client j) (c_id c))); [discriminate|].
  destruct (is_fapi (cf_profile cfg)).
  - destruct (validate_params_x cfg (jr_params j) c _ _) as [a|] eqn:EF; [discriminate|].
    apply validate_params_x_ok in EF.
    destruct (validate_in_out_x cfg (jr_params j) outer c _ _) as [a|] eqn:EV; [discriminate|].
    destruct (jr_nested_uri j); [discriminate|]. destruct (jr_nested_req j); [discriminate|].
    intros H; inversion H; subst. exact EF.
  - destruct (validate_in_out_x cfg (jr_params j) outer c _ _) as [a|] eqn:EV; [discriminate|].
    apply validate_in_out_x_ok in EV.
    destruct (jr_nested_uri j); [discriminate|]. destruct (jr_nested_req j); [discriminate|].
    intros H; inversion H; subst. exact EV.
Qed.

(* fetching and resolving the object never produces a redirected error *)
Lemma jar_fetch_err_local cfg jc c jcl outer jin e :
  jar_fetch cfg jc c jcl outer jin = inl e -> exists x, e = ALocal x.
Proof.
  unfold jar_fetch, lift_res. intros H.
  destruct jin as [|o|h [o|]].
  - inversion H; eauto.
  - destruct (resolve_jar _ _ _ _ o); inversion H; eauto.
  - destruct (cf_jar_by_reference cfg); [destruct (resolve_jar _ _ _ _ o)|]; inversion H; eauto.
  - inversion H; eauto.
Qed.

Lemma jar_decision_err_valid cfg jc c jcl outer jin e p :
  jar_decision cfg jc c jcl outer jin = inl (ARedirect e p) -> redirect_valid c p.
Proof.
  unfold jar_decision. destruct (jar_fetch cfg jc c jcl outer jin) as [a|j] eqn:EF.
  - intros H; inversion H; subst a. apply jar_fetch_err_local in EF as [x Hx]. discriminate.
  - apply jar_session_err_valid.
Qed.
Lemma jar_decision_ok_valid cfg jc c jcl outer jin p :
  jar_decision cfg jc c jcl outer jin = inr p -> redirect_valid c p.
Proof.
  unfold jar_decision. destruct (jar_fetch cfg jc c jcl outer jin) as [a|j] eqn:EF; [discriminate|].
  apply jar_session_ok_valid.
Qed.

Lemma jar_decision_valid cfg jc c jcl outer jin :
  (forall e p, jar_decision cfg jc c jcl outer jin = inl (ARedirect e p) ->
     is_empty (p_redirect p) = false /\ redirect_allowed c (p_redirect p) = true) /\
  (forall p, jar_decision cfg jc c jcl outer jin = inr p ->
     is_empty (p_redirect p) = false /\ redirect_allowed c (p_redirect p) = true).
Proof. split; [apply jar_decision_err_valid | apply jar_decision_ok_valid]. Qed.

(* an object that is not authentic for the client (jar_ok false) is answered with a local error: nothing it
   carries - redirect_uri, state - reaches a navigation, whatever else it carries (nested request, bad scope ...) *)
Lemma jar_decision_unauthentic_local cfg jc c jcl outer jin o : c_id c <> 0 -> carries jin o ->
  jar_ok (cf_profile cfg) jc (c_id c) jcl o = false ->
  exists x, jar_decision cfg jc c jcl outer jin = inl (ALocal x).
Proof.
  intros NZ CA NOK. unfold jar_decision.
  destruct (jar_fetch cfg jc c jcl outer jin) as [a|j] eqn:EF.
  - apply jar_fetch_err_local in EF as [x ->]. eauto.
  - exfalso. unfold jar_fetch, lift_res in EF.
    assert (R : resolve_jar (cf_profile cfg) jc (c_id c) jcl o = inr j).
    { destruct CA as [->|[h ->]].
      - destruct (resolve_jar _ _ _ _ o); inversion EF; auto.
      - destruct (cf_jar_by_reference cfg); [|discriminate]. destruct (resolve_jar _ _ _ _ o); inversion EF; auto. }
    apply resolve_jar_authentic_or in R; auto. destruct R as [_ R].
    unfold jar_ok in NOK. apply Bool.orb_false_iff in NOK as [N1 N2]. destruct R; congruence.
Qed.

(* ---- the hypotheses are satisfiable, and the cases the theorems speak about exist ---- *)
Module C07NavExample.
  Import C07Example.
  Definition cfg1 : config :=
    match build POpenID [WithAuthorizationCodeGrant; WithJAR; WithJARByReference] with Some c => c | None => base_config POpenID end.
  Definition outer : params := mkParams 0 "" "" "code" "openid" "" "" PkEmpty "" 0 "" 0 "" [] None.
  Definition jc_enc : jcfg := mkJCfg [AES256] true [AES256] 0%Z.        (* JWE enabled, 'none' not allowed *)
  Definition jcl1 : jclient := mkJClient [mkJwk 611 AES256 511] None None.
  Definition nested (redirect : string) : req_object :=
    mkRO EncNone (SigBy 511) AES256 611 1 true (Some 300%Z) (Some (-10)%Z) (Some (-10)%Z) true 1 true false
         (mkParams 0 redirect "" "code" "openid" "st-in" "n-in" PkEmpty "" 0 "" 0 "" [] None).
  Definition unsigned_in_jwe : req_object :=
    mkRO EncOk SigEmpty ANone 0 0 false None None None false 1 false false inner.

  (* a nested request claim is answered with an error redirected to the registered redirect_uri ... *)
  Example nested_redirected_when_registered :
    exists p, jar_decision cfg1 jc_enc cl1 jcl1 outer (JValue (nested "https://c1.example/cb")) = inl (ARedirect EInvalidRequest p)
              /\ p_redirect p = "https://c1.example/cb".
  Proof. eexists. vm_compute. split; reflexivity. Qed.
  (* ... and with a local error when the object names a redirect_uri that is not registered *)
  Example nested_local_when_unregistered :
    jar_decision cfg1 jc_enc cl1 jcl1 outer (JValue (nested "https://evil.example/cb")) = inl (ALocal EInvalidRequest).
  Proof. vm_compute. reflexivity. Qed.
  (* an unsigned object inside a JWE for the server key, 'none' not allowed: not authentic, refused locally *)
  Example unsigned_in_jwe_not_ok : jar_ok POpenID jc_enc 1 jcl1 unsigned_in_jwe = false.
  Proof. vm_compute. reflexivity. Qed.
  Example unsigned_in_jwe_refused :
    jar_decision cfg1 jc_enc cl1 jcl1 outer (JValue unsigned_in_jwe) = inl (ALocal EInvalidRequestObject).
  Proof. vm_compute. reflexivity. Qed.
  (* ... while it is accepted where 'none' is allowed for the client *)
  Example unsigned_in_jwe_accepted_with_none :
    exists p, jar_decision cfg1 (mkJCfg [AES256; ANone] true [AES256] 0%Z) cl1 jcl1 outer (JValue unsigned_in_jwe) = inr p.
  Proof. eexists. vm_compute. reflexivity. Qed.
End C07NavExample.

(* ---- handler level: GET /authorize with request objects, for every world, store and request ---- *)
Local Opaque validate_params validate_optionals validate_in_out merge_params mint
      validate_params_x validate_optionals_x validate_in_out_x jar_decision.

Theorem init_auth_jar_target w jx n now q st u :
  nav_target (snd (run_seq (init_auth_jar w jx n now q) st)) = Some u ->
  exists c, snd (run_seq (get_client w (ar_client (jq_req q))) st) = Some c /\
    (redirect_allowed c u = true \/
     exists s, find (fun s => ideq (a_par s) (p_request_uri (ar_params (jq_req q)))) (st_asess st) = Some s /\
               a_client s = ar_client (jq_req q) /\ u = p_redirect (a_params s) /\
               (is_fapi (cf_profile (w_cfg w)) = true \/ cf_par_unregistered (w_cfg w) = true)).
Proof.
  unfold init_auth_jar. cbn zeta. destruct (is_nil (ar_client (jq_req q))); [cbn; discriminate|].
  rewrite run_get_client.
  destruct (snd (run_seq (get_client w (ar_client (jq_req q))) st)) as [c|] eqn:EC; [|cbn; discriminate].
  destruct (negb _); [cbn; discriminate|].
  unfold auth_jar_client. cbn zeta.
  destruct (should_use_par _ _ _).
  - destruct (is_nil (p_request_uri (ar_params (jq_req q)))); [cbn; discriminate|].
    cbn. destruct (find _ (st_asess st)) as [s|] eqn:EF; cbn; [|discriminate].
    unfold par_verdict.
    destruct (negb (ideq (a_client s) (ar_client (jq_req q)))) eqn:ECl; [cbn; discriminate|].
    apply Bool.negb_false_iff in ECl. apply N.eqb_eq in ECl.
    destruct (geb now (a_expires s)); [cbn; discriminate|].
    destruct (validate_in_out_x _ _ _ _ _ _) as [e|] eqn:EV.
    + cbn. destruct e as [x|x p]; cbn; [discriminate|]. intros H; injection H as <-.
      apply validate_in_out_x_err in EV as [-> [NE AL]]; [|exact I]. apply allowed_for_par in AL.
      exists c. split; auto. destruct AL as [AL|[U [E1 E2]]]; [left; auto|right; exists s; auto].
    + rewrite OneShot.run_seq_bind.
      match goal with |- context [start_session w n now c ?s' ?r] => pose proof (start_session_nav w n now c s' r st) as T; remember s' as s1 eqn:Es1 end.
      destruct (run_seq (start_session w n now c s1 (jq_req q)) st) as [st1 a]. cbn in T. cbn.
      apply validate_in_out_x_ok in EV as [NE AL]. apply allowed_for_par in AL.
      assert (K : forall u0, u0 = p_redirect (a_params s1) ->
                redirect_allowed c u0 = true \/
                exists s0, Some s = Some s0 /\ a_client s0 = ar_client (jq_req q) /\ u0 = p_redirect (a_params s0) /\
                           (is_fapi (cf_profile (w_cfg w)) = true \/ cf_par_unregistered (w_cfg w) = true)).
      { intros u0 ->. subst s1. destruct (is_fapi (cf_profile (w_cfg w))) eqn:EFa.
        - right. exists s. auto.
        - cbn. destruct AL as [AL|[U [E1 E2]]]; [left; auto|right; exists s; repeat split; auto]. }
      destruct a as [o|e]; cbn.
      * destruct o; cbn; try discriminate. cbn in T. intros H; injection H as <-. exists c; split; auto.
      * destruct e as [x|x p]; cbn; [discriminate|]. cbn in T. intros H; injection H as <-. exists c; split; auto.
  - destruct (should_use_jar _ _ _ _).
    + destruct (jar_decision _ _ _ _ _ _) as [e|p] eqn:EV.
      * cbn. destruct e as [x|x p]; cbn; [discriminate|]. intros H; injection H as <-.
        apply jar_decision_err_valid in EV as [NE AL]. exists c; auto.
      * rewrite OneShot.run_seq_bind.
        match goal with |- context [start_session w n now c ?s' ?r] => pose proof (start_session_nav w n now c s' r st) as T end.
        destruct (run_seq (start_session w n now c _ (jq_req q)) st) as [st1 a]. cbn in T. cbn.
        apply jar_decision_ok_valid in EV as [NE AL].
        destruct a as [o|e]; cbn.
        -- destruct o; cbn; try discriminate. cbn in T. intros H; injection H as <-. exists c; split; auto. left. rewrite T. exact AL.
        -- destruct e as [x|x p']; cbn; [discriminate|]. cbn in T. intros H; injection H as <-. exists c; split; auto. left. rewrite T. exact AL.
    + destruct (validate_params_x _ _ _ _ _) as [e|] eqn:EV.
      * cbn. destruct e as [x|x p]; cbn; [discriminate|]. intros H; injection H as <-.
        apply validate_params_x_err in EV as [-> [NE AL]]; [|apply ref_check_in_local]. exists c; auto.
      * rewrite OneShot.run_seq_bind.
        match goal with |- context [start_session w n now c ?s' ?r] => pose proof (start_session_nav w n now c s' r st) as T end.
        destruct (run_seq (start_session w n now c _ (jq_req q)) st) as [st1 a]. cbn in T. cbn.
        apply validate_params_x_ok in EV as [NE AL].
        destruct a as [o|e]; cbn.
        -- destruct o; cbn; try discriminate. cbn in T. intros H; injection H as <-. exists c; split; auto. left. rewrite T. exact AL.
        -- destruct e as [x|x p']; cbn; [discriminate|]. cbn in T. intros H; injection H as <-. exists c; split; auto. left. rewrite T. exact AL.
Qed.
