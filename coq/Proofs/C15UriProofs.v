(* C15UriProofs.v — lifting the sweeps of C15UriSweeps*.v to the statements of Props/C15.v. *)
From Verif Require Import Base Scope Types Prog Pop Token Authorize System Config Run Monitors Race RaceUri Tactics
  C15Sweeps C15UriDefs C15UriSweeps.
Require Import Lia.
Local Open Scope nat_scope.
Local Open Scope string_scope.
(* nothing below may evaluate a scenario *)
Local Opaque setup_of scn_uri setup scn_live solo_log consume_pos grant_save_pos solo_calls lookup_pos race_schedules successes
  tokens_obtained grants_written race_overlaps serial outcomes schedules_after_first_call.

Lemma uri_live_lemma : forall rt rotation, In rt ru_resp_types ->
  scn_live (scn_uri rt rotation) = true /\ solo_log (setup_of (scn_uri rt rotation)) = ru_solo_log rt /\
  (ru_issues_token rt = true ->
   consume_pos (setup_of (scn_uri rt rotation)) < grant_save_pos (setup_of (scn_uri rt rotation)) /\
   grant_save_pos (setup_of (scn_uri rt rotation)) < solo_calls (setup_of (scn_uri rt rotation))).
Proof.
  intros rt rotation Hrt. apply (uri_live_at_spec rt (scn_uri rt rotation) (setup_of (scn_uri rt rotation))).
  pose proof (forallb_in _ _ _ (live_uri rotation) Hrt) as H. cbv beta in H. unfold uri_live in H. exact H.
Qed.

Lemma uri_facts_all rt rotation sched : In rt ru_resp_types ->
  In sched (race_schedules (setup_of (scn_uri rt rotation)) 2) -> uri_facts rt (setup_of (scn_uri rt rotation)) 2 sched.
Proof.
  intros Hrt Hin. pose proof (forallb_in _ _ _ (sweep_uri_2 rotation) Hrt) as H. cbv beta in H.
  exact (uri_ok_spec rt (setup_of (scn_uri rt rotation)) 2 H sched Hin).
Qed.

Lemma uri_refuted_lemma : forall rt rotation, In rt ru_resp_types ->
  (exists sched, In sched (race_schedules (setup_of (scn_uri rt rotation)) 2) /\ 2 <= successes (setup_of (scn_uri rt rotation)) 2 sched /\
     (ru_issues_token rt = true -> tokens_obtained (setup_of (scn_uri rt rotation)) 2 sched = 2 /\
                                   grants_written (setup_of (scn_uri rt rotation)) 2 sched = 2)) /\
  In (serial 2 (solo_calls (setup_of (scn_uri rt rotation)))) (race_schedules (setup_of (scn_uri rt rotation)) 2) /\
  race_overlaps (setup_of (scn_uri rt rotation)) 2 (serial 2 (solo_calls (setup_of (scn_uri rt rotation)))) = false /\
  successes (setup_of (scn_uri rt rotation)) 2 (serial 2 (solo_calls (setup_of (scn_uri rt rotation)))) = 1.
Proof.
  intros rt rotation Hrt. split.
  - pose proof (forallb_in _ _ _ (double_uri rotation) Hrt) as H. cbv beta in H.
    exact (uri_double_spec rt (setup_of (scn_uri rt rotation)) H).
  - pose proof (forallb_in _ _ _ (serial_uri_2 rotation) Hrt) as H. cbv beta in H.
    exact (serial_one_spec (setup_of (scn_uri rt rotation)) 2 H).
Qed.
