(* C14Pairs.v — C14 for fault PAIRS, and the exact shape of an acknowledged DCR delete.
   The theorems of C14Proofs.v hold for every plan nat -> fault; here they are instantiated at the plans
   the correspondence enumerates (two faults at two positions of one request - plan_of [(p1, f1); (p2, f2)],
   positions beyond the calls the request performs included: such a plan entry is inert), and the
   acknowledgement of DELETE /register is pinned down: the storage delete is the LAST call of the request
   (nothing is read again after it), it did not fail, and no fault of the plan took effect. *)
From Verif Require Import Base Scope Types Prog Pop Token Authorize System Config FaultLog DcrFault FaultSpec
  Fresh C14Base C14Fault C14Ack C14Proofs.
Require Import Lia.
Local Open Scope N_scope.
Local Open Scope list_scope.

Definition Qdel_exact (o : dfop) (tr : list ev) (x : dfout) : Prop :=
  x = DfDeleted ->
  exists r tr0 rd, o = DfDelete r /\ tr = tr0 ++ [(CDel (df_cid r), rd)] /\ rd <> RFail /\ (List.length tr0 <= 1)%nat /\
                   forall e, In e tr0 -> exists i rc, e = (CGet i, rc).
Lemma dcr_handler_del_exact w n o : wp anyR (dcr_handler w n o) (Qdel_exact o).
Proof.
  destruct o; unfold dcr_handler, dcr_create, dcr_update, dcr_read, dcr_delete, dcr_protected, get_client, Qdel_exact;
    c14_go; try discriminate.
  all: exists r; first
        [ exists []; eexists; split; [reflexivity|split; [reflexivity|split; [discriminate|split; [cbn; lia|intros e []]]]]
        | eexists [_]; eexists; split; [reflexivity|split; [reflexivity|split; [discriminate|split; [cbn; lia|
            intros e [<-|[]]; eexists; eexists; reflexivity]]]] ].
Qed.

Theorem dcr_delete_ack_exact_thm w n o plan st :
  let res := run_fault_log plan 0 (dcr_handler w n o) st in
  snd (fst res) = DfDeleted ->
  exists r tr0 rd, o = DfDelete r /\ evs (snd res) = tr0 ++ [(CDel (df_cid r), rd)] /\ rd <> RFail /\
                   (List.length tr0 <= 1)%nat /\ (forall e, In e tr0 -> exists i rc, e = (CGet i, rc)) /\
                   plan_hit (snd res) = false.
Proof.
  intros res HD.
  pose proof (wp_sound_any (dcr_handler w n o) (Qdel_exact o) (dcr_handler_del_exact w n o) plan 0%nat st) as H.
  fold res in H. destruct (H HD) as (r & tr0 & rd & Ho & Htr & Hrd & Hlen & Hget).
  exists r, tr0, rd. repeat split; auto.
  destruct (plan_hit (snd res)) eqn:PH; [|reflexivity].
  pose proof (dcr_fault_negative_thm w n o plan st PH) as E. fold res in E. congruence.
Qed.

(* the general theorems at the plans with two faults *)
Theorem fault_pairs_negative_thm w n now o st p1 f1 p2 f2 :
  let res := run_fault_log (plan_of [(p1, f1); (p2, f2)]) 0 (handler w n now o) st in
  plan_hit (snd res) = true -> negative (snd (fst res)) = true \/ revoke_exception o (snd (fst res)) (snd res).
Proof. intros res. apply fault_negative_answer_thm. Qed.

Theorem dcr_fault_pairs_negative_thm w n o st p1 f1 p2 f2 :
  let res := run_fault_log (plan_of [(p1, f1); (p2, f2)]) 0 (dcr_handler w n o) st in
  plan_hit (snd res) = true -> snd (fst res) = DfErr.
Proof. intros res. apply dcr_fault_negative_thm. Qed.
