(* C08 — every artifact the model emits verifies under a published key and tells the truth.
   These hold by construction of Model/Artifacts.v; their value is as the specification the
   harness checks on real bytes (suite c08). *)
From Verif Require Import Base Scope Types Prog Pop Token Authorize Artifacts Tactics.
Local Open Scope N_scope.

Definition is_asym (a : sigalg) : bool :=
  match a with HS256 | HS384 | HS512 | AlgNone => false | _ => true end.

(* "j verifies under a key published at the JWKS endpoint, with algorithm a, named by its kid,
   and that published key carries no private member" *)
Definition published {C} (cfg : acfg) (a : sigalg) (j : jws C) : Prop :=
  j_alg j = a /\
  exists k, In k (public_jwks cfg) /\ k_kid k = j_kid j /\ kalg_is a (k_alg k) = true /\
            k_priv k = false /\ verifies_under k j = true.

Lemma find_some_in {A} f (l : list A) x : find f l = Some x -> In x l /\ f x = true.
Proof. apply find_some. Qed.

Lemma fits_asym_not_oct t a : alg_fits t a = true -> is_asym a = true -> t <> KtyOct.
Proof. intros F A E; subst. destruct a; cbn in *; congruence. Qed.

Lemma sign_published {C} cfg (cl : C) a typ j :
  is_asym a = true -> sign cfg cl a typ = Some j -> published cfg a j /\ j_claims j = cl.
Proof.
  unfold sign, jwk_by_alg. intros A H.
  destruct (find _ (ac_keys cfg)) as [k|] eqn:F; [|discriminate].
  apply find_some_in in F as [Hin Halg].
  destruct (k_priv k && alg_fits (k_kty k) a)%bool eqn:G; [|discriminate].
  apply andb_true_iff in G as [Hp Hf]. inversion H; subst; clear H. cbn.
  split; [|reflexivity]. split; [reflexivity|].
  assert (NO : k_kty k <> KtyOct) by (eapply fits_asym_not_oct; eauto).
  exists (jwk_public k). split; [unfold public_jwks; apply in_map; exact Hin|].
  unfold jwk_public. destruct (k_kty k) eqn:T; try congruence; cbn;
    rewrite ?T; repeat split; auto; unfold verifies_under; cbn; rewrite T, N.eqb_refl; exact Hf.
Qed.

Lemma sign_typ {C} cfg (cl : C) a typ j : sign cfg cl a typ = Some j -> j_typ j = if is_empty typ then "JWT" else typ.
Proof.
  unfold sign. destruct (jwk_by_alg cfg a); [|discriminate]. destruct (_ && _)%bool; [|discriminate].
  intros H; inversion H; reflexivity.
Qed.

Lemma sign_claims {C} cfg (cl : C) a typ j : sign cfg cl a typ = Some j -> j_claims j = cl /\ j_alg j = a.
Proof.
  unfold sign. destruct (jwk_by_alg cfg a); [|discriminate]. destruct (k_priv _ && _)%bool; [|discriminate].
  intros H; inversion H; auto.
Qed.

(* ---- ID tokens ---- *)
Lemma id_token_signed_truthful cfg c o now art j :
  make_id_token cfg c o now = Some art -> art_body art = Signed j -> is_asym (idt_alg cfg c) = true ->
  published cfg (idt_alg cfg c) j /\ j_claims j = id_token_claims cfg c o (idt_alg cfg c) now.
Proof.
  unfold make_id_token, make_id_token_body. intros H B A.
  destruct (ac_idt_none cfg && _)%bool.
  - inversion H; subst. cbn in B. discriminate.
  - destruct (sign cfg _ (idt_alg cfg c) "") as [j'|] eqn:S; [|discriminate].
    inversion H; subst. cbn in B. inversion B; subst. eapply sign_published; eauto.
Qed.

Lemma id_token_claims_truthful cfg c o a now :
  let cl := id_token_claims cfg c o a now in
  ic_iss cl = ac_host cfg /\
  ic_aud cl = opt_str (acl_id c) /\
  ic_iat cl = now /\ ic_exp cl = (ic_iat cl + ac_idt_lifetime cfg)%Z /\
  ic_sub cl = exportable_subject cfg c (io_sub o) /\
  ic_nonce cl = opt_str (io_nonce o) /\
  ic_at_hash cl = hash_of_id a (io_at o) /\
  ic_c_hash cl = hash_of_id a (io_code o) /\
  ic_s_hash cl = hash_of_str a (io_state o).
Proof. cbn. repeat split; reflexivity. Qed.

Lemma id_token_body_claims cfg c o now art :
  make_id_token cfg c o now = Some art ->
  exists a, body_claims (art_body art) = id_token_claims cfg c o a now /\
            (match art_body art with Signed j => a = idt_alg cfg c /\ j_alg j = a | Unsigned _ => a = AlgNone end).
Proof.
  unfold make_id_token, make_id_token_body. intros H.
  destruct (ac_idt_none cfg && _)%bool.
  - inversion H; subst. exists AlgNone. cbn. auto.
  - destruct (sign cfg _ (idt_alg cfg c) "") as [j'|] eqn:S; [|discriminate].
    inversion H; subst. exists (idt_alg cfg c). cbn.
    unfold sign in S. destruct (jwk_by_alg cfg (idt_alg cfg c)); [|discriminate].
    destruct (_ && _)%bool; [|discriminate]. inversion S; subst; cbn. auto.
Qed.

(* ---- JWT access tokens ---- *)
Lemma jwt_token_truthful cfg n now g o t :
  is_asym (to_alg o) = true -> make_jwt_token cfg n now g o = Some t ->
  exists j, tk_value t = TokJwt j /\ published cfg (to_alg o) j /\ j_typ j = "at+jwt" /\
    tc_iss (j_claims j) = ac_host cfg /\ tc_client_id (j_claims j) = opt_str (gi_client g) /\
    tc_sub (j_claims j) = gi_sub g /\ tc_scope (j_claims j) = gi_scopes g /\
    tc_iat (j_claims j) = now /\ tc_exp (j_claims j) = (tc_iat (j_claims j) + to_lifetime o)%Z /\
    tk_lifetime t = to_lifetime o /\ tc_jti (j_claims j) = tk_id t /\
    tc_jkt (j_claims j) = gi_jkt g /\ tc_x5t (j_claims j) = gi_x5t g.
Proof.
  unfold make_jwt_token. intros A H.
  destruct (sign cfg _ (to_alg o) "at+jwt") as [j|] eqn:S; [|discriminate].
  inversion H; subst; clear H. exists j. cbn.
  pose proof (sign_typ _ _ _ _ _ S) as T. cbn in T.
  apply sign_published in S as [P E]; auto. rewrite E. cbn. repeat split; auto; apply P.
Qed.

Lemma make_expires_in cfg n now g c fo r nonce :
  token_endpoint_response cfg n now g c fo nonce = Some r ->
  trs_expires_in r = to_lifetime fo /\
  match tk_value (trs_at r) with
  | TokJwt j => tc_exp (j_claims j) = (tc_iat (j_claims j) + trs_expires_in r)%Z
  | TokOpaque _ => True end.
Proof.
  unfold token_endpoint_response. destruct (make cfg n now g c fo) as [t|] eqn:M; [|discriminate].
  assert (L : tk_lifetime t = to_lifetime fo /\
              match tk_value t with TokJwt j => tc_exp (j_claims j) = (tc_iat (j_claims j) + tk_lifetime t)%Z | _ => True end).
  { unfold make in M.
    assert (LT : to_lifetime (token_options cfg (gi_type g) c fo) = to_lifetime fo)
      by (unfold token_options; destruct (should_switch_to_opaque _ _ _ _); reflexivity).
    destruct (to_jwt (token_options cfg (gi_type g) c fo)).
    - unfold make_jwt_token in M. destruct (sign _ _ _ _) as [j|] eqn:S; [|discriminate].
      inversion M; subst; cbn. unfold sign in S. destruct (jwk_by_alg _ _); [|discriminate].
      destruct (_ && _)%bool; [|discriminate]. inversion S; subst; cbn. split; [exact LT|reflexivity].
    - inversion M; subst; cbn. split; [exact LT|exact I]. }
  destruct L as [L1 L2].
  destruct (contains_openid (gi_scopes g)).
  - destruct (make_id_token _ _ _ _); [|discriminate]. intros H; inversion H; subst; cbn. rewrite L1. split; auto.
    destruct (tk_value t); auto. rewrite <- L1. exact L2.
  - intros H; inversion H; subst; cbn. rewrite L1. split; auto.
    destruct (tk_value t); auto. rewrite <- L1. exact L2.
Qed.

(* ---- pairwise clients get opaque tokens (artifact level) ---- *)
Lemma make_pairwise_opaque cfg n now g c fo t :
  should_generate_pairwise cfg c = true -> gi_type g <> GClientCredentials ->
  make cfg n now g c fo = Some t -> exists h, tk_value t = TokOpaque h.
Proof.
  intros P G. unfold make, token_options, should_switch_to_opaque.
  assert (NG : gt_eqb (gi_type g) GClientCredentials = false).
  { destruct (gt_eqb (gi_type g) GClientCredentials) eqn:E; auto. apply gt_eqb_eq in E. contradiction. }
  rewrite P, NG. cbn. destruct (to_jwt fo) eqn:J; cbn.
  - intros H; inversion H; subst; cbn. eauto.
  - rewrite J. intros H; inversion H; subst; cbn. eauto.
Qed.

(* ---- the authorization endpoint: hash claims are exactly those of the siblings delivered ---- *)
Definition delivered_at (p : authz_params) : id := match rp_at p with Some t => token_value_id t | None => 0 end.
Definition params_of (r : authz_response) : authz_params :=
  match r with PlainParams _ p => p | JarmResponse _ a => jc_params (body_claims (art_body a)) end.

Lemma redirect_response_params cfg c prm p now r :
  redirect_response cfg c prm p now = Some r ->
  rp_at (params_of r) = rp_at p /\ rp_id_token (params_of r) = rp_id_token p /\
  rp_code (params_of r) = rp_code p /\ rp_state (params_of r) = rp_state p /\
  rp_iss (params_of r) = (if ac_issuer_param cfg then ac_host cfg else rp_iss p).
Proof.
  unfold redirect_response. destruct (_ || _)%bool.
  - unfold jarm_response. destruct (sign _ _ _ _) as [j|] eqn:S; [|discriminate].
    intros H; inversion H; subst; cbn.
    unfold sign in S. destruct (jwk_by_alg _ _); [|discriminate]. destruct (_ && _)%bool; [|discriminate].
    inversion S; subst; cbn. destruct (ac_issuer_param cfg); cbn; auto.
  - intros H; inversion H; subst; cbn. destruct (ac_issuer_param cfg); cbn; auto.
Qed.

Lemma finish_flow_hashes cfg n now c fo s r i :
  finish_flow cfg n now c fo s = Some r -> rp_id_token (params_of r) = Some i ->
  exists a, body_claims (art_body i) =
            id_token_claims cfg c (mkIdtOpts (ai_sub s) (ai_nonce_claim s) (delivered_at (params_of r))
                                     (rp_code (params_of r)) (rp_state (params_of r)) 0 0) a now /\
            (match art_body i with Signed j => a = idt_alg cfg c /\ j_alg j = a | Unsigned _ => a = AlgNone end).
Proof.
  unfold finish_flow. intros H Hi.
  destruct (if rt_contains _ "token" then _ else _) as [tok|] eqn:T; [|discriminate].
  destruct (if (_ && _)%bool then _ else _) as [idt|] eqn:I; [|discriminate].
  apply redirect_response_params in H as (A & B & C & D & _). cbn in *.
  unfold delivered_at. rewrite A, C, D. rewrite B in Hi. subst idt.
  destruct (_ && _)%bool; [|congruence].
  destruct (make_id_token _ _ _ _) as [i'|] eqn:M; [|discriminate].
  assert (i' = i) by congruence. subst i'.
  apply id_token_body_claims in M. exact M.
Qed.

(* ---- JARM ---- *)
Lemma jarm_truthful cfg c p now art :
  is_asym (jarm_alg cfg c) = true -> jarm_response cfg c p now = Some art ->
  exists j, art_body art = Signed j /\ published cfg (jarm_alg cfg c) j /\
    jc_iss (j_claims j) = ac_host cfg /\ jc_aud (j_claims j) = acl_id c /\
    jc_iat (j_claims j) = now /\ jc_exp (j_claims j) = (jc_iat (j_claims j) + ac_jarm_lifetime cfg)%Z /\
    jc_params (j_claims j) = p.
Proof.
  unfold jarm_response. intros A H. destruct (sign _ _ _ _) as [j|] eqn:S; [|discriminate].
  inversion H; subst; cbn. exists j. apply sign_published in S as [P E]; auto. rewrite E. cbn. repeat split; auto; apply P.
Qed.

(* ---- userinfo ---- *)
Lemma userinfo_truthful cfg c sub r :
  userinfo_response cfg c sub = Some r ->
  ui_sub r = exportable_subject cfg c sub /\
  match r with
  | UiJson _ => acl_ui_alg c = None
  | UiJwt a => uc_iss (body_claims (art_body a)) = ac_host cfg /\ uc_aud (body_claims (art_body a)) = acl_id c /\
               match art_body a with
               | Signed j => is_asym (ui_alg cfg c) = true -> published cfg (ui_alg cfg c) j
               | Unsigned _ => acl_ui_alg c = Some AlgNone end
  end.
Proof.
  unfold userinfo_response. destruct (acl_ui_alg c) as [ca|] eqn:U.
  - destruct (ac_ui_none cfg && _)%bool eqn:N.
    + intros H; inversion H; subst; cbn. repeat split; auto.
      apply andb_true_iff in N as [_ N]. destruct ca; try discriminate. reflexivity.
    + destruct (sign _ _ _ _) as [j|] eqn:S; [|discriminate].
      intros H; inversion H; subst; cbn.
      pose proof (sign_claims _ _ _ _ _ S) as [SC _]. rewrite SC. cbn. repeat split; auto;
        apply sign_published in S as [P _]; auto; apply P.
  - intros H; inversion H; subst; cbn. auto.
Qed.

Lemma sub_agreement cfg c o now art sub r :
  make_id_token cfg c o now = Some art -> io_sub o = sub -> userinfo_response cfg c sub = Some r ->
  ic_sub (body_claims (art_body art)) = ui_sub r /\ ui_sub r = exportable_subject cfg c sub.
Proof.
  intros M E U. apply id_token_body_claims in M as [a [B _]]. rewrite B. cbn.
  apply userinfo_truthful in U as [U _]. rewrite U, E. auto.
Qed.

(* ---- nonce: initAuthnSession copies the request's nonce into the ID-token claims of the
        session (start_session in Model/Authorize.v), every later ID token carries it ---- *)
Lemma nonce_echoed cfg c o a now nonce :
  io_nonce o = nonce -> nonce <> "" -> ic_nonce (id_token_claims cfg c o a now) = Some nonce.
Proof. intros E N. cbn. rewrite E. unfold opt_str. destruct nonce; [congruence|reflexivity]. Qed.

(* half hashes: injective in (hash size, value) *)
Lemma half_hash_inj a b v w : half_hash a v = half_hash b w -> hash_alg a = hash_alg b /\ v = w.
Proof. unfold half_hash. intros H; inversion H; auto. Qed.

(* satisfiability: a concrete configuration with three keys, a pairwise client and a hybrid flow *)
Definition ex_cfg : acfg :=
  mkACfg "https://as.example"
    [mkJwk "rsa" (ASig PS256) UseSig KtyRSA 1 true; mkJwk "ec384" (ASig ES384) UseSig (KtyEC 384) 2 true;
     mkJwk "enc" (AEnc 1) UseEnc KtyRSA 3 true]
    PS256 false 600 false PS256 false false true PS256 600 false true false true.
Definition ex_client : aclient := mkAClient "c1" (Some ES384) None (Some PS256) None None None (Some true).
Definition ex_in : authz_in :=
  mkAuthzIn "alice" "n-1" "openid email"
    (mkParams 0 "https://c1.example/cb" "" "code id_token token" "openid email" "st" "n-1" PkEmpty "" 0 "" 0 "" [] None)
    (mint 3 KCode) 0.
Example ex_finish_flow :
  match finish_flow ex_cfg 3 1000%Z ex_client (mkTokOpts true PS256 300) ex_in with
  | Some (PlainParams "fragment" p) =>
      match rp_id_token p, rp_at p with
      | Some i, Some t =>
          andb (match tk_value t with TokOpaque _ => true | _ => false end)
               (match ic_at_hash (body_claims (art_body i)) with
                | Some (HalfHash H384 (VId h)) => ideq h (token_value_id t) | _ => false end)
      | _, _ => false end
  | _ => false end = true.
Proof. vm_compute. reflexivity. Qed.
