(* C11 — mechanisms configured as required cannot be bypassed: proofs.
   Every handler lemma is stated with `rets` (Rets.v): whatever the storage answers. *)
From Verif Require Import Base Scope Types Prog Pop Token Authorize System Config Required Rets ConfigProofs Tactics.
Local Open Scope N_scope.

Definition refused (o : out) : Prop := obtains o = false.

Lemma render_aerr_refused cfg c e : refused (render_aerr cfg c e).
Proof. destruct e; reflexivity. Qed.
Lemma finish_afail_refused cfg c e : refused (finish_ares cfg c (AFail e)).
Proof. apply render_aerr_refused. Qed.

(* ---- binding decisions (token.ValidateBinding) ---- *)
Lemma vb_dpop_required cfg c b o :
  cf_dpop_enabled cfg = true -> orb (cf_dpop_required cfg) (c_dpop_required c) = true ->
  b_dpop b = None -> validate_binding cfg c b o <> None.
Proof.
  intros He Hr Hb. unfold validate_binding, validate_binding_dpop. rewrite He, Hb. cbn.
  apply orb_true_iff in Hr as [Hr|Hr]; rewrite Hr; cbn; try discriminate.
  destruct (cf_dpop_required cfg); cbn; discriminate.
Qed.

Lemma vb_tls_required cfg c b o :
  cf_tls_binding_enabled cfg = true -> orb (cf_tls_binding_required cfg) (c_tls_required c) = true ->
  b_cert b = 0 -> validate_binding cfg c b o <> None.
Proof.
  intros He Hr Hb. unfold validate_binding. destruct (validate_binding_dpop cfg c b o); [discriminate|].
  unfold validate_binding_tls. rewrite He, Hb. cbn.
  apply orb_true_iff in Hr as [Hr|Hr]; rewrite Hr; cbn; try discriminate.
  destruct (cf_tls_binding_required cfg); cbn; discriminate.
Qed.

Lemma vb_some_required cfg c b o :
  cf_binding_required cfg = true -> b_dpop b = None -> b_cert b = 0 -> validate_binding cfg c b o <> None.
Proof.
  intros Hr Hd Hc. unfold validate_binding. destruct (validate_binding_dpop cfg c b o); [discriminate|].
  destruct (validate_binding_tls cfg c b o); [discriminate|].
  unfold validate_binding_required. rewrite Hr, Hd, Hc. cbn. rewrite !andb_false_r. cbn. discriminate.
Qed.

(* refresh: a grant bound to a key / certificate is not refreshed without the proof / certificate *)
Lemma refresh_needs_proof cfg c b g :
  cf_dpop_enabled cfg = true -> is_nil (g_jkt g) = false -> b_dpop b = None -> refresh_binding cfg c b g <> None.
Proof.
  intros He Hj Hb. unfold refresh_binding. destruct (c_public c).
  - unfold validate_pop. rewrite Hj, Hb. discriminate.
  - rewrite Hj. unfold validate_binding_dpop. rewrite He, Hb. cbn. rewrite !orb_true_r. discriminate.
Qed.
Lemma refresh_needs_cert cfg c b g :
  cf_tls_binding_enabled cfg = true -> is_nil (g_x5t g) = false -> b_cert b = 0 -> refresh_binding cfg c b g <> None.
Proof.
  intros He Hx Hb. unfold refresh_binding. destruct (c_public c).
  - unfold validate_pop. destruct (if is_nil (g_jkt g) then None else _); [discriminate|].
    rewrite Hx, Hb. cbn. discriminate.
  - destruct (if is_nil (g_jkt g) then None else _); [discriminate|].
    rewrite Hx. unfold validate_binding_tls. rewrite He, Hb. cbn. rewrite !orb_true_r. discriminate.
Qed.

Local Opaque validate_binding validate_pkce refresh_binding validate_params validate_optionals validate_in_out
      merge_params mint make_token are_scopes_allowed contains_all_scopes contains_openid validate_jwt rt_contains.

Ltac walk :=
  repeat (cbn in *;
          try match goal with
              | |- refused _ => reflexivity
              | |- True /\ _ => split; [exact I|]
              | |- _ /\ _ => split
              | |- forall _, _ => intro
              | |- True => exact I
              end;
          try break_goal).

Section Handlers.
  Variable QC : client -> Prop.
  Variable w : world.
  Hypothesis statics_ok : forall cl, In cl (w_static w) -> QC cl.
  Let cfg := w_cfg w.
  Variables (n : nat) (now : Z).

  (* ---- the token endpoint: no tokens when ValidateBinding objects ---- *)
  Definition must_bind (b : bind_in) (i : id) : Prop :=
    forall c, c_id c = i -> QC c -> forall o, validate_binding cfg c b o <> None.

  Lemma cc_grant_binding r : must_bind (t_bind r) (cr_id (t_cred r)) -> rets QC refused (cc_grant w n now r).
  Proof.
    intros HB. unfold cc_grant. fold cfg.
    destruct (negb (has_grant GClientCredentials (cf_grants cfg))); [reflexivity|].
    eapply rets_bind'; [apply authenticated_rets; auto|]. intros [c|] Hf; [|reflexivity]. destruct Hf as [Hid Hq].
    destruct (negb (has_grant GClientCredentials (c_grants c))); [reflexivity|].
    destruct (validate_binding cfg c (t_bind r) no_opts) eqn:E; [reflexivity|].
    exfalso. eapply HB; eauto.
  Qed.

  Lemma code_grant_binding r : must_bind (t_bind r) (cr_id (t_cred r)) -> rets QC refused (code_grant w n now r).
  Proof.
    intros HB. unfold code_grant. fold cfg.
    destruct (negb (has_grant GAuthorizationCode (cf_grants cfg))); [reflexivity|].
    destruct (is_nil (t_code r)); [reflexivity|].
    eapply rets_bind'; [apply authenticated_rets; auto|]. intros [c|] Hf; [|reflexivity]. destruct Hf as [Hid Hq].
    cbn. split; [exact I|]. intros rp _. destruct rp; try (cbn; split; [exact I|]; intros; reflexivity).
    cbn. split; [exact I|]. intros rd _.
    assert (forall o, validate_binding cfg c (t_bind r) o <> None) as HB' by (intros o; eapply HB; eauto).
    destruct rd; try reflexivity;
      (repeat (break_goal; [reflexivity|]));
      (match goal with |- context [validate_binding ?a ?b ?c ?d] => destruct (validate_binding a b c d) eqn:EVB end;
       [reflexivity|exfalso; eapply HB'; eauto]).
  Qed.

  (* jwt-bearer: the authenticated client, or - for a request naming nobody, where the embedder allows
     it - the anonymous client, which must then be refused as well *)
  Lemma jwt_bearer_grant_binding r :
    must_bind (t_bind r) (cr_id (t_cred r)) ->
    (cr_id (t_cred r) = 0 -> cf_jwt_bearer_authn_required cfg = false ->
     forall o, validate_binding cfg (anonymous_client cfg) (t_bind r) o <> None) ->
    rets QC refused (jwt_bearer_grant w n now r).
  Proof.
    intros HB HA. unfold jwt_bearer_grant. fold cfg.
    destruct (negb (has_grant GJwtBearer (cf_grants cfg))); [reflexivity|].
    eapply rets_bind'; [apply jwt_bearer_client_rets; auto|]. intros [c|] Hf; [|reflexivity].
    destruct (negb (has_grant GJwtBearer (c_grants c))); [reflexivity|].
    destruct (validate_binding cfg c (t_bind r) no_opts) eqn:E; [reflexivity|].
    exfalso. destruct Hf as [[Hid Hq]|[Hc [Hz Hr]]].
    - eapply HB; eauto.
    - subst c. eapply HA; eauto.
  Qed.

  Lemma ciba_grant_binding r : must_bind (t_bind r) (cr_id (t_cred r)) -> rets QC refused (ciba_grant w n now r).
  Proof.
    intros HB. unfold ciba_grant. fold cfg.
    destruct (negb (has_grant GCiba (cf_grants cfg))); [reflexivity|].
    eapply rets_bind'; [apply authenticated_rets; auto|]. intros [c|] Hf; [|reflexivity]. destruct Hf as [Hid Hq].
    destruct (is_nil (t_auth_req r)); [reflexivity|].
    cbn. split; [exact I|]. intros rp _. destruct rp; try reflexivity.
    destruct (negb (has_grant GCiba (c_grants c))); [reflexivity|].
    assert (forall o, validate_binding cfg c (t_bind r) o <> None) as HB' by (intros o; eapply HB; eauto).
    destruct (c_ciba_mode c); try reflexivity;
      (repeat (break_goal; [reflexivity|]));
      (match goal with |- context [validate_binding ?a ?b ?c ?d] => destruct (validate_binding a b c d) eqn:EVB end;
       [reflexivity|exfalso; eapply HB'; eauto]).
  Qed.

  (* CIBA push: the binding is checked at /bc-authorize *)
  Lemma init_back_auth_push_binding r :
    (forall c, c_id c = cr_id (br_cred r) -> QC c -> c_ciba_mode c = CibaPush /\ forall o, validate_binding cfg c (br_bind r) o <> None) ->
    rets QC refused (init_back_auth w n now r).
  Proof.
    intros HB. unfold init_back_auth. fold cfg.
    destruct (negb (cf_ciba_enabled cfg)); [reflexivity|].
    eapply rets_bind'; [apply authenticated_rets; auto|]. intros [c|] Hf; [|reflexivity]. destruct Hf as [Hid Hq].
    destruct (HB c Hid Hq) as [Hm HB']. rewrite Hm.
    repeat (break_goal; [reflexivity|]).
    destruct (validate_optionals cfg (br_params r) c) as [[e|e p]|]; try reflexivity.
    destruct (validate_binding cfg c (br_bind r) no_opts) eqn:EVB; [reflexivity|exfalso; eapply HB'; eauto].
  Qed.

  (* ---- the authorization endpoint, direct requests (no request_uri) ---- *)
  Definition implicit_unbound (c : client) (p : params) : bool :=
    andb (rt_contains (p_resp_type p) "token")
      (andb (orb (cf_dpop_required cfg) (orb (andb (cf_dpop_enabled cfg) (c_dpop_required c)) (cf_binding_required cfg)))
            (negb (andb (cf_dpop_enabled cfg) (negb (is_nil (p_dpop_jkt p)))))).

  Definition direct_blocked (p : params) (c : client) : Prop :=
    should_use_par cfg p c = true \/ validate_params cfg p c <> None \/ implicit_unbound c p = true.

  Lemma start_session_unbound c r :
    implicit_unbound c (ar_params r) = true ->
    start_session w n now c (new_session n c (ar_params r <| p_request_uri := 0 |>)) r
    = Ret (AFail (ARedirect EInvalidRequest (ar_params r <| p_request_uri := 0 |>))).
  Proof.
    intros H. unfold start_session, implicit_unbound in *. fold cfg. cbn in *. rewrite H. reflexivity.
  Qed.

  Lemma init_auth_direct r :
    p_request_uri (ar_params r) = 0 ->
    (forall c, c_id c = ar_client r -> QC c -> direct_blocked (ar_params r) c) ->
    rets QC refused (init_auth w n now r).
  Proof.
    intros Hu HB. unfold init_auth. fold cfg.
    destruct (is_nil (ar_client r)); [reflexivity|].
    eapply rets_bind'; [apply get_client_rets; auto|]. intros [c|] Hf; [|reflexivity]. destruct Hf as [Hid Hq].
    destruct (negb _); [reflexivity|].
    specialize (HB c Hid Hq). unfold direct_blocked in HB.
    destruct (should_use_par cfg (ar_params r) c) eqn:EP.
    - rewrite Hu. reflexivity.
    - destruct HB as [HB|[HB|HB]]; [discriminate| |].
      + destruct (validate_params cfg (ar_params r) c); [apply render_aerr_refused|congruence].
      + destruct (validate_params cfg (ar_params r) c); [apply render_aerr_refused|].
        rewrite start_session_unbound by exact HB. cbn. reflexivity.
  Qed.

  (* the same for the handler with the request-object decision *)
  Definition direct_blocked_g (p : params) (c : client) : Prop :=
    should_use_par cfg p c = true \/ jar_gate cfg c p = true \/ validate_params cfg p c <> None \/ implicit_unbound c p = true.

  Lemma init_auth_g_direct r :
    p_request_uri (ar_params r) = 0 ->
    (forall c, c_id c = ar_client r -> QC c -> direct_blocked_g (ar_params r) c) ->
    rets QC refused (init_auth_g w n now r).
  Proof.
    intros Hu HB. unfold init_auth_g. fold cfg.
    destruct (is_nil (ar_client r)); [reflexivity|].
    eapply rets_bind'; [apply get_client_rets; auto|]. intros [c|] Hf; [|reflexivity]. destruct Hf as [Hid Hq].
    destruct (negb _); [reflexivity|].
    specialize (HB c Hid Hq). unfold direct_blocked_g in HB.
    destruct (should_use_par cfg (ar_params r) c) eqn:EP.
    - rewrite Hu. reflexivity.
    - destruct (jar_gate cfg c (ar_params r)) eqn:EJ; [reflexivity|].
      destruct HB as [HB|[HB|[HB|HB]]]; [discriminate|discriminate| |].
      + destruct (validate_params cfg (ar_params r) c); [apply render_aerr_refused|congruence].
      + destruct (validate_params cfg (ar_params r) c); [apply render_aerr_refused|].
        rewrite start_session_unbound by exact HB. cbn. reflexivity.
  Qed.

  (* with JAR not enabled the handler is Authorize.init_auth *)
  Lemma init_auth_g_off r (P : out -> Prop) :
    cf_jar_enabled cfg = false -> rets QC P (init_auth w n now r) -> rets QC P (init_auth_g w n now r).
  Proof.
    intros Hj. unfold init_auth_g, init_auth. fold cfg.
    destruct (is_nil (ar_client r)); [auto|].
    intros H. apply rets_bind_inv in H. apply rets_bind. eapply rets_weaken; [|exact H].
    intros [c|]; [|auto]. cbn beta iota.
    destruct (negb _); [auto|].
    destruct (should_use_par cfg (ar_params r) c); [auto|].
    unfold jar_gate. rewrite Hj. cbn. auto.
  Qed.
End Handlers.

(* ---- the request-object gates on /par and /bc-authorize, and "endpoint not enabled" (sequential run) ---- *)
Lemma push_auth_g_jar w n now r st :
  (forall c, In c (w_static w) \/ In c (st_clients st) -> c_id c = cr_id (pr_cred r) -> jar_gate_par (w_cfg w) c = true) ->
  refused (snd (run_seq (push_auth_g w n now r) st)).
Proof.
  intros HB. unfold push_auth_g, push_auth. destruct (negb (cf_par_enabled (w_cfg w))); [reflexivity|].
  rewrite run_seq_bind, run_authenticated. cbn [fst snd].
  destruct (auth_of w st (pr_cred r)) as [c|] eqn:E.
  - apply auth_of_some in E as [E1 E2]. rewrite (HB c E1 E2). reflexivity.
  - rewrite run_seq_bind, run_authenticated, E. reflexivity.
Qed.

Lemma init_back_auth_g_jar w n now r st :
  ciba_jar_gate (w_cfg w) = true -> refused (snd (run_seq (init_back_auth_g w n now r) st)).
Proof.
  intros HB. unfold init_back_auth_g, init_back_auth. destruct (negb (cf_ciba_enabled (w_cfg w))); [reflexivity|].
  rewrite run_seq_bind, run_authenticated. cbn [fst snd]. rewrite HB.
  destruct (auth_of w st (br_cred r)) as [c|] eqn:E; [reflexivity|].
  rewrite run_seq_bind, run_authenticated, E. reflexivity.
Qed.

(* ---- what validateParams refuses (decision level) ---- *)
Local Transparent validate_params.
Ltac vp_walk := unfold validate_params; repeat (break_goal; try discriminate).

Lemma vp_pkce_required cfg p c :
  cf_pkce_required cfg = true -> pk_is_empty (p_challenge p) = true -> validate_params cfg p c <> None.
Proof. intros H1 H2. unfold validate_params. rewrite H1, H2. cbn. repeat (break_goal; try discriminate). Qed.
Lemma vp_pkce_public cfg p c :
  cf_pkce_enabled cfg = true -> c_public c = true -> pk_is_empty (p_challenge p) = true -> validate_params cfg p c <> None.
Proof. intros H1 H2 H3. unfold validate_params. rewrite H1, H2, H3. cbn. repeat (break_goal; try discriminate). Qed.
Lemma vp_openid_required cfg p c :
  cf_openid_required cfg = true -> contains_openid (p_scopes p) = false -> validate_params cfg p c <> None.
Proof. intros H1 H2. unfold validate_params. rewrite H1, H2. cbn. repeat (break_goal; try discriminate). Qed.
Lemma vp_resource_required cfg p c :
  cf_resource_required cfg = true -> p_resources p = [] -> validate_params cfg p c <> None.
Proof. intros H1 H2. unfold validate_params. rewrite H1, H2. cbn. repeat (break_goal; try discriminate). Qed.
Lemma vp_fapi1_resp_type cfg p c :
  cf_profile cfg = PFapi1 -> seqb (p_resp_type p) "code" = false -> seqb (p_resp_type p) "code id_token" = false ->
  validate_params cfg p c <> None.
Proof. intros H1 H2 H3. unfold validate_params. rewrite H1, H2, H3. cbn. repeat (break_goal; try discriminate). Qed.
Lemma vp_fapi1_code_needs_jwt cfg p c :
  cf_profile cfg = PFapi1 -> seqb (p_resp_type p) "code" = true -> seqb (p_resp_mode p) "jwt" = false ->
  validate_params cfg p c <> None.
Proof. intros H1 H2 H3. unfold validate_params. rewrite H1, H2, H3. cbn. repeat (break_goal; try discriminate). Qed.
Lemma vp_fapi1_nonce cfg p c :
  cf_profile cfg = PFapi1 -> contains_openid (p_scopes p) = true -> is_empty (p_nonce p) = true ->
  validate_params cfg p c <> None.
Proof. intros H1 H2 H3. unfold validate_params. rewrite H1, H2, H3. cbn. repeat (break_goal; try discriminate). Qed.
Lemma vp_fapi2_code_only cfg p c :
  cf_profile cfg = PFapi2 -> seqb (p_resp_type p) "code" = false -> validate_params cfg p c <> None.
Proof. intros H1 H2. unfold validate_params. rewrite H1, H2. cbn. repeat (break_goal; try discriminate). Qed.
Local Opaque validate_params.

(* ---- from programs to the step the correspondence runs ---- *)
Definition xrefused (x : obs) : Prop := obs_obtains x = false.

Lemma lift_refused QC (p : prog out) : rets QC refused p -> rets QC xrefused (bind p (fun x => Ret (Out x))).
Proof. intros H. apply rets_bind. eapply rets_weaken; [|exact H]. intros a Ha. exact Ha. Qed.

Lemma step_g_obs w st n o :
  snd (step_g w st n o) =
  match o with OpTick _ => Out OOk | _ => snd (run_seq (handler_g w n (s_now st) o) (s_store st)) end.
Proof. unfold step_g. destruct o; try reflexivity; destruct (run_seq _ _); reflexivity. Qed.

Definition registered (w : world) (st : state) (c : client) : Prop :=
  In c (w_static w) \/ In c (st_clients (s_store st)).

(* a property of the clients registered under one id, as the QC of Rets *)
Definition for_id (i : id) (f : client -> Prop) (c : client) : Prop := c_id c = i -> f c.

Lemma step_rets (QC : client -> Prop) w st n o :
  (forall c, registered w st c -> QC c) ->
  (match o with OpTick _ => False | _ => True end) ->
  rets QC xrefused (handler_g w n (s_now st) o) -> xrefused (snd (step_g w st n o)).
Proof.
  intros Hq Ho Hr. rewrite step_g_obs. destruct o; try contradiction;
    (eapply rets_run_seq; [exact Hr|]; intros cl Hcl; apply Hq; right; exact Hcl).
Qed.

Section Steps.
  Variables (w : world) (st : state) (n : nat).
  Let cfg := w_cfg w.

  (* /authorize, direct request *)
  Lemma authorize_blocked r (f : client -> Prop) :
    p_request_uri (ar_params r) = 0 ->
    (forall c, registered w st c -> c_id c = ar_client r -> f c) ->
    (forall c, f c -> direct_blocked_g w (ar_params r) c) ->
    xrefused (snd (step_g w st n (OpAuthorize r))).
  Proof.
    intros Hu Hreg Hf. apply step_rets with (QC := for_id (ar_client r) f); [|exact I|].
    - intros c Hc Hid. auto.
    - cbn. apply lift_refused. apply init_auth_g_direct; auto.
      + intros cl Hcl Hid. apply Hreg; auto. left; exact Hcl.
  Qed.

  (* /token, the grants that issue a fresh grant session *)
  Lemma token_blocked g r (f : client -> Prop) :
    g <> GRefreshToken ->
    (forall c, registered w st c -> c_id c = cr_id (t_cred r) -> f c) ->
    (forall c, f c -> forall o, validate_binding cfg c (t_bind r) o <> None) ->
    (g = GJwtBearer -> cr_id (t_cred r) = 0 -> cf_jwt_bearer_authn_required cfg = false -> f (anonymous_client cfg)) ->
    xrefused (snd (step_g w st n (OpToken g r))).
  Proof.
    intros Hg Hreg Hf Ha. apply step_rets with (QC := for_id (cr_id (t_cred r)) f); [|exact I|].
    - intros c Hc Hid. auto.
    - assert (forall cl, In cl (w_static w) -> for_id (cr_id (t_cred r)) f cl) as Hs
        by (intros cl Hcl Hid; apply Hreg; auto; left; exact Hcl).
      assert (must_bind (for_id (cr_id (t_cred r)) f) w (t_bind r) (cr_id (t_cred r))) as Hm
        by (intros c Hid Hq o; apply Hf; auto).
      destruct g; cbn; try reflexivity; try congruence; apply lift_refused.
      + apply cc_grant_binding; auto.
      + apply code_grant_binding; auto.
      + apply jwt_bearer_grant_binding; auto.
      + apply ciba_grant_binding; auto.
  Qed.
End Steps.

(* ---- flags: In (WithXRequired ...) opts -> build p opts = Some cfg -> flag cfg = true ---- *)
Ltac flag m d :=
  match goal with Hi : In ?o _, Hb : build _ _ = Some _ |- _ =>
    apply (build_flag _ m d o (fun c => eq_refl) _ _ _ Hi Hb) end.

Lemma flags_par p opts cfg l : In (WithPARRequired l) opts -> build p opts = Some cfg ->
  cf_par_required cfg = true /\ cf_par_enabled cfg = true.
Proof. intros Hi Hb; split; [flag mono_par_required dflt_par_required|flag mono_par_enabled dflt_par_enabled]. Qed.
Lemma flags_jar p opts cfg : In WithJARRequired opts -> build p opts = Some cfg ->
  cf_jar_required cfg = true /\ cf_jar_enabled cfg = true.
Proof. intros Hi Hb; split; [flag mono_jar_required dflt_jar_required|flag mono_jar_enabled dflt_jar_enabled]. Qed.
Lemma flags_ciba_jar p opts cfg : In WithCIBAJARRequired opts -> build p opts = Some cfg ->
  cf_ciba_jar_required cfg = true /\ cf_ciba_jar_enabled cfg = true.
Proof. intros Hi Hb; split; [flag mono_ciba_jar_required dflt_ciba_jar_required|flag mono_ciba_jar_enabled dflt_ciba_jar_enabled]. Qed.
Lemma flags_pkce p opts cfg d ms : In (WithPKCERequired d ms) opts -> build p opts = Some cfg ->
  cf_pkce_required cfg = true /\ cf_pkce_enabled cfg = true.
Proof. intros Hi Hb; split; [flag mono_pkce_required dflt_pkce_required|flag mono_pkce_enabled dflt_pkce_enabled]. Qed.
Lemma flags_pkce_enabled p opts cfg d ms : In (WithPKCE d ms) opts -> build p opts = Some cfg -> cf_pkce_enabled cfg = true.
Proof. intros Hi Hb; flag mono_pkce_enabled dflt_pkce_enabled. Qed.
Lemma flags_dpop p opts cfg : In WithDPoPRequired opts -> build p opts = Some cfg ->
  cf_dpop_required cfg = true /\ cf_dpop_enabled cfg = true.
Proof. intros Hi Hb; split; [flag mono_dpop_required dflt_dpop_required|flag mono_dpop_enabled dflt_dpop_enabled]. Qed.
Lemma flags_dpop_enabled p opts cfg : In WithDPoP opts -> build p opts = Some cfg -> cf_dpop_enabled cfg = true.
Proof. intros Hi Hb; flag mono_dpop_enabled dflt_dpop_enabled. Qed.
Lemma flags_tls p opts cfg : In WithTLSCertTokenBindingRequired opts -> build p opts = Some cfg ->
  cf_tls_binding_required cfg = true /\ cf_tls_binding_enabled cfg = true.
Proof. intros Hi Hb; split; [flag mono_tls_binding_required dflt_tls_binding_required|flag mono_tls_binding_enabled dflt_tls_binding_enabled]. Qed.
Lemma flags_tls_enabled p opts cfg : In WithTLSCertTokenBinding opts -> build p opts = Some cfg -> cf_tls_binding_enabled cfg = true.
Proof. intros Hi Hb; flag mono_tls_binding_enabled dflt_tls_binding_enabled. Qed.
Lemma flags_binding p opts cfg : In WithTokenBindingRequired opts -> build p opts = Some cfg ->
  cf_binding_required cfg = true /\ (cf_dpop_enabled cfg = true \/ cf_tls_binding_enabled cfg = true).
Proof.
  intros Hi Hb. assert (cf_binding_required cfg = true) as H by flag mono_binding_required dflt_binding_required.
  split; auto. eapply build_binding_mechanism; eauto.
Qed.
Lemma flags_openid p opts cfg : In WithOpenIDScopeRequired opts -> build p opts = Some cfg -> cf_openid_required cfg = true.
Proof. intros Hi Hb; flag mono_openid_required dflt_openid_required. Qed.
Lemma flags_resource p opts cfg r l : In (WithResourceIndicatorsRequired r l) opts -> build p opts = Some cfg ->
  cf_resource_required cfg = true /\ cf_resource_enabled cfg = true.
Proof. intros Hi Hb; split; [flag mono_resource_required dflt_resource_required|flag mono_resource_enabled dflt_resource_enabled]. Qed.
Lemma flags_jwt_bearer p opts cfg : In WithJWTBearerGrantClientAuthnRequired opts -> build p opts = Some cfg ->
  cf_jwt_bearer_authn_required cfg = true.
Proof. intros Hi Hb; flag mono_jwt_bearer_authn dflt_jwt_bearer_authn. Qed.

Lemma all_required_flags p opts cfg : build p opts = Some cfg ->
  (forall l, In (WithPARRequired l) opts -> cf_par_required cfg = true /\ cf_par_enabled cfg = true) /\
  (In WithJARRequired opts -> cf_jar_required cfg = true /\ cf_jar_enabled cfg = true) /\
  (In WithCIBAJARRequired opts -> cf_ciba_jar_required cfg = true /\ cf_ciba_jar_enabled cfg = true) /\
  (forall d ms, In (WithPKCERequired d ms) opts -> cf_pkce_required cfg = true /\ cf_pkce_enabled cfg = true) /\
  (In WithDPoPRequired opts -> cf_dpop_required cfg = true /\ cf_dpop_enabled cfg = true) /\
  (In WithTLSCertTokenBindingRequired opts -> cf_tls_binding_required cfg = true /\ cf_tls_binding_enabled cfg = true) /\
  (In WithTokenBindingRequired opts ->
     cf_binding_required cfg = true /\ (cf_dpop_enabled cfg = true \/ cf_tls_binding_enabled cfg = true)) /\
  (In WithOpenIDScopeRequired opts -> cf_openid_required cfg = true) /\
  (forall r l, In (WithResourceIndicatorsRequired r l) opts -> cf_resource_required cfg = true /\ cf_resource_enabled cfg = true) /\
  (In WithJWTBearerGrantClientAuthnRequired opts -> cf_jwt_bearer_authn_required cfg = true) /\
  cf_profile cfg = p.
Proof.
  intros Hb. repeat split; intros; try (eapply flags_par; eauto); try (eapply flags_jar; eauto);
    try (eapply flags_ciba_jar; eauto); try (eapply flags_pkce; eauto); try (eapply flags_dpop; eauto);
    try (eapply flags_tls; eauto); try (eapply flags_binding; eauto); try (eapply flags_openid; eauto);
    try (eapply flags_resource; eauto); try (eapply flags_jwt_bearer; eauto); try (eapply build_profile; eauto).
Qed.

(* ---- one theorem per switch ---- *)
Section Switches.
  Variables (p : profile) (opts : list opt) (cfg : config) (statics : list client).
  Hypothesis built : build p opts = Some cfg.
  Let w := mkWorld cfg statics.
  Variables (st : state) (n : nat).

  Ltac direct := eapply authorize_blocked with (f := fun _ => True); auto; intros c _.

  Lemma par_required_enforced l r : In (WithPARRequired l) opts ->
    p_request_uri (ar_params r) = 0 -> xrefused (snd (step_g w st n (OpAuthorize r))).
  Proof.
    intros Hi Hu. destruct (flags_par _ _ _ _ Hi built) as [H1 H2]. direct.
    left. unfold should_use_par. cbn. rewrite H1, H2. reflexivity.
  Qed.

  Lemma client_par_required_enforced r : cf_par_enabled cfg = true ->
    (forall c, registered w st c -> c_id c = ar_client r -> c_par_required c = true) ->
    p_request_uri (ar_params r) = 0 -> xrefused (snd (step_g w st n (OpAuthorize r))).
  Proof.
    intros He Hc Hu. eapply authorize_blocked with (f := fun c => c_par_required c = true); auto.
    intros c Hr. left. unfold should_use_par. cbn. rewrite He, Hr. rewrite orb_true_r. reflexivity.
  Qed.

  Lemma jar_required_enforced r : In WithJARRequired opts ->
    p_request_uri (ar_params r) = 0 -> xrefused (snd (step_g w st n (OpAuthorize r))).
  Proof.
    intros Hi Hu. destruct (flags_jar _ _ _ Hi built) as [H1 H2]. direct.
    right; left. unfold jar_gate. cbn. rewrite H1, H2. reflexivity.
  Qed.

  Lemma client_jar_required_enforced r : cf_jar_enabled cfg = true ->
    (forall c, registered w st c -> c_id c = ar_client r -> c_jar_required c = true) ->
    p_request_uri (ar_params r) = 0 -> xrefused (snd (step_g w st n (OpAuthorize r))).
  Proof.
    intros He Hc Hu. eapply authorize_blocked with (f := fun c => c_jar_required c = true); auto.
    intros c Hr. right; left. unfold jar_gate. cbn. rewrite He, Hr. rewrite orb_true_r. reflexivity.
  Qed.

  Lemma jar_required_enforced_par r : In WithJARRequired opts -> xrefused (snd (step_g w st n (OpPar r))).
  Proof.
    intros Hi. destruct (flags_jar _ _ _ Hi built) as [H1 H2]. rewrite step_g_obs. cbn.
    rewrite run_seq_bind. cbn. apply push_auth_g_jar. intros c _ _. unfold jar_gate_par. cbn. rewrite H1, H2. reflexivity.
  Qed.

  Lemma ciba_jar_required_enforced r : In WithCIBAJARRequired opts -> xrefused (snd (step_g w st n (OpBcAuthorize r))).
  Proof.
    intros Hi. destruct (flags_ciba_jar _ _ _ Hi built) as [H1 H2]. rewrite step_g_obs. cbn.
    rewrite run_seq_bind. cbn. apply init_back_auth_g_jar. unfold ciba_jar_gate. cbn. rewrite H1, H2. reflexivity.
  Qed.

  Lemma pkce_required_enforced d ms r : In (WithPKCERequired d ms) opts ->
    p_request_uri (ar_params r) = 0 -> pk_is_empty (p_challenge (ar_params r)) = true ->
    xrefused (snd (step_g w st n (OpAuthorize r))).
  Proof.
    intros Hi Hu He. destruct (flags_pkce _ _ _ _ _ Hi built) as [H1 H2]. direct.
    right; right; left. apply vp_pkce_required; auto.
  Qed.

  Lemma pkce_public_client_enforced r : cf_pkce_enabled cfg = true ->
    (forall c, registered w st c -> c_id c = ar_client r -> c_public c = true) ->
    p_request_uri (ar_params r) = 0 -> pk_is_empty (p_challenge (ar_params r)) = true ->
    xrefused (snd (step_g w st n (OpAuthorize r))).
  Proof.
    intros H1 Hc Hu He. eapply authorize_blocked with (f := fun c => c_public c = true); auto.
    intros c Hp. right; right; left. apply vp_pkce_public; auto.
  Qed.

  Lemma openid_required_enforced r : In WithOpenIDScopeRequired opts ->
    p_request_uri (ar_params r) = 0 -> contains_openid (p_scopes (ar_params r)) = false ->
    xrefused (snd (step_g w st n (OpAuthorize r))).
  Proof.
    intros Hi Hu He. pose proof (flags_openid _ _ _ Hi built) as H1. direct.
    right; right; left. apply vp_openid_required; auto.
  Qed.

  Lemma resource_required_enforced r res l : In (WithResourceIndicatorsRequired res l) opts ->
    p_request_uri (ar_params r) = 0 -> p_resources (ar_params r) = [] ->
    xrefused (snd (step_g w st n (OpAuthorize r))).
  Proof.
    intros Hi Hu Hr. destruct (flags_resource _ _ _ _ _ Hi built) as [H1 _]. direct.
    right; right; left. apply vp_resource_required; auto.
  Qed.

  Lemma fapi1_enforced r : p = PFapi1 -> p_request_uri (ar_params r) = 0 ->
    (seqb (p_resp_type (ar_params r)) "code" = false /\ seqb (p_resp_type (ar_params r)) "code id_token" = false) \/
    (seqb (p_resp_type (ar_params r)) "code" = true /\ seqb (p_resp_mode (ar_params r)) "jwt" = false) \/
    (contains_openid (p_scopes (ar_params r)) = true /\ is_empty (p_nonce (ar_params r)) = true) ->
    xrefused (snd (step_g w st n (OpAuthorize r))).
  Proof.
    intros Hp Hu Hd. pose proof (build_profile _ _ _ built) as H1. rewrite Hp in H1. direct.
    right; right; left. destruct Hd as [[A B]|[[A B]|[A B]]].
    - apply vp_fapi1_resp_type; auto.
    - apply vp_fapi1_code_needs_jwt; auto.
    - apply vp_fapi1_nonce; auto.
  Qed.

  Lemma fapi2_enforced r : p = PFapi2 -> p_request_uri (ar_params r) = 0 ->
    seqb (p_resp_type (ar_params r)) "code" = false -> xrefused (snd (step_g w st n (OpAuthorize r))).
  Proof.
    intros Hp Hu Hd. pose proof (build_profile _ _ _ built) as H1. rewrite Hp in H1. direct.
    right; right; left. apply vp_fapi2_code_only; auto.
  Qed.

  (* sender constraining at the token endpoint *)
  Lemma dpop_required_enforced g r : In WithDPoPRequired opts -> g <> GRefreshToken ->
    b_dpop (t_bind r) = None -> xrefused (snd (step_g w st n (OpToken g r))).
  Proof.
    intros Hi Hg Hb. destruct (flags_dpop _ _ _ Hi built) as [H1 H2].
    eapply token_blocked with (f := fun _ => True); auto. intros c _ o.
    apply vb_dpop_required; auto. cbn. rewrite H1. reflexivity.
  Qed.

  Lemma client_dpop_required_enforced g r : cf_dpop_enabled cfg = true -> g <> GRefreshToken ->
    (forall c, registered w st c -> c_id c = cr_id (t_cred r) -> c_dpop_required c = true) ->
    (g = GJwtBearer -> cr_id (t_cred r) <> 0 \/ cf_jwt_bearer_authn_required cfg = true) ->
    b_dpop (t_bind r) = None -> xrefused (snd (step_g w st n (OpToken g r))).
  Proof.
    intros He Hg Hc Hn Hb. eapply token_blocked with (f := fun c => c_dpop_required c = true); auto.
    - intros c Hr o. apply vb_dpop_required; auto. rewrite Hr. apply orb_true_r.
    - intros G Z R. destruct (Hn G) as [X|X]; [contradiction|]. cbn in R. rewrite X in R. discriminate.
  Qed.

  Lemma tls_binding_required_enforced g r : In WithTLSCertTokenBindingRequired opts -> g <> GRefreshToken ->
    b_cert (t_bind r) = 0 -> xrefused (snd (step_g w st n (OpToken g r))).
  Proof.
    intros Hi Hg Hb. destruct (flags_tls _ _ _ Hi built) as [H1 H2].
    eapply token_blocked with (f := fun _ => True); auto. intros c _ o.
    apply vb_tls_required; auto. cbn. rewrite H1. reflexivity.
  Qed.

  Lemma client_tls_required_enforced g r : cf_tls_binding_enabled cfg = true -> g <> GRefreshToken ->
    (forall c, registered w st c -> c_id c = cr_id (t_cred r) -> c_tls_required c = true) ->
    (g = GJwtBearer -> cr_id (t_cred r) <> 0 \/ cf_jwt_bearer_authn_required cfg = true) ->
    b_cert (t_bind r) = 0 -> xrefused (snd (step_g w st n (OpToken g r))).
  Proof.
    intros He Hg Hc Hn Hb. eapply token_blocked with (f := fun c => c_tls_required c = true); auto.
    - intros c Hr o. apply vb_tls_required; auto. rewrite Hr. apply orb_true_r.
    - intros G Z R. destruct (Hn G) as [X|X]; [contradiction|]. cbn in R. rewrite X in R. discriminate.
  Qed.

  Lemma binding_required_enforced g r : In WithTokenBindingRequired opts -> g <> GRefreshToken ->
    b_dpop (t_bind r) = None -> b_cert (t_bind r) = 0 -> xrefused (snd (step_g w st n (OpToken g r))).
  Proof.
    intros Hi Hg Hb Hc. destruct (flags_binding _ _ _ Hi built) as [H1 _].
    eapply token_blocked with (f := fun _ => True); auto. intros c _ o.
    apply vb_some_required; auto.
  Qed.

  (* the implicit flow: an access token from /authorize can only be bound through dpop_jkt *)
  Lemma implicit_binding_enforced r :
    In WithDPoPRequired opts \/ In WithTokenBindingRequired opts ->
    p_request_uri (ar_params r) = 0 -> rt_contains (p_resp_type (ar_params r)) "token" = true ->
    is_nil (p_dpop_jkt (ar_params r)) = true -> xrefused (snd (step_g w st n (OpAuthorize r))).
  Proof.
    intros Hi Hu Ht Hj. direct. right; right; right. unfold implicit_unbound. cbn. rewrite Ht, Hj. cbn.
    rewrite andb_false_r. cbn. rewrite andb_true_r.
    destruct Hi as [Hi|Hi].
    - destruct (flags_dpop _ _ _ Hi built) as [H1 _]. rewrite H1. reflexivity.
    - destruct (flags_binding _ _ _ Hi built) as [H1 _]. rewrite H1. rewrite !orb_true_r. reflexivity.
  Qed.

  (* openid scope at the backchannel endpoint *)
  Lemma openid_required_enforced_ciba r : In WithOpenIDScopeRequired opts ->
    contains_openid (p_scopes (br_params r)) = false -> cf_ciba_jar_enabled cfg = false ->
    xrefused (snd (step_g w st n (OpBcAuthorize r))).
  Proof.
    intros Hi He Hj. pose proof (flags_openid _ _ _ Hi built) as H1.
    rewrite step_g_obs. cbn. rewrite run_seq_bind. cbn.
    unfold init_back_auth_g, init_back_auth. cbn.
    destruct (negb (cf_ciba_enabled cfg)); [reflexivity|].
    rewrite run_seq_bind, run_authenticated. cbn [fst snd].
    unfold ciba_jar_gate. cbn. rewrite Hj. cbn.
    destruct (auth_of w (s_store st) (br_cred r)) as [c|] eqn:E.
    - rewrite run_seq_bind, run_authenticated, E. cbn [fst snd].
      destruct (negb (has_grant GCiba (c_grants c))); [reflexivity|]. rewrite H1, He. reflexivity.
    - rewrite run_seq_bind, run_authenticated, E. reflexivity.
  Qed.
End Switches.
