From Verif Require Import Base Scope.

(* Declarative spec: a requested scope string is allowed for a client iff it is
   empty, or every entry of strings.Split(req," ") is matched by a server scope
   whose id is a whole space-delimited entry of the client's registration. *)
Definition honoured (client_scope_ids : string) (avail : list scope) (r : string) : Prop :=
  exists sc, In sc avail /\ sc_matches sc r = true /\ In (sc_id sc) (split_with_spaces client_scope_ids).

Lemma client_scopes_In cs avail sc :
  In sc (client_scopes cs avail) <-> In sc avail /\ In (sc_id sc) (split_with_spaces cs).
Proof. unfold client_scopes. rewrite filter_In, mem_In. tauto. Qed.

Lemma are_scopes_allowed_iff cs avail req :
  are_scopes_allowed cs avail req = true <->
  (req = "" \/ forall r, In r (split_sp req) -> honoured cs avail r).
Proof.
  unfold are_scopes_allowed. destruct (is_empty req) eqn:E.
  - apply is_empty_spec in E. tauto.
  - assert (req <> "") as Hne by (intro H; apply is_empty_spec in H; congruence).
    rewrite forallb_forall. split.
    + intros H; right; intros r Hr. specialize (H r Hr). apply existsb_exists in H as [sc [H1 H2]].
      apply client_scopes_In in H1 as [Ha Hb]. exists sc; auto.
    + intros [H|H]; [congruence|]. intros r Hr. destruct (H r Hr) as [sc [Ha [Hm Hb]]].
      apply existsb_exists. exists sc; split; auto. apply client_scopes_In; auto.
Qed.

(* The substring reading (the defect D2) is strictly weaker: witness that the two differ,
   i.e. the theorem above is not vacuous about "whole entry". *)
Example whole_entry_not_substring :
  are_scopes_allowed "openid_admin emailx" [ScExact "openid"; ScExact "email"] "openid email" = false
  /\ contains "openid_admin emailx" "openid" = true.
Proof. split; reflexivity. Qed.

Lemma contains_all_scopes_iff available requested :
  contains_all_scopes available requested = true <->
  forall x, In x (split_with_spaces requested) -> In x (split_with_spaces available).
Proof. unfold contains_all_scopes. apply subset_spec. Qed.

Lemma contains_all_scopes_trans a b c :
  contains_all_scopes a b = true -> contains_all_scopes b c = true -> contains_all_scopes a c = true.
Proof. rewrite !contains_all_scopes_iff. auto. Qed.

Lemma contains_all_scopes_refl a : contains_all_scopes a a = true.
Proof. apply contains_all_scopes_iff; auto. Qed.
