(* C14Base.v — storage failures and crashes fail closed.
   Part 1: generic facts about the faulty interpreter, its ghost log and the crash interpreter.
   Part 2: a weakest-precondition reading of handler programs over ALL storage replies (hence
           over all stores and all fault plans): predicates on the trace of (call, reply) pairs.
   Part 3: the handlers. *)
From Verif Require Import Base Scope Types Prog Pop Token Authorize System Config FaultLog DcrFault FaultSpec Hoare Tactics.
Local Open Scope N_scope.
Local Open Scope list_scope.

(* ================================================================================== *)
(* Part 1 *)

Notation ev := (call * reply)%type.
Definition evs (l : list fev) : list ev := map (fun e => (fe_call e, fe_reply e)) l.

Lemma run_fault_log_eq {A} plan (p : prog A) : forall n st,
  run_fault plan n p st =
  (fst (fst (run_fault_log plan n p st)), snd (fst (run_fault_log plan n p st)),
   (n + List.length (snd (run_fault_log plan n p st)))%nat).
Proof.
  induction p as [a|c k IH|o p IH]; intros n st; cbn.
  - f_equal. lia.
  - destruct (exec_fault (plan n) c st) as [st' r]. rewrite IH.
    destruct (run_fault_log plan (S n) (k r) st') as [[st'' a] l]. cbn. f_equal. lia.
  - apply IH.
Qed.

(* each logged event is what exec_fault answered from the store reached so far *)
Inductive esteps : store -> list ev -> store -> Prop :=
  | es_nil st : esteps st [] st
  | es_cons st f c st' r tr st'' :
      exec_fault f c st = (st', r) -> esteps st' tr st'' -> esteps st ((c, r) :: tr) st''.

Lemma run_fault_log_steps {A} plan (p : prog A) : forall n st,
  esteps st (evs (snd (run_fault_log plan n p st))) (fst (fst (run_fault_log plan n p st))).
Proof.
  induction p as [a|c k IH|o p IH]; intros n st; cbn.
  - constructor.
  - destruct (exec_fault (plan n) c st) as [st' r] eqn:E.
    specialize (IH r (S n) st'). destruct (run_fault_log plan (S n) (k r) st') as [[st'' a] l]. cbn in *.
    econstructor; eauto.
  - apply IH.
Qed.

Definition rok (r : reply) : bool := match r with RFail => false | _ => true end.
Definition faulty_ev (e : ev) : bool :=
  match snd e with RFail => true | RNotFound => is_read (fst e) | _ => false end.
Definition has_fault (tr : list ev) : bool := existsb faulty_ev tr.

Lemma exec_fault_effective f c st :
  fault_effective f c = true -> faulty_ev (c, snd (exec_fault f c st)) = true.
Proof.
  destruct f; cbn; try discriminate; auto.
  intros H. rewrite H. cbn. exact H.
Qed.
Lemma exec_never_fails c st : rok (snd (exec c st)) = true.
Proof.
  destruct c; cbn; auto; unfold reply_a, reply_g;
    repeat match goal with |- context [match ?x with _ => _ end] => destruct x end; reflexivity.
Qed.
Lemma exec_fault_rok f c st : rok (snd (exec_fault f c st)) = true -> is_read c = false ->
  exec_fault f c st = exec c st.
Proof.
  destruct f; cbn; auto; try discriminate. intros _ ->. reflexivity.
Qed.

Lemma plan_hit_has_fault {A} plan (p : prog A) : forall n st,
  plan_hit (snd (run_fault_log plan n p st)) = true -> has_fault (evs (snd (run_fault_log plan n p st))) = true.
Proof.
  induction p as [a|c k IH|o p IH]; intros n st; cbn; auto.
  pose proof (exec_fault_effective (plan n) c st) as HE.
  destruct (exec_fault (plan n) c st) as [st' r]. cbn in HE.
  specialize (IH r (S n) st'). destruct (run_fault_log plan (S n) (k r) st') as [[st'' a] l]. cbn in *.
  intros H. apply orb_true_iff in H as [H|H]; apply orb_true_iff; [left; auto|right; auto].
Qed.

(* which calls leave which table alone *)
Definition keeps_a (c : call) : bool := match c with ASave _ | ADel _ => false | _ => true end.
Definition keeps_g (c : call) : bool := match c with GSave _ | GDel _ | GDelByCode _ => false | _ => true end.
Definition keeps_c (c : call) : bool := match c with CSave _ | CDel _ => false | _ => true end.

Lemma exec_keeps_a c st : keeps_a c = true -> st_asess (fst (exec c st)) = st_asess st.
Proof.
  destruct c; cbn; try discriminate; auto;
    repeat match goal with |- context [match ?x with _ => _ end] => destruct x end; reflexivity.
Qed.
Lemma exec_fault_keeps_a f c st : keeps_a c = true -> st_asess (fst (exec_fault f c st)) = st_asess st.
Proof. destruct f; cbn; auto using exec_keeps_a. destruct (is_read c); cbn; auto using exec_keeps_a. Qed.

Lemma esteps_keeps_a st tr st' : esteps st tr st' -> forallb (fun e => keeps_a (fst e)) tr = true ->
  st_asess st' = st_asess st.
Proof.
  induction 1 as [|st f c st' r tr st'' E _ IH]; cbn; auto.
  intros H. apply andb_true_iff in H as [H1 H2]. rewrite IH; auto.
  pose proof (exec_fault_keeps_a f c st H1) as K. rewrite E in K. exact K.
Qed.

(* the grant of the LAST event, if that event is a GSave that did not fail *)
Fixpoint find_gsave (tr : list ev) : option gsession :=
  match tr with
  | [] => None
  | (c, r) :: t =>
      match t with
      | [] => match c with GSave g => if rok r then Some g else None | _ => None end
      | _ => find_gsave t
      end
  end.
(* the session of an ASave that did not fail and is followed only by calls that leave the sessions alone *)
Fixpoint find_asave (tr : list ev) : option asession :=
  match tr with
  | [] => None
  | (c, r) :: t =>
      match c with
      | ASave s => if andb (rok r) (forallb (fun e => keeps_a (fst e)) t) then Some s else find_asave t
      | _ => find_asave t
      end
  end.
(* the client of a CSave that did not fail, last event *)
Fixpoint find_csave (tr : list ev) : option client :=
  match tr with
  | [] => None
  | (c, r) :: t =>
      match t with
      | [] => match c with CSave x => if rok r then Some x else None | _ => None end
      | _ => find_csave t
      end
  end.

Lemma In_put_gsess g l : In g (put_gsess g l).
Proof. left; reflexivity. Qed.

Lemma esteps_find_gsave st tr st' g : esteps st tr st' -> find_gsave tr = Some g -> In g (st_gsess st').
Proof.
  induction 1 as [|st f c st' r tr st'' E H IH]; cbn; [discriminate|].
  destruct tr as [|e tr].
  - destruct c; try discriminate. destruct (rok r) eqn:R; [|discriminate]. intros X; inversion X; subst.
    inversion H; subst.
    assert (E2 : exec_fault f (GSave g) st = exec (GSave g) st) by (apply exec_fault_rok; [rewrite E; exact R|reflexivity]).
    rewrite E2 in E. cbn in E. inversion E; subst. cbn. left; reflexivity.
  - intros X. apply IH. exact X.
Qed.
Lemma esteps_find_asave st tr st' s : esteps st tr st' -> find_asave tr = Some s -> In s (st_asess st').
Proof.
  induction 1 as [|st f c st' r tr st'' E H IH]; cbn; [discriminate|].
  destruct c; auto.
  destruct (rok r && forallb (fun e => keeps_a (fst e)) tr)%bool eqn:R; auto.
  intros X; inversion X; subst. apply andb_true_iff in R as [R1 R2].
  rewrite (esteps_keeps_a _ _ _ H R2).
  assert (E2 : exec_fault f (ASave s) st = exec (ASave s) st) by (apply exec_fault_rok; [rewrite E; exact R1|reflexivity]).
  rewrite E2 in E. cbn in E. inversion E; subst. cbn. left; reflexivity.
Qed.
Lemma esteps_find_csave st tr st' x : esteps st tr st' -> find_csave tr = Some x -> In x (st_clients st').
Proof.
  induction 1 as [|st f c st' r tr st'' E H IH]; cbn; [discriminate|].
  destruct tr as [|e tr].
  - destruct c; try discriminate. destruct (rok r) eqn:R; [|discriminate]. intros X; inversion X; subst.
    inversion H; subst.
    assert (E2 : exec_fault f (CSave x) st = exec (CSave x) st) by (apply exec_fault_rok; [rewrite E; exact R|reflexivity]).
    rewrite E2 in E. cbn in E. inversion E; subst. cbn. left; reflexivity.
  - intros X. apply IH. exact X.
Qed.

(* prefix closure *)
Lemma find_gsave_app tr1 tr2 g : find_gsave tr2 = Some g -> find_gsave (tr1 ++ tr2) = Some g.
Proof.
  intros H. induction tr1 as [|[c r] tr1 IH]; cbn; auto.
  destruct (tr1 ++ tr2) eqn:E; auto.
  destruct tr1; cbn in E; [subst; discriminate|discriminate].
Qed.
Lemma find_csave_app tr1 tr2 g : find_csave tr2 = Some g -> find_csave (tr1 ++ tr2) = Some g.
Proof.
  intros H. induction tr1 as [|[c r] tr1 IH]; cbn; auto.
  destruct (tr1 ++ tr2) eqn:E; auto.
  destruct tr1; cbn in E; [subst; discriminate|discriminate].
Qed.
Lemma find_asave_moves tr s : find_asave tr = Some s -> forallb (fun e => keeps_a (fst e)) tr = false.
Proof.
  induction tr as [|[c r] tr IH]; cbn [find_asave forallb fst]; [discriminate|].
  destruct c; cbn [keeps_a andb]; auto.
Qed.
Lemma find_asave_app tr1 tr2 s : find_asave tr2 = Some s -> find_asave (tr1 ++ tr2) = Some s.
Proof.
  intros H. induction tr1 as [|[c r] tr1 IH]; cbn [find_asave app]; auto.
  destruct c; auto.
  rewrite forallb_app, (find_asave_moves _ _ H), !andb_false_r. exact IH.
Qed.

(* ================================================================================== *)
(* Part 2: programs against every reply the storage may give.  R c r restricts the replies to
   those a store satisfying an invariant can produce (True for most theorems). *)

Section WP.
  Variable R : call -> reply -> Prop.

  Fixpoint wp {A} (p : prog A) (Q : list ev -> A -> Prop) : Prop :=
    match p with
    | Ret a => Q [] a
    | Do c k => forall r, R c r -> wp (k r) (fun tr a => Q ((c, r) :: tr) a)
    | Touch _ p' => wp p' Q
    end.

  Lemma wp_mono {A} (p : prog A) : forall (Q Q' : list ev -> A -> Prop),
    (forall tr a, Q tr a -> Q' tr a) -> wp p Q -> wp p Q'.
  Proof.
    induction p as [a|c k IH|o p IH]; cbn; intros Q Q' HQ H.
    - apply HQ, H.
    - intros r Hr. apply (IH r (fun tr a => Q ((c, r) :: tr) a)); [|apply H, Hr]. intros tr a. apply HQ.
    - apply (IH Q); assumption.
  Qed.
  Lemma wp_bind {A B} (p : prog A) (f : A -> prog B) : forall (Q : list ev -> B -> Prop),
    wp p (fun tr1 a => wp (f a) (fun tr2 b => Q (tr1 ++ tr2) b)) -> wp (bind p f) Q.
  Proof.
    induction p as [a|c k IH|o p IH]; cbn; intros Q H; auto.
  Qed.
  Lemma wp_true {A} (p : prog A) : wp p (fun _ _ => True).
  Proof. induction p; cbn; auto. Qed.

  (* soundness for the faulty interpreter, from any store satisfying an invariant that the
     program's saves maintain and that makes the replies admissible *)
  Variables (QG : gsession -> Prop) (QA : asession -> Prop).
  Hypothesis R_ok : forall st f c, store_ok QG QA st -> R c (snd (exec_fault f c st)).

  Lemma exec_fault_ok f c st :
    match c with GSave g => QG g | ASave s => QA s | _ => True end ->
    store_ok QG QA st -> store_ok QG QA (fst (exec_fault f c st)).
  Proof.
    intros Hc Hst. destruct f; cbn; auto using exec_ok. destruct (is_read c); cbn; auto using exec_ok.
  Qed.

  Lemma wp_sound {A} (p : prog A) : forall (Q : list ev -> A -> Prop), saves_ok QG QA p -> wp p Q ->
    forall plan n st, store_ok QG QA st ->
    Q (evs (snd (run_fault_log plan n p st))) (snd (fst (run_fault_log plan n p st))) /\
    store_ok QG QA (fst (fst (run_fault_log plan n p st))).
  Proof.
    induction p as [a|c k IH|o p IH]; cbn; intros Q S H plan n st Hst; auto.
    - destruct S as [Sc Sk].
      pose proof (R_ok st (plan n) c Hst) as HR. pose proof (exec_fault_ok (plan n) c st Sc Hst) as Hst'.
      destruct (exec_fault (plan n) c st) as [st' r]. cbn in HR, Hst'.
      specialize (IH r (fun tr a => Q ((c, r) :: tr) a) (Sk r) (H r HR) plan (S n) st' Hst').
      destruct (run_fault_log plan (S n) (k r) st') as [[st'' a] l]. cbn in *. exact IH.
  Qed.
End WP.

(* a predicate that only looks at the end of the trace survives any prefix *)
Definition pre_closed {A} (Q : list ev -> A -> Prop) : Prop := forall tr1 tr2 a, Q tr2 a -> Q (tr1 ++ tr2) a.
Lemma wp_bind_closed R {A B} (p : prog A) (f : A -> prog B) (Q : list ev -> B -> Prop) :
  pre_closed Q -> (forall a, wp R (f a) Q) -> wp R (bind p f) Q.
Proof.
  intros C H. apply wp_bind. eapply wp_mono; [|apply wp_true]. cbn. intros tr1 a _.
  eapply wp_mono; [|apply H]. cbn. intros tr2 b. apply C.
Qed.

(* no restriction on the replies: sound from every store *)
Definition anyR (c : call) (r : reply) : Prop := True.
Lemma wp_sound_any {A} (p : prog A) (Q : list ev -> A -> Prop) : wp anyR p Q ->
  forall plan n st, Q (evs (snd (run_fault_log plan n p st))) (snd (fst (run_fault_log plan n p st))).
Proof.
  intros H. induction p as [a|c k IH|o p IH] in Q, H |- *; cbn in *; intros plan n st.
  - exact H.
  - destruct (exec_fault (plan n) c st) as [st' r].
    specialize (IH r (fun tr a => Q ((c, r) :: tr) a) (H r I) plan (S n) st').
    destruct (run_fault_log plan (S n) (k r) st') as [[st'' a] l]. cbn in *. exact IH.
  - apply IH, H.
Qed.

(* the replies of a store whose sessions obey the one-index discipline: a session lookup returns
   a stored session carrying the index value asked for *)
Definition QA1 (s : asession) : Prop := n_indexes s = 1%nat.
Definition QG1 (g : gsession) : Prop := True.
Definition idxR (c : call) (r : reply) : Prop :=
  match c, r with
  | AByCb i, RASess s => QA1 s /\ a_cb s = i
  | AByPar i, RASess s => QA1 s /\ a_par s = i
  | AByCode i, RASess s => QA1 s /\ a_code s = i
  | AByCiba i, RASess s => QA1 s /\ a_ciba s = i
  | _, _ => True
  end.
Lemma idxR_ok st f c : store_ok QG1 QA1 st -> idxR c (snd (exec_fault f c st)).
Proof.
  intros [_ HA].
  assert (K : forall c, idxR c (snd (exec c st))).
  { intros c0. destruct c0; cbn; auto; try (destruct (find_client _ _); exact I);
    try (destruct (find _ (st_gsess st)); cbn; exact I);
    match goal with |- context [find ?f ?l] => destruct (find f l) eqn:E end; cbn; auto;
    apply find_some in E as [E1 E2]; apply N.eqb_eq in E2; split; auto. }
  destruct f; cbn; auto.
  - destruct c; exact I.
  - destruct (is_read c); cbn; auto. destruct c; exact I.
Qed.
