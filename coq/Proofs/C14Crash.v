(* C14Crash.v — a process that stops between two storage calls of a request.
   (a) in the store left by every prefix of every handler, no grant exists whose originating
       authorization code still indexes a session (with the index discipline of Fresh.v, which
       is itself kept by every prefix);
   (b) a crashed prefix produced no response. *)
From Verif Require Import Base Scope Types Prog Pop Token Authorize System Config FaultLog DcrFault FaultSpec Hoare Tactics Fresh FreshHandlers OneShot C14Base C14Fault.
Local Open Scope N_scope.
Local Open Scope list_scope.

(* ================================================================================== *)
(* (b) no response before the last call *)
Lemma prefix_none {A} (p : prog A) : forall k st, (k < count_calls p st)%nat -> snd (run_prefix k p st) = None.
Proof.
  induction p as [a|c kont IH|o p IH]; cbn; intros k st H.
  - lia.
  - destruct k; [reflexivity|]. destruct (exec c st) as [st' r]. apply IH. lia.
  - apply IH, H.
Qed.
Lemma prefix_all {A} (p : prog A) : forall k st, (count_calls p st <= k)%nat -> run_prefix k p st = (fst (run_seq p st), Some (snd (run_seq p st))).
Proof.
  induction p as [a|c kont IH|o p IH]; cbn; intros k st H.
  - reflexivity.
  - destruct (exec c st) as [st' r]. destruct k; [lia|]. apply IH. lia.
  - apply IH, H.
Qed.
Lemma prefix_some {A} (p : prog A) k st a : snd (run_prefix k p st) = Some a ->
  (count_calls p st <= k)%nat /\ run_prefix k p st = (fst (run_seq p st), Some (snd (run_seq p st))).
Proof.
  intros H. destruct (Nat.lt_ge_cases k (count_calls p st)) as [L|L].
  - rewrite (prefix_none p k st L) in H. discriminate.
  - split; auto. apply prefix_all, L.
Qed.

(* the prefix interpreter and its log *)
Lemma run_prefix_log_eq {A} (p : prog A) : forall k st,
  run_prefix k p st = (fst (fst (run_prefix_log k p st)), snd (fst (run_prefix_log k p st))).
Proof.
  induction p as [a|c kont IH|o p IH]; cbn; intros k st; auto.
  destruct k; [reflexivity|]. destruct (exec c st) as [st' r]. rewrite IH.
  destruct (run_prefix_log k (kont r) st') as [[st'' a] l]. reflexivity.
Qed.

(* with a fault-free plan the combined interpreter (used by the correspondence for crash cases) is
   the crash interpreter *)
Lemma run_fault_prefix_none {A} plan (p : prog A) : (forall i, plan i = FNone) -> forall n k st,
  run_fault_prefix_log plan n k p st = run_prefix_log k p st.
Proof.
  intros HP. induction p as [a|c kont IH|o p IH]; cbn; intros n k st; auto.
  destruct k; [reflexivity|]. rewrite HP. cbn. destruct (exec c st) as [st' r]. rewrite IH. reflexivity.
Qed.

(* ================================================================================== *)
(* (a) the store invariant *)

Definition cinv (n : nat) (st : store) : Prop := gcodes_old n st /\ no_code_twice st.

(* what a save must satisfy, in the store it is performed on *)
Definition side (n : nat) (c : call) (st : store) : Prop :=
  match c with
  | ASave s => a_code s = 0 \/ a_code s = mint n KCode \/
               (exists s0, In s0 (st_asess st) /\ a_id s0 = a_id s /\ a_code s0 = a_code s)
  | GSave g => g_code g = 0 \/
               ((exists j, (j < n)%nat /\ g_code g = mint j KCode) /\ forall s, In s (st_asess st) -> a_code s <> g_code g)
  | _ => True
  end.
(* ... along every continuation the storage can force: the call takes effect, or it fails and has
   no effect, or (a read) it reports not-found *)
Fixpoint safe (n : nat) {A} (p : prog A) (st : store) : Prop :=
  match p with
  | Ret _ => True
  | Do c k => side n c st /\ safe n (k (snd (exec c st))) (fst (exec c st)) /\
              safe n (k RFail) st /\ (is_read c = true -> safe n (k RNotFound) st)
  | Touch _ p' => safe n p' st
  end.

Lemma in_put_asess s x l : In x (put_asess s l) -> x = s \/ (In x l /\ a_id x <> a_id s).
Proof.
  unfold put_asess. intros [H|H]; [left; auto|right]. apply filter_In in H as [H1 H2]. split; auto.
  intros E. unfold ideq in H2. rewrite E, N.eqb_refl in H2. discriminate.
Qed.
Lemma in_put_gsess g x l : In x (put_gsess g l) -> x = g \/ In x l.
Proof. unfold put_gsess. intros [H|H]; [left; auto|right]. apply filter_In in H as [H1 _]. exact H1. Qed.

Lemma exec_cinv n c st : side n c st -> cinv n st -> cinv n (fst (exec c st)).
Proof.
  intros S [GO NT].
  assert (SUBG : forall l', (forall g, In g l' -> In g (st_gsess st)) -> cinv n (st <| st_gsess := l' |>)).
  { intros l' Hl. split; cbn; [intros g Hg; apply GO, Hl, Hg|]. intros g s Hg Hs. apply NT; auto. }
  assert (SUBA : forall l', (forall s, In s l' -> In s (st_asess st)) -> cinv n (st <| st_asess := l' |>)).
  { intros l' Hl. split; cbn; [exact GO|]. intros g s Hg Hs. apply NT; auto. }
  destruct c; cbn in *;
    try (repeat match goal with |- context [match ?x with _ => _ end] => destruct x eqn:? end; cbn; split; assumption).
  - (* ASave *) split; [exact GO|]. cbn. intros g x Hg Hx E. apply in_put_asess in Hx as [->|[Hx _]]; [|apply (NT g x); auto].
    destruct S as [Z|[Nw|[s0 [H0 [_ E0]]]]]; auto.
    + exfalso. destruct (GO g Hg) as [Z|[j [Hj Ej]]].
      * rewrite Z in E. rewrite Nw in E. symmetry in E. eapply mint_nonzero; eauto.
      * rewrite Ej, Nw in E. apply mint_inj in E. lia.
    + rewrite <- E0. apply (NT g s0); auto. congruence.
  - (* ADel *) apply SUBA. intros x Hx. unfold del_asess in Hx. apply filter_In in Hx. tauto.
  - (* GSave *) split; cbn.
    + intros x Hx. apply in_put_gsess in Hx as [->|Hx]; [|apply GO, Hx].
      destruct S as [Z|[O _]]; auto.
    + intros x s Hx Hs E. apply in_put_gsess in Hx as [->|Hx]; [|apply (NT x s); auto].
      destruct S as [Z|[_ D]]; [congruence|]. exfalso. apply (D s Hs). congruence.
  - (* GDel *) apply SUBG. intros x Hx. unfold del_gsess in Hx. apply filter_In in Hx. tauto.
  - (* GDelByCode *) destruct (find _ _); [|split; assumption]. apply SUBG. intros x Hx. unfold del_gsess in Hx. apply filter_In in Hx. tauto.
Qed.

Lemma fault_prefix_cinv {A} n plan (p : prog A) : forall i k st, safe n p st -> cinv n st ->
  cinv n (fst (fst (run_fault_prefix_log plan i k p st))).
Proof.
  induction p as [a|c kont IH|o p IH]; cbn; intros i k st S C; auto.
  destruct k; [exact C|]. destruct S as (Sc & Sk & Sf & Sm). pose proof (exec_cinv n c st Sc C) as C'.
  assert (K : forall st' r, safe n (kont r) st' -> cinv n st' ->
              cinv n (fst (fst (let '(st'', a, l) := run_fault_prefix_log plan (S i) k (kont r) st' in (st'', a, call_kind c :: l))))).
  { intros st' r S' C0. specialize (IH r (S i) k st' S' C0).
    destruct (run_fault_prefix_log plan (S i) k (kont r) st') as [[st'' a] l]. exact IH. }
  destruct (plan i); cbn.
  - destruct (exec c st) as [st' r]. cbn in *. apply K; auto.
  - apply K; auto.
  - destruct (is_read c) eqn:R; cbn.
    + apply K; auto.
    + destruct (exec c st) as [st' r]. cbn in *. apply K; auto.
Qed.
Lemma prefix_cinv {A} n (p : prog A) k st : safe n p st -> cinv n st -> cinv n (fst (run_prefix k p st)).
Proof.
  intros S C. pose proof (fault_prefix_cinv n (fun _ => FNone) p 0%nat k st S C) as H.
  rewrite run_fault_prefix_none in H by reflexivity. rewrite run_prefix_log_eq. exact H.
Qed.
Lemma cinv_mono n st : cinv n st -> cinv (S n) st.
Proof. intros [G N]. split; auto. intros g Hg. destruct (G g Hg) as [Z|[j [Hj E]]]; [left; auto|right; exists j; split; [lia|auto]]. Qed.

(* the index discipline of Fresh.v is kept by every prefix as well *)
Lemma run_prefix_rinv {A} n st0 (p : prog A) : forall j k st,
  disciplined n k p -> rinv n st0 k st -> exists k', rinv n st0 k' (fst (run_prefix j p st)).
Proof.
  induction p as [a|c kont IH|o p IH]; cbn; intros j k st D R.
  - exists k; auto.
  - destruct j; [exists k; auto|]. destruct D as [G D]. pose proof (exec_rinv n st0 k c st G R) as R'.
    destruct (exec c st) as [st' r]. cbn in R'. eapply IH; eauto.
  - eauto.
Qed.
Lemma prefix_fresh {A} n (p : prog A) j st :
  disciplined n seen0 p -> fresh n st -> fresh (S n) (fst (run_prefix j p st)).
Proof.
  intros D F. destruct (run_prefix_rinv n st p j seen0 st D (fresh_rinv0 _ _ F)) as [k' R].
  eapply rinv_fresh; eauto.
Qed.

(* ... and by every prefix of every faulty run: a call that fails leaves the store alone and only
   adds to what the request has seen *)
Lemma iinv_more_wa {X F : Type} (xid : X -> id) (get : F -> X -> id) old now_ n l0 sa wa l i :
  iinv X F xid get old now_ n l0 sa wa l -> iinv X F xid get old now_ n l0 sa (i :: wa) l.
Proof.
  intros [P1 P2 A B C D E G H]. constructor; auto.
  - intros x f Hx Hn. right. eauto.
  - intros x f Hx Hn. right. eauto.
Qed.
Lemma fail_rinv n st0 k c r st : (r = RFail \/ (is_read c = true /\ r = RNotFound)) ->
  rinv n st0 k st -> rinv n st0 (see c r k) st.
Proof.
  intros Hr [IA IG]. destruct Hr as [->|[Rc ->]].
  - destruct c; cbn; try (split; assumption); split; auto; apply iinv_more_wa; auto.
  - destruct c; cbn in *; try discriminate; split; assumption.
Qed.
Lemma run_fault_prefix_rinv {A} n st0 plan (p : prog A) : forall i j k st,
  disciplined n k p -> rinv n st0 k st -> exists k', rinv n st0 k' (fst (fst (run_fault_prefix_log plan i j p st))).
Proof.
  induction p as [a|c kont IH|o p IH]; cbn; intros i j k st D R.
  - exists k; auto.
  - destruct j; [exists k; auto|]. destruct D as [G D].
    assert (K : forall st' r, rinv n st0 (see c r k) st' ->
              exists k', rinv n st0 k' (fst (fst (let '(st'', a, l) := run_fault_prefix_log plan (S i) j (kont r) st' in (st'', a, call_kind c :: l))))).
    { intros st' r R'. destruct (IH r (S i) j (see c r k) st' (D r) R') as [k' Hk'].
      exists k'. destruct (run_fault_prefix_log plan (S i) j (kont r) st') as [[st'' a] l]. exact Hk'. }
    pose proof (exec_rinv n st0 k c st G R) as R'.
    destruct (plan i); cbn.
    + destruct (exec c st) as [st' r]. cbn in R'. apply K, R'.
    + apply K. apply fail_rinv; auto.
    + destruct (is_read c) eqn:Rc; cbn.
      * apply K. apply fail_rinv; auto.
      * destruct (exec c st) as [st' r]. cbn in R'. apply K, R'.
  - eauto.
Qed.
Lemma fault_prefix_fresh {A} n plan (p : prog A) j st :
  disciplined n seen0 p -> fresh n st -> fresh (S n) (fst (fst (run_fault_prefix_log plan 0 j p st))).
Proof.
  intros D F. destruct (run_fault_prefix_rinv n st plan p 0%nat j seen0 st D (fresh_rinv0 _ _ F)) as [k' R].
  eapply rinv_fresh; eauto.
Qed.

(* composition *)
Lemma safe_bind_any {A B} n (p : prog A) (f : A -> prog B) : forall st,
  safe n p st -> (forall a st', safe n (f a) st') -> safe n (bind p f) st.
Proof.
  induction p as [a|c k IH|o p IH]; cbn; intros st Hp Hf; auto.
  destruct Hp as (Hc & Hk & Hfail & Hm). repeat split; auto.
Qed.
Lemma safe_bind_ro {A B} n (p : prog A) (f : A -> prog B) : readonly p -> forall st,
  (forall a, safe n (f a) st) -> safe n (bind p f) st.
Proof.
  induction p as [a|c k IH|o p IH]; cbn; intros Hr st Hf; auto.
  destruct Hr as [Rc Hr]. pose proof (exec_read c st Rc) as E.
  repeat split; auto.
  - destruct c; cbn in *; try discriminate; exact I.
  - rewrite E. apply IH; auto.
Qed.
Lemma nosave_safe {A} n (p : prog A) : nosave p -> forall st, safe n p st.
Proof.
  induction p as [a|c k IH|o p IH]; cbn; intros NS st; auto.
  destruct NS as [Rc NS]. repeat split; auto. destruct c; cbn in *; tauto.
Qed.

(* ================================================================================== *)
(* every handler's saves are safe *)
Local Opaque contains_all_scopes are_scopes_allowed validate_binding validate_pkce refresh_binding
       validate_params validate_optionals validate_in_out merge_params validate_jwt validate_pop
       validate_binding_dpop validate_binding_tls set_pop_jkt set_pop_x5t hg_result
       contains_openid nav_mode rt_contains make_token classify has_grant mint with_refresh
       client_for_par should_use_par.

Ltac sbreak :=
  match goal with
  | |- context [safe _ ?p _] =>
      match p with
      | context [if ?b then _ else _] => c14_innermost b
      | context [match ?x with _ => _ end] => c14_innermost x
      end
  end.
Ltac sgo :=
  repeat (cbn; unfold reply_a, reply_g;
          first [ match goal with
                  | |- false = true -> _ => let X := fresh in intros X; discriminate X
                  | |- true = true -> _ => intros _
                  end
                | sbreak | split ]).

Lemma safe_authenticated {B} n w cr (f : option client -> prog B) st :
  (forall oc, safe n (f oc) st) -> safe n (bind (authenticated w cr) f) st.
Proof.
  intros H. apply safe_bind_ro; [apply authenticated_readonly|exact H].
Qed.
Lemma safe_get_client {B} n w i (f : option client -> prog B) st :
  (forall oc, safe n (f oc) st) -> safe n (bind (get_client w i) f) st.
Proof.
  intros H. apply safe_bind_ro; [apply get_client_readonly|exact H].
Qed.

Lemma g_code_with_refresh n now cfg c g : g_code (with_refresh n now cfg c g) = g_code g.
Proof. Local Transparent with_refresh. unfold with_refresh. destruct (should_issue_refresh _ _ _ _); reflexivity. Qed.
Local Opaque with_refresh.

Lemma code_side n st s : fresh n st -> In s (st_asess st) -> is_nil (a_code s) = false ->
  (exists j, (j < n)%nat /\ a_code s = mint j KCode) /\
  forall s', In s' (del_asess (a_id s) (st_asess st)) -> a_code s' <> a_code s.
Proof.
  intros [[FO FU] _] Hs NZ. apply N.eqb_neq in NZ. split.
  - destruct (FO s FCode Hs) as [Z|O]; [cbn in Z; congruence|]. exact O.
  - intros s' Hs' E. unfold del_asess in Hs'. apply filter_In in Hs' as [H1 H2].
    assert (a_id s' = a_id s) by (apply (FU s' s FCode); cbn; auto; congruence).
    unfold ideq in H2. rewrite H, N.eqb_refl in H2. discriminate.
Qed.

Lemma code_grant_safe w n now r st : fresh n st -> cinv n st -> safe n (code_grant w n now r) st.
Proof.
  intros F C. unfold code_grant. do 2 (sbreak; [exact I|]). apply safe_authenticated. intros oc.
  sgo; repeat split; auto.
  all: right; rewrite g_code_with_refresh; cbn.
  all: match goal with H : find _ _ = Some ?s |- _ => apply find_some in H as [H1 H2]; apply N.eqb_eq in H2 end.
  all: apply code_side; auto; congruence.
Qed.

(* a grant the storage returned may be written back with its code *)
Lemma regrant_side n st g : cinv n st -> In g (st_gsess st) ->
  g_code g = 0 \/ ((exists j, (j < n)%nat /\ g_code g = mint j KCode) /\ forall s, In s (st_asess st) -> a_code s <> g_code g).
Proof.
  intros [GO NT] Hg. destruct (N.eq_dec (g_code g) 0) as [Z|NZ]; [left; exact Z|right]. split.
  - destruct (GO g Hg) as [Z|O]; [congruence|exact O].
  - intros s Hs E. apply NZ. rewrite <- E. apply (NT g s); auto.
Qed.

Lemma refresh_grant_safe w n now r st : fresh n st -> cinv n st -> safe n (refresh_grant w n now r) st.
Proof.
  intros F C. unfold refresh_grant. do 2 (sbreak; [exact I|]). apply safe_authenticated. intros oc.
  sgo; repeat split; auto.
  all: match goal with H : find _ _ = Some ?g |- _ => apply find_some in H as [H1 H2] end.
  all: apply regrant_side; auto.
Qed.
Local Transparent new_grant.
Lemma cc_grant_safe w n now r st : safe n (cc_grant w n now r) st.
Proof.
  unfold cc_grant. sbreak; [exact I|]. apply safe_authenticated. intros oc.
  sgo; repeat split; auto.
Qed.
Lemma jwt_bearer_grant_safe w n now r st : safe n (jwt_bearer_grant w n now r) st.
Proof.
  unfold jwt_bearer_grant. sbreak; [exact I|].
  apply safe_bind_ro; [apply jwt_bearer_client_readonly|]. intros oc.
  sgo; repeat split; auto; left; rewrite g_code_with_refresh; reflexivity.
Qed.
Lemma ciba_grant_safe w n now r st : safe n (ciba_grant w n now r) st.
Proof.
  unfold ciba_grant. sbreak; [exact I|]. apply safe_authenticated. intros oc.
  sgo; repeat split; auto; left; rewrite g_code_with_refresh; reflexivity.
Qed.
Lemma notify_success_safe w n now a hg st : safe n (notify_success w n now a hg) st.
Proof.
  unfold notify_success, get_client.
  sgo; repeat split; auto; left; rewrite g_code_with_refresh; reflexivity.
Qed.
Lemma push_auth_safe w n now r st : safe n (push_auth w n now r) st.
Proof.
  unfold push_auth. sbreak; [exact I|]. apply safe_authenticated. intros oc.
  unfold save_a. sgo; repeat split; auto.
Qed.
Lemma init_back_auth_safe w n now r st : safe n (init_back_auth w n now r) st.
Proof.
  unfold init_back_auth. sbreak; [exact I|]. apply safe_authenticated. intros oc.
  unfold save_a. sgo; repeat split; auto.
Qed.

(* the session handed to authenticate carries no code, or is a stored session *)
Definition sess_ok (st : store) (s : asession) : Prop :=
  a_code s = 0 \/ exists s0, In s0 (st_asess st) /\ a_id s0 = a_id s /\ a_code s0 = a_code s.
Lemma authenticate_safe w n now s pol st : sess_ok st s -> safe n (authenticate w n now s pol) st.
Proof.
  intros HS. destruct pol as [sub granted res det| | |e]; unfold authenticate.
  - (* success: the session with the embedder's decisions recorded is named once, instead of being
       copied into every branch (the kernel re-checks every copy at Qed) *)
    set (s1 := s <| a_subject := sub |> <| a_granted := granted |> <| a_granted_res := res |> <| a_granted_details := det |>).
    assert (HS1 : sess_ok st s1).
    { destruct HS as [Z|[s0 (H0 & H1 & H2)]]; [left; exact Z|right; exists s0; repeat split; assumption]. }
    clearbody s1. clear HS. unfold get_client, save_a.
    sgo; repeat split; auto.
    all: try (destruct HS1 as [Z|HS1]; [left; exact Z|right; right; exact HS1]).
  - unfold get_client, save_a. sgo; repeat split; auto.
    all: try (destruct HS as [Z|HS]; [left; exact Z|right; right; exact HS]).
  - unfold get_client, save_a. sgo; repeat split; auto.
    all: try (destruct HS as [Z|HS]; [left; exact Z|right; right; exact HS]).
  - unfold get_client, save_a. sgo; repeat split; auto.
    all: try (destruct HS as [Z|HS]; [left; exact Z|right; right; exact HS]).
Qed.

Lemma start_session_safe w n now c s r st : sess_ok st s -> safe n (start_session w n now c s r) st.
Proof.
  intros HS. unfold start_session. sbreak; [exact I|]. sbreak; [exact I|]. cbn.
  apply authenticate_safe. destruct HS as [Z|[s0 (H0 & H1 & H2)]]; [left; exact Z|right; exists s0; auto].
Qed.

Lemma safe_lookup {A} n c (k : reply -> prog A) st : is_read c = true ->
  safe n (k (snd (exec c st))) st -> safe n (k RFail) st -> safe n (k RNotFound) st -> safe n (Do c k) st.
Proof.
  intros Rc H1 H2 H3. cbn. rewrite (exec_read c st Rc). repeat split; auto.
  destruct c; cbn in *; try discriminate; exact I.
Qed.

Local Opaque start_session render_aerr finish_ares.
Lemma init_auth_safe w n now r st : safe n (init_auth w n now r) st.
Proof.
  unfold init_auth. sbreak; [exact I|]. apply safe_get_client. intros oc.
  destruct oc as [c|]; [|exact I].
  sbreak; [exact I|]. sbreak.
  - sbreak; [exact I|]. apply safe_lookup; [reflexivity| |exact I|exact I].
    cbn. unfold reply_a. destruct (find _ (st_asess st)) as [s|] eqn:EF; [|exact I].
    apply find_some in EF as [EF _].
    match goal with |- safe _ (match ?v with Some _ => _ | None => _ end) _ => destruct v end.
    + sgo; exact I.
    + apply safe_bind_any; [|intros; exact I]. apply start_session_safe. right. exists s. destruct (is_fapi _); auto.
  - match goal with |- safe _ (match ?v with Some _ => _ | None => _ end) _ => destruct v end; [exact I|].
    apply safe_bind_any; [|intros; exact I]. apply start_session_safe. left. reflexivity.
Qed.
Local Transparent start_session render_aerr finish_ares.

Lemma continue_auth_safe w n now r st : safe n (continue_auth w n now r) st.
Proof.
  unfold continue_auth. sbreak; [exact I|]. apply safe_lookup; [reflexivity| |exact I|exact I].
  cbn. unfold reply_a. destruct (find _ (st_asess st)) as [s|] eqn:EF; [|exact I].
  apply find_some in EF as [EF _]. sbreak; [exact I|].
  apply safe_bind_any; [apply authenticate_safe; right; exists s; auto|].
  intros a st'. destruct a as [o|e]; [exact I|].
  apply safe_get_client. intros oc. destruct oc; sgo; exact I.
Qed.

Lemma notify_failure_safe w n a st : safe n (notify_failure w a) st.
Proof. unfold notify_failure, get_client. sgo; repeat split; auto. Qed.

Theorem handler_safe w n now o st : fresh n st -> cinv n st -> safe n (handler w n now o) st.
Proof.
  intros F C.
  assert (L : forall p : prog out, safe n p st -> safe n (bind p (fun x => Ret (Out x))) st).
  { intros p H. apply safe_bind_any; [exact H|intros; exact I]. }
  destruct o; try destruct g; cbv beta iota zeta delta [handler];
    try match goal with
        | |- safe _ (bind (notify_success _ _ _ _ _) _) _ => idtac
        | |- safe _ (bind (notify_failure _ _) _) _ => idtac
        | |- safe _ (bind _ _) _ => apply L
        end; try exact I.
  - apply init_auth_safe.
  - apply continue_auth_safe.
  - apply push_auth_safe.
  - apply cc_grant_safe. - apply code_grant_safe; auto. - apply refresh_grant_safe; auto.
  - apply jwt_bearer_grant_safe.
  - apply ciba_grant_safe.
  - apply nosave_safe, introspect_nosave.
  - apply nosave_safe, revoke_nosave.
  - apply nosave_safe, userinfo_nosave.
  - apply nosave_safe, token_info_nosave.
  - apply nosave_safe, token_info_req_nosave.
  - apply init_back_auth_safe.
  - apply safe_bind_any; [apply notify_success_safe|intros; exact I].
  - apply safe_bind_any; [apply notify_failure_safe|intros; exact I].
Qed.

(* ---- the invariant of a whole history with crashes ---- *)
Definition crash_inv (n : nat) (st : store) : Prop := fresh n st /\ cinv n st.
Theorem prefix_crash_inv w n now o k st :
  crash_inv n st -> crash_inv (S n) (fst (run_prefix k (handler w n now o) st)).
Proof.
  intros [F C]. split.
  - apply prefix_fresh; auto. apply handler_disciplined.
  - apply cinv_mono. apply prefix_cinv; auto. apply handler_safe; auto.
Qed.

Lemma step_is_prefix w st n o : (forall d, o <> OpTick d) ->
  fst (step w st n o) = mkState (fst (run_prefix (count_calls (handler w n (s_now st) o) (s_store st))
                                          (handler w n (s_now st) o) (s_store st))) (s_now st).
Proof.
  intros NT. rewrite step_handler by exact NT. cbn. rewrite prefix_all by lia. reflexivity.
Qed.
Lemma crash_step_inv w st n oc : crash_inv n (s_store st) -> crash_inv (S n) (s_store (crash_step w st n oc)).
Proof.
  intros H. destruct oc as [o [k|]].
  - destruct o; try (exact (prefix_crash_inv w n (s_now st) _ k (s_store st) H)).
    cbn. destruct H as [[FA FG] C]. split; [split|apply cinv_mono, C].
    + constructor; [intros x f Hx; destruct (if_old _ _ _ _ _ _ _ FA x f Hx) as [Z|O]; [left; auto|right; eapply aold_mono; [|eauto]; lia]
                   |apply (if_uniq _ _ _ _ _ _ _ FA)].
    + constructor; [intros x f Hx; destruct (if_old _ _ _ _ _ _ _ FG x f Hx) as [Z|O]; [left; auto|right; eapply gold_mono; [|eauto]; lia]
                   |apply (if_uniq _ _ _ _ _ _ _ FG)].
  - destruct o; try (unfold crash_step; rewrite step_is_prefix by (intros d; discriminate);
                     exact (prefix_crash_inv w n (s_now st) _ _ (s_store st) H)).
    cbn. destruct H as [[FA FG] C]. split; [split|apply cinv_mono, C].
    + constructor; [intros x f Hx; destruct (if_old _ _ _ _ _ _ _ FA x f Hx) as [Z|O]; [left; auto|right; eapply aold_mono; [|eauto]; lia]
                   |apply (if_uniq _ _ _ _ _ _ _ FA)].
    + constructor; [intros x f Hx; destruct (if_old _ _ _ _ _ _ _ FG x f Hx) as [Z|O]; [left; auto|right; eapply gold_mono; [|eauto]; lia]
                   |apply (if_uniq _ _ _ _ _ _ _ FG)].
Qed.
Lemma run_crashy_inv w : forall ops st n, crash_inv n (s_store st) ->
  crash_inv (n + List.length ops) (s_store (run_crashy w st n ops)).
Proof.
  induction ops as [|oc ops IH]; cbn; intros st n H.
  - rewrite Nat.add_0_r. exact H.
  - replace (n + S (List.length ops))%nat with (S n + List.length ops)%nat by lia.
    apply IH. apply crash_step_inv, H.
Qed.
Lemma crash_inv_init dyn : crash_inv 0 (s_store (init_state dyn)).
Proof.
  split; [apply fresh_init|]. split; cbn; [intros g []|intros g s []].
Qed.
Theorem crash_all_histories w dyn ops :
  crash_inv (List.length ops) (s_store (run_crashy w (init_state dyn) 0 ops)).
Proof. apply (run_crashy_inv w ops (init_state dyn) 0%nat), crash_inv_init. Qed.

(* ---- the same over histories with faults AND crashes ---- *)
Lemma run_fault_as_prefix {A} plan (p : prog A) : forall n st,
  fst (fst (run_fault_prefix_log plan n (List.length (snd (run_fault_log plan n p st))) p st)) =
  fst (fst (run_fault_log plan n p st)).
Proof.
  induction p as [a|c k IH|o p IH]; cbn; intros n st; auto.
  destruct (exec_fault (plan n) c st) as [st' r] eqn:E. specialize (IH r (S n) st').
  destruct (run_fault_log plan (S n) (k r) st') as [[st'' a] l]. cbn in *. rewrite ?E.
  destruct (run_fault_prefix_log plan (S n) (List.length l) (k r) st') as [[s2 a2] l2]. cbn in *. exact IH.
Qed.
Theorem fault_prefix_crash_inv w n now o plan k st :
  crash_inv n st -> crash_inv (S n) (fst (fst (run_fault_prefix_log plan 0 k (handler w n now o) st))).
Proof.
  intros [F C]. split.
  - apply fault_prefix_fresh; auto. apply handler_disciplined.
  - apply cinv_mono. apply fault_prefix_cinv; auto. apply handler_safe; auto.
Qed.
Theorem fault_crash_inv w n now o plan st :
  crash_inv n st -> crash_inv (S n) (fst (fst (run_fault plan 0 (handler w n now o) st))).
Proof.
  intros H. rewrite run_fault_log_eq. cbn [fst]. rewrite <- run_fault_as_prefix. apply fault_prefix_crash_inv, H.
Qed.
Lemma crash_inv_tick n st : crash_inv n st -> crash_inv (S n) st.
Proof.
  intros [[FA FG] C]. split; [split|apply cinv_mono, C].
  - constructor; [intros x f Hx; destruct (if_old _ _ _ _ _ _ _ FA x f Hx) as [Z|O]; [left; auto|right; eapply aold_mono; [|eauto]; lia]
                 |apply (if_uniq _ _ _ _ _ _ _ FA)].
  - constructor; [intros x f Hx; destruct (if_old _ _ _ _ _ _ _ FG x f Hx) as [Z|O]; [left; auto|right; eapply gold_mono; [|eauto]; lia]
                 |apply (if_uniq _ _ _ _ _ _ _ FG)].
Qed.
Lemma faulty_step_inv w st n x : crash_inv n (s_store st) -> crash_inv (S n) (s_store (faulty_step w st n x)).
Proof.
  intros H. destruct x as [[o plan] [k|]].
  - destruct o; try (exact (fault_prefix_crash_inv w n (s_now st) _ (plan_of plan) k (s_store st) H)).
    apply crash_inv_tick, H.
  - destruct o; try (exact (fault_crash_inv w n (s_now st) _ (plan_of plan) (s_store st) H)).
    apply crash_inv_tick, H.
Qed.
Lemma run_faulty_inv w : forall ops st n, crash_inv n (s_store st) ->
  crash_inv (n + List.length ops) (s_store (run_faulty w st n ops)).
Proof.
  induction ops as [|x ops IH]; cbn; intros st n H.
  - rewrite Nat.add_0_r. exact H.
  - replace (n + S (List.length ops))%nat with (S n + List.length ops)%nat by lia.
    apply IH. apply faulty_step_inv, H.
Qed.
Theorem faulty_all_histories w dyn ops :
  crash_inv (List.length ops) (s_store (run_faulty w (init_state dyn) 0 ops)).
Proof. apply (run_faulty_inv w ops (init_state dyn) 0%nat), crash_inv_init. Qed.
