(* C09 — no response discloses private keys, secret hashes or another party's secrets:
   the parts proved on the model. *)
From Verif Require Import Base Scope Types Prog Pop Token Authorize System Config Artifacts Disclosure Hoare Tactics.
Local Open Scope N_scope.

(* ---- PublicJWKS strips the private parts, for every key type ---- *)
Lemma jwk_public_no_private k : k_priv (jwk_public k) = false.
Proof. unfold jwk_public. destruct (k_kty k); reflexivity. Qed.
Lemma jwk_public_oct_erased k : k_kty k = KtyOct -> k_pair (jwk_public k) = 0 /\ k_kid (jwk_public k) = "".
Proof. intros H. unfold jwk_public. rewrite H. auto. Qed.
Lemma jwk_public_same_pair k : k_kty k <> KtyOct ->
  k_pair (jwk_public k) = k_pair k /\ k_kid (jwk_public k) = k_kid k /\ k_alg (jwk_public k) = k_alg k /\ k_use (jwk_public k) = k_use k.
Proof. intros H. unfold jwk_public. destruct (k_kty k); try congruence; cbn; auto. Qed.

Lemma public_jwks_public_only cfg k :
  In k (public_jwks cfg) -> k_priv k = false /\ (k_kty k = KtyOct -> k_pair k = 0).
Proof.
  unfold public_jwks. intros H. apply in_map_iff in H as [k0 [E _]]. subst k. split; [apply jwk_public_no_private|].
  unfold jwk_public. destruct (k_kty k0) eqn:T; cbn; intros H; try rewrite T in H; try discriminate; reflexivity.
Qed.

(* ---- DCR responses and errors ---- *)
Definition minted_now (n : nat) (a : satom) : Prop := a = SPlain (mint n KSecret) \/ a = SPlain (mint n KRegToken).

Lemma set_secret_result n c : let '(s, _) := set_secret n c in s = 0 \/ s = mint n KSecret.
Proof.
  unfold set_secret. destruct (dc_hashed_methods c); destruct (dc_jwt_method c); cbn; auto.
  all: try (destruct (is_nil (mint n KSecret)); cbn; auto).
Qed.
Lemma set_regtoken_result n rot c : let '(t, _) := set_registration_token n rot c in t = 0 \/ t = mint n KRegToken.
Proof. unfold set_registration_token. destruct (_ && _)%bool; cbn; auto. Qed.

Lemma dcr_no_secret o n rot ok c c' b :
  dcr_handle o n rot ok c = (c', b) ->
  forall a, In a (body_atoms b) -> minted_now n a /\ (o = DCreate \/ o = DUpdate).
Proof.
  intros H a Ha.
  assert (G : forall c' r, modify_and_save n rot ok c = (c', Some r) -> In a (dresp_atoms r) -> minted_now n a).
  { clear. intros c' r H Ha. unfold modify_and_save in H.
    pose proof (set_regtoken_result n rot (set_id n c)) as T.
    destruct (set_registration_token n rot (set_id n c)) as [tok c2].
    pose proof (set_secret_result n c2) as S.
    destruct (set_secret n c2) as [sec c3]. destruct ok; inversion H; subst; clear H.
    unfold dresp_atoms in Ha. cbn in Ha. apply in_app_or in Ha as [Ha|Ha].
    - destruct (is_nil sec) eqn:E; [destruct Ha|]. destruct Ha as [<-|[]]. left.
      destruct S as [S|S]; subst; [discriminate|reflexivity].
    - destruct (is_nil tok) eqn:E; [destruct Ha|]. destruct Ha as [<-|[]]. right.
      destruct T as [T|T]; subst; [discriminate|reflexivity]. }
  destruct o; cbn in H.
  - destruct (modify_and_save n rot ok c) as [c1 [r|]] eqn:M; inversion H; subst; cbn in Ha; [|destruct Ha]. split; eauto.
  - destruct (modify_and_save n rot ok c) as [c1 [r|]] eqn:M; inversion H; subst; cbn in Ha; [|destruct Ha]. split; eauto.
  - inversion H; subst. cbn in Ha. destruct Ha.
  - inversion H; subst. destruct ok; cbn in Ha; destruct Ha.
Qed.

Lemma update_without_rotation_no_token n ok c c' r :
  is_nil (dc_hreg c) = false -> modify_and_save n false ok c = (c', Some r) -> dr_regtoken r = 0.
Proof.
  intros Hh H. unfold modify_and_save, set_registration_token in H.
  assert (E : dc_hreg (set_id n c) = dc_hreg c) by (unfold set_id; destruct (is_nil (dc_id c)); reflexivity).
  rewrite E, Hh in H. cbn in H. destruct (set_secret n (set_id n c)) as [sec c3]. destruct ok; inversion H; reflexivity.
Qed.

(* the stored hashes are those of the values just handed out: what is stored never equals what is shown *)
Lemma error_bodies_carry_nothing e : body_atoms (BError e) = [].
Proof. reflexivity. Qed.

(* ---- pairwise clients never get a JWT access token (except client_credentials) ---- *)
Lemma kind_of_mint n k : kind_of (mint n k) = kind_ix k.
Proof.
  unfold kind_of, mint. assert (kind_ix k < 32) by (destruct k; cbn; lia).
  rewrite N.add_comm. rewrite N.mod_add; [|discriminate]. apply N.mod_small; auto.
Qed.
Lemma is_kind_mint_other n k k' : kind_ix k <> kind_ix k' -> is_kind k (mint n k') = false.
Proof.
  intros H. unfold is_kind. rewrite kind_of_mint. destruct (N.eqb (kind_ix k') (kind_ix k)) eqn:E; auto.
  apply N.eqb_eq in E. congruence.
Qed.

Lemma make_token_pairwise n c gt :
  c_pairwise c = true -> gt <> GClientCredentials ->
  token_is_jwt c gt = false /\ is_kind KAtJwt (fst (make_token n c gt)) = false.
Proof.
  intros P G. assert (T : token_is_jwt c gt = false).
  { unfold token_is_jwt. rewrite P. destruct (gt_eqb gt GClientCredentials) eqn:E.
    - apply gt_eqb_eq in E. contradiction.
    - cbn. apply andb_false_r. }
  split; auto. unfold make_token. rewrite T. cbn. apply is_kind_mint_other. cbn. lia.
Qed.

Lemma make_token_jwt_not_pairwise n c gt :
  is_kind KAtJwt (fst (make_token n c gt)) = true -> c_pairwise c = false \/ gt = GClientCredentials.
Proof.
  intros H. destruct (c_pairwise c) eqn:P; auto. right.
  destruct gt; auto;
    (exfalso; match type of H with is_kind KAtJwt (fst (make_token n c ?g)) = true =>
       assert (X : is_kind KAtJwt (fst (make_token n c g)) = false) by
         (apply make_token_pairwise; [exact P | discriminate]) end; rewrite X in H; discriminate).
Qed.

(* the model's switch agrees with the artifact model's shouldSwitchToOpaque *)
Lemma token_is_jwt_agrees acf cfg c gt :
  ac_pairwise_fn acf = true ->
  token_is_jwt c gt = to_jwt (token_options acf gt (aclient_of c) (harness_tokopts cfg c)).
Proof.
  intros _. unfold token_is_jwt, token_options, should_switch_to_opaque, harness_tokopts, aclient_of, should_generate_pairwise. cbn.
  destruct (c_jwt_tokens c), (c_pairwise c), (gt_eqb gt GClientCredentials); reflexivity.
Qed.
